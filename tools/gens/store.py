"""Seeded generator of store histories for C14 (numbered reactants as a keyed store).

A history = list of RunString calls; a call = list of simulations; a simulation = list of blocks (dicts).
`render_sim` gives the PHREEQC input text, `model_lines` the same history for `pmodel store`.
All randomness comes from the rng passed in."""

KINDS = ["solution", "pp", "exchange", "surface", "ss", "gas", "kinetics", "mix", "reaction", "temperature", "pressure"]
KW = {"solution": "SOLUTION", "pp": "EQUILIBRIUM_PHASES", "exchange": "EXCHANGE", "surface": "SURFACE",
      "ss": "SOLID_SOLUTIONS", "gas": "GAS_PHASE", "kinetics": "KINETICS", "mix": "MIX", "reaction": "REACTION",
      "temperature": "REACTION_TEMPERATURE", "pressure": "REACTION_PRESSURE"}
# names accepted by USE / SAVE / COPY and by the options of DELETE
USE_NAME = {"solution": "solution", "pp": "equilibrium_phases", "exchange": "exchange", "surface": "surface",
            "ss": "solid_solutions", "gas": "gas_phase", "kinetics": "kinetics", "mix": "mix", "reaction": "reaction",
            "temperature": "reaction_temperature", "pressure": "reaction_pressure"}
DEL_NAME = {"solution": "solution", "pp": "equilibrium_phases", "exchange": "exchange", "surface": "surface",
            "ss": "solid_solutions", "gas": "gas_phase", "kinetics": "kinetics", "mix": "mix", "reaction": "reaction",
            "temperature": "temperature", "pressure": "pressure"}
# every spelling StorageBinList::vopts offers for an item (the model resolves whatever is written, also abbreviations)
DEL_ALIASES = {"solution": ["solution"], "pp": ["equilibrium_phases", "pp_assemblage"], "exchange": ["exchange"],
               "surface": ["surface"], "ss": ["solid_solutions", "solid_solution", "ss_assemblage"], "gas": ["gas_phase"],
               "kinetics": ["kinetics"], "mix": ["mix"], "reaction": ["reaction"],
               "temperature": ["temperature", "reaction_temperature"], "pressure": ["pressure", "reaction_pressure"],
               "cell": ["cell", "cells"], "all": ["all"]}
SAVE_KINDS = ["solution", "pp", "exchange", "surface", "gas", "ss"]
EMIX_KINDS = ["solution", "exchange", "gas", "kinetics", "pp", "ss", "surface"]
MODIFY_KINDS = ["solution", "pp", "exchange", "surface", "ss", "gas", "kinetics", "reaction"]

PREAMBLE = "RATES\n Rxx\n -start\n 10 SAVE 1e-6*TIME\n -end\nEND\n"


def _v(base, id_):
    """a value that is different for every definition id (so that different definitions have different content)"""
    return base * (1.0 + 0.001 * (id_ % 800))


def body(kind, item, id_, eq=None, comps=None):
    """text lines of keyword definition `item` of a kind"""
    if kind == "solution":
        it = [("pH 7", "Na", "Cl", 1.0, 1.0), ("pH 6.5", "K", "Cl", 2.0, 2.0), ("pH 7.5", "Ca", "Cl", 1.0, 2.0),
              ("pH 7", "Mg", "S(6)", 0.5, 0.5), ("pH 8", "Na", "C(4)", 2.0, 1.0)][item % 5]
        return [" temp 25", " " + it[0], f" {it[1]} {_v(it[3], id_):.6g}", f" {it[2]} {_v(it[4], id_):.6g}"]
    if kind == "pp":
        extra = [[], [" Gypsum 0 0.01"], [" Halite 0 0"], [" Quartz 0 0.05"]][item % 4]
        return [f" Calcite 0 {_v(0.01, id_):.6g}"] + extra
    if kind == "exchange":
        if eq is not None:
            return [f" X {_v(0.01, id_):.6g}", f" -equilibrate {eq}"]
        return [[f" NaX {_v(0.01, id_):.6g}"], [f" CaX2 {_v(0.005, id_):.6g}"],
                [f" KX {_v(0.002, id_):.6g}", " NaX 0.003"]][item % 3]
    if kind == "surface":
        if eq is not None:
            return [f" Hfo_w {_v(0.001, id_):.6g} 600 1", f" -equilibrate {eq}", " -no_edl"]
        return [[f" Hfo_wOH {_v(0.001, id_):.6g} 600 1", " -no_edl"],
                [f" Hfo_sOH {_v(0.0001, id_):.6g} 600 1", " Hfo_wOH 0.002", " -no_edl"]][item % 2]
    if kind == "ss":
        return [" CaSr", f" -comp Calcite {_v(0.01, id_):.6g}", f" -comp Strontianite {[0.001, 0.0][item % 2]}"]
    if kind == "gas":
        if eq is not None:
            return [" -fixed_volume", f" -volume {_v(1.0, id_):.6g}", f" -equilibrate {eq}", " CO2(g) 0"] + [[" Ntg(g) 0"], []][item % 2]
        extra = [[f" Ntg(g) 0.5"], []][item % 2]
        return [" -fixed_volume", " -volume 1", f" CO2(g) {_v(0.001, id_):.6g}"] + extra
    if kind == "kinetics":
        f = ["NaCl", "KCl"][item % 2]
        return [" Rxx", f" -formula {f} 1", f" -m {_v(1.0, id_):.6g}", " -steps 1"]
    if kind == "mix":
        return [f" {c} {f:.3g}" for c, f in comps]
    if kind == "reaction":
        return [[" NaCl 1", f" {_v(0.001, id_):.6g}"], [" KCl 1", f" {_v(0.0005, id_):.6g} {_v(0.001, id_):.6g}"],
                [" CaCl2 1", f" {_v(0.0002, id_):.6g}"]][item % 3]
    if kind == "temperature":
        return [f" {_v(28.0, id_):.6g}"]
    if kind == "pressure":
        return [f" {_v(1.5, id_):.6g}"]
    raise ValueError(kind)


def fmt_range(n, m):
    return str(n) if m is None or m == n else f"{n}-{m}"


def fmt_tok(t):
    return str(t[0]) if len(t) == 1 else f"{t[0]}-{t[1]}"


def modify_lines(kind, val):
    """(text lines, regex of dump lines allowed to change, regex that must be present afterwards)"""
    g = f"{val:.6g}"
    if kind == "solution":
        g = f"{20.0 + val % 20.0:.6g}"
        return [f" -temp {g}"], r"^-temp\s", (r"^-temp\s+(\S+)$", float(g))
    if kind == "pp":
        return [" -component Calcite", f"  -moles {g}"], r"^-moles\s", (r"^-moles\s+(\S+)$", float(g))
    if kind == "exchange":
        return [f" -exchange_gammas {int(val) % 2}"], r"^-exchange_gammas\s", rf"^-exchange_gammas\s+{int(val) % 2}$"
    if kind == "surface":
        return [f" -thickness {g}"], r"^-(thickness|new_def)\s", (r"^-thickness\s+(\S+)$", float(g))
    if kind == "ss":
        return [" -solid_solution CaSr", "  -component Calcite", f"   -moles {g}"], r"^-moles\s", (r"^-moles\s+(\S+)$", float(g))
    if kind == "gas":
        return [f" -volume {g}"], r"^-volume\s", (r"^-volume\s+(\S+)$", float(g))
    if kind == "kinetics":
        return [f" -cvode_steps {int(val) + 1}"], r"^-cvode_steps\s", rf"^-cvode_steps\s+{int(val) + 1}$"
    if kind == "reaction":
        return [f" -count_steps {int(val)}"], r"^-count_steps\s", rf"^-count_steps\s+{int(val)}$"
    raise ValueError(kind)


def render_block(b, templates):
    o = b["op"]
    if o == "def":
        return [f"{KW[b['kind']]} {fmt_range(b['n'], b['m'])} D{b['id']}"] + body(b["kind"], b["item"], b["id"], b.get("eq"), b.get("comps"))
    if o == "raw":
        return [f"{KW[b['kind']]}_RAW {fmt_range(b['n'], b['m'])} R{b['id']}"] + templates[b["kind"]][b["tpl"] % len(templates[b["kind"]])]["body"]
    if o == "mod":
        return [f"{KW[b['kind']]}_MODIFY {fmt_range(b['n'], b['m'])} M{b['id']}"] + modify_lines(b["kind"], b["val"])[0]
    if o == "use":
        return [f"USE {USE_NAME[b['kind']]} {'none' if b['n'] is None else b['n']}"]
    if o == "save":
        return [f"SAVE {USE_NAME[b['kind']]} {fmt_range(b['n'], b['m'])}"]
    if o == "copy":
        name = "cell" if b["kind"] == "cell" else USE_NAME[b["kind"]]
        return [f"COPY {name} {b['src']} {fmt_range(b['a'], b['b'])}"]
    if o == "del":
        ls = ["DELETE"]
        for l in b["lines"]:
            cut = l[3] if len(l) > 3 else None
            if cut:
                # numbers continued on a line of their own (no option: get_option falls back to the previous option)
                ls.append(f" -{l[0]} " + " ".join(fmt_tok(t) for t in l[2][:cut]))
                ls.append("   " + " ".join(fmt_tok(t) for t in l[2][cut:]))
            else:
                ls.append(f" -{l[0]} " + " ".join(fmt_tok(t) for t in l[2]))
        return ls
    if o == "cells":
        return ["RUN_CELLS", f" -{b.get('opt', 'cells')} " + " ".join(fmt_tok(t) for t in b["toks"])]
    if o == "emix":
        return [f"{KW[b['kind']]}_MIX {fmt_range(b['n'], b['m'])}"] + [f" {c} {f:.3g}" for c, f in b["comps"]]
    raise ValueError(o)


def render_sim(sim, templates):
    ls = []
    for b in sim:
        ls += render_block(b, templates)
    return "\n".join(ls + ["END"]) + "\n"


def render_run(run, templates):
    return "".join(render_sim(s, templates) for s in run)


def mtok(t):
    return str(t[0]) if len(t) == 1 else f"{t[0]}~{t[1]}"


def model_block(b, templates):
    o = b["op"]
    if o == "def":
        eq = "-" if b.get("eq") is None else str(b["eq"])
        refs = "".join(f" {c}" for c, _ in (b.get("comps") or []))
        return f"def {b['kind']} {b['n']} {b['n'] if b['m'] is None else b['m']} {b['id']} {eq}{refs}"
    if o == "raw":
        t = templates[b["kind"]][b["tpl"] % len(templates[b["kind"]])]
        refs = "".join(f" {c}" for c in t.get("refs", []))
        return f"raw {b['kind']} {b['n']} {b['n'] if b['m'] is None else b['m']} {b['id']} {1 if t['new_def'] else 0}{refs}"
    if o == "mod":
        return f"mod {b['kind']} {b['n']} {b['n'] if b['m'] is None else b['m']} {b['id']}"
    if o == "use":
        return f"use {b['kind']} {'none' if b['n'] is None else b['n']}"
    if o == "save":
        return f"save {b['kind']} {b['n']} {b['n'] if b['m'] is None else b['m']}"
    if o == "copy":
        return f"copy {b['kind']} {b['src']} {b['a']} {b['a'] if b['b'] is None else b['b']}"
    if o == "del":
        return "del " + " ".join((f"{l[0]}={l[1]}:" if l[1] else f"{l[0]}:") + ",".join(mtok(t) for t in l[2]) for l in b["lines"])
    if o == "cells":
        return f"cells {b.get('opt', 'cells')} " + " ".join(mtok(t) for t in b["toks"])
    if o == "emix":
        return f"emix {b['kind']} {b['n']} {b['n'] if b['m'] is None else b['m']} " + " ".join(str(c) for c, _ in b["comps"])
    raise ValueError(o)


def model_lines(history, templates, cfg):
    ls = ["new", f"cfg {cfg}"]
    for run in history:
        ls.append("run")
        for sim in run:
            ls.append("sim")
            ls += [model_block(b, templates) for b in sim]
            ls.append("endsim")
        ls.append("endrun")
    return ls


# ---------------------------------------------------------------------------------------------- generation

class Shadow:
    """rough bookkeeping of which numbers probably exist (only biases the generator; the model decides)"""

    def __init__(self):
        self.ex = {k: set() for k in KINDS}

    def add(self, k, n, m=None):
        for i in range(n, (n if m is None else max(m, n)) + 1):
            if abs(i) < 1000:
                self.ex[k].add(i)

    def remove(self, k, toks):
        if not toks:
            self.ex[k].clear()
        for t in toks:
            lo, hi = (t[0], t[0]) if len(t) == 1 else (min(t), max(t))
            self.ex[k] -= set(range(lo, hi + 1)) if hi - lo < 1000 else set()

    def pick(self, rng, k, default):
        s = [x for x in self.ex[k] if x >= 0]
        return rng.choice(sorted(s)) if s and rng.random() < 0.85 else default


RESERVED = {-1, -2, -5, -6}     # numbers under which the engine itself files intermediate entities


def num(rng, neg=True):
    r = rng.random()
    if r < 0.68:
        return rng.randint(0, 5)
    if r < 0.88:
        return rng.randint(6, 11)
    if r < 0.94 and neg:
        n = rng.choice([-3, -4, -7, -8, -20, -19, -18, -1000, -214748, -2147483])
        return n
    return rng.choice([0, 1, 20, 99, 1000, 214748, 2147483, 2147483640])


def rng_range(rng, neg=True, p_range=0.4):
    n = num(rng, neg)
    if rng.random() >= p_range:
        return n, None
    r = rng.random()
    if r < 0.85:
        return n, n + rng.randint(1, 4)
    if r < 0.93:
        return n, n                     # written as n-n
    return n, n - rng.randint(1, 3)     # reversed range


def safe_copy_target(a, b):
    """any target range of moderate length, also one that ends at -1 or runs from a non-negative to a negative number
    (the latter is empty). With a size_t loop variable in copy_entities such a COPY would not end: the harness runs under
    an address-space limit and a time limit and the check reports that as a violation."""
    b2 = a if b is None else b
    return b2 - a < 40


def del_tok(rng):
    n = num(rng)
    r = rng.random()
    if r < 0.65:
        return [n]
    if r < 0.9:
        return [n, n + rng.randint(1, 4)]
    return [n, n - rng.randint(0, 3)]


def gen_block(rng, sh, ids, n_templates, weights):
    o = rng.choices(list(weights), weights=list(weights.values()))[0]
    if o == "def":
        k = rng.choice(KINDS)
        n, m = rng_range(rng)
        if m is not None and m - n > 30:
            m = n + 3
        b = {"op": "def", "kind": k, "n": n, "m": m, "id": next(ids), "item": rng.randint(0, 11)}
        if k in ("exchange", "surface", "gas") and rng.random() < 0.3:
            b["eq"] = sh.pick(rng, "solution", num(rng, False))
        if k == "mix":
            cs = sorted({sh.pick(rng, "solution", num(rng, False)) for _ in range(rng.randint(1, 3))})
            b["comps"] = [(c, rng.choice([0.25, 0.5, 1.0])) for c in cs]
        sh.add(k, n, m)
        return b
    if o == "raw":
        k = rng.choice(KINDS)
        n, m = rng_range(rng, p_range=0.3)
        sh.add(k, n, m)
        return {"op": "raw", "kind": k, "n": n, "m": m, "id": next(ids), "tpl": rng.randint(0, 11)}
    if o == "mod":
        k = rng.choice(MODIFY_KINDS)
        n = sh.pick(rng, k, num(rng))
        m = None if rng.random() < 0.75 else n + rng.randint(0, 3)
        return {"op": "mod", "kind": k, "n": n, "m": m, "id": next(ids),
                "val": round(rng.choice([0.0123, 0.5, 2.0, 31.0, 7.0]) * (1 + rng.randint(0, 50) / 100.0), 6)}
    if o == "use":
        k = rng.choice(KINDS)
        if rng.random() < 0.2:
            return {"op": "use", "kind": k, "n": None}
        return {"op": "use", "kind": k, "n": sh.pick(rng, k, num(rng, False))}
    if o == "save":
        k = rng.choice(SAVE_KINDS)
        n, m = rng_range(rng, neg=False, p_range=0.5)
        sh.add(k, n, m)
        return {"op": "save", "kind": k, "n": n, "m": m}
    if o == "copy":
        k = rng.choice(KINDS + ["cell", "cell"])
        if k == "cell" and rng.random() < 0.7:
            # a cell number under which as many kinds as possible are filed
            cnt = {}
            for kk in KINDS:
                for x in sh.ex[kk]:
                    if x >= 0:
                        cnt[x] = cnt.get(x, 0) + 1
            best = sorted(cnt, key=lambda x: (-cnt[x], x))[:3]
            src = rng.choice(best) if best else num(rng)
        else:
            src = sh.pick(rng, rng.choice(KINDS) if k == "cell" else k, num(rng))
        for _ in range(20):
            a, b = rng_range(rng, p_range=0.5)
            r = rng.random()
            if r < 0.05:
                a, b = -rng.randint(1, 3), rng.randint(0, 3)      # range from a negative to a non-negative number
            elif r < 0.09:
                a, b = -rng.randint(3, 9), -1                     # range ending at -1
            elif r < 0.12:
                a, b = rng.randint(0, 5), -rng.randint(1, 4)      # from a non-negative to a negative number (empty)
            if safe_copy_target(a, b):
                break
        else:
            a, b = 3, None
        for kk in (KINDS if k == "cell" else [k]):
            if src in sh.ex[kk] and a >= 0:
                sh.add(kk, a, b)
        return {"op": "copy", "kind": k, "src": src, "a": a, "b": b}
    if o == "del":
        lines = []
        for _ in range(rng.randint(1, 3)):
            r = rng.random()
            if r < 0.08:
                item, toks = "all", []
            elif r < 0.3:
                item, toks = "cell", [del_tok(rng) for _ in range(rng.randint(0 if rng.random() < 0.1 else 1, 2))]
            else:
                item, toks = rng.choice(KINDS), [del_tok(rng) for _ in range(rng.randint(0 if rng.random() < 0.12 else 1, 3))]
            name = rng.choice(DEL_ALIASES[item])
            if rng.random() < 0.2:
                # an abbreviation: find_option takes the first option it is a prefix of, which may be another item
                name, item = name[:rng.randint(1, len(name))], None
            cut = rng.randint(1, len(toks) - 1) if len(toks) >= 2 and name[0] != "a" and rng.random() < 0.25 else None
            lines.append([name, item, toks, cut])
        for name, item, toks, _ in lines:
            if item is None:
                continue
            if item == "all" or (item == "cell" and not toks):
                for kk in KINDS:
                    sh.ex[kk].clear()
            elif item == "cell":
                for kk in KINDS:
                    sh.remove(kk, toks)
            else:
                sh.remove(item, toks)
        return {"op": "del", "lines": lines}
    if o == "cells":
        return {"op": "cells", "opt": rng.choice(["cells", "cells", "cell", "c", "cel"]), "toks": [[sh.pick(rng, "solution", num(rng))] if rng.random() < 0.7 else del_tok(rng)
                                          for _ in range(rng.randint(1, 2))]}
    if o == "emix":
        k = rng.choice(EMIX_KINDS)
        if k == "solution" and not [x for x in sh.ex[k] if x >= 0]:
            k = rng.choice(EMIX_KINDS[1:])       # an empty solution (mixed from nothing) only breeds degenerate chemistry
        n, m = rng_range(rng, neg=False, p_range=0.3)
        if k == "solution":
            have = sorted(x for x in sh.ex[k] if x >= 0)
            cs = sorted({rng.choice(have) for _ in range(rng.randint(1, 2))})
        else:
            have = sorted(x for x in sh.ex[k] if x >= 0)
            if have and rng.random() < 0.9:
                cs = sorted({rng.choice(have) for _ in range(rng.randint(1, 2))})
            else:     # entities mixed from nothing are legal but degenerate; kept rare
                cs = sorted({sh.pick(rng, k, num(rng, False)) for _ in range(rng.randint(1, 2))})
        sh.add(k, n, m)
        return {"op": "emix", "kind": k, "n": n, "m": m, "comps": [(c, rng.choice([0.5, 1.0])) for c in cs]}
    raise ValueError(o)


WEIGHTS = {"def": 36, "raw": 6, "mod": 8, "use": 9, "save": 10, "copy": 13, "del": 10, "cells": 5, "emix": 3}


def gen_save_scenario(rng, sh, ids):
    """a call that is sure to end in a batch reaction whose result is saved over a number range"""
    k = rng.choice(["pp", "exchange", "surface", "gas", "ss"])
    a, b = rng.randint(0, 5), rng.randint(0, 5)
    sim1 = [{"op": "def", "kind": "solution", "n": a, "m": None, "id": next(ids), "item": rng.randint(0, 11)},
            {"op": "def", "kind": k, "n": b, "m": None if rng.random() < 0.7 else b + rng.randint(1, 2), "id": next(ids),
             "item": rng.randint(0, 11)}]
    n, m = rng_range(rng, neg=False, p_range=0.85)
    sim2 = [{"op": "use", "kind": "solution", "n": a}, {"op": "use", "kind": k, "n": b},
            {"op": "save", "kind": k, "n": n, "m": m}]
    sh.add("solution", a)
    sh.add(k, b, sim1[1]["m"])
    sh.add(k, n, m)
    if rng.random() < 0.5:
        n2, m2 = rng_range(rng, neg=False, p_range=0.7)
        sim2.append({"op": "save", "kind": "solution", "n": n2, "m": m2})
        sh.add("solution", n2, m2)
    return [sim1, sim2]


def gen_history(rng, max_ops, weights=None):
    """a history with about max_ops blocks, split into calls of 1–3 simulations of 1–4 blocks"""
    w = dict(weights or WEIGHTS)
    sh = Shadow()
    ids = iter(range(1, 10 ** 6))
    hist, nops = [], 0
    target = rng.randint(max(2, max_ops // 3), max_ops)
    while nops < target:
        if rng.random() < 0.15:
            run = gen_save_scenario(rng, sh, ids)
            nops += sum(len(x) for x in run)
            hist.append(run)
            continue
        run = []
        for _ in range(rng.choice([1, 1, 2, 3])):
            sim = [gen_block(rng, sh, ids, 12, w) for _ in range(rng.choice([1, 1, 2, 2, 3, 4]))]
            nops += len(sim)
            run.append(sim)
        hist.append(run)
    return hist
