import Driver.SelOut
import Driver.Route
import Driver.Api
import Driver.Basic
import Driver.Speciate
import Driver.Gamma
import Driver.Store
import Driver.Raw
import Driver.Transport
import Driver.RK
import Driver.Gas
import Driver.Surface
import Driver.Inventory
import Driver.Units
import Driver.Inverse
import Driver.Wrapper
import Driver.LineReader
import Driver.Formula
import Driver.Assemblage

/-- `pmodel <sub-command>`: each sub-command is a line-protocol driver of one executable model. -/
def main (args : List String) : IO UInt32 := do
  match args with
  | ["selout"] => Driver.SelOut.run; return 0
  | ["route"] => Driver.Route.run; return 0
  | ["api"] => Driver.Api.run; return 0
  | ["basic"] => Driver.Basic.run; return 0
  | ["speciate"] => Driver.Speciate.run; return 0
  | ["gamma"] => Driver.Gamma.run; return 0
  | ["store"] => Driver.Store.run; return 0
  | ["raw"] => Driver.Raw.run; return 0
  | ["transport"] => Driver.Transport.run; return 0
  | ["rk"] => Driver.RK.run; return 0
  | ["gas"] => Driver.Gas.run; return 0
  | ["surface"] => Driver.Surface.run; return 0
  | ["inventory"] => Driver.Inventory.run; return 0
  | ["units"] => Driver.Units.run; return 0
  | ["inverse"] => Driver.Inverse.run; return 0
  | ["wrapper"] => Driver.Wrapper.run; return 0
  | ["linereader"] => Driver.LineReader.run; return 0
  | ["formula"] => Driver.Formula.run; return 0
  | ["assemblage"] => Driver.Assemblage.run; return 0
  | _ => IO.eprintln s!"pmodel: unknown sub-command {args}"; return 2
