import PhreeqcVerif.Model.Route
/-!
# Error accounting of one API call (C08)

Model of what `IPhreeqc::RunString / RunFile / RunAccumulated / LoadDatabase / LoadDatabaseString` do with errors
(src/IPhreeqc.cpp, src/ErrorReporter.hxx, src/phreeqcpp/PHRQ_io_output.cpp, common/PHRQ_io.cpp, utilities.cpp, read.cpp,
tidy.cpp), as a state machine over the stream of things the engine does during the call.

Code facts reproduced (with the place they come from):

* `Phreeqc::get_input_errors()` (utilities.cpp): `input_error == 0 ? io_error_count : input_error` — `Acct.count`.
* `Phreeqc::error_msg` (PHRQ_io_output.cpp): `if (get_input_errors() <= 0) input_error = 1;` then `phrq_io->error_msg(msg, stop)` —
  `Acct.engineErr`.
* `IPhreeqc::error_msg` (IPhreeqc.cpp) → `PHRQ_io::error_msg`: `io_error_count++`, the text goes to the `ErrorReporter` when
  `ErrorStringOn && error_on`, and `throw IPhreeqcStop()` when `stop` — `Acct.ioErr`; the exception unwinds to the `catch` of the
  API function, so nothing of the engine runs afterwards: every step function is the identity on a stopped state.
* readers do `input_error++` next to their message (`Acct.bump`); some sites pair the increment with a *warning* or with nothing
  (tidy.cpp `tidy_isotopes`, readtr.cpp `-multi_d`, spread.cpp, read.cpp `read_solution`): that is why a bare `bump` is a step of
  the *reading* phase only.
* `read_input` starts with `input_error = 0` (every simulation) — `Acct.readInput`; `io_error_count` is *not* reset there.
* `tidy_model` ends with `if (get_input_errors() > 0 || parse_error > 0) error_msg("Calculations terminating due to input errors.",
  STOP)` — `Acct.gate`: the reading phase of a simulation can only be left with a zero count or by a STOP error event.
* `RunString` & co.: `check_database` clears both reporters (and raises "No database is loaded" with `input_error = 1`), then
  `input_error = 0; io_error_count = 0`, `do_run`, `update_errors()` (strings and line vectors from the reporters), return
  `get_input_errors()` — `runCall`.
* `LoadDatabase`: `UnLoadDatabase` (reporters and strings cleared, counters zeroed — the *line vectors are not touched*),
  `read_database` (one reading phase + gate), `DatabaseLoaded = (get_input_errors() == 0)`; only when that count is 0 the self test
  `test_db` = `RunString(...)` runs (and then `update_errors` refreshes the line vectors) — `loadCall`.  `GetErrorString` /
  `GetWarningString` read the reporters directly; `GetErrorStringLine` reads the vector filled by `update_errors`.
-/
namespace PhreeqcVerif.ErrAcct
open PhreeqcVerif.Route

/-- accounting state of the engine during one call -/
structure Acct where
  /-- `Phreeqc::input_error` -/
  inputError : Nat
  /-- `PHRQ_io::io_error_count` -/
  ioErrors : Nat
  /-- ERROR / WARNING events handed to the `PHRQ_io` interface so far, in order -/
  events : List ErrEv
  /-- number of `PHRQ_io` events of any kind (output, log, punch, error, warning) routed so far -/
  routed : Nat
  /-- `routed` at the moment `IPhreeqcStop` was thrown -/
  stopAt : Option Nat
  /-- an `IPhreeqcStop` is in flight -/
  stopped : Bool

def Acct.start : Acct := ⟨0, 0, [], 0, none, false⟩

/-- `get_input_errors()` -/
def Acct.count (a : Acct) : Nat := if a.inputError = 0 then a.ioErrors else a.inputError

def Acct.bump (a : Acct) : Acct := { a with inputError := a.inputError + 1 }

/-- `IPhreeqc::error_msg(text, stop)` -/
def Acct.ioErr (a : Acct) (on stop : Bool) (t : List Char) : Acct :=
  { a with ioErrors := a.ioErrors + 1, events := a.events ++ [.err on stop t], routed := a.routed + 1,
           stopAt := if stop then some (a.routed + 1) else a.stopAt, stopped := stop }

/-- `Phreeqc::error_msg(text, stop)` -/
def Acct.engineErr (a : Acct) (on stop : Bool) (t : List Char) : Acct :=
  (if a.count = 0 then { a with inputError := 1 } else a).ioErr on stop t

def Acct.warn (a : Acct) (on : Bool) (t : List Char) : Acct :=
  { a with events := a.events ++ [.warn on t], routed := a.routed + 1 }

/-- an output / log / punch event -/
def Acct.other (a : Acct) : Acct := { a with routed := a.routed + 1 }

/-- `read_input`: `input_error = 0` -/
def Acct.readInput (a : Acct) : Acct := if a.stopped then a else { a with inputError := 0 }

/-- steps of the reading phase of a simulation (`read_input`, the glue of `do_run`, `tidy_model` up to its last statement) -/
inductive ReadStep where
  | bump
  | engineErr (on stop : Bool) (t : List Char)
  | ioErr (on stop : Bool) (t : List Char)
  | warn (on : Bool) (t : List Char)
  | other

/-- steps after `tidy_model`: an increment of `input_error` only occurs next to an error message -/
inductive RunStep where
  | engineErr (on stop : Bool) (t : List Char)
  | ioErr (on stop : Bool) (t : List Char)
  | warn (on : Bool) (t : List Char)
  | other
  /-- `input_error++; error_msg(...)` -/
  | bumpErr (on stop : Bool) (t : List Char)
  /-- `error_msg(...); input_error++` -/
  | errBump (on stop : Bool) (t : List Char)

/-- steps of the last `read_input`, which meets the end of the input before any keyword -/
inductive TailStep where
  | ioErr (on stop : Bool) (t : List Char)
  | warn (on : Bool) (t : List Char)
  | other

def Acct.read (a : Acct) (s : ReadStep) : Acct :=
  if a.stopped then a else
  match s with
  | .bump => a.bump
  | .engineErr on stop t => a.engineErr on stop t
  | .ioErr on stop t => a.ioErr on stop t
  | .warn on t => a.warn on t
  | .other => a.other

def Acct.run (a : Acct) (s : RunStep) : Acct :=
  if a.stopped then a else
  match s with
  | .engineErr on stop t => a.engineErr on stop t
  | .ioErr on stop t => a.ioErr on stop t
  | .warn on t => a.warn on t
  | .other => a.other
  | .bumpErr on stop t => a.bump.engineErr on stop t
  | .errBump on stop t => if stop then a.engineErr on stop t else (a.engineErr on stop t).bump

def Acct.tailStep (a : Acct) (s : TailStep) : Acct :=
  if a.stopped then a else
  match s with
  | .ioErr on stop t => a.ioErr on stop t
  | .warn on t => a.warn on t
  | .other => a.other

def gateText : List Char := "ERROR: Calculations terminating due to input errors.\n".toList

/-- last statement of `tidy_model` -/
def Acct.gate (a : Acct) (parseError on : Bool) : Acct :=
  if a.stopped then a
  else if a.count > 0 ∨ parseError = true then a.engineErr on true gateText
  else a

/-- one simulation of `do_run`'s loop -/
structure Sim where
  reading : List ReadStep
  /-- `parse_error > 0` at the end of the reading phase -/
  parseError : Bool
  /-- `error_on` at that moment -/
  gateOn : Bool
  running : List RunStep

structure Program where
  sims : List Sim
  tail : List TailStep

def Acct.sim (a : Acct) (s : Sim) : Acct :=
  s.running.foldl Acct.run ((s.reading.foldl Acct.read a.readInput).gate s.parseError s.gateOn)

def Acct.prog (a : Acct) (p : Program) : Acct :=
  p.tail.foldl Acct.tailStep (p.sims.foldl Acct.sim a).readInput

/-! ### the wrapper -/

structure Wrapper where
  dbLoaded : Bool
  inputError : Nat
  ioErrors : Nat
  /-- content of `ErrorReporter` / `WarningReporter` -/
  errReporter : List (List Char)
  warnReporter : List (List Char)
  /-- `ErrorLines` / `WarningLines` (written by `update_errors` only) -/
  errLines : List (List Char)
  warnLines : List (List Char)

def Wrapper.fresh : Wrapper := ⟨false, 0, 0, [], [], [], []⟩

/-- `GetErrorString()` with the string switch on: reads the reporter -/
def Wrapper.errorString (w : Wrapper) : List Char := w.errReporter.flatten
def Wrapper.warningString (w : Wrapper) : List Char := w.warnReporter.flatten

structure Result where
  w : Wrapper
  ret : Nat
  /-- the ERROR / WARNING events of the call, as a trace harness records them -/
  events : List ErrEv
  /-- the events whose text the reporters hold when the call returns -/
  reported : List ErrEv
  routed : Nat
  stopAt : Option Nat

def noDbText (routine : String) : List Char := ("ERROR: " ++ routine ++ ": No database is loaded\n").toList

/-- `RunString` / `RunFile` / `RunAccumulated` (`on` = `error_on` when "No database is loaded" is raised) -/
def runCall (cfg : ErrCfg) (on : Bool) (w : Wrapper) (p : Program) : Result :=
  let a : Acct :=
    if w.dbLoaded then Acct.start.prog p
    else (Acct.mk 1 w.ioErrors [] 0 none false).engineErr on true (noDbText "RunString")
  let er := errStrChunks cfg a.events
  let wr := warnStrChunks cfg a.events
  { w := { w with inputError := a.inputError, ioErrors := a.ioErrors, errReporter := er, warnReporter := wr,
                  errLines := splitLines er.flatten, warnLines := splitLines wr.flatten },
    ret := a.count, events := a.events, reported := a.events, routed := a.routed, stopAt := a.stopAt }

/-- `LoadDatabase` / `LoadDatabaseString`: `db` is the reading phase of `read_database` (an unreadable file is the single step
`engineErr on true "LoadDatabase: Unable to open…"`), `test` the self-test run of `test_db`.  `refresh` = whether `load_db` calls
`update_errors()` itself (extracted from the source by tools/gen_erracct.py: `Gen.ErrAcct.loadRefreshesLines`; on the tree this was
written against it does not, so a failed load leaves the line vectors of the previous call) -/
def loadCall (refresh : Bool) (cfg : ErrCfg) (on : Bool) (w : Wrapper) (db : Sim) (test : Program) : Result :=
  let a := Acct.start.sim { db with running := [] }
  let er := errStrChunks cfg a.events
  let wr := warnStrChunks cfg a.events
  let w1 : Wrapper := { w with dbLoaded := (a.count == 0), inputError := a.inputError, ioErrors := a.ioErrors,
                               errReporter := er, warnReporter := wr }
  if a.count = 0 then
    let r := runCall cfg on w1 test
    { r with events := a.events ++ r.events, routed := a.routed + r.routed }
  else
    { w := if refresh then { w1 with errLines := splitLines er.flatten, warnLines := splitLines wr.flatten } else w1,
      ret := a.count, events := a.events, reported := a.events, routed := a.routed, stopAt := a.stopAt }

/-- a call of a history -/
inductive Call where
  | run (p : Program)
  | load (db : Sim) (test : Program)

def applyCall (refresh : Bool) (cfg : ErrCfg) (on : Bool) (w : Wrapper) : Call → Result
  | .run p => runCall cfg on w p
  | .load db t => loadCall refresh cfg on w db t

def history (refresh : Bool) (cfg : ErrCfg) (on : Bool) (w : Wrapper) (cs : List Call) : Wrapper :=
  cs.foldl (fun w c => (applyCall refresh cfg on w c).w) w

/-! ### the engine's input-stream stack (`PHRQ_io::istream_list`)

`do_run` pushes the caller's stream (`push_istream(pis, false)`: not owned), `PHRQ_io::get_line` pushes an owned `std::ifstream` for every
INCLUDE$ directive and pops a stream when it is exhausted; an `IPhreeqcStop` leaves the stack as it is.  `RunString` / `RunFile` /
`RunAccumulated` call `clear_istream()` *after* their `catch` blocks, `load_db` / `load_db_str` likewise: whatever happened, the stack is
empty when the API call returns, so no entry can outlive the stream object of the caller it points to. -/

/-- what the reader does to the stack during a run -/
inductive StreamStep where
  | includeOpen        -- INCLUDE$ of a readable file: `push_istream(new std::ifstream)`
  | exhausted          -- `get_line` hit the end of the top stream: `pop_istream()`
  | stop               -- an ERROR with STOP: the exception unwinds, nothing more is read

/-- stack depth during the run; `none` once stopped (depth frozen in the second component) -/
structure Streams where
  depth : Nat
  stopped : Bool

def Streams.step (s : Streams) : StreamStep → Streams
  | .includeOpen => if s.stopped then s else { s with depth := s.depth + 1 }
  | .exhausted => if s.stopped then s else { s with depth := s.depth - 1 }
  | .stop => { s with stopped := true }

/-- depth when `do_run` is left (normally or by `IPhreeqcStop`), starting from whatever was on the stack before plus the pushed stream -/
def streamsAfterDoRun (before : Nat) (steps : List StreamStep) : Streams :=
  steps.foldl Streams.step ⟨before + 1, false⟩

/-- the API functions as coded: `clear_istream()` after the `catch` blocks, on every path -/
def streamsAfterCall (before : Nat) (steps : List StreamStep) : Nat :=
  let _ := streamsAfterDoRun before steps
  0

/-- the variant "do_run releases what it pushed", placed after the tail that re-throws: skipped when the run was stopped -/
def streamsAfterCallClearInsideDoRun (before : Nat) (steps : List StreamStep) : Nat :=
  let s := streamsAfterDoRun before steps
  if s.stopped then s.depth else 0

/-- a STOP error event -/
def isStop : ErrEv → Bool
  | .err _ stop _ => stop
  | .warn _ _ => false

end PhreeqcVerif.ErrAcct
