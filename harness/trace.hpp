// IPhreeqc subclass that records the PHRQ_io event stream (no source hook needed: all are virtual).
#pragma once
#include "friend.hpp"
#include "hx.hpp"
#include <cstdarg>
#include "dumper.h"
// second access shim (Phreeqc.h and IPhreeqc.hpp also befriend `TestSelectedOutput`); friend.hpp is shared and not edited
class TestSelectedOutput {
public:
  // true while tidy_punch writes the heading line of the current block (its new_def flag is still set)
  static bool heading_mode(IPhreeqc* p) {
    Phreeqc* e = p->PhreeqcPtr;
    return e->current_selected_output && e->current_selected_output->Get_new_def();
  }
  // headings that IPhreeqc::EndRow will push as empty cells (mirrors its condition). Whether EndRow consults -user_punch of the
  // block is decided at RUN TIME: tools/tracelib.py reads the shape of EndRow from the source and sends `opt endrow_user_punch 0|1`
  // at the start of every script (no compile-time flag: the harness binary is cached by name and time stamps only)
  static bool& endrow_checks_user_punch() { static bool v = true; return v; }
  static std::vector<std::string> pending_headings(IPhreeqc* p) {
    std::vector<std::string> r;
    Phreeqc* e = p->PhreeqcPtr;
    if (e->current_selected_output && e->current_user_punch && e->n_user_punch_index >= 0) {
      if (endrow_checks_user_punch() && !e->current_selected_output->Get_user_punch()) return r;
      const std::vector<std::string>& h = e->current_user_punch->Get_headings();
      for (size_t i = e->n_user_punch_index; i < h.size(); ++i) r.push_back(h[i]);
    }
    return r;
  }
  static int pr_punch(IPhreeqc* p) { return p->PhreeqcPtr->pr.punch; }
  static int pr_dump(IPhreeqc* p) { return p->PhreeqcPtr->pr.dump; }
  static std::string dump_state(IPhreeqc* p) {
    dumper& d = p->PhreeqcPtr->dump_info;
    return std::string("on=") + (d.Get_on()?"1":"0") + " any=" + (d.Get_bool_any()?"1":"0") + " append=" + (d.Get_append()?"1":"0");
  }
  static bool high_precision(IPhreeqc* p, int n) {
    std::map<int, SelectedOutput>& m = p->PhreeqcPtr->SelectedOutput_map;
    std::map<int, SelectedOutput>::iterator it = m.find(n);
    return it != m.end() && it->second.Get_high_precision();
  }
};
class TraceIPhreeqc : public IPhreeqc {
public:
  std::vector<std::string> ev;
  bool tracing = true;
  size_t max_events = 400000;
  int flags() const { return (output_on?1:0)|(log_on?2:0)|(punch_on?4:0)|(error_on?8:0); }
  void rec(const std::string& s){ if(tracing && ev.size()<max_events) ev.push_back(s); }
  static std::string render(const char* fmt, ...) {
    char small[512]; va_list ap; va_start(ap, fmt); int n = vsnprintf(small, sizeof small, fmt, ap); va_end(ap);
    if (n < (int)sizeof small) return std::string(small, n < 0 ? 0 : n);
    std::string big(n + 1, '\0'); va_start(ap, fmt); vsnprintf(&big[0], n + 1, fmt, ap); va_end(ap); big.resize(n); return big;
  }
  virtual void output_msg(const char* s){ rec("EV out "+std::to_string(flags())+" "+hx::hex(s)); IPhreeqc::output_msg(s); }
  virtual void log_msg(const char* s){ rec("EV log "+std::to_string(flags())+" "+hx::hex(s)); IPhreeqc::log_msg(s); }
  virtual void error_msg(const char* s, bool stop=false){ rec("EV err "+std::to_string(flags())+" "+(stop?"1 ":"0 ")+hx::hex(s)); IPhreeqc::error_msg(s, stop); }
  virtual void warning_msg(const char* s){ rec("EV warn "+std::to_string(flags())+" "+hx::hex(s)); IPhreeqc::warning_msg(s); }
  // bit 16 of the flags of a punch_msg event: the text belongs to a heading line written by tidy_punch
  virtual void punch_msg(const char* s){ rec("EV pmsg "+std::to_string(flags()|(TestSelectedOutput::heading_mode(this)?16:0))+" "+std::to_string(TestIPhreeqc::cur_user(this))+" "+hx::hex(s)); IPhreeqc::punch_msg(s); }
  virtual void fpunchf(const char* name, const char* fmt, double d){
    rec("EV pd "+std::to_string(flags())+" "+std::to_string(TestIPhreeqc::cur_user(this))+" "+hx::hex(name)+" "+hx::hex(fmt)+" "+hx::hexd(d)+" "+hx::hex(render(fmt,d)));
    IPhreeqc::fpunchf(name, fmt, d); }
  virtual void fpunchf(const char* name, const char* fmt, char* s){
    rec("EV ps "+std::to_string(flags())+" "+std::to_string(TestIPhreeqc::cur_user(this))+" "+hx::hex(name)+" "+hx::hex(fmt)+" "+hx::hex(s)+" "+hx::hex(render(fmt,s)));
    IPhreeqc::fpunchf(name, fmt, s); }
  virtual void fpunchf(const char* name, const char* fmt, int i){
    rec("EV pi "+std::to_string(flags())+" "+std::to_string(TestIPhreeqc::cur_user(this))+" "+hx::hex(name)+" "+hx::hex(fmt)+" "+std::to_string(i)+" "+hx::hex(render(fmt,i)));
    IPhreeqc::fpunchf(name, fmt, i); }
  virtual bool punch_open(const char* file_name, std::ios_base::openmode mode = std::ios_base::out, int n_user = 1){
    rec("EV popen "+std::to_string(flags())+" "+std::to_string(n_user)+" "+((mode & std::ios_base::app)?"app":"trunc"));
    return IPhreeqc::punch_open(file_name, mode, n_user); }
  virtual void fpunchf_end_row(const char* fmt){
    std::string s = "EV endrow "+std::to_string(flags())+" "+std::to_string(TestIPhreeqc::cur_user(this));
    for (auto& h : TestSelectedOutput::pending_headings(this)) s += " "+hx::hex(h);
    rec(s); IPhreeqc::fpunchf_end_row(fmt); }
};
