import PhreeqcVerif.Model.NumOps
/-! Activity-coefficient models of the ion-association databases as coded in `Phreeqc::gammas(mu)` (model.cpp)
and the rule by which `read_species` (read.cpp) assigns one of them (`gflag`, `dha`, `dhb`) to a species.

Written once over `[NumOps α]`: `Float` executes (driver `pmodel gamma`; per species compared with the
`LG("…")` read-out of real runs at the reported `MU`, `DH_A`, `DH_B`), `Rat` with uninterpreted `sqrt`, `ln`,
`log10`, `exp` carries the theorems of `Properties/C16.lean`.  The order of the floating-point operations follows
the C++ source. -/
namespace PhreeqcVerif.Gamma
open NumOps

variable {α : Type} [NumOps α] [∀ a b : α, Decidable (a < b)] [∀ a b : α, Decidable (a ≤ b)]

/-- `x == 0` of the C++ on doubles -/
def isZero (x : α) : Bool := decide (x ≤ lit 0) && decide (lit 0 ≤ x)

/-! ## model selection (`read_species`) -/

/-- the activity-coefficient branches of the `switch (s_x[i]->gflag)` in `gammas` -/
inductive GModel
  | uncharged   -- 0  `dhb * mu`
  | davies      -- 1
  | wateq       -- 2  extended / WATEQ Debye–Hückel
  | unity       -- 3  e-, H2O
  | exchange    -- 4
  | unity5      -- 5
  | surface     -- 6
  | llnl        -- 7  B-dot
  | llnlCO2     -- 8  Drummond polynomial
  | actWater    -- 9
  deriving DecidableEq, Repr

def GModel.flag : GModel → Nat
  | .uncharged => 0 | .davies => 1 | .wateq => 2 | .unity => 3 | .exchange => 4
  | .unity5 => 5 | .surface => 6 | .llnl => 7 | .llnlCO2 => 8 | .actWater => 9

def GModel.ofFlag : Nat → Option GModel
  | 0 => some .uncharged | 1 => some .davies | 2 => some .wateq | 3 => some .unity | 4 => some .exchange
  | 5 => some .unity5 | 6 => some .surface | 7 => some .llnl | 8 => some .llnlCO2 | 9 => some .actWater
  | _ => none

/-- an option line of SOLUTION_SPECIES that touches the activity-coefficient data.  `sscanf` semantics of the
reader: the numbers that were scanned successfully are stored, the others keep their previous value. -/
inductive GOpt (α : Type)
  | gamma (a b : Option α)       -- `-gamma a b`        → gflag 2
  | llnlGamma (a : Option α)     -- `-llnl_gamma a`     → gflag 7
  | co2Llnl                      -- `-co2_llnl_gamma`   → gflag 8
  | actWater                     -- `-activity_water`   → gflag 9

def GOpt.model : GOpt α → GModel
  | .gamma _ _ => .wateq | .llnlGamma _ => .llnl | .co2Llnl => .llnlCO2 | .actWater => .actWater

inductive Special | none | eminus | h2o
  deriving DecidableEq, Repr

/-- what the reader knows about a species when its equation line has been parsed -/
structure Decl (α : Type) where
  zIsZero : Bool            -- `equal(z, 0.0, TOL)`
  special : Special         -- name is "e-" / "H2O"
  opts : List (GOpt α)      -- gamma-type options in file order

/-- `gflag`, `dha`, `dhb` of a species -/
structure Assign (α : Type) where
  model : GModel
  dha : α
  dhb : α

/-- state after the equation line: defaults by charge, `e-` and `H2O` always 1 -/
def defaultAssign (d : Decl α) : Assign α :=
  let dhb : α := if d.zIsZero then lit (1 / 10) else lit 0
  let m : GModel := match d.special with
    | .none => if d.zIsZero then .uncharged else .davies
    | _ => .unity
  { model := m, dha := lit 0, dhb := dhb }

def applyOpt (a : Assign α) : GOpt α → Assign α
  | .gamma x y =>
    match x with
    | some x' => { model := .wateq, dha := x', dhb := (match y with | some y' => y' | none => a.dhb) }
    | none => { a with model := .wateq }
  | .llnlGamma x => { a with model := .llnl, dha := (match x with | some x' => x' | none => a.dha) }
  | .co2Llnl => { a with model := .llnlCO2 }
  | .actWater => { a with model := .actWater }

/-- the assignment made by `read_species` for one species definition -/
def assign (d : Decl α) : Assign α := d.opts.foldl applyOpt (defaultAssign d)

/-- declarative form of the rule: the last gamma-type option decides; without one, `e-`/`H2O` are 1,
otherwise the charge decides between the uncharged form and Davies -/
inductive Assigned : Decl α → GModel → Prop
  | lastOpt (d : Decl α) (o : GOpt α) (h : d.opts.getLast? = some o) : Assigned d o.model
  | special (d : Decl α) (h : d.opts = []) (hs : d.special ≠ .none) : Assigned d .unity
  | neutral (d : Decl α) (h : d.opts = []) (hs : d.special = .none) (hz : d.zIsZero = true) : Assigned d .uncharged
  | charged (d : Decl α) (h : d.opts = []) (hs : d.special = .none) (hz : d.zIsZero = false) : Assigned d .davies

/-! ## the formulas of `gammas` -/

/-- quantities shared by all species in one call of `gammas(mu)` -/
structure Env (α : Type) where
  mu : α            -- ionic strength after the clamp `if (mu <= 0) mu = 1e-10`
  a : α             -- DH_A
  b : α             -- DH_B
  hasLlnl : Bool    -- `llnl_temp.size() > 0`
  aL : α            -- a_llnl
  bL : α            -- b_llnl
  bdotL : α         -- bdot_llnl
  lgCO2 : α         -- log_g_co2
  laH2O : α         -- s_h2o->la
  gfwWater : α      -- gfw_water

/-- `if (mu <= 0) mu = 1e-10;` -/
def clampMu (mu : α) : α := if mu ≤ lit 0 then lit (1 / 10000000000) else mu

def davies (a mu z : α) : α :=
  let muhalf := sqrt mu
  (-z) * z * a * (muhalf / (lit 1 + muhalf) - lit (3 / 10) * mu)

def wateq (a b mu z dha dhb : α) : α :=
  let muhalf := sqrt mu
  (-a) * muhalf * z * z / (lit 1 + dha * b * muhalf) + dhb * mu

def uncharged (mu dhb : α) : α := dhb * mu

/-- case 7: `z == 0` gives 0, otherwise the B-dot equation with the interpolated LLNL constants -/
def bdot (aL bL bdotL mu z dha : α) : α :=
  if isZero z then lit 0
  else
    let muhalf := sqrt mu
    (-aL) * muhalf * z * z / (lit 1 + dha * bL * muhalf) + bdotL * mu

/-- Drummond (1981) polynomial for neutral species flagged `-co2_llnl_gamma` (value of `log_g_co2`) -/
def co2Poly (c0 c1 c2 c3 c4 tk mu : α) : α :=
  ((c0 + c1 * tk + c2 / tk) * mu - (c3 + c4 * tk) * (mu / (mu + lit 1))) / ln (lit 10)

/-- case 9: `log10(exp(s_h2o->la * LOG_10) * gfw_water)` -/
def actWater (la gfw : α) : α := log10 (exp (la * ln (lit 10)) * gfw)

/-- `s_x[i]->lg` after `gammas`; `none` where the code stops with an error (LLNL parameters missing) or where the
value depends on exchanger / surface composition (outside this model) -/
def lgOf (e : Env α) (m : GModel) (z dha dhb : α) : Option α :=
  match m with
  | .uncharged => some (uncharged e.mu dhb)
  | .davies => some (davies e.a e.mu z)
  | .wateq => some (wateq e.a e.b e.mu z dha dhb)
  | .unity => some (lit 0)
  | .unity5 => some (lit 0)
  | .llnl => if e.hasLlnl then some (bdot e.aL e.bL e.bdotL e.mu z dha) else none
  | .llnlCO2 => if e.hasLlnl then some e.lgCO2 else none
  | .actWater => some (actWater e.laH2O e.gfwWater)
  | .exchange => none
  | .surface => none

/-! ## LLNL temperature grid (`gammas`, the block under `if (llnl_temp.size() > 0)`) -/

/-- the search loop: `ifirst` = last index seen with `tc >= t[i]`, `ilast` = first index with `tc <= t[i]`
(`n` when there is none) -/
def searchGo (tc : α) (n : Nat) : List α → Nat → Nat → Nat × Nat
  | [], _, ifirst => (ifirst, n)
  | t :: rest, i, ifirst =>
    let ifirst' := if t ≤ tc then i else ifirst
    if tc ≤ t then (ifirst', i) else searchGo tc n rest (i + 1) ifirst'

def search (ts : List α) (tc : α) : Nat × Nat := searchGo tc ts.length ts 0 0

/-- interpolation weight `f` -/
def weight (ts : List α) (tc : α) (ifirst ilast : Nat) : α :=
  if ilast = ifirst then lit 1
  else (tc - ts.getD ifirst (lit 0)) / (ts.getD ilast (lit 0) - ts.getD ifirst (lit 0))

/-- `(1 - f) * v[ifirst] + f * v[ilast]` -/
def blend (f : α) (vs : List α) (ifirst ilast : Nat) : α :=
  (lit 1 - f) * vs.getD ifirst (lit 0) + f * vs.getD ilast (lit 0)

/-- out of range → the code stops with "Temperature out of range of LLNL_AQUEOUS_MODEL parameters" -/
def inRange (ts : List α) (tc : α) : Bool :=
  match ts with
  | [] => false
  | t0 :: _ => !(decide (tc < t0) || decide (ts.getLastD t0 < tc))

/-- interpolated value of one LLNL array at `tc` -/
def interp (ts vs : List α) (tc : α) : Option α :=
  if inRange ts tc then
    let (i, j) := search ts tc
    some (blend (weight ts tc i j) vs i j)
  else none

end PhreeqcVerif.Gamma
