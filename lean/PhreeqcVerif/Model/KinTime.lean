import PhreeqcVerif.Model.NumOps
/-! Time bookkeeping of kinetic calculations.

* `currentStep` — `cxxKinetics::Current_step` (cxxKinetics.cxx): the kinetic time of reaction step `reaction_step`
  (1-based) for cumulative / incremental bookkeeping and for the two ways of writing `-steps`;
* `reactionSteps` — `cxxKinetics::Get_reaction_steps`;
* `batch` — the loop of `Phreeqc::reactions` (mainsubs.cpp): which (start time, kinetic time) each call of
  `run_reactions` gets (`rate_sim_time_start`, `kin_time`);
* `restartBody` / `restartRun` — the CVODE restart loop of `Phreeqc::run_reactions` as an interpreter of the
  straight-line assignments the translator reads from the source (`Gen/RKTableau.restartProg`). -/
namespace PhreeqcVerif.KinTime
open PhreeqcVerif

section
variable {α : Type} [NumOps α]

/-- `cxxKinetics::Current_step(incremental_reactions, reaction_step)`; `ofNat` converts the integer counters as the
C casts do -/
def currentStep (ofNat : Nat → α) (steps : List α) (count : Nat) (equalIncrements incremental : Bool) (reactionStep : Nat) : α :=
  match steps with
  | [] => ofNat 1
  | s0 :: _ =>
    if !incremental then
      if !equalIncrements then
        if steps.length < reactionStep then steps.getD (steps.length - 1) s0 else steps.getD (reactionStep - 1) s0
      else
        if count < reactionStep then s0 else ofNat reactionStep * s0 / ofNat count
    else
      if !equalIncrements then
        if steps.length < reactionStep then steps.getD (steps.length - 1) s0 else steps.getD (reactionStep - 1) s0
      else
        if count < reactionStep then ofNat 0 else s0 / ofNat count

def reactionSteps (steps : List α) (count : Nat) (equalIncrements : Bool) : Nat :=
  if equalIncrements then count else steps.length

/-- the calls `run_reactions(-2, kin_time, ...)` of `Phreeqc::reactions` with `rate_sim_time_start` at each call:
cumulative steps restart from the initial state at time 0, incremental steps continue -/
def batch (ofNat : Nat → α) (steps : List α) (count : Nat) (equalIncrements incremental : Bool) : List (α × α) :=
  let n := reactionSteps steps count equalIncrements
  let rec go (k : Nat) (i : Nat) (start : α) (acc : List (α × α)) : List (α × α) :=
    match k with
    | 0 => acc.reverse
    | k + 1 =>
      let kt := currentStep ofNat steps count equalIncrements incremental i
      go k (i + 1) (if incremental then start + kt else start) ((start, kt) :: acc)
  go n 1 (ofNat 0) []

end

/-! ### CVODE restart loop (exact arithmetic) -/

/-- environment: 0 tout, 1 sum_t, 2 cvode_last_good_time, 3 tout1, 4 t -/
abbrev Env := List Rat

def evalLin (coefs : List Rat) (const : Rat) (env : Env) : Rat :=
  ((coefs.zip env).map fun p => p.1 * p.2).foldl (· + ·) const

/-- run the straight-line assignments read from the source -/
def restartBody (prog : List (Nat × List Rat × Rat)) (env : Env) : Env :=
  prog.foldl (fun e a => e.set a.1 (evalLin a.2.1 a.2.2 e)) env

/-- one failed CVode call reached `last` (= cvode_last_good_time) before giving up; the loop body then decides the end time
of the next call.  `restartRun` returns (total time covered by the failed calls as seen by the integrator, end time handed
to the final successful call).  `lasts` are the `cvode_last_good_time` values of the successive failed calls. -/
def restartRun (prog : List (Nat × List Rat × Rat)) (callArg : Nat) (tout : Rat) (lasts : List Rat) : Rat × Rat :=
  let rec go (ls : List Rat) (env : Env) (covered : Rat) (arg : Rat) : Rat × Rat :=
    match ls with
    | [] => (covered, arg)
    | l :: rest =>
      let env := restartBody prog (env.set 2 l)
      go rest env (covered + l) (env.getD callArg 0)
  go lasts [tout, 0, 0, 0, 0] 0 tout

/-- the linear map of the loop body on (tout, sum_t, last): images of the unit vectors and of 0 (constant part) -/
def bodyOn (prog : List (Nat × List Rat × Rat)) (v : Env) : Env := restartBody prog v

end PhreeqcVerif.KinTime
