"""Translator (C16): data-flow normal form of the activity-coefficient code that `Model/Gamma.lean` and
`Model/Pitzer.lean` transcribe, read from the CURRENT source -> lean/PhreeqcVerif/Gen/GammaSrc.lean.

The functions are parsed by clang (`-Xclang -ast-dump=json`, typed AST of the translation unit as it is compiled, so
`#if`, macros and casts are resolved) and executed *symbolically*:
  * every local variable, hoisted sub-expression and named constant is inlined (SSA: a name stands for the operator tree
    last assigned to it); declarations and initialisations that are overwritten before use disappear;
  * `x += e` is `x = x + e`; chained assignments assign every target; casts and parentheses vanish (the tree keeps the order);
  * `if` merges both branches into `ite(c, a, b)`; `switch` is expanded per label through fall-through and `break`, the labels
    sorted; `continue` / `return` / `break` turn into guards of the statements they skip;
  * a loop becomes, for every variable it updates, `fold(<domain>, init, per-iteration update)` with the loop variable
    renamed `$k<depth>`, so the position of independent loops and statements does not matter;
  * writes through `a[i]` / `a[i]->f` are `store`s on the array family, in source order per family;
  * a file-static helper whose body is one `return` is substituted into its call sites;
  * guards that only test a pointer for NULL and only return / continue / report an error are ignored.
What reaches Lean is, per function, the list (sorted by name) of the operator trees of the quantities the function stores
outside its own locals — e.g. `LGAMMA[]`, `COSMOT`, `AW`, `s_x[]->lg` per `gflag` case, `*etheta`, `$ret`.
`Properties/C16.lean` proves (by `rfl`) that these are the trees the models were written from.

Functions: pitzer(), G, GP, ETHETAS, calc_pitz_param, pitzer_tidy (ln_coef / os_coef / alpha), sit(), calc_sit_param,
gammas() (aqueous gflag cases, LLNL block), read_species (gflag / dha / dhb per option, with the option table).
Fails closed (RuntimeError -> protocol P) when a function or an AST shape is not recognised."""
import concurrent.futures
import json
import re
import subprocess
from pathlib import Path

import vlib


class Shape(RuntimeError):
    pass


_INTERN = {}


def T(*p):
    """hash-consed node: structurally equal trees are the same object (`is` decides equality, DAGs stay small)"""
    key = tuple(("#", id(x)) if isinstance(x, tuple) else x for x in p)
    r = _INTERN.get(key)
    if r is None:
        r = p
        _INTERN[key] = r
    return r


LIBM = {"exp", "log", "log10", "sqrt", "fabs", "pow", "sscanf", "strcmp", "strstr", "snprintf", "abs", "floor", "sprintf"}
TRUE = T("int", 1)
FALSE = T("int", 0)
SKIP = {"ImplicitCastExpr", "ParenExpr", "CStyleCastExpr", "CXXStaticCastExpr", "CXXFunctionalCastExpr", "ExprWithCleanups",
        "MaterializeTemporaryExpr", "ConstantExpr", "CXXBindTemporaryExpr", "FullExpr"}


# ------------------------------------------------------------------------------------------------------------ clang
def clang_dump(cpp, flt):
    cmd = ["clang++-14", "-std=gnu++17", "-fsyntax-only", "-w", "-DSWIG_SHARED_OBJ", "-DUSE_PHRQ_ALLOC",
           f"-I{vlib.REPO}/src", f"-I{vlib.REPO}/src/phreeqcpp", f"-I{vlib.REPO}/src/phreeqcpp/common",
           f"-I{vlib.REPO}/src/phreeqcpp/PhreeqcKeywords", "-Xclang", "-ast-dump=json", "-Xclang", f"-ast-dump-filter={flt}",
           str(cpp)]
    r = subprocess.run(cmd, text=True, capture_output=True, timeout=300)
    if r.returncode:
        raise Shape(f"gen_pitzer: clang failed on {cpp}: {r.stderr[-300:]}")
    dec = json.JSONDecoder()
    s, i, objs = r.stdout, 0, []
    while True:
        while i < len(s) and s[i] in " \n\r\t":
            i += 1
        if i >= len(s):
            break
        o, i = dec.raw_decode(s, i)
        objs.append(o)
    return objs


def find_def(cpp, name, qualified=True):
    """the definition (with body) of function `name` in the translation unit of `cpp`"""
    objs = clang_dump(cpp, ("Phreeqc::" if qualified else "") + name)
    for o in objs:
        if o.get("name") == name and o.get("kind") in ("CXXMethodDecl", "FunctionDecl") and \
                any(c.get("kind") == "CompoundStmt" for c in o.get("inner", [])):
            return o
    raise Shape(f"gen_pitzer: definition of {name} not found in {Path(cpp).name}")


# ------------------------------------------------------------------------------------------------- expression helpers
def ite(c, a, b):
    if a is b:
        return a
    if c is TRUE:
        return a
    if c is FALSE:
        return b
    if a is FALSE and b is TRUE:
        return lnot(c)
    if a is TRUE and b is FALSE:
        return c
    if a[0] == "ite" and a[1] is c:
        a = a[2]
    if b[0] == "ite" and b[1] is c:
        b = b[3]
    if c[0] == "un" and c[1] == "!":
        return ite(c[2], b, a)
    if a is b:
        return a
    return T("ite", c, a, b)


def _flat(e, out):
    if e[0] == "bin" and e[1] == "&&":
        _flat(e[2], out)
        _flat(e[3], out)
    else:
        out.append(e)


def conj(items):
    """conjunction in canonical form: flattened, without duplicates, sorted by text; `x && !x` and `x && !(x && ..)` are
    simplified (guards only — the conjuncts are side-effect free conditions)"""
    parts = []
    for it in items:
        _flat(it, parts)
    changed = True
    while changed:
        changed = False
        uniq = []
        for x in parts:
            if x is TRUE or any(x is y for y in uniq):
                continue
            uniq.append(x)
        parts = uniq
        if any(x is FALSE for x in parts):
            return FALSE
        for x in parts:
            if x[0] == "un" and x[1] == "!":
                inner = []
                _flat(x[2], inner)
                rest = [q for q in inner if not any(q is y for y in parts)]
                if not rest:
                    return FALSE
                if len(rest) < len(inner):
                    parts = [y for y in parts if y is not x] + [lnot(conj(rest))]
                    changed = True
                    break
    if not parts:
        return TRUE
    parts.sort(key=render)
    r = parts[0]
    for x in parts[1:]:
        r = T("bin", "&&", r, x)
    return r


def land(a, b):
    return conj([a, b])


def bmerge(c, a, b):
    """(c && a) || (!c && b) for the control flags"""
    if a is b:
        return a
    if a is FALSE:
        return conj([lnot(c), b])
    if b is FALSE:
        return conj([c, a])
    return ite(c, a, b)


def lnot(a):
    if a is TRUE:
        return FALSE
    if a is FALSE:
        return TRUE
    if a[0] == "un" and a[1] == "!":
        return a[2]
    return T("un", "!", a)


def _render_with(e, render):
    k = e[0]
    if k == "num":
        return repr(e[1])
    if k == "int":
        return str(e[1])
    if k == "sym":
        return e[1]
    if k == "str":
        return "'" + e[1] + "'"
    if k == "bin":
        return "(" + render(e[2]) + " " + e[1] + " " + render(e[3]) + ")"
    if k == "un":
        return e[1] + render(e[2])
    if k == "call":
        return e[1] + "(" + ", ".join(render(a) for a in e[2:]) + ")"
    if k == "idx":
        return render(e[1]) + "[" + render(e[2]) + "]"
    if k == "mem":
        return render(e[1]) + e[2] + e[3]
    if k == "deref":
        return "*" + render(e[1])
    if k == "addr":
        return "&" + render(e[1])
    if k == "ite":
        return "ite(" + render(e[1]) + ", " + render(e[2]) + ", " + render(e[3]) + ")"
    if k == "fam":
        return e[1]
    if k == "prev":
        return "$prev" + str(e[2]) + "{" + e[1] + "}"
    if k == "store":
        return "store(" + render(e[1]) + ", " + render(e[2]) + " := " + render(e[3]) + ")"
    if k == "sel":
        return "sel(" + render(e[1]) + ", " + render(e[2]) + ")"
    if k == "fold":
        return ("fold(" + e[1] + "; init " + render(e[2]) + "; step " + render(e[3]) +
                ("; exit " + render(e[4]) if e[4] is not FALSE else "") + ")")
    if k == "switch":
        return ("switch(" + render(e[1]) + "; " + "; ".join(c[1] + " -> " + render(c[2]) for c in e[3:]) +
                "; else -> " + render(e[2]) + ")")
    if k == "ix":
        return "[" + "; ".join(render(i) for i in e[1:]) + "]"
    if k == "seq":
        return "[" + " ;; ".join(render(a) for a in e[1:]) + "]"
    raise Shape(f"gen_pitzer: cannot render {k}")


def render(e):
    return _render_with(e, render)


ATOMS = {"num", "int", "sym", "str", "fam", "prev"}


def render_shared(root):
    """rendering of a DAG: a sub-tree used more than once is named `t<n>` (numbered in order of first completion of a
    left-to-right depth-first walk, so the text is a function of the tree alone) and defined once in front"""
    uses = {}
    order = []
    stack = [(root, False)]
    while stack:
        x, done = stack.pop()
        if done:
            order.append(x)
            continue
        if id(x) in uses:
            uses[id(x)] += 1
            continue
        uses[id(x)] = 1
        stack.append((x, True))
        for y in reversed([y for y in x if isinstance(y, tuple)]):
            stack.append((y, False))
    names = {}
    defs = []
    memo = {}

    def r(e):
        if id(e) in names:
            return names[id(e)]
        return r1(e)

    def r1(e):
        if id(e) in memo:
            return memo[id(e)]
        v = _render_with(e, r)
        memo[id(e)] = v
        return v
    for x in order:          # post-order: children before parents
        if x is root:
            continue
        if uses[id(x)] > 1 and x[0] not in ATOMS and len(x) > 1:
            text = r1(x)
            if len(text) > 12:
                names[id(x)] = f"t{len(defs) + 1}"
                defs.append(f"t{len(defs) + 1} := {text}")
    body = r1(root)
    return "; ".join(defs + [body])


# -------------------------------------------------------------------------------------------------- symbolic executor
class Exec:
    def __init__(self, cpp, fdecl):
        self.cpp = cpp
        self.locals = set()
        self.depth = 0
        self.brk = []            # stack of 'loop' / 'switch'
        self.helpers = {}
        self.writes = None       # set collecting written keys (first pass over a loop body)
        self.fdecl = fdecl

    # ---- lvalues: (key, family?, indices)
    def lval(self, n, env):
        k = n["kind"]
        if k in SKIP:
            return self.lval(self.kids(n)[0], env)
        if k == "DeclRefExpr":
            return (n["referencedDecl"]["name"], None, T("ix"))
        if k == "MemberExpr":
            base = self.kids(n)[0]
            if self.is_this(base):
                return (n["name"], None, T("ix"))
            bk, fam, idx = self.lval(base, env)
            op = "->" if n.get("isArrow") else "."
            return (bk + op + n["name"], (fam + op + n["name"]) if fam else None, idx)
        if k == "UnaryOperator" and n.get("opcode") == "*":
            bk, fam, idx = self.lval(self.kids(n)[0], env)
            return ("*" + bk, ("*" + fam) if fam else None, idx)
        if k in ("ArraySubscriptExpr", "CXXOperatorCallExpr"):
            ch = self.kids(n)
            if k == "CXXOperatorCallExpr":
                ch = ch[1:]
            bk, fam, idx = self.lval(ch[0], env)
            i = self.ev(ch[1], env)
            if fam is None and bk in env:
                # a pointer that holds the address of an array element: p[i] is a[off + i]
                pv = env[bk]

                def shift(q):
                    if q[0] == "addrix":
                        off = q[2]
                        return q[1], (T("int", off[1] + i[1]) if off[0] == "int" and i[0] == "int" else T("bin", "+", off, i))
                    return None, None
                if pv[0] == "addrix":
                    bk, i = shift(pv)
                elif pv[0] == "ite" and pv[2][0] == "addrix" and pv[3][0] == "addrix" and pv[2][1] == pv[3][1]:
                    bk = pv[2][1]
                    i = ite(pv[1], shift(pv[2])[1], shift(pv[3])[1])
            return (bk + "[" + render(i) + "]", (fam or bk) + "[]", T("ix", *idx[1:], i))
        raise Shape(f"gen_pitzer: unsupported lvalue {k}")

    def kids(self, n):
        return [c for c in n.get("inner", []) if c]

    def is_this(self, n):
        while n["kind"] in SKIP:
            n = self.kids(n)[0]
        return n["kind"] == "CXXThisExpr"

    def read(self, key, fam, idx, env):
        if fam is None:
            if key in env:
                return env[key]
            return T("sym", key)
        def concrete(ix):
            return all(q[0] == "int" for q in ix[1:])
        if fam in env:
            arr = env[fam]
            # sel(store(a, i, v), i) = v ; a store at a different constant index is transparent
            while arr[0] == "store":
                if arr[2] is idx:
                    return arr[3]
                if concrete(idx) and concrete(arr[2]):
                    arr = arr[1]
                    continue
                break
            if arr[0] == "fam":
                return T("sym", key)
            return T("sel", arr, idx)
        base = fam[:-2] if fam.endswith("[]") else None
        if base in env and env[base][0] == "call" and env[base][1] == "init" and len(idx) == 2:
            tab = env[base][2:]

            def elem(q):
                if q[0] == "int" and 0 <= q[1] < len(tab):
                    return tab[q[1]]
                if q[0] == "ite":
                    a, b = elem(q[2]), elem(q[3])
                    if a is not None and b is not None:
                        return ite(q[1], a, b)
                return None
            v = elem(idx[1])
            if v is not None:
                return v
        return T("sym", key)

    def guard(self, env):
        """condition under which the statement being executed runs: not returned, not continued / broken out, switch alive"""
        return conj([env.get("$flive", TRUE), env.get("$live", TRUE), env.get("$sw", TRUE)])

    def lguard(self, env):
        """the same without the function-level part: a local scalar is dead once the function has returned, so whether a
        write to it happened after a `return` cannot be observed"""
        return conj([env.get("$live", TRUE), env.get("$sw", TRUE)])

    def write(self, key, fam, idx, val, env):
        g = self.guard(env)
        if g is FALSE:
            return
        if fam is None and key in self.locals:
            g = self.lguard(env)
        if fam is None:
            if key not in env and key in self.locals:
                env[key] = val           # a local that holds nothing yet: the guard cannot matter to any defined read
            else:
                env[key] = ite(g, val, env.get(key, T("sym", key)))
            if self.writes is not None:
                self.writes.add(key)
        else:
            arr = env.get(fam, T("fam", fam))
            if g is not TRUE:
                val = ite(g, val, self.read(key, fam, idx, env))
            env[fam] = T("store", arr, idx, val)
            if self.writes is not None:
                self.writes.add(fam)

    # ---- expressions
    def ev(self, n, env):
        k = n["kind"]
        if k in SKIP:
            return self.ev(self.kids(n)[0], env)
        if k == "FloatingLiteral":
            return T("num", float(n["value"]))
        if k == "IntegerLiteral":
            return T("int", int(n["value"]))
        if k in ("CXXNullPtrLiteralExpr", "GNUNullExpr"):
            return T("sym", "NULL")
        if k == "CXXBoolLiteralExpr":
            return TRUE if n.get("value") else FALSE
        if k == "StringLiteral":
            return T("str", n.get("value", "").strip('"'))
        if k == "CharacterLiteral":
            return T("int", int(n["value"]))
        if k == "CXXThisExpr":
            return T("sym", "this")
        if k == "DeclRefExpr":
            d = n["referencedDecl"]
            if d.get("kind") == "EnumConstantDecl":
                return T("sym", d["name"])
            return self.read(d["name"], None, T("ix"), env)
        if k in ("MemberExpr", "ArraySubscriptExpr") or (k == "UnaryOperator" and n.get("opcode") == "*"):
            key, fam, idx = self.lval(n, env)
            return self.read(key, fam, idx, env)
        if k == "CXXOperatorCallExpr":
            ch = self.kids(n)
            callee = ch[0]
            while callee["kind"] in SKIP:
                callee = self.kids(callee)[0]
            opname = callee.get("referencedDecl", {}).get("name", "")
            if opname == "operator[]":
                key, fam, idx = self.lval(n, env)
                return self.read(key, fam, idx, env)
            return T("call", opname, *[self.ev(c, env) for c in ch[1:]])
        if k == "UnaryOperator":
            op = n["opcode"]
            a = self.kids(n)[0]
            if op in ("++", "--"):
                key, fam, idx = self.lval(a, env)
                old = self.read(key, fam, idx, env)
                self.write(key, fam, idx, T("bin", "+" if op == "++" else "-", old, T("int", 1)), env)
                return old if n.get("isPostfix") else self.read(key, fam, idx, env)
            if op == "&":
                b = a
                while b["kind"] in SKIP:
                    b = self.kids(b)[0]
                if b["kind"] == "ArraySubscriptExpr":
                    ch = self.kids(b)
                    bk, fam, idx = self.lval(ch[0], env)
                    if fam is None:
                        return T("addrix", bk, self.ev(ch[1], env))
                key, fam, idx = self.lval(a, env)
                return T("addr", T("sym", key))
            if op == "+":
                return self.ev(a, env)
            v = self.ev(a, env)
            if op == "!":
                return lnot(v)
            return T("un", op, v)
        if k == "BinaryOperator":
            op = n["opcode"]
            l, r = self.kids(n)
            if op == "=":
                v = self.ev(r, env)
                key, fam, idx = self.lval(l, env)
                self.write(key, fam, idx, v, env)
                return v
            if op == ",":
                self.ev(l, env)
                return self.ev(r, env)
            a, b = self.ev(l, env), self.ev(r, env)
            if a[0] == "int" and b[0] == "int" and op in ("+", "-", "*"):
                return T("int", {"+": a[1] + b[1], "-": a[1] - b[1], "*": a[1] * b[1]}[op])
            return T("bin", op, a, b)
        if k == "CompoundAssignOperator":
            l, r = self.kids(n)
            key, fam, idx = self.lval(l, env)
            old = self.read(key, fam, idx, env)
            v = T("bin", n["opcode"][:-1], old, self.ev(r, env))
            self.write(key, fam, idx, v, env)
            return v
        if k == "ConditionalOperator":
            c, a, b = self.kids(n)
            return ite(self.ev(c, env), self.ev(a, env), self.ev(b, env))
        if k in ("CallExpr", "CXXMemberCallExpr"):
            return self.call(n, env)
        if k == "UnaryExprOrTypeTraitExpr":
            return T("sym", "sizeof")
        if k in ("CXXConstructExpr", "CXXTemporaryObjectExpr"):
            ch = self.kids(n)
            if len(ch) == 1:
                return self.ev(ch[0], env)
            return T("call", "construct", *[self.ev(c, env) for c in ch])
        if k == "CXXDefaultArgExpr":
            return T("sym", "default")
        if k == "InitListExpr":
            return T("call", "init", *[self.ev(c, env) for c in self.kids(n)])
        if k in ("CXXDeleteExpr", "CXXNewExpr", "LambdaExpr", "CXXThrowExpr"):
            return T("sym", "$" + k)
        if k.endswith("Expr") or k.endswith("Literal"):
            # a kind without arithmetic meaning here (assert machinery, string objects ...): kept as an opaque node
            return T("call", "$" + k, *[self.ev(c, env) for c in self.kids(n) if "kind" in c and
                                        (c["kind"].endswith("Expr") or c["kind"].endswith("Literal") or c["kind"].endswith("Operator"))])
        raise Shape(f"gen_pitzer: unsupported expression {k}")

    def call(self, n, env):
        ch = self.kids(n)
        callee = ch[0]
        while callee["kind"] in SKIP:
            callee = self.kids(callee)[0]
        args_nodes = ch[1:]
        if callee["kind"] == "MemberExpr":
            name = callee["name"]
            base = self.kids(callee)[0] if self.kids(callee) else None
            if base is not None and not self.is_this(base):
                # method of another object: x.size(), p->Get_n() ...
                return T("call", name, self.ev(base, env), *[self.ev(a, env) for a in args_nodes])
            is_method = True
        else:
            name = callee.get("referencedDecl", {}).get("name", "?")
            is_method = False
        if not is_method and name not in LIBM:
            h = self.helper(name)
            if h is not None:
                params, ret = h
                sub = dict(zip(params, [self.ev(a, env) for a in args_nodes]))
                return self.ev(ret, dict(sub))
        args = []
        outs = []
        for a in args_nodes:
            b = a
            while b["kind"] in SKIP:
                b = self.kids(b)[0]
            if b["kind"] == "UnaryOperator" and b.get("opcode") == "&":
                key, fam, idx = self.lval(self.kids(b)[0], env)
                outs.append((len(args), key, fam, idx))
                args.append(T("addr", T("sym", fam or key)))
            else:
                args.append(self.ev(a, env))
        res = T("call", name, *args)
        for pos, key, fam, idx in outs:
            self.write(key, fam, idx, T("call", name + "#out" + str(pos), *[a for a in args if a[0] != "addr"]), env)
        return res

    def helper(self, name):
        """(parameter names, return expression node) of a file-static function whose body is a single `return e;`"""
        if name in self.helpers:
            return self.helpers[name]
        res = None
        try:
            d = find_def(self.cpp, name, qualified=False)
            if d.get("kind") == "FunctionDecl" and d.get("storageClass") == "static":
                params = [c["name"] for c in d.get("inner", []) if c.get("kind") == "ParmVarDecl"]
                body = [c for c in d["inner"] if c.get("kind") == "CompoundStmt"][0]
                st = [c for c in body.get("inner", []) if c.get("kind") != "NullStmt"]
                if len(st) == 1 and st[0]["kind"] == "ReturnStmt":
                    res = (params, self.kids(st[0])[0])
        except Shape:
            res = None
        self.helpers[name] = res
        return res

    # ---- statements
    def only_exits(self, n):
        """statement consists only of return / continue / break / error reports"""
        k = n["kind"]
        if k == "CompoundStmt":
            return all(self.only_exits(c) for c in self.kids(n))
        if k in ("ReturnStmt", "ContinueStmt", "NullStmt"):
            return True
        if k in SKIP:
            return self.only_exits(self.kids(n)[0])
        if k in ("CallExpr", "CXXMemberCallExpr"):
            c = self.kids(n)[0]
            while c["kind"] in SKIP:
                c = self.kids(c)[0]
            return c.get("name", c.get("referencedDecl", {}).get("name")) in ("error_msg", "warning_msg")
        return False

    def null_test(self, n):
        while n["kind"] in SKIP and n["kind"] != "ImplicitCastExpr":
            n = self.kids(n)[0]
        k = n["kind"]
        if k == "ImplicitCastExpr":
            return self.null_test(self.kids(n)[0])
        if k == "BinaryOperator" and n["opcode"] in ("||", "&&"):
            return all(self.null_test(c) for c in self.kids(n))
        if k == "BinaryOperator" and n["opcode"] in ("==", "!="):
            return any(self.is_null(c) for c in self.kids(n))
        return False

    def is_null(self, n):
        if n["kind"] in ("CXXNullPtrLiteralExpr", "GNUNullExpr"):
            return True
        if n["kind"] == "ImplicitCastExpr" and n.get("castKind") == "NullToPointer":
            return True
        if n["kind"] in SKIP:
            return self.is_null(self.kids(n)[0])
        return False

    def stmt(self, n, env):
        if self.guard(env) is FALSE:
            return
        k = n["kind"]
        if k == "CompoundStmt":
            for c in self.kids(n):
                self.stmt(c, env)
        elif k == "DeclStmt":
            for d in self.kids(n):
                if d.get("kind") != "VarDecl":
                    continue
                self.locals.add(d["name"])
                init = [c for c in self.kids(d) if "Expr" in c["kind"] or "Literal" in c["kind"] or "Operator" in c["kind"]]
                if init:
                    self.write(d["name"], None, T("ix"), self.ev(init[0], env), env)
                else:
                    env.pop(d["name"], None)
        elif k == "NullStmt":
            pass
        elif k == "IfStmt":
            ch = self.kids(n)
            cond, then = ch[0], ch[1]
            els = ch[2] if len(ch) > 2 else None
            if els is None and self.null_test(cond) and self.only_exits(then):
                return
            c = self.ev(cond, env)
            e1 = dict(env)
            self.stmt(then, e1)
            e2 = dict(env)
            if els is not None:
                self.stmt(els, e2)
            for key in set(e1) | set(e2):
                a = e1.get(key, self.initial(key))
                b = e2.get(key, self.initial(key))
                if key in ("$live", "$sw", "$break", "$flive"):
                    env[key] = bmerge(c, a, b)
                else:
                    env[key] = a if a is b else ite(c, a, b)
        elif k == "ReturnStmt":
            ch = self.kids(n)
            g = self.guard(env)
            if ch:
                v = self.ev(ch[0], env)
                env["$ret"] = ite(g, v, env.get("$ret", T("sym", "$noret")))
            env["$flive"] = land(env.get("$flive", TRUE), lnot(g))
            if self.depth > 0:
                env["$live"] = land(env.get("$live", TRUE), lnot(g))
        elif k == "ContinueStmt":
            env["$live"] = land(env.get("$live", TRUE), lnot(self.guard(env)))
        elif k == "BreakStmt":
            g = self.guard(env)
            if self.brk and self.brk[-1] == "switch":
                env["$sw"] = land(env.get("$sw", TRUE), lnot(g))
            else:
                env["$break"] = ite(g, TRUE, env.get("$break", FALSE))
                env["$live"] = land(env.get("$live", TRUE), lnot(g))
        elif k in ("ForStmt", "WhileStmt", "DoStmt"):
            self.loop(n, env)
        elif k == "SwitchStmt":
            self.switch(n, env)
        elif k in ("CallExpr", "CXXMemberCallExpr"):
            c = self.kids(n)[0]
            while c["kind"] in SKIP:
                c = self.kids(c)[0]
            nm = c.get("name", c.get("referencedDecl", {}).get("name"))
            if nm in ("error_msg", "warning_msg", "output_msg", "log_msg"):
                return
            v = self.ev(n, env)
            g = self.guard(env)
            old = env.get("$calls", T("seq"))
            new = T("seq", *old[1:], v) if old[0] == "seq" else T("seq", old, v)
            env["$calls"] = ite(g, new, old)
            if self.writes is not None:
                self.writes.add("$calls")
        else:
            self.ev(n, env)

    def initial(self, key):
        if key in ("$live", "$sw", "$flive"):
            return TRUE
        if key == "$break":
            return FALSE
        if key == "$ret":
            return T("sym", "$noret")
        if key == "$calls":
            return T("seq")
        if key.endswith("[]") or "[]" in key:
            return T("fam", key)
        return T("sym", key)

    def loop(self, n, env):
        k = n["kind"]
        ch = n.get("inner", [])
        if k == "ForStmt":
            init, _, cond, inc, body = (ch + [None] * 5)[:5]
        elif k == "WhileStmt":
            init, inc = None, None
            cond, body = [c for c in ch if c][-2:]
        else:
            init, inc = None, None
            body, cond = [c for c in ch if c][:2]
        g0 = self.guard(env)
        if init and init.get("kind"):
            self.stmt(init, env)
        # loop variable: the one stepped by the increment
        var = None
        step = ""
        if inc and inc.get("kind"):
            b = inc
            while b["kind"] in SKIP:
                b = self.kids(b)[0]
            if b["kind"] == "UnaryOperator" and b.get("opcode") in ("++", "--"):
                var = self.lval(self.kids(b)[0], env)[0]
                step = b["opcode"]
            else:
                step = "step:" + render(self.ev(inc, dict(env)))
        start = env.get(var, T("sym", var)) if var else T("sym", "-")
        if start[0] == "ite" and start[1] is g0:
            start = start[2]          # the value the initialisation just stored (the loop only runs when the guard holds)
        # a loop over a constant range of at most 64 values is executed value by value
        if var and start[0] == "int" and step in ("++", "--") and cond and cond.get("kind"):
            c = cond
            while c["kind"] in SKIP:
                c = self.kids(c)[0]
            if c["kind"] == "BinaryOperator" and c.get("opcode") in ("<", "<=", ">", ">="):
                probe = dict(env)
                probe[var] = T("sym", "$probe")
                l, r = self.ev(self.kids(c)[0], probe), self.ev(self.kids(c)[1], probe)
                if l is T("sym", "$probe") and r[0] == "int":
                    op, bound, v, vals = c["opcode"], r[1], start[1], []
                    holds = {"<": lambda a: a < bound, "<=": lambda a: a <= bound, ">": lambda a: a > bound, ">=": lambda a: a >= bound}[op]
                    while holds(v) and len(vals) <= 64:
                        vals.append(v)
                        v += 1 if step == "++" else -1
                    if len(vals) <= 64:
                        self.brk.append("loop")
                        saved_live, saved_brk = env.get("$live", TRUE), env.pop("$break", None)
                        for v in vals:
                            env[var] = T("int", v)
                            env["$live"] = saved_live
                            self.stmt(body, env)
                            if env.get("$break") is not None:
                                raise Shape("gen_pitzer: break inside a loop over a constant range")
                        env["$live"] = saved_live
                        if saved_brk is not None:
                            env["$break"] = saved_brk
                        self.brk.pop()
                        env[var] = T("sym", "$after-loop")
                        return
        self.depth += 1
        d = self.depth
        kv = T("sym", f"$k{d}")
        e0 = dict(env)
        if var:
            e0[var] = kv
        dom_cond = render(self.ev(cond, dict(e0))) if cond and cond.get("kind") else "true"
        dom = f"$k{d} from {render(start)} {step} while {dom_cond}"
        # pass 1: which variables does the body write
        saved_w, self.writes = self.writes, set()
        e1 = dict(e0)
        e1["$live"] = TRUE
        e1.pop("$break", None)
        self.brk.append("loop")
        locals_before = set(self.locals)
        self.stmt(body, e1)
        written = set(self.writes) - {"$live", "$sw", "$break"}     # control flags are per iteration, not carried
        body_locals = self.locals - locals_before
        # pass 2: per-iteration update in terms of the values at the start of the iteration
        e2 = dict(e0)
        for key in written:
            e2[key] = T("prev", key, d)
        e2["$live"] = TRUE
        e2.pop("$break", None)
        self.writes = set()
        self.stmt(body, e2)
        self.brk.pop()
        self.writes = saved_w
        self.depth -= 1
        exitc = e2.get("$break", FALSE)
        g = self.guard(env)
        for key in sorted(written):
            if key in body_locals or key == var:
                continue
            upd = e2.get(key, T("prev", key, d))
            if upd is T("prev", key, d):
                continue
            init_v = env.get(key, self.initial(key))
            val = T("fold", dom, init_v, upd, exitc, key)
            env[key] = ite(g, val, init_v)
            if self.writes is not None:
                self.writes.add(key)
        if var:
            env[var] = T("sym", "$after-loop")
        for key in body_locals:
            env.pop(key, None)

    def switch(self, n, env):
        ch = self.kids(n)
        scrut = self.ev(ch[0], env)
        body = ch[-1]
        items = []            # ('label', text) | ('stmt', node)

        def flatten(node):
            kk = node["kind"]
            if kk == "CaseStmt":
                c = self.kids(node)
                lab = c[0]
                while lab["kind"] in SKIP and lab["kind"] != "ConstantExpr":
                    lab = self.kids(lab)[0]
                inner = lab
                while inner["kind"] in SKIP:
                    inner = self.kids(inner)[0]
                if inner["kind"] == "DeclRefExpr":
                    text = inner["referencedDecl"]["name"]
                elif inner["kind"] == "IntegerLiteral":
                    text = inner["value"]
                else:
                    text = str(lab.get("value", render(self.ev(inner, {}))))
                items.append(("label", text))
                flatten(c[-1])
            elif kk == "DefaultStmt":
                items.append(("label", "default"))
                flatten(self.kids(node)[-1])
            else:
                items.append(("stmt", node))
        for c in self.kids(body):
            flatten(c)
        labels = [(i, t) for i, (kind, t) in enumerate(items) if kind == "label"]
        results = {}
        self.brk.append("switch")
        for pos, lab in labels:
            e = dict(env)
            e["$sw"] = TRUE
            for kind, node in items[pos + 1:]:
                if kind == "stmt":
                    self.stmt(node, e)
            e["$sw"] = env.get("$sw", TRUE)
            results[lab] = e
        self.brk.pop()
        keys = set()
        for e in results.values():
            keys |= set(e)
        for key in keys:
            if key == "$sw":
                continue
            base = env.get(key, self.initial(key))
            vals = {lab: e.get(key, self.initial(key)) for lab, e in results.items()}
            dflt = vals.pop("default", base)
            if all(v is dflt for v in vals.values()):
                new = dflt
            else:
                new = T("switch", scrut, dflt, *[T("case", l, vals[l]) for l in sorted(vals) if vals[l] is not dflt])
            if new is not base:
                env[key] = new
                if self.writes is not None:
                    self.writes.add(key)

    def run(self):
        env = {}
        for c in self.fdecl.get("inner", []):
            if c.get("kind") == "ParmVarDecl" and "name" in c:
                qt = c.get("type", {}).get("qualType", "")
                if qt.endswith("&") and not qt.startswith("const"):
                    continue              # a reference parameter is a place the caller sees
                self.locals.add(c["name"])
        body = [c for c in self.fdecl["inner"] if c.get("kind") == "CompoundStmt"][0]
        self.stmt(body, env)
        out = {}
        for key, v in env.items():
            if key in ("$live", "$sw", "$break", "$flive"):
                continue
            root = re.split(r"[\[\.\-]", key.lstrip("*"))[0]
            through = key.startswith("*") or "->" in key or "[" in key or "." in key
            if key.startswith("$") or root not in self.locals or through:
                if v is not self.initial(key):
                    out[key] = v
        return out


def case_split(e, want):
    """the per-label values of the first `switch` tree reached from `e` that has the wanted labels"""
    found = {}
    seen = set()
    stack = [e]
    while stack:
        x = stack.pop()
        if not isinstance(x, tuple) or id(x) in seen:
            continue
        seen.add(id(x))
        if x and x[0] == "switch":
            labs = {c[1]: c[2] for c in x[3:]}
            if want & set(labs) and not found:
                found = {l: labs.get(l, x[2]) for l in want}
                break
        stack.extend(y for y in x if isinstance(y, tuple))
    return found


def normal_forms(cpp, name, keep=None, drop=None):
    ex = Exec(cpp, find_def(cpp, name))
    out = ex.run()
    res = {}
    for key, v in out.items():
        if keep is not None and not re.search(keep, key):
            continue
        if drop is not None and re.search(drop, key):
            continue
        res[key] = v
    return res


# ------------------------------------------------------------------------------------------------------------- tables
def extract():
    """-> (tables of rendered normal forms that stay listed, generated Lean definitions)"""
    root = vlib.REPO / "src" / "phreeqcpp"
    pz, st, md, rd = root / "pitzer.cpp", root / "sit.cpp", root / "model.cpp", root / "read.cpp"
    jobs = {
        "pitzer": (pz, "pitzer", None, r"^(\$calls|CONV)$"),
        "G": (pz, "G", None, None),
        "GP": (pz, "GP", None, None),
        "ETHETAS": (pz, "ETHETAS", None, r"^\$calls$"),
        "calc_pitz_param": (pz, "calc_pitz_param", r"^pz_ptr->p$", None),
        "sit": (st, "sit", None, r"^\$calls$"),
        "calc_sit_param": (st, "calc_sit_param", r"^pz_ptr->p$", None),
        "gammas": (md, "gammas", r"^(s_x\[\]->lg|a_llnl|b_llnl|bdot_llnl|\$ret)$", None),
        "pitzer_tidy": (pz, "pitzer_tidy", r"ln_coef|os_coef|->alpha", None),
        "read_species": (rd, "read_species", r"gflag|->dha|->dhb", None),
        "ETHETA_PARAMS": (pz, "ETHETA_PARAMS", r"^(JAY|JPRIME)$", None),
    }
    with concurrent.futures.ThreadPoolExecutor(max_workers=10) as pool:
        nfs = dict(zip(jobs, pool.map(lambda j: normal_forms(*j), jobs.values())))
    # normal forms that stay compared with a listed expectation: the assembly of the loops (what the generated
    # definitions below do not cover)
    listed = {"pitzerNF": nfs["pitzer"], "sitNF": nfs["sit"],
              "gammasNF": {k: v for k, v in nfs["gammas"].items() if k != "s_x[]->lg"},
              "tidyNF": nfs["pitzer_tidy"], "readSpeciesNF": nfs["read_species"]}
    tabs = {}
    for tab, nf in listed.items():
        rows = {key: render_shared(v) for key, v in nf.items()}
        if not rows:
            raise Shape(f"gen_pitzer: nothing recognised for {tab}")
        tabs[tab] = sorted(rows.items())
    defs = []
    defs += gammas_defs(nfs["gammas"])
    defs.append(emit_num("g_src", nfs["G"]["$ret"], "Pitzer")[0])
    defs.append(emit_num("gp_src", nfs["GP"]["$ret"], "Pitzer")[0])
    defs.append(emit_num("calc_param_src", nfs["calc_pitz_param"]["pz_ptr->p"], "Pitzer")[0])
    defs.append(emit_num("calc_sit_param_src", nfs["calc_sit_param"]["pz_ptr->p"], "Pitzer")[0])
    defs.append(emit_num("etheta_src", nfs["ETHETAS"]["*etheta"], "Pitzer")[0])
    defs.append(emit_num("ethetap_src", nfs["ETHETAS"]["*ethetap"], "Pitzer")[0])
    defs.append(emit_num_shared("jay_src", nfs["ETHETA_PARAMS"]["JAY"], "Pitzer"))
    defs.append(emit_num_shared("jprime_src", nfs["ETHETA_PARAMS"]["JPRIME"], "Pitzer"))
    defs += pitzer_defs(nfs["pitzer"])
    defs += sit_defs(nfs["sit"])
    return tabs, defs


def lean_str(s):
    return '"' + s.replace("\\", "\\\\").replace('"', '\\"') + '"'


def render_lean(tabs, defs):
    out = ["import PhreeqcVerif.Model.Gamma", "import PhreeqcVerif.Model.Pitzer",
           "/-! Generated by tools/gen_pitzer.py from src/phreeqcpp/{pitzer,sit,model,read}.cpp — do not edit.",
           "(1) Definitions produced mechanically from the data-flow normal forms of the source: the operator tree of a stored",
           "    quantity as a term over `[NumOps α]`; every non-arithmetic sub-tree (a variable, an array element, the result of",
           "    a loop) is a parameter, listed in the doc comment.  `Properties/C16.lean` proves them equal to the hand models.",
           "(2) Rendered normal forms of the loop assemblies that are compared with a listed expectation. -/",
           "namespace PhreeqcVerif.Gen.GammaSrc", "open PhreeqcVerif NumOps", ""]
    out += defs
    for k, v in tabs.items():
        out.append(f"def {k} : List (String × String) := [")
        out.append(",\n".join("  (" + lean_str(a) + ", " + lean_str(b) + ")" for a, b in v))
        out.append("]\n")
    out.append("end PhreeqcVerif.Gen.GammaSrc\n")
    return "\n".join(out)


def generate(ctx=None):
    tabs, defs = extract()
    text = render_lean(tabs, defs)
    out = vlib.LEAN / "PhreeqcVerif" / "Gen" / "GammaSrc.lean"
    if not out.exists() or out.read_text() != text:
        out.write_text(text)
    return dict({k: len(v) for k, v in tabs.items()}, generated_definitions=len(defs))




# =====================================================================================================================
# Lean terms from trees
# =====================================================================================================================
from decimal import Decimal          # noqa: E402
from fractions import Fraction       # noqa: E402

NONNUM = re.compile(r"size\(|->type\b|\bICON\b|IPRSNT|use_etheta|->in\b|NULL|_model\b|^\$k\d$|ilast|ifirst|->gflag|calculating_deriv")
ARITH = {"+", "-", "*", "/"}
REL = {"<", "<=", ">", ">=", "==", "!="}
FUNS = {"sqrt": "sqrt", "exp": "exp", "log": "ln", "log10": "log10"}
PK = r"(?:pitz|sit)_params\[param_list\[\$k1\]\]"
NICE = [(r"^sel\(.*IPRSNT.*ispec\[2\]\]\) == 0\)$", "absent_i2"),
        (r"^sel\(.*M\[\].*\[" + PK + r"->ispec\[0\]\]\)$", "m_i0"), (r"^sel\(.*M\[\].*\[" + PK + r"->ispec\[1\]\]\)$", "m_i1"),
        (r"^sel\(.*M\[\].*\[" + PK + r"->ispec\[2\]\]\)$", "m_i2"),
        (r"^spec\[" + PK + r"->ispec\[0\]\]->z$", "z_i0"), (r"^spec\[" + PK + r"->ispec\[1\]\]->z$", "z_i1"),
        (r"^" + PK + r"->p$", "p"), (r"^" + PK + r"->alpha$", "alpha"), (r"^" + PK + r"->os_coef$", "os"),
        (r"^" + PK + r"->ln_coef\[0\]$", "lnc0"), (r"^" + PK + r"->ln_coef\[1\]$", "lnc1"), (r"^" + PK + r"->ln_coef\[2\]$", "lnc2"),
        (r"^" + PK + r"->thetas->etheta$", "etheta"), (r"^" + PK + r"->thetas->ethetap$", "ethetap"),
        (r"^fold\(.*step \(\$prev1\{\w+\} \+ \(sel\(.*fabs\(spec\[s_list\[\$k1\]\]->z\)\)\)\)$", "bigZ"),
        (r"^\[?" + PK + r"->ispec\[0\]\]?$", "i0"), (r"^\[?" + PK + r"->ispec\[1\]\]?$", "i1"), (r"^\[?" + PK + r"->ispec\[2\]\]?$", "i2"),
        (r"^\(use_etheta == 1\)$", "use_etheta")]


def lit_of(v):
    """decimal literal of the source as `lit (n / 10^k)` (unreduced, the way the models write them)"""
    d = Decimal(repr(v)) if isinstance(v, float) else Decimal(v)
    sign, digits, exp = d.as_tuple()
    n = int("".join(map(str, digits)))
    if exp >= 0:
        n *= 10 ** exp
        den = 1
    else:
        den = 10 ** (-exp)
        while den > 1 and n % 10 == 0:
            n //= 10
            den //= 10
    body = str(n) if den == 1 else f"({n} / {den})"
    t = f"(lit {body})"
    return f"(-{t})" if sign else t


class LeanEmit:
    """one generated definition: the numeric tree as a term over `[NumOps α]`, every non-arithmetic sub-tree (a variable,
    an array element, the result of a loop …) a parameter"""

    def __init__(self, home, cuts=None):
        self.home = home
        self.atoms = []        # (node, name, type, text)
        self.names = set()
        self.cuts = cuts or {}   # id(node) -> parameter name: sub-trees that are parameters of this definition

    def atom(self, e, typ):
        for n, name, t, _ in self.atoms:
            if n is e:
                return name
        text = render(e)
        name = self.cuts.get(id(e))
        for rx, nm in NICE:
            if name is None and re.search(rx, text, re.S):
                name = nm
        if name is None:
            san = re.sub(r"[^A-Za-z0-9]+", "_", text.replace("$prev1", "old").replace("$k", "k")).strip("_")
            name = san if (0 < len(san) <= 28 and not san[0].isdigit()) else None
        if name is None or name in self.names or name in ("at", "in", "end", "fun", "do", "open", "from", "if", "then", "else"):
            name = f"x{len(self.atoms) + 1}"
        self.names.add(name)
        self.atoms.append((e, name, typ, text))
        return name

    def numeric(self, e):
        k = e[0]
        if k == "num":
            return True
        if k == "int":
            return None
        if k == "bin" and e[1] in ARITH:
            a, b = self.numeric(e[2]), self.numeric(e[3])
            return True if (a or b) else (False if (a is False or b is False) else None)
        if k == "un" and e[1] == "-":
            return self.numeric(e[2])
        if k == "call" and e[1] in ("sqrt", "exp", "log", "log10", "fabs", "pow", "G", "GP", "under"):
            return True
        if k == "ite":
            a, b = self.numeric(e[2]), self.numeric(e[3])
            return True if (a or b) else (False if (a is False and b is False) else None)
        if k == "bin" and (e[1] in REL or e[1] in ("&&", "||")):
            return False
        if k == "un" and e[1] == "!":
            return False
        return not NONNUM.search(render(e))

    def num(self, e):
        k = e[0]
        if id(e) in self.cuts:
            return self.atom(e, "α")
        if k == "num":
            return lit_of(e[1])
        if k == "int":
            return lit_of(str(e[1]))
        if k == "bin" and e[1] in ARITH:
            return f"({self.num(e[2])} {e[1]} {self.num(e[3])})"
        if k == "un" and e[1] == "-":
            return f"(-{self.num(e[2])})"
        if k == "call" and e[1] in FUNS and len(e) == 3:
            return f"({FUNS[e[1]]} {self.num(e[2])})"
        if k == "call" and e[1] == "fabs":
            return f"({self.home}.absv {self.num(e[2])})"
        if k == "call" and e[1] in ("G", "GP") and self.home == "Pitzer":
            return f"(Pitzer.{e[1]} {self.num(e[2])})"
        if k == "call" and e[1] == "pow" and e[3][0] == "num" and e[3][1] == 2.0:
            x = self.num(e[2])
            return f"({x} * {x})"                                  # pow(x, 2.0) is x * x
        if k == "call" and e[1] == "pow" and e[3][0] == "num" and e[3][1] == 1.5:
            x = self.num(e[2])
            return f"({x} * (sqrt {x}))"                           # pow(x, 1.5) is x * sqrt x
        if k == "call" and e[1] == "pow":
            return f"(Pitzer.powf {self.num(e[2])} {self.num(e[3])})"
        if k == "ite":
            c = e[1]
            neg = False
            if c[0] == "bin" and c[1] == "!=" and self.cmp_numeric(c):
                c, neg = T("bin", "==", c[2], c[3]), True
            a, b = (e[3], e[2]) if neg else (e[2], e[3])
            return f"(if {self.cond(c)} then {self.num(a)} else {self.num(b)})"
        return self.atom(e, "α")

    def cmp_numeric(self, c):
        a, b = self.numeric(c[2]), self.numeric(c[3])
        return a is not False and b is not False and (a or b)

    def pure_bool(self, e):
        """a condition without numeric comparison anywhere: becomes one Bool parameter"""
        k = e[0]
        if k == "bin" and e[1] in ("&&", "||"):
            return self.pure_bool(e[2]) and self.pure_bool(e[3])
        if k == "un" and e[1] == "!":
            return self.pure_bool(e[2])
        if k == "bin" and e[1] in REL:
            return not self.cmp_numeric(e)
        return True

    def cond(self, e):
        k = e[0]
        if self.pure_bool(e):
            return f"{self.atom(e, 'Bool')} = true"
        if k == "bin" and e[1] == "&&":
            return f"({self.cond(e[2])} ∧ {self.cond(e[3])})"
        if k == "bin" and e[1] == "||":
            return f"({self.cond(e[2])} ∨ {self.cond(e[3])})"
        if k == "un" and e[1] == "!":
            return f"(¬ {self.cond(e[2])})"
        if k == "bin" and e[1] in REL:
            a, b = self.num(e[2]), self.num(e[3])
            op = e[1]
            if op == "<":
                return f"{a} < {b}"
            if op == "<=":
                return f"{a} ≤ {b}"
            if op == ">":
                return f"{b} < {a}"
            if op == ">=":
                return f"{b} ≤ {a}"
            zero = e[3][0] in ("num", "int") and float(e[3][1]) == 0.0
            z = f"{self.home}.isZero {a}" if zero else f"{self.home}.isZero ({a} - {b})"
            return f"{z} = true" if op == "==" else f"(¬ ({z} = true))"
        raise Shape(f"gen_pitzer: cannot express condition {render(e)[:80]}")

    def nat(self, e):
        return self.atom(e, "Nat")

    def header(self, name, ret):
        doc = "; ".join(f"{n} = {t if len(t) < 160 else t[:157] + '...'}" for _, n, _, t in self.atoms)
        ps = " ".join(f"({n} : {t})" for _, n, t, _ in self.atoms)
        return (f"/-- atoms: {doc} -/\n" if doc else "") + \
            f"def {name} {{α : Type}} [NumOps α] [∀ a b : α, Decidable (a < b)] [∀ a b : α, Decidable (a ≤ b)] {ps} : {ret} :="


def emit_num(name, tree, home, cuts=None):
    em = LeanEmit(home, cuts)
    body = em.num(tree)
    return em.header(name, "α") + "\n  " + body + "\n", [(n, t, txt) for _, n, t, txt in em.atoms]


def emit_num_shared(name, tree, home, cuts=None):
    """like emit_num, for a DAG: a sub-tree used more than once becomes a `let`"""
    em = LeanEmit(home, cuts)
    uses, order, stack = {}, [], [(tree, False)]
    while stack:
        x, done = stack.pop()
        if done:
            order.append(x)
            continue
        if id(x) in uses:
            uses[id(x)] += 1
            continue
        uses[id(x)] = 1
        stack.append((x, True))
        for y in reversed([y for y in x if isinstance(y, tuple)]):
            stack.append((y, False))
    lets = []
    base_num = em.num

    def num(e):
        if id(e) in em.cuts and isinstance(em.cuts[id(e)], str) and em.cuts[id(e)].startswith("t_"):
            return em.cuts[id(e)]
        return base_num(e)
    em.num = num
    for x in order:
        if x is tree or uses[id(x)] < 2:
            continue
        if x[0] in ("bin", "un", "call") or (x[0] == "ite" and x[1][0] == "bin" and x[1][1] in REL and not em.pure_bool(x[1])):
            if x[0] == "bin" and x[1] not in ARITH:
                continue
            text = base_num(x)
            nm = f"t_{len(lets) + 1}"
            lets.append(f"  let {nm} := {text}")
            em.cuts[id(x)] = nm
    body = num(tree)
    return em.header(name, "α") + "\n" + "\n".join(lets) + ("\n" if lets else "") + "  " + body + "\n"


def stored(tree, idx):
    """value a tree of stores / ites leaves at index `idx` of the array family"""
    if tree[0] == "store" and tree[2] is idx:
        return tree[3]
    if tree[0] == "ite":
        return ite(tree[1], stored(tree[2], idx), stored(tree[3], idx))
    if tree[0] in ("prev", "fam"):
        return T("sel", tree, idx)
    raise Shape("gen_pitzer: store shape not recognised")


def find_all(tree, pred):
    out, seen, stack = [], set(), [tree]
    while stack:
        x = stack.pop()
        if not isinstance(x, tuple) or id(x) in seen:
            continue
        seen.add(id(x))
        if x and pred(x):
            out.append(x)
        stack.extend(reversed([y for y in x if isinstance(y, tuple)]))
    return out


def fold_of(tree, var, dom_part):
    """the fold node that defines `var` over a domain mentioning `dom_part`"""
    fs = find_all(tree, lambda x: x[0] == "fold" and len(x) > 5 and x[5] == var and dom_part in x[1])
    if not fs:
        raise Shape(f"gen_pitzer: loop over {dom_part} updating {var} not found")
    return fs[0]


def switch_cases(step):
    if step[0] != "switch":
        raise Shape("gen_pitzer: the parameter loop is not a switch over the parameter type")
    return {c[1]: c[2] for c in step[3:]}, step[2]


def addend(tree, prev):
    """`tree` is prev + A, possibly under guards: -> (A, [guards]) with guard = (cond, polarity)"""
    guards = []
    while True:
        if tree is prev:
            return None, guards
        if tree[0] == "ite":
            if tree[3] is prev:
                guards.append((tree[1], True))
                tree = tree[2]
                continue
            if tree[2] is prev:
                guards.append((tree[1], False))
                tree = tree[3]
                continue
        if tree[0] == "bin" and tree[1] == "+" and tree[2] is prev:
            return tree[3], guards
        if tree[0] == "ite" and all(b[0] == "bin" and b[1] == "+" and b[2] is prev for b in (tree[2], tree[3])):
            return T("ite", tree[1], tree[2][3], tree[3][3]), guards
        raise Shape("gen_pitzer: accumulation shape not recognised: " + render(tree)[:120])


def store_terms(tree, base):
    """a chain of stores on `base`, each adding to the element it overwrites: -> [(index node, addend, guards)]"""
    guards = []
    while tree[0] == "ite" and (tree[3] is base or tree[2] is base):
        if tree[3] is base:
            guards.append((tree[1], True))
            tree = tree[2]
        else:
            guards.append((tree[1], False))
            tree = tree[3]
    chain = []
    while tree is not base:
        if tree[0] != "store":
            raise Shape("gen_pitzer: store chain not recognised: " + render(tree)[:120])
        chain.append(tree)
        tree = tree[1]
    out = []
    for st in reversed(chain):
        arr, idx, val = st[1], st[2], st[3]
        old = arr[3] if (arr[0] == "store" and arr[2] is idx) else T("sel", arr, idx)
        a, g = addend(val, old)
        if a is None:
            raise Shape("gen_pitzer: store without addend")
        out.append((idx, a, guards + g))
    return out


class ListEmit(LeanEmit):
    def guard_text(self, guards):
        parts = []
        for c, pol in guards:
            neg = False
            if c[0] == "bin" and c[1] == "!=" and self.cmp_numeric(c):
                c, neg = T("bin", "==", c[2], c[3]), True
            t = self.cond(c)
            parts.append((t, pol != neg))
        return parts

    def terms(self, name, items):
        """items: [(index node, addend, guards)] with identical guards -> `if g then [(i, a), …] else []`"""
        gs = [tuple((id(c), p) for c, p in g) for _, _, g in items]
        if any(g != gs[0] for g in gs):
            raise Shape("gen_pitzer: additions of one parameter type under different guards")
        guards = self.guard_text(items[0][2]) if items else []
        elems = ", ".join(f"({self.nat(i[1])}, {self.num(a)})" for i, a, _ in items)
        body = f"[{elems}]"
        for t, pol in reversed(guards):
            body = f"(if {t} then {body} else [])" if pol else f"(if {t} then [] else {body})"
        return self.header(name, "List (Nat × α)") + "\n  " + body + "\n"

    def guarded_num(self, name, a, guards):
        body = self.num(a) if a is not None else "lit 0"
        for t, pol in reversed(self.guard_text(guards)):
            body = f"(if {t} then {body} else lit 0)" if pol else f"(if {t} then lit 0 else {body})"
        return self.header(name, "α") + "\n  " + body + "\n"


PTYPES = ["TYPE_B0", "TYPE_B1", "TYPE_B2", "TYPE_C0", "TYPE_THETA", "TYPE_LAMBDA", "TYPE_ZETA", "TYPE_PSI", "TYPE_ETHETA",
          "TYPE_MU", "TYPE_ETA"]


def specialize(tree, scrut, label):
    """the tree with every `switch` on `scrut` replaced by its branch for `label` (guards re-simplified)"""
    memo = {}

    def go(x):
        if not isinstance(x, tuple) or not x:
            return x
        r = memo.get(id(x))
        if r is not None:
            return r
        if x[0] == "switch" and x[1] is scrut:
            r = x[2]
            for c in x[3:]:
                if c[1] == label:
                    r = c[2]
            r = go(r)
        elif x[0] == "ite":
            r = ite(go(x[1]), go(x[2]), go(x[3]))
        elif x[0] == "bin" and x[1] == "&&":
            r = land(go(x[2]), go(x[3]))
        elif x[0] == "un" and x[1] == "!":
            r = lnot(go(x[2]))
        elif x[0] in ("num", "int", "sym", "str", "fam", "prev"):
            r = x
        else:
            r = T(*[go(y) if isinstance(y, tuple) else y for y in x])
        memo[id(x)] = r
        return r
    return go(tree)


def pitzer_defs(nf):
    """generated definitions for pitzer(): per parameter type the additions to LGAMMA / OSMOT / CSUM / F, the Debye-Hueckel
    start values, COSMOT and AW"""
    out = []
    cos = nf["COSMOT"]
    lgf = fold_of(nf["LGAMMA[]"], "LGAMMA[]", "param_list")
    if lgf[3][0] != "switch":
        raise Shape("gen_pitzer: the parameter loop is not a switch over the parameter type")
    scrut = lgf[3][1]
    labels = sorted(c[1] for c in lgf[3][3:])
    prevL = T("prev", "LGAMMA[]", 1)
    folds = find_all(T("seq", nf["LGAMMA[]"], cos), lambda x: x[0] == "fold" and "param_list" in x[1])
    osf = [f for f in find_all(cos, lambda x: x[0] == "fold" and "param_list" in x[1])][0]
    rest = [f for f in folds if f is not lgf and f is not osf]
    csf = [f for f in rest if f[2] is T("num", 0.0)]
    ffs = [f for f in rest if f[2] is not T("num", 0.0)]
    if len(csf) != 1 or not (1 <= len(ffs) <= 3):
        raise Shape("gen_pitzer: the CSUM / F loops were not recognised")
    fvar_seen = None
    for t in labels:
        short = t[5:].lower()
        em = ListEmit("Pitzer")
        out.append(em.terms(f"pz_ln_{short}", store_terms(specialize(lgf[3], scrut, t), prevL)))
        em = ListEmit("Pitzer")
        a, g = addend(specialize(osf[3], scrut, t), T("prev", osf[5], 1))
        out.append(em.guarded_num(f"pz_os_{short}", a, g))
        em = ListEmit("Pitzer")
        a, g = addend(specialize(csf[0][3], scrut, t), T("prev", csf[0][5], 1))
        out.append(em.guarded_num(f"pz_csum_{short}", a, g))
        fv = None
        for f in ffs:
            a, g = addend(specialize(f[3], scrut, t), T("prev", f[5], 1))
            if fv is not None and (a is not fv[0] or len(g) != len(fv[1])):
                raise Shape("gen_pitzer: F, F1, F2 receive different additions")
            fv = (a, g)
        em = ListEmit("Pitzer")
        out.append(em.guarded_num(f"pz_fvar_{short}", fv[0], fv[1]))
    uniq = []
    for f in ffs:
        if not any(f[2] is u for u in uniq):
            uniq.append(f[2])
    uniq.sort(key=lambda e: len(render(e)))
    for k, init in enumerate(uniq):
        out.append(emit_num(f"pz_f_init{k}", init, "Pitzer")[0])
    out.append(emit_num("pz_osmot_init", osf[2], "Pitzer")[0])
    osum = [f for f in find_all(cos, lambda x: x[0] == "fold" and "s_list" in x[1] and x[2] is T("num", 0.0))]
    cuts = {id(osf): "osmot"}
    if len(osum) == 1:
        cuts[id(osum[0])] = "osum"
    out.append(emit_num("pz_cosmot", cos, "Pitzer", cuts)[0])
    out.append(emit_num("pz_aw", nf["AW"], "Pitzer", cuts)[0])
    return out


def sit_defs(nf):
    """generated definitions for sit(): per parameter type the additions to sit_LGAMMA and the update of OSMOT, the
    Debye-Hueckel F and start value of OSMOT, COSMOT and AW"""
    out = []
    cos = nf["COSMOT"]
    lgf = fold_of(nf["sit_LGAMMA[]"], "sit_LGAMMA[]", "param_list")
    scrut = lgf[3][1]
    labels = sorted(c[1] for c in lgf[3][3:])
    if labels != ["TYPE_SIT_EPSILON", "TYPE_SIT_EPSILON_MU"]:
        raise Shape("gen_pitzer: sit(): parameter types not recognised")
    osf = find_all(cos, lambda x: x[0] == "fold" and "param_list" in x[1])[0]
    prevO = T("prev", osf[5], 1)
    for t, short in (("TYPE_SIT_EPSILON", "eps"), ("TYPE_SIT_EPSILON_MU", "eps1")):
        em = ListEmit("Pitzer")
        out.append(em.terms(f"sit_ln_{short}", store_terms(specialize(lgf[3], scrut, t), T("prev", "sit_LGAMMA[]", 1))))
        out.append(emit_num(f"sit_os_{short}", specialize(osf[3], scrut, t), "Pitzer", {id(prevO): "acc"})[0])
    out.append(emit_num("sit_osmot_init", osf[2], "Pitzer")[0])
    # F: the ion loop adds z0 * z0 * F
    ionf = fold_of(nf["sit_LGAMMA[]"], "sit_LGAMMA[]", "ion_list")
    (idx, a, g), = store_terms(ionf[3], T("prev", "sit_LGAMMA[]", 1))
    out.append(emit_num("sit_ion_add", a, "Pitzer")[0])
    osum = [f for f in find_all(cos, lambda x: x[0] == "fold" and "s_list" in x[1] and x[2] is T("num", 0.0))]
    cuts = {id(osf): "osmot"}
    if len(osum) == 1:
        cuts[id(osum[0])] = "osum"
    out.append(emit_num("sit_cosmot", cos, "Pitzer", cuts)[0])
    out.append(emit_num("sit_aw", nf["AW"], "Pitzer", cuts)[0])
    return out


def gammas_defs(nf):
    out = []
    k1 = T("ix", T("sym", "$k1"))
    cases = case_split(nf["s_x[]->lg"], {"0", "1", "2", "3", "5", "7", "8", "9"})
    cuts = {id(nf[k]): k for k in ("a_llnl", "b_llnl", "bdot_llnl") if k in nf}
    for lab in sorted(cases):
        out.append(emit_num(f"lg_gflag{lab}", stored(cases[lab], k1), "Gamma", cuts)[0])
    for k in ("a_llnl", "b_llnl", "bdot_llnl"):
        out.append(emit_num(f"{k}_src", nf[k], "Gamma")[0])
    return out


if __name__ == "__main__":
    print(json.dumps(generate(), indent=1))
