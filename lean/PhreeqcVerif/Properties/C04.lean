import PhreeqcVerif.Lemmas.LineReader
import PhreeqcVerif.Lemmas.Wrapper
/-!
# C04 — results depend only on the input text, not on how it is delivered or split

Model: `Model/LineReader.lean` (the reader, byte level) and `Model/Wrapper.lean` (the IPhreeqc object over an abstract engine).
What is proved here holds for all byte strings, all wrapper states and all engines; the one hypothesis about the engine,
`Engine.CallLocalFree` ("`simStep` does not read the simulation counter, the forced-headings flag and `first_read_input`,
except for stamping the `sim` column"), is what `tools/props/c04.py` explores on the real code.
-/
namespace PhreeqcVerif.C04
open PhreeqcVerif.LineReader PhreeqcVerif.Wrapper PhreeqcVerif.Gen.Keywords

/-! ## the reader -/

/-- The caller's loop "call get_logical_line until LT_EOF" terminates on every byte string within `|s| + 1` calls and
    yields exactly the fused line list; every call that does not end on EOF consumes at least one byte. -/
theorem lineReader_total (s : Bytes) :
    iterLines (s.length + 1) s = some (linesFrom RS.init s) ∧
    ((scan s).eof = false → (scan s).rest.length < s.length) ∧ ((scan s).eof = true → (scan s).rest = []) :=
  ⟨iterLines_eq _ s (Nat.lt_succ_self _), (scanFrom_rest s RS.init).2, (scanFrom_rest s RS.init).1⟩

/-- Text cut where the reader is between two logical lines tokenises to the concatenation. -/
theorem logicalLines_append (a b : Bytes) (h : closed a = true) :
    logicalLines (a ++ b) = logicalLines a ++ logicalLines b := logicalLines_append' a b h

/-- … and so do the classified lines that `get_line` hands to the engine. -/
theorem readLines_append (a b : Bytes) (h : closed a = true) : readLines (a ++ b) = readLines a ++ readLines b :=
  readLines_append' a b h

/-- Text cut at an END boundary gives the same simulation list. -/
theorem simulations_append (a b : Bytes) (h : endBoundary a = true) :
    simulations (a ++ b) = simulations a ++ simulations b := simulations_append' a b h

/-- Any number of cuts at END boundaries. -/
theorem simulations_flatten (ps : List Bytes) (last : Bytes) (h : ∀ p ∈ ps, endBoundary p = true) :
    simulations (ps.flatten ++ last) = (ps.map simulations).flatten ++ simulations last := by
  induction ps with
  | nil => simp
  | cons p ps ih =>
    have hp := h p (by simp)
    have hps : ∀ q ∈ ps, endBoundary q = true := fun q hq => h q (by simp [hq])
    simp only [List.flatten_cons, List.append_assoc, List.map_cons]
    rw [simulations_append _ _ hp, ih hps]

/-- The generated keyword table: exactly the names `end` and `eof` end a simulation, and every name is a lower-case
    token without blanks (so the exact lookup of the lower-cased first token is the whole classification). -/
theorem end_keywords : ∀ p ∈ tableBytes, (p.2 = keyEnd ↔ (p.1 = [101, 110, 100] ∨ p.1 = [101, 111, 102])) := by decide

theorem keyword_names_are_tokens : ∀ p ∈ tableBytes, p.1 ≠ [] ∧ p.1.all (fun c => !isSpace c && toLower c == c) = true ∧
    p.2 ≠ keyNone ∧ p.2 < keyCount := by decide

/-! ## the accumulate buffer -/

/-- AccumulateLine l₁ … lₙ on a buffer whose flag is down appends exactly `l₁\n…lₙ\n`. -/
theorem accumulate_is_string {E : Type} (w : W E) (ls : List Bytes) (h : w.clearAccumulated = false) :
    (ls.foldl W.accumulateLine w).getAccumulatedLines = w.stringInput ++ joinLines ls :=
  (accumulate_fold ls w h).1

/-- RunAccumulated feeds exactly the buffer (same result as RunString of it, apart from the buffer and its flag), keeps
    the buffer readable, and the first AccumulateLine after it starts from empty. -/
theorem runAccumulated_feeds_buffer {E : Type} (eng : Engine E) (w : W E) (l : Bytes) :
    (w.run eng .accumulated).1.modInput = (w.run eng (.file (some w.stringInput))).1.modInput ∧
    (w.run eng .accumulated).2 = (w.run eng (.file (some w.stringInput))).2 ∧
    (w.run eng .accumulated).1.getAccumulatedLines = w.stringInput ∧
    ((w.run eng .accumulated).1.accumulateLine l).getAccumulatedLines = cstr l ++ [10] := by
  have hc := core_congr eng w w.resetInput (some w.stringInput) (by simp [W.resetInput])
  refine ⟨?_, ?_, ?_, ?_⟩
  · simp only [W.run, W.finish]
    simp only [W.modInput, W.updateErrors] at hc ⊢
    simp only [W.mk.injEq] at hc ⊢
    simp_all
  · simp only [W.run, W.finish, W.rc]
    simp only [W.modInput, W.mk.injEq] at hc
    simp_all
  · simp only [W.run, W.finish, W.updateErrors, W.getAccumulatedLines, W.core, W.doRun]
    split
    · rfl
    · rfl
  · simp [W.run, W.finish, W.updateErrors, W.accumulateLine, W.getAccumulatedLines]

/-- A run of freshly accumulated lines is a run of the string `l₁\n…lₙ\n`. -/
theorem accumulated_run_is_string_run {E : Type} (eng : Engine E) (w : W E) (l : Bytes) (ls : List Bytes)
    (h : w.bufferFresh) :
    (w.deliver eng (.acc (l :: ls))).1.modInput = (w.run eng (.file (some (joinLines (l :: ls))))).1.modInput ∧
    (w.deliver eng (.acc (l :: ls))).2 = (w.run eng (.file (some (joinLines (l :: ls))))).2 := by
  obtain ⟨hs, _⟩ := accumulate_fold_fresh l ls w h
  have ho := accumulate_fold_other (l :: ls) w
  have h1 := runAccumulated_feeds_buffer eng ((l :: ls).foldl W.accumulateLine w) []
  simp only [W.deliver]
  rw [h1.1, h1.2.1, hs]
  have hc := core_congr eng (((l :: ls).foldl W.accumulateLine w).resetInput) (w.resetInput) (some (joinLines (l :: ls))) (by
    simp only [W.resetInput]
    simp only [W.mk.injEq] at ho ⊢
    simp_all)
  constructor
  · simp only [W.run, W.finish]
    simp only [W.modInput, W.updateErrors] at hc ⊢
    simp only [W.mk.injEq] at hc ⊢
    simp_all
  · simp only [W.run, W.finish, W.rc]
    simp only [W.modInput, W.mk.injEq] at hc
    simp_all

/-- RunFile / RunString / RunAccumulated differ only in where the text comes from: with the same text they leave the
    same object (apart from the accumulate buffer and its flag) and return the same value. -/
theorem entrypoints_agree {E : Type} (eng : Engine E) (w : W E) (s t : Bytes) (hs : cstr s = t) :
    w.run eng (.str s) = w.run eng (.file (some t)) ∧
    ((({ w with stringInput := t } : W E).run eng .accumulated).1.modInput = (w.run eng (.file (some t))).1.modInput) ∧
    (({ w with stringInput := t } : W E).run eng .accumulated).2 = (w.run eng (.file (some t))).2 := by
  refine ⟨by simp [W.run, hs], ?_, ?_⟩
  · have := (runAccumulated_feeds_buffer eng ({ w with stringInput := t } : W E) []).1
    simpa [W.run, W.resetInput] using this
  · have := (runAccumulated_feeds_buffer eng ({ w with stringInput := t } : W E) []).2.1
    simpa [W.run, W.resetInput] using this

/-! ## splitting -/

/-- **Split invariance.** For every engine that does not read the call-local fields, every loaded object and every text
    `a ++ b` cut at an END boundary: if the one-call run is error-free then so are the two calls, the data rows of the one
    call are the rows of call 1 followed by the rows of call 2 (the `sim` column excepted), and the final engine state —
    hence the dump and the component list — is the same. -/
theorem split_invariance {E : Type} (eng : Engine E) (hfree : eng.CallLocalFree) (w : W E) (hdb : w.dbLoaded = true)
    (a b : Bytes) (hcut : eng.boundary a) :
    let one := (w.run eng (.file (some (a ++ b)))).1
    let w1 := (w.run eng (.file (some a))).1
    let two := (w1.run eng (.file (some b))).1
    one.rc = 0 →
      w1.rc = 0 ∧ two.rc = 0 ∧
      one.tables.map Row.data = (w1.tables ++ two.tables).map Row.data ∧
      one.engine = two.engine ∧ eng.dump one.engine = eng.dump two.engine ∧
      (one.listComponents eng).2 = (two.listComponents eng).2 := by
  intro one w1 two hrc
  obtain ⟨o1, o2, o3, o4, -, o6, -⟩ := run_file_fields eng w hdb (a ++ b)
  obtain ⟨a1, a2, a3, a4, a5, -, -⟩ := run_file_fields eng w hdb a
  obtain ⟨b1, b2, b3, b4, -, b6, -⟩ := run_file_fields eng w1 a5 b
  rw [hcut b] at o1 o2 o3 o4
  obtain ⟨hi, hio⟩ := (rc_zero_iff one).1 hrc
  -- the first part of the one-call loop cannot have stopped
  have hA : (loop eng 1 true w.engine (eng.sims a)).inputError = 0 := by
    apply Classical.byContradiction
    intro hne
    rw [loop_append_stop eng _ _ _ _ _ hne] at o3
    exact hne (o3 ▸ hi)
  rw [loop_append eng _ _ _ _ _ hA] at o1 o2 o3 o4
  simp only [Loop.andThen] at o1 o2 o3 o4
  obtain ⟨f1, f2, f3, f4⟩ := loop_free eng hfree (eng.sims b)
    (loop eng 1 true w.engine (eng.sims a)).simulation 1 (loop eng 1 true w.engine (eng.sims a)).firstRead true
    (loop eng 1 true w.engine (eng.sims a)).engine
  have e1 : w1.engine = (loop eng 1 true w.engine (eng.sims a)).engine := a1
  rw [e1] at b1 b2 b3 b4
  have hio' : (loop eng 1 true w.engine (eng.sims a)).io = 0 ∧
      (loop eng (loop eng 1 true w.engine (eng.sims a)).simulation (loop eng 1 true w.engine (eng.sims a)).firstRead
        (loop eng 1 true w.engine (eng.sims a)).engine (eng.sims b)).io = 0 := by
    rw [o4] at hio; omega
  have heng : one.engine = two.engine := by rw [o1, b1, f1]
  refine ⟨?_, ?_, ?_, heng, by rw [heng], ?_⟩
  · exact (rc_zero_iff w1).2 ⟨a3 ▸ hA, a4 ▸ hio'.1⟩
  · refine (rc_zero_iff two).2 ⟨?_, ?_⟩
    · rw [b3, ← f3, ← o3]; exact hi
    · rw [b4, ← f4]; exact hio'.2
  · rw [o2, a2, b2, List.map_append, List.map_append, f2]
  · have o6' : one.updateComponents = true := o6
    have b6' : two.updateComponents = true := b6
    simp [W.listComponents, o6', b6', heng]

/-- The same for any number of cuts: `ps` are the pieces before the last one, each ending at an END boundary. -/
def runPieces {E : Type} (eng : Engine E) : W E → List Bytes → W E × List Nat × List Row
  | w, [] => (w, [], [])
  | w, p :: ps =>
    let w1 := (w.run eng (.file (some p))).1
    let r := runPieces eng w1 ps
    (r.1, w1.rc :: r.2.1, w1.tables ++ r.2.2)

theorem split_invariance_n {E : Type} (eng : Engine E) (hfree : eng.CallLocalFree) (ps : List Bytes) (last : Bytes)
    (hcut : ∀ p ∈ ps, eng.boundary p) : ∀ (w : W E), w.dbLoaded = true →
    (w.run eng (.file (some (ps.flatten ++ last)))).1.rc = 0 →
      (∀ rc ∈ (runPieces eng w (ps ++ [last])).2.1, rc = 0) ∧
      (w.run eng (.file (some (ps.flatten ++ last)))).1.tables.map Row.data =
        (runPieces eng w (ps ++ [last])).2.2.map Row.data ∧
      (w.run eng (.file (some (ps.flatten ++ last)))).1.engine = (runPieces eng w (ps ++ [last])).1.engine := by
  induction ps with
  | nil => intro w _ hrc; simp only [List.flatten_nil, List.nil_append] at hrc; simp [runPieces, hrc]
  | cons p ps ih =>
    intro w hdb hrc
    have hp := hcut p (by simp)
    have hps : ∀ q ∈ ps, eng.boundary q := fun q hq => hcut q (by simp [hq])
    simp only [List.flatten_cons, List.append_assoc] at hrc ⊢
    obtain ⟨s1, s2, s3, s4, -, -⟩ := split_invariance eng hfree w hdb p (ps.flatten ++ last) hp hrc
    have hdb1 : (w.run eng (.file (some p))).1.dbLoaded = true := (run_file_fields eng w hdb p).2.2.2.2.1
    obtain ⟨i1, i2, i3⟩ := ih hps _ hdb1 s2
    simp only [List.cons_append, runPieces]
    refine ⟨?_, ?_, ?_⟩
    · intro rc hmem
      simp only [List.mem_cons] at hmem
      rcases hmem with h | h
      · rw [h]; exact s1
      · exact i1 rc h
    · rw [s3, List.map_append, List.map_append, i2]
    · rw [s4, i3]

/-! ## any entry point for any piece -/

theorem run_congr {E : Type} (eng : Engine E) (w w' : W E) (h : w.modInput = w'.modInput) (c : Option Bytes) :
    w.run eng (.file c) = w'.run eng (.file c) := by
  have : w.resetInput = w'.resetInput := h
  simp [W.run, this]

theorem run_snd {E : Type} (eng : Engine E) (w : W E) (src : Source) : (w.run eng src).2 = (w.run eng src).1.rc := by
  cases src <;> rfl

theorem run_file_buffer {E : Type} (eng : Engine E) (w : W E) (c : Option Bytes) :
    (w.run eng (.file c)).1.stringInput = [] := by
  cases h : w.dbLoaded <;> cases c <;> simp [W.run, W.finish, W.updateErrors, W.resetInput, W.core, W.doRun, h]

/-- whatever the entry point, a piece leaves the object as RunFile of its text would (apart from the buffer and its flag),
    returns the same value, and leaves the buffer ready for the next delivery -/
theorem deliver_eq_file {E : Type} (eng : Engine E) (w : W E) (d : Delivery) (hw : d.wellFormed) (hb : w.bufferFresh) :
    (w.deliver eng d).1.modInput = (w.run eng (.file (some d.text))).1.modInput ∧
    (w.deliver eng d).2 = (w.run eng (.file (some d.text))).2 ∧ (w.deliver eng d).1.bufferFresh := by
  cases d with
  | str s =>
    have h := (entrypoints_agree eng w s (cstr s) rfl).1
    refine ⟨by simp only [W.deliver, Delivery.text, h], by simp only [W.deliver, Delivery.text, h], ?_⟩
    simp only [W.deliver, h]
    exact Or.inr (run_file_buffer eng w _)
  | file c =>
    refine ⟨by simp only [W.deliver, Delivery.text], by simp only [W.deliver, Delivery.text], ?_⟩
    simp only [W.deliver]
    exact Or.inr (run_file_buffer eng w _)
  | acc ls =>
    cases ls with
    | nil => exact absurd rfl hw
    | cons l ls =>
      have h := accumulated_run_is_string_run eng w l ls hb
      refine ⟨h.1, h.2, Or.inl ?_⟩
      simp [W.deliver, W.run, W.finish, W.updateErrors]

theorem deliverAll_eq_runPieces {E : Type} (eng : Engine E) (ds : List Delivery) (hwf : ∀ d ∈ ds, d.wellFormed) :
    ∀ (w w' : W E), w.modInput = w'.modInput → w.bufferFresh →
      (W.deliverAll eng w ds).1.modInput = (runPieces eng w' (ds.map Delivery.text)).1.modInput ∧
      (W.deliverAll eng w ds).2.1 = (runPieces eng w' (ds.map Delivery.text)).2.1 ∧
      (W.deliverAll eng w ds).2.2 = (runPieces eng w' (ds.map Delivery.text)).2.2 := by
  induction ds with
  | nil => intro w w' h _; exact ⟨h, rfl, rfl⟩
  | cons d ds ih =>
    intro w w' h hb
    obtain ⟨e1, e2, e3⟩ := deliver_eq_file eng w d (hwf d (by simp)) hb
    have hc := run_congr eng w w' h (some d.text)
    rw [hc] at e1 e2
    obtain ⟨i1, i2, i3⟩ := ih (fun x hx => hwf x (by simp [hx])) (w.deliver eng d).1 (w'.run eng (.file (some d.text))).1 e1 e3
    have ht : (w.deliver eng d).1.tables = (w'.run eng (.file (some d.text))).1.tables := by
      have := congrArg W.tables e1
      simpa [W.modInput] using this
    simp only [W.deliverAll, List.map_cons, runPieces]
    refine ⟨i1, ?_, ?_⟩
    · rw [i2, e2, run_snd]
    · rw [i3, ht]

/-- **Split invariance, any entry point.** The pieces `ds` (all but the last ending at an END boundary) delivered one after the
    other by RunString, RunFile or AccumulateLine…RunAccumulated, against one RunFile call on the whole text: if the one call
    is error-free, every piece returns 0, the data rows agree (minus `sim`) and the final engine state is the same. -/
theorem split_invariance_deliveries {E : Type} (eng : Engine E) (hfree : eng.CallLocalFree) (w : W E)
    (hdb : w.dbLoaded = true) (hb : w.bufferFresh) (ds : List Delivery) (last : Delivery)
    (hwf : ∀ d ∈ ds ++ [last], d.wellFormed) (hcut : ∀ d ∈ ds, eng.boundary d.text)
    (hrc : (w.run eng (.file (some ((ds.map Delivery.text).flatten ++ last.text)))).1.rc = 0) :
    (∀ rc ∈ (W.deliverAll eng w (ds ++ [last])).2.1, rc = 0) ∧
    (w.run eng (.file (some ((ds.map Delivery.text).flatten ++ last.text)))).1.tables.map Row.data =
      (W.deliverAll eng w (ds ++ [last])).2.2.map Row.data ∧
    (w.run eng (.file (some ((ds.map Delivery.text).flatten ++ last.text)))).1.engine =
      (W.deliverAll eng w (ds ++ [last])).1.engine := by
  obtain ⟨d1, d2, d3⟩ := deliverAll_eq_runPieces eng (ds ++ [last]) hwf w w rfl hb
  have hmap : (ds ++ [last]).map Delivery.text = ds.map Delivery.text ++ [last.text] := by simp
  rw [hmap] at d1 d2 d3
  have hcut' : ∀ p ∈ ds.map Delivery.text, eng.boundary p := by
    intro p hp
    obtain ⟨d, hd, rfl⟩ := List.mem_map.1 hp
    exact hcut d hd
  obtain ⟨s1, s2, s3⟩ := split_invariance_n eng hfree (ds.map Delivery.text) last.text hcut' w hdb hrc
  refine ⟨?_, ?_, ?_⟩
  · rw [d2]; exact s1
  · rw [d3]; exact s2
  · rw [s3]
    have := congrArg W.engine d1
    simpa [W.modInput] using this.symm

/-! ## include files -/

/-- Cutting the top-level text at a closed line boundary commutes with following the include directives. -/
theorem readLinesFS_append (fs : Bytes → Option Bytes) (d : Nat) (a b : Bytes) (h : closed a = true) :
    readLinesFS fs d (a ++ b) = readLinesFS fs d a ++ readLinesFS fs d b := LineReader.readLinesFS_append fs d a b h

/-- … and cutting at an END boundary of the expanded text gives the same simulation list. -/
theorem simulationsFS_append (fs : Bytes → Option Bytes) (d : Nat) (a b : Bytes) (h : endBoundaryFS fs d a = true) :
    simulationsFS fs d (a ++ b) = simulationsFS fs d a ++ simulationsFS fs d b := simulationsFS_append' fs d a b h

/-- Without include directives the file system is never consulted. -/
theorem readLinesFS_plain (fs : Bytes → Option Bytes) (d : Nat) (s : Bytes) (h : ∀ l ∈ readLines s, l.incl = none) :
    readLinesFS fs d s = (readLines s).map Item.line := readLinesFS_noInclude fs d s h

theorem resolved_flatMap {α : Type} (f : α → List Item) (ls : List α) :
    resolved (ls.flatMap f) = ls.all (fun l => resolved (f l)) := by
  induction ls with
  | nil => rfl
  | cons l r ih => simp only [List.flatMap_cons, List.all_cons, ← ih]; simp [resolved, List.all_append]

theorem flatMap_congr_mem {α β : Type} {f g : α → List β} (ls : List α) (h : ∀ l ∈ ls, f l = g l) :
    ls.flatMap f = ls.flatMap g := by
  induction ls with
  | nil => rfl
  | cons l r ih =>
    simp only [List.flatMap_cons]
    rw [h l (by simp), ih (fun x hx => h x (by simp [hx]))]

/-- The depth budget is not an assumption about the code: once every directive is resolved within the budget, a larger budget
    gives the same lines. -/
theorem include_depth_mono (fs : Bytes → Option Bytes) : ∀ (d : Nat) (s : Bytes),
    resolved (readLinesFS fs d s) = true → readLinesFS fs (d + 1) s = readLinesFS fs d s := by
  intro d
  induction d with
  | zero =>
    intro s h
    have hn : ∀ l ∈ readLines s, l.incl = none := by
      intro l hl
      simp only [readLinesFS, resolved, List.all_map, List.all_eq_true] at h
      have := h l hl
      cases hi : l.incl with
      | none => rfl
      | some f => simp [hi, Item.line?] at this
    rw [readLinesFS_noInclude fs 1 s hn, readLinesFS_noInclude fs 0 s hn]
  | succ d ih =>
    intro s h
    simp only [readLinesFS] at h ⊢
    rw [resolved_flatMap] at h
    simp only [List.all_eq_true] at h
    apply flatMap_congr_mem
    intro l hl
    have hl' := h l hl
    cases hi : l.incl with
    | none => rfl
    | some f =>
      simp only [hi] at hl' ⊢
      cases hf : fs f with
      | none => rfl
      | some c =>
        simp only [hf] at hl' ⊢
        exact ih c hl'

/-- Split invariance with the plain reader (no include directive followed): the hypothesis is `endBoundary`. -/
theorem split_invariance_plain {E : Type} (eng : Engine E) (hfree : eng.CallLocalFree) (hl : eng.lines = readLines)
    (w : W E) (hdb : w.dbLoaded = true) (a b : Bytes) (hcut : endBoundary a = true)
    (hrc : (w.run eng (.file (some (a ++ b)))).1.rc = 0) :
    ((w.run eng (.file (some a))).1.run eng (.file (some b))).1.rc = 0 ∧
    (w.run eng (.file (some (a ++ b)))).1.tables.map Row.data =
      ((w.run eng (.file (some a))).1.tables ++ ((w.run eng (.file (some a))).1.run eng (.file (some b))).1.tables).map Row.data ∧
    (w.run eng (.file (some (a ++ b)))).1.engine = ((w.run eng (.file (some a))).1.run eng (.file (some b))).1.engine := by
  obtain ⟨-, h2, h3, h4, -, -⟩ := split_invariance eng hfree w hdb a b (boundary_of_endBoundary eng hl a hcut) hrc
  exact ⟨h2, h3, h4⟩

/-- Split invariance when include directives are followed through a file system `fs`: the cut is taken in the top-level
    text, at an END boundary of the expanded line list. -/
theorem split_invariance_includes {E : Type} (eng : Engine E) (hfree : eng.CallLocalFree) (fs : Bytes → Option Bytes)
    (d : Nat) (hl : eng.lines = linesFS fs d) (w : W E) (hdb : w.dbLoaded = true) (a b : Bytes)
    (hcut : endBoundaryFS fs d a = true) (hrc : (w.run eng (.file (some (a ++ b)))).1.rc = 0) :
    ((w.run eng (.file (some a))).1.run eng (.file (some b))).1.rc = 0 ∧
    (w.run eng (.file (some (a ++ b)))).1.tables.map Row.data =
      ((w.run eng (.file (some a))).1.tables ++ ((w.run eng (.file (some a))).1.run eng (.file (some b))).1.tables).map Row.data ∧
    (w.run eng (.file (some (a ++ b)))).1.engine = ((w.run eng (.file (some a))).1.run eng (.file (some b))).1.engine := by
  obtain ⟨-, h2, h3, h4, -, -⟩ := split_invariance eng hfree w hdb a b (boundary_of_endBoundaryFS eng fs d hl a hcut) hrc
  exact ⟨h2, h3, h4⟩

/-! ## non-vacuity -/

section Examples

def bs (s : String) : Bytes := s.toUTF8.toList

/-- a toy engine: the state is the list of simulation sizes seen so far; every simulation punches one row whose only
    data cell is the number of lines; it does not read the call-local fields except for the `sim` stamp -/
def toy : Engine (List Nat) where
  simStep cl e t := ⟨e ++ [t.length], [⟨1, cl.simulation, [("lines", toString t.length)]⟩], 0, 0, 0⟩
  components e := e.map toString
  dump e := toString e
  fresh := []
  empty := []

theorem toy_free : toy.CallLocalFree := by
  intro cl cl' e t; simp [toy, Row.data]

/-- an engine that punches the simulation counter into a data cell is not call-local free … -/
def counting : Engine (List Nat) := { toy with
  simStep := fun cl e t => ⟨e ++ [t.length], [⟨1, cl.simulation, [("n", toString cl.simulation)]⟩], 0, 0, 0⟩ }

def textA : Bytes := bs "SOLUTION 1\n pH 7 # c;x\nEND\n"
def textB : Bytes := bs "USE solution 1; REACTION 1\n NaCl 1 \\  \n 0.1\nend\n"
def w0 : W (List Nat) := { dbLoaded := true, engine := [] }

example : endBoundary textA = true := by decide +kernel
example : (simulations (textA ++ textB)).map List.length = [3, 4] := by decide +kernel
example : simulations (textA ++ textB) = simulations textA ++ simulations textB := simulations_append _ _ (by decide +kernel)
-- the reader's quirks: `;` inside a comment does not split, `\` + blanks + newline joins lines, CR LF is LF
example : logicalLines (bs "a # c;x\r\nb \\ \t\nc;d") = [bs "a # c;x", bs "b c", bs "d"] := by decide +kernel
-- a comment that runs into the end of the input gets its last character doubled
example : logicalLines (bs "x # ab") = [bs "x # abb"] := by decide +kernel
-- a cut inside a continuation is not a boundary, and the lines really differ there
example : closed (bs "NaCl 1 \\") = false := by decide +kernel
example : logicalLines (bs "NaCl 1 \\" ++ bs "\n0.1\n") ≠ logicalLines (bs "NaCl 1 \\") ++ logicalLines (bs "\n0.1\n") := by decide +kernel
-- a cut between CR and LF is not a boundary either
example : closed (bs "END\r") = false := by decide +kernel
-- classification: keyword (case folded), option, plain
example : (readLines (bs "End\n-temp 25\n-1 x\nTitle\n")).map (fun l => (l.isKey, l.isEnd, l.ltype == .option)) =
    [(true, true, false), (false, false, true), (false, false, false), (true, false, false)] := by decide +kernel

-- split invariance instantiated: one call vs two calls on the toy engine
example :
    let one := (w0.run toy (.file (some (textA ++ textB)))).1
    let w1 := (w0.run toy (.file (some textA))).1
    let two := (w1.run toy (.file (some textB))).1
    one.rc = 0 ∧ one.tables.map Row.data = (w1.tables ++ two.tables).map Row.data ∧ one.engine = two.engine ∧
      one.tables.map (·.sim) = [1, 2] ∧ (w1.tables ++ two.tables).map (·.sim) = [1, 1] := by decide +kernel

-- … and for the counting engine the conclusion fails: the hypothesis of `split_invariance` is needed
example :
    let one := (w0.run counting (.file (some (textA ++ textB)))).1
    let w1 := (w0.run counting (.file (some textA))).1
    let two := (w1.run counting (.file (some textB))).1
    one.tables.map Row.data ≠ (w1.tables ++ two.tables).map Row.data := by decide +kernel

-- accumulate: lines, run, then the next AccumulateLine starts from empty; RunAccumulated twice reruns the same text
example :
    let w := [bs "SOLUTION 1", bs "END"].foldl W.accumulateLine w0
    w.getAccumulatedLines = bs "SOLUTION 1\nEND\n" ∧
    (w.run toy .accumulated).1.getAccumulatedLines = bs "SOLUTION 1\nEND\n" ∧
    (((w.run toy .accumulated).1.accumulateLine (bs "END")).getAccumulatedLines = bs "END\n") ∧
    (((w.run toy .accumulated).1.run toy .accumulated).1.engine = [2, 2]) := by decide +kernel

-- three pieces through the three entry points against one call
example :
    let ds : List Delivery := [.acc [bs "SOLUTION 1", bs " pH 7 # c;x\nEND"], .str textB]
    let last : Delivery := .file (bs "END\n")
    (∀ d ∈ ds, endBoundary d.text = true) ∧
    (W.deliverAll toy w0 (ds ++ [last])).2.1 = [0, 0, 0] ∧
    (W.deliverAll toy w0 (ds ++ [last])).1.engine = (w0.run toy (.file (some (textA ++ textB ++ bs "END\n")))).1.engine ∧
    (W.deliverAll toy w0 (ds ++ [last])).1.engine = [3, 4, 1] := by decide +kernel

-- include files: the directive is replaced by the lines of the file (nested once more), a missing file is reported, the
-- last line of a file without newline stays a line of its own, and a cut of the top-level text behind the directive is a boundary
def fsEx : Bytes → Option Bytes := fun n =>
  if n = bs "inc1" then some (bs "SOLUTION 2\nINCLUDE$ inc2\nEND") else if n = bs "inc2" then some (bs " pH 6 # c") else none
def textI : Bytes := bs "SOLUTION 1\ninclude$  inc1 \nEND\n"
example : (readLinesFS fsEx 2 textI).map (fun i => (i.line?.map (·.line))) =
    [some (bs "SOLUTION 1"), some (bs "SOLUTION 2"), some (bs " pH 6 "), some (bs "END"), some (bs "END")] := by decide +kernel
example : readLinesFS fsEx 3 textI = readLinesFS fsEx 2 textI := include_depth_mono fsEx 2 textI (by decide +kernel)
example : resolved (readLinesFS fsEx 1 textI) = false ∧ resolved (readLinesFS fsEx 2 (bs "INCLUDE$ nofile\n")) = false := by decide +kernel
example : (simulationsFS fsEx 2 (textI ++ textB)).map List.length = [4, 1, 4] ∧ endBoundaryFS fsEx 2 textI = true := by decide +kernel
example : simulationsFS fsEx 2 (textI ++ textB) = simulationsFS fsEx 2 textI ++ simulationsFS fsEx 2 textB :=
  simulationsFS_append fsEx 2 textI textB (by decide +kernel)
-- the toy engine reading through that file system: one call vs two calls
example :
    let eng : Engine (List Nat) := { toy with lines := linesFS fsEx 2 }
    (w0.run eng (.file (some (textI ++ textB)))).1.engine = [4, 1, 4] ∧
    ((w0.run eng (.file (some textI))).1.run eng (.file (some textB))).1.engine = [4, 1, 4] := by decide +kernel

-- without a database every entry point returns 1 and leaves the engine alone
example : ((({ engine := [] } : W (List Nat)).run toy (.str textA)).2 = 1) := by decide +kernel

end Examples

end PhreeqcVerif.C04
