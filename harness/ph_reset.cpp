// C07 driver: executes a history of IPhreeqc calls on one instance (real code) and prints every observable channel
// (black-box probes), the wrapper's own data members and a generated member-by-member dump of the engine (white-box).
// Line protocol on stdin (strings hex-encoded, "-" = empty):
//   spawn N | new | sw <switch> <0|1> | fn <out|err|log|dump|sel> <hex> | cur <n> | cb <0|1>
//   load <hexpath> | loads <hexpath> | run <hex> | runf <hexpath> | acc <hex> | accline <hex>
//   probe <tag> | state <tag> | wstate <tag> | mark <tag>
// Own access shim (harness/friend.hpp is not included: this TU needs more members of class TestIPhreeqc).
#ifndef CPPUNIT
#define CPPUNIT 1
#endif
#include "IPhreeqc.hpp"
#include "Phreeqc.h"
#include "CSelectedOutput.hxx"
#include "SelectedOutput.h"
#include "UserPunch.h"
#include "Solution.h"
#include "Exchange.h"
#include "Surface.h"
#include "PPassemblage.h"
#include "SSassemblage.h"
#include "GasPhase.h"
#include "cxxKinetics.h"
#include "cxxMix.h"
#include "Reaction.h"
#include "Temperature.h"
#include "Pressure.h"
#include "dumper.h"
#include "runner.h"
#include "StorageBinList.h"
#include "Use.h"
#include "hx.hpp"
#include <fstream>
#include <sstream>
#include <cmath>

using hx::hex;

static std::string slurp(const std::string& path, bool* ok = 0) {
  std::ifstream f(path.c_str(), std::ios::binary);
  if (ok) *ok = f.is_open();
  std::ostringstream o; o << f.rdbuf(); return o.str();
}
static std::string hd(double d) { return hx::hexd(d); }

class TestIPhreeqc {
public:
  static Phreeqc* engine(IPhreeqc* p) { return p->PhreeqcPtr; }
  template <class T> static std::string mapkeys(const T& m) {
    std::ostringstream o; o << m.size() << ":";
    for (typename T::const_iterator it = m.begin(); it != m.end(); ++it) o << it->first << ",";
    return o.str();
  }
  static std::string mapbool(const std::map<int, bool>& m) {
    std::ostringstream o;
    for (std::map<int, bool>::const_iterator it = m.begin(); it != m.end(); ++it) o << it->first << "=" << (it->second ? 1 : 0) << ",";
    return o.str().empty() ? "-" : o.str();
  }
  static std::string mapstr(const std::map<int, std::string>& m) {
    std::ostringstream o;
    for (std::map<int, std::string>::const_iterator it = m.begin(); it != m.end(); ++it) o << it->first << "=" << hex(it->second) << ",";
    return o.str().empty() ? "-" : o.str();
  }
  static std::string liststr(const std::list<std::string>& l) {
    std::string s; for (std::list<std::string>::const_iterator it = l.begin(); it != l.end(); ++it) { s += *it; s += "\n"; } return hex(s);
  }
  static std::string vecstr(const std::vector<std::string>& l) {
    std::string s; for (size_t i = 0; i < l.size(); ++i) { s += l[i]; s += "\n"; } return hex(s);
  }
  // every data member of class IPhreeqc and of its base PHRQ_io (names as in the headers)
  static void wstate(IPhreeqc* p, const std::string& tag, std::ostream& o) {
    const char* W = "W ";
#define WF(name, val) o << W << tag << " " << name << " " << (val) << "\n"
    WF("Index", p->Index);
    WF("DatabaseLoaded", p->DatabaseLoaded); WF("ClearAccumulated", p->ClearAccumulated); WF("UpdateComponents", p->UpdateComponents);
    WF("SelectedOutputFileOnMap", mapbool(p->SelectedOutputFileOnMap));
    WF("OutputFileOn", p->OutputFileOn); WF("LogFileOn", p->LogFileOn); WF("ErrorFileOn", p->ErrorFileOn);
    WF("DumpOn", p->DumpOn); WF("DumpStringOn", p->DumpStringOn);
    WF("OutputStringOn", p->OutputStringOn); WF("OutputString", hex(p->OutputString)); WF("OutputLines", vecstr(p->OutputLines));
    WF("LogStringOn", p->LogStringOn); WF("LogString", hex(p->LogString)); WF("LogLines", vecstr(p->LogLines));
    WF("ErrorStringOn", p->ErrorStringOn);
    WF("ErrorReporter", (p->ErrorReporter != 0));
    WF("ErrorString", hex(p->ErrorString)); WF("ErrorLines", vecstr(p->ErrorLines));
    WF("WarningStringOn", p->WarningStringOn);
    WF("WarningReporter", (p->WarningReporter != 0));
    WF("WarningString", hex(p->WarningString)); WF("WarningLines", vecstr(p->WarningLines));
    WF("CurrentSelectedOutputUserNumber", p->CurrentSelectedOutputUserNumber);
    WF("SelectedOutputMap", mapkeys(p->SelectedOutputMap));
    WF("StringInput", hex(p->StringInput));
    WF("DumpString", hex(p->DumpString)); WF("DumpLines", vecstr(p->DumpLines));
    WF("Components", liststr(p->Components));
    WF("EquilibriumPhasesList", liststr(p->EquilibriumPhasesList)); WF("GasComponentsList", liststr(p->GasComponentsList));
    WF("KineticReactionsList", liststr(p->KineticReactionsList)); WF("SolidSolutionComponentsList", liststr(p->SolidSolutionComponentsList));
    WF("SolidSolutionNamesList", liststr(p->SolidSolutionNamesList)); WF("SurfaceTypeList", liststr(p->SurfaceTypeList));
    WF("SurfaceNamesList", liststr(p->SurfaceNamesList)); WF("ExchangeNamesList", liststr(p->ExchangeNamesList));
    WF("SelectedOutputFileNameMap", mapstr(p->SelectedOutputFileNameMap));
    WF("OutputFileName", hex(p->OutputFileName)); WF("ErrorFileName", hex(p->ErrorFileName));
    WF("LogFileName", hex(p->LogFileName)); WF("DumpFileName", hex(p->DumpFileName));
    WF("SelectedOutputStringOn", mapbool(p->SelectedOutputStringOn));
    WF("SelectedOutputStringMap", mapstr(p->SelectedOutputStringMap));
    WF("SelectedOutputLinesMap", mapkeys(p->SelectedOutputLinesMap));
    WF("PhreeqcPtr", (p->PhreeqcPtr != 0)); WF("input_file", (p->input_file != 0)); WF("database_file", (p->database_file != 0));
    // PHRQ_io base
    WF("io.output_ostream", (p->output_ostream != 0)); WF("io.log_ostream", (p->log_ostream != 0));
    WF("io.punch_ostream", (p->punch_ostream != 0)); WF("io.error_ostream", (p->error_ostream != 0));
    WF("io.dump_ostream", (p->dump_ostream != 0));
    WF("io.io_error_count", p->io_error_count);
    WF("io.output_on", p->output_on); WF("io.log_on", p->log_on); WF("io.punch_on", p->punch_on); WF("io.error_on", p->error_on);
    WF("io.dump_on", p->dump_on); WF("io.echo_on", p->echo_on); WF("io.screen_on", p->screen_on);
    WF("io.echo_destination", (int)p->echo_destination);
    WF("io.istream_list", p->istream_list.size());
#undef WF
  }
  static void estate(IPhreeqc* p, const std::string& tag, std::ostream& o);
};

// generated by tools/gen_members.py (TestIPhreeqc::estate); props/c07.py passes -I <build>/c07gen, a plain build finds it in /verif/build
#if __has_include("c07_members_gen.hpp")
#include "c07_members_gen.hpp"
#else
#include "../build/c07gen/c07_members_gen.hpp"
#endif

static double cbfn(double x1, double x2, const char* s, void* cookie) { return x1 * 1000 + x2 + (s ? (double)strlen(s) : 0); }

static std::string varstr(VAR& v) {
  switch (v.type) {
    case TT_EMPTY: return "E";
    case TT_ERROR: return "X" + std::to_string((int)v.vresult);
    case TT_LONG: return "L" + std::to_string(v.lVal);
    case TT_DOUBLE: return "D" + hd(v.dVal);
    case TT_STRING: return "S" + hex(v.sVal ? v.sVal : "");
  }
  return "?";
}

static void probe(IPhreeqc* p, const std::string& tag, std::ostream& o) {
  const std::string P = "P " + tag + " ";
  o << P << "out " << hex(p->GetOutputString()) << "\n";
  o << P << "outlines " << p->GetOutputStringLineCount() << "\n";
  o << P << "log " << hex(p->GetLogString()) << "\n";
  o << P << "err " << hex(p->GetErrorString()) << "\n";
  o << P << "errlines " << p->GetErrorStringLineCount() << "\n";
  o << P << "warn " << hex(p->GetWarningString()) << "\n";
  o << P << "dump " << hex(p->GetDumpString()) << "\n";
  o << P << "dumplines " << p->GetDumpStringLineCount() << "\n";
  { std::string s; std::list<std::string> l = p->ListComponents();
    for (std::list<std::string>::iterator it = l.begin(); it != l.end(); ++it) { s += *it; s += ","; }
    o << P << "components " << p->GetComponentCount() << " " << hex(s) << "\n"; }
  o << P << "acc " << hex(p->GetAccumulatedLines()) << "\n";
  o << P << "switches " << p->GetOutputFileOn() << p->GetOutputStringOn() << p->GetErrorFileOn() << p->GetErrorStringOn() << p->GetErrorOn()
    << p->GetLogFileOn() << p->GetLogStringOn() << p->GetDumpFileOn() << p->GetDumpStringOn() << "\n";
  o << P << "names " << hex(p->GetOutputFileName()) << " " << hex(p->GetErrorFileName()) << " " << hex(p->GetLogFileName()) << " "
    << hex(p->GetDumpFileName()) << "\n";
  o << P << "id " << p->GetId() << "\n";
  int save = p->GetCurrentSelectedOutputUserNumber();
  o << P << "cur " << save << "\n";
  o << P << "selcount " << p->GetSelectedOutputCount() << "\n";
  std::vector<int> nums;
  for (int i = 0; i < p->GetSelectedOutputCount(); ++i) nums.push_back(p->GetNthSelectedOutputUserNumber(i));
  nums.push_back(1); nums.push_back(2); nums.push_back(77);
  for (size_t k = 0; k < nums.size(); ++k) {
    int n = nums[k];
    if (n < 0) continue;
    p->SetCurrentSelectedOutputUserNumber(n);
    int rows = p->GetSelectedOutputRowCount(), cols = p->GetSelectedOutputColumnCount();
    o << P << "sel" << n << " fileon=" << p->GetSelectedOutputFileOn() << " stron=" << p->GetSelectedOutputStringOn() << " rows=" << rows << " cols=" << cols
      << " lines=" << p->GetSelectedOutputStringLineCount() << " name=" << hex(p->GetSelectedOutputFileName()) << "\n";
    o << P << "selstr" << n << " " << hex(p->GetSelectedOutputString()) << "\n";
    std::string t;
    for (int r = 0; r < rows && r < 400; ++r) {
      for (int c = 0; c < cols && c < 200; ++c) {
        VAR v; VarInit(&v); p->GetSelectedOutputValue(r, c, &v); t += varstr(v); t += " "; VarClear(&v);
      }
      t += "|";
    }
    o << P << "seltab" << n << " " << (t.empty() ? "-" : t) << "\n";
    if (p->GetSelectedOutputFileOn()) { bool ok; std::string c = slurp(p->GetSelectedOutputFileName(), &ok); o << P << "selfile" << n << " " << ok << " " << hex(c) << "\n"; }
  }
  p->SetCurrentSelectedOutputUserNumber(save);
  if (p->GetOutputFileOn()) { bool ok; std::string c = slurp(p->GetOutputFileName(), &ok); o << P << "outfile " << ok << " " << hex(c) << "\n"; }
  if (p->GetErrorFileOn()) { bool ok; std::string c = slurp(p->GetErrorFileName(), &ok); o << P << "errfile " << ok << " " << hex(c) << "\n"; }
  if (p->GetLogFileOn()) { bool ok; std::string c = slurp(p->GetLogFileName(), &ok); o << P << "logfile " << ok << " " << hex(c) << "\n"; }
  if (p->GetDumpFileOn()) { bool ok; std::string c = slurp(p->GetDumpFileName(), &ok); o << P << "dumpfile " << ok << " " << hex(c) << "\n"; }
}

int main() {
  std::ios::sync_with_stdio(false);
  std::string line;
  IPhreeqc* p = 0;
  std::vector<IPhreeqc*> extra;
  std::ostream& o = std::cout;
  while (std::getline(std::cin, line)) {
    std::vector<std::string> w = hx::words(line);
    if (w.empty()) continue;
    const std::string& op = w[0];
    if (op == "cleanfiles") {   // remove the files earlier calls left in the working directory (file system is not instance state)
      int rc_ = system("find . -maxdepth 1 -type f -delete"); (void)rc_; o << "R cleanfiles\n"; continue; }
    if (op == "spawn") { for (int i = 0; i < atoi(w[1].c_str()); ++i) extra.push_back(new IPhreeqc); continue; }
    if (op == "new") { p = new IPhreeqc; o << "R new " << p->GetId() << "\n"; continue; }
    if (!p) { o << "R error no-instance\n"; continue; }
    if (op == "sw") {
      bool b = w[2] == "1"; const std::string& s = w[1];
      if (s == "outfile") p->SetOutputFileOn(b); else if (s == "outstr") p->SetOutputStringOn(b);
      else if (s == "errfile") p->SetErrorFileOn(b); else if (s == "errstr") p->SetErrorStringOn(b); else if (s == "erron") p->SetErrorOn(b);
      else if (s == "logfile") p->SetLogFileOn(b); else if (s == "logstr") p->SetLogStringOn(b);
      else if (s == "dumpfile") p->SetDumpFileOn(b); else if (s == "dumpstr") p->SetDumpStringOn(b);
      else if (s == "selfile") p->SetSelectedOutputFileOn(b); else if (s == "selstr") p->SetSelectedOutputStringOn(b);
      else { o << "R error bad-switch\n"; continue; }
      o << "R sw\n";
    } else if (op == "fn") {
      std::string v = hx::unhex(w[2]); const std::string& s = w[1];
      if (s == "out") p->SetOutputFileName(v.c_str()); else if (s == "err") p->SetErrorFileName(v.c_str());
      else if (s == "log") p->SetLogFileName(v.c_str()); else if (s == "dump") p->SetDumpFileName(v.c_str());
      else if (s == "sel") p->SetSelectedOutputFileName(v.c_str());
      o << "R fn\n";
    } else if (op == "cur") { o << "R cur " << (int)p->SetCurrentSelectedOutputUserNumber(atoi(w[1].c_str())) << "\n"; }
    else if (op == "cb") { if (w[1] == "1") p->SetBasicCallback(cbfn, 0); else p->SetBasicCallback(0, 0); o << "R cb\n"; }
    else if (op == "load") { int n = p->LoadDatabase(hx::unhex(w[1]).c_str()); o << "R load " << n << "\n"; }
    else if (op == "loads") { std::string s = slurp(hx::unhex(w[1])); int n = p->LoadDatabaseString(s.c_str()); o << "R loads " << n << "\n"; }
    else if (op == "run") { int n = p->RunString(hx::unhex(w[1]).c_str()); o << "R run " << n << "\n"; }
    else if (op == "runf") { int n = p->RunFile(hx::unhex(w[1]).c_str()); o << "R runf " << n << "\n"; }
    else if (op == "accline") { p->AccumulateLine(hx::unhex(w[1]).c_str()); o << "R accline\n"; }
    else if (op == "acc") {
      std::istringstream is(hx::unhex(w[1])); std::string l;
      while (std::getline(is, l)) p->AccumulateLine(l.c_str());
      int n = p->RunAccumulated(); o << "R acc " << n << "\n";
    }
    else if (op == "probe") probe(p, w[1], o);
    else if (op == "wstate") TestIPhreeqc::wstate(p, w[1], o);
    else if (op == "state") TestIPhreeqc::estate(p, w[1], o);
    else if (op == "mark") o << "M " << w[1] << "\n";
    else o << "R error unknown-op " << op << "\n";
    o.flush();
  }
  return 0;
}
