/-! `pmodel raw`: line-protocol driver (stub — replaced by the owner of this model). -/
namespace Driver.Raw

def run : IO Unit := IO.eprintln "pmodel raw: not implemented"

end Driver.Raw
