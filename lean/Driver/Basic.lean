import PhreeqcVerif.Model.BasicExec
import PhreeqcVerif.Model.Util
/-! `pmodel basic`: reference evaluation of BASIC programs (C17).

stdin : one case per line  `<id> <hp 0|1> <fuel> <hex of program bytes>`
stdout: `M <id> <status> <error kind> ub=<0|1> warn=<n> | <punch items> | T<hex print text> | <save>`
        status = ok | err | fuel ; punch items `D<16 hex>` / `S<hex>` ; save = `D<16 hex>` or `none`.
Strings are byte strings: byte b ↔ `Char.ofNat b`. -/
namespace Driver.Basic
open PhreeqcVerif PhreeqcVerif.Basic PhreeqcVerif.Util

def bytesToStr (b : ByteArray) : String := String.ofList (b.toList.map fun x => Char.ofNat x.toNat)

def strToHex (s : String) : String :=
  if s.isEmpty then "-" else
  String.ofList (s.toList.flatMap fun c => let n := c.toNat % 256; [hexDigit (n / 16), hexDigit (n % 16)])

def errName : Err → String
  | .syntax _ => "syntax" | .typeMismatch => "type" | .badSubscript => "subscript" | .undefLine => "undefline"
  | .forWoNext => "for-wo-next" | .nextWoFor => "next-wo-for" | .whileWoWend => "while-wo-wend"
  | .wendWoWhile => "wend-wo-while" | .returnWoGosub => "return-wo-gosub" | .outOfData => "out-of-data"
  | .extra => "extra" | .arrayAlready => "array-already" | .illegal => "illegal" | .stop => "stop"
  | .lex .missingQuote => "lex-quote" | .lex .missingRp => "lex-rp" | .lex .missingLp => "lex-lp"
  | .lex .hexNumber => "unsupported:hex" | .notSaved => "not-saved" | .unsupported w => "unsupported:" ++ w
  | .lineTooLarge => "line-too-large"
  | .resource => "resource" | .fuel => "valdepth"

def showVal : Val Float → String
  | .num x => "D" ++ hexOfFloat x
  | .str s => "S" ++ strToHex s

def render (id : String) (status kind : String) (s : St Float) : String :=
  let punch := " ".intercalate (s.punch.toList.map showVal)
  -- print_user_print adds a newline after the run when the last PRINT did not suppress it
  let text := String.join s.prints.toList ++ (if s.outNewline then "\n" else "")
  let save := match s.save with
    | some x => "D" ++ hexOfFloat x
    | none => "none"
  s!"M {id} {status} {kind} ub={if s.ub then 1 else 0} warn={s.warnings} | {punch} | T{strToHex text} | {save}"

def runCase (w : List String) : String :=
  match w with
  | [id, hp, fuel, prog] =>
    match unhexBytes (if prog == "-" then "" else prog) with
    | none => s!"M {id} badinput"
    | some b =>
      let text := bytesToStr b
      match compileAndRun (α := Float) (hp == "1") fuel.toNat! text with
      | .done s => render id "ok" "-" s
      | .err e s => render id "err" (errName e) s
      | .fuel s => render id "fuel" "-" s
  | "H" :: id :: hp :: fuel :: progs =>
    -- programs run one after the other in the same engine (a redefined USER_PUNCH, USER_PUNCH 1..k of one simulation):
    -- each starts from what the previous one left in the engine (`carryOver`)
    let rec go (k : Nat) (st : Option (St Float)) (ps : List String) (acc : List String) : List String :=
      match ps with
      | [] => acc.reverse
      | p :: rest =>
        match unhexBytes (if p == "-" then "" else p) with
        | none => (s!"M {id}.{k} badinput" :: acc).reverse
        | some b =>
          let o := match st with
            | none => compileAndRun (α := Float) (hp == "1") fuel.toNat! (bytesToStr b)
            | some s => compileAndRunFrom (carryOver s) fuel.toNat! (bytesToStr b)
          match o with
          | .done s => go (k + 1) (some s) rest (render s!"{id}.{k}" "ok" "-" s :: acc)
          | .err e s => (render s!"{id}.{k}" "err" (errName e) s :: acc).reverse
          | .fuel s => (render s!"{id}.{k}" "fuel" "-" s :: acc).reverse
    "\n".intercalate (go 1 none progs [])
  | _ => "M ? badline"

def run : IO Unit := do
  let stdin ← IO.getStdin
  let stdout ← IO.getStdout
  let lines ← readLines stdin
  for l in lines do
    let w := words l
    if w.isEmpty then continue
    stdout.putStrLn (runCase w)

end Driver.Basic
