/-! `pmodel formula`: line-protocol driver (stub — replaced by the owner of this model). -/
namespace Driver.Formula

def run : IO Unit := IO.eprintln "pmodel formula: not implemented"

end Driver.Formula
