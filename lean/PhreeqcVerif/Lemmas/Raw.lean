import PhreeqcVerif.Model.RawTables
/-!
# Generic fixed-point theorem for the abstract record print / read model (C10)
-/
namespace PhreeqcVerif.Raw

variable {F V : Type} [DecidableEq F]

/-- behavioural assumptions on values: printing-then-parsing is idempotent, does not change what the writer's
conditions see, and reproduces the values of a fresh object exactly. For the real code this is the IEEE-754
round-trip guarantee at the 17 significant digits `dump_raw` prints (`norm` is then the identity on doubles, names
and flags), and, for a nested block, `cycle_idem` of the sub-class. -/
structure Sys.ValOk (S : Sys F V) : Prop where
  norm_idem : ∀ f v, S.norm f (S.norm f v) = S.norm f v
  test_norm : ∀ f v, S.test f (S.norm f v) = S.test f v
  norm_fresh : ∀ f, S.norm f (S.fresh f) = S.fresh f

/-- closed form of one print/read cycle at field `x` -/
def valAt (S : Sys F V) (es : List (Entry F)) (r : F → V) (dflt : V) (x : F) : V :=
  match es.find? (fun e => e.field = x) with
  | some e => if e.route = some x ∧ guardHolds S e r = true then S.norm x (r x) else dflt
  | none => dflt

theorem nodupF_cons {x : F} {xs : List F} (h : nodupF (x :: xs) = true) : x ∉ xs ∧ nodupF xs = true := by
  simp [nodupF] at h
  exact ⟨h.1, h.2⟩

theorem find_none_of_not_mem {es : List (Entry F)} {x : F} (h : x ∉ es.map (·.field)) :
    es.find? (fun e => e.field = x) = none := by
  rw [List.find?_eq_none]
  intro e he
  simp only [decide_eq_true_eq]
  intro hx
  exact h (by rw [← hx]; exact List.mem_map_of_mem he)

/-- folding the reader over the printed lines of `es`, starting from `acc` -/
theorem fold_eq (S : Sys F V) (r : F → V) :
    ∀ (es : List (Entry F)) (acc : F → V),
      (es.all (fun e => e.route == none || e.route == some e.field) = true) →
      nodupF (es.map (·.field)) = true →
      ∀ x, (printOf S es r).foldl (readLine S) acc x = valAt S es r (acc x) x := by
  intro es
  induction es with
  | nil => intro acc _ _ x; simp [printOf, valAt]
  | cons e es ih =>
    intro acc hroute hnd x
    have hr : (e.route = none ∨ e.route = some e.field) := by
      have := (List.all_cons ▸ hroute : _)
      simp only [Bool.and_eq_true, Bool.or_eq_true, beq_iff_eq] at this
      exact this.1
    have hroute' : es.all (fun e => e.route == none || e.route == some e.field) = true := by
      have := (List.all_cons ▸ hroute : _)
      simp only [Bool.and_eq_true] at this
      exact this.2
    have hnd' := nodupF_cons (by simpa using hnd)
    by_cases hg : guardHolds S e r = true
    · -- line written
      have hp : printOf S (e :: es) r = (e, r e.field) :: printOf S es r := by
        simp [printOf, hg]
      rw [hp, List.foldl_cons, ih _ hroute' hnd'.2]
      by_cases hx : e.field = x
      · subst hx
        have hnone := find_none_of_not_mem hnd'.1
        simp only [valAt, hnone, List.find?_cons, decide_true]
        rcases hr with h | h
        · simp [readLine, h]
        · simp [readLine, h, hg]
      · have hne : ¬ (x = e.field) := fun h => hx h.symm
        have hacc : readLine S acc (e, r e.field) x = acc x := by
          rcases hr with h | h
          · simp [readLine, h]
          · simp [readLine, h, hne]
        simp only [valAt, List.find?_cons, hx, decide_false, hacc]
    · -- line not written
      have hp : printOf S (e :: es) r = printOf S es r := by
        simp [printOf, hg]
      rw [hp, ih _ hroute' hnd'.2]
      by_cases hx : e.field = x
      · subst hx
        have hnone := find_none_of_not_mem hnd'.1
        simp [valAt, hnone, hg]
      · simp only [valAt, List.find?_cons, hx, decide_false]

theorem cycle_eq (S : Sys F V) (h : structOk S.entries = true) (r : F → V) (x : F) :
    S.cycle r x = valAt S S.entries r (S.fresh x) x := by
  simp only [structOk, Bool.and_eq_true] at h
  exact fold_eq S r S.entries S.fresh h.1.1 h.1.2 x

theorem find_unique {es : List (Entry F)} (hnd : nodupF (es.map (·.field)) = true) {e : Entry F} (he : e ∈ es) :
    es.find? (fun e' => e'.field = e.field) = some e := by
  induction es with
  | nil => cases he
  | cons a as ih =>
    have hnd' := nodupF_cons (by simpa using hnd)
    rcases List.mem_cons.mp he with rfl | h
    · simp
    · have hne : ¬ (a.field = e.field) := fun hx => hnd'.1 (by rw [hx]; exact List.mem_map_of_mem h)
      simp only [List.find?_cons, hne, decide_false]
      exact ih hnd'.2 h

/-- **raw_fixed_point** (record level): for every system whose entries satisfy the structural obligations and whose
values behave (`ValOk`), one print/read cycle is idempotent — for every record `r`, at every field. -/
theorem cycle_idem (S : Sys F V) (h : structOk S.entries = true) (hv : S.ValOk) (r : F → V) :
    S.cycle (S.cycle r) = S.cycle r := by
  funext x
  rw [cycle_eq S h (S.cycle r) x]
  have h' := h
  simp only [structOk, Bool.and_eq_true] at h'
  obtain ⟨⟨hroute, hnd⟩, hguard⟩ := h'
  cases hf : S.entries.find? (fun e => e.field = x) with
  | none =>
    rw [cycle_eq S h r x]
    simp [valAt, hf]
  | some e =>
    have hmem : e ∈ S.entries := List.mem_of_find?_eq_some hf
    have hfx : e.field = x := by simpa using List.find?_some hf
    have hc : S.cycle r x = (if e.route = some x ∧ guardHolds S e r = true then S.norm x (r x) else S.fresh x) := by
      rw [cycle_eq S h r x]; simp [valAt, hf]
    simp only [valAt, hf]
    by_cases hrt : e.route = some x
    · -- routed: compare the guards before and after
      have hgs : guardHolds S e (S.cycle r) = guardHolds S e r ∨
                 (guardHolds S e r = false ∧ S.cycle r x = S.fresh x ∧ e.guard = some x) := by
        cases hgd : e.guard with
        | none => left; simp [guardHolds, hgd]
        | some m =>
          have hg := List.all_eq_true.mp hguard e hmem
          simp only [hgd, Bool.or_eq_true, beq_iff_eq, List.any_eq_true, Bool.and_eq_true] at hg
          rcases hg with hown | ⟨e', he', ⟨hf', hg'⟩, hr'⟩
          · -- guard on the own field
            have hmx : m = x := by rw [hown, hfx]
            subst hmx
            by_cases ht : S.test m (r m) = true
            · left
              have : S.cycle r m = S.norm m (r m) := by rw [hc]; simp [hrt, guardHolds, hgd, ht]
              simp [guardHolds, hgd, this, hv.test_norm]
            · right
              have ht' : S.test m (r m) = false := by simpa using ht
              refine ⟨by simp [guardHolds, hgd, ht'], ?_, rfl⟩
              rw [hc]; simp [guardHolds, hgd, ht']
          · -- guard on an unconditionally restored field
            left
            have hfind : S.entries.find? (fun e'' => e''.field = m) = some e' := by
              have := find_unique hnd he'
              rwa [hf'] at this
            have : S.cycle r m = S.norm m (r m) := by
              rw [cycle_eq S h r m]
              simp [valAt, hfind, hr', guardHolds, hg']
            simp [guardHolds, hgd, this, hv.test_norm]
      rcases hgs with hsame | ⟨hoff, hfresh, hown⟩
      · rw [hsame, hc]
        by_cases hg : guardHolds S e r = true
        · simp [hrt, hg, hv.norm_idem]
        · simp [hrt, hg]
      · -- own guard was off: the field holds the fresh value, whose print/parse is exact
        rw [hfresh]
        by_cases hg2 : guardHolds S e (S.cycle r) = true
        · simp [hrt, hg2, hv.norm_fresh]
        · simp [hrt, hg2]
    · rw [hc]; simp [hrt]

/-- **raw_fixed_point** (text level): dump → read → dump → read → dump gives the same text as dump → read → dump. -/
theorem raw_fixed_point (S : Sys F V) (h : structOk S.entries = true) (hv : S.ValOk) (r : F → V) :
    S.print (S.cycle (S.cycle r)) = S.print (S.cycle r) := by
  rw [cycle_idem S h hv r]

/-- a field whose key is always written and routed to itself is restored (up to print/parse of the value) -/
theorem restored_of_routed (S : Sys F V) (h : structOk S.entries = true) (r : F → V) (e : Entry F)
    (he : e ∈ S.entries) (hr : e.route = some e.field) (hg : e.guard = none) :
    S.cycle r e.field = S.norm e.field (r e.field) := by
  have h' := h
  simp only [structOk, Bool.and_eq_true] at h'
  rw [cycle_eq S h r e.field]
  simp [valAt, find_unique h'.1.2 he, hr, guardHolds, hg]

/-- a field whose key the reader drops (or that no key prints) comes back as in a fresh object -/
theorem fresh_of_dropped (S : Sys F V) (h : structOk S.entries = true) (r : F → V) (x : F)
    (hx : ∀ e ∈ S.entries, e.field = x → e.route = none) : S.cycle r x = S.fresh x := by
  rw [cycle_eq S h r x]
  cases hf : S.entries.find? (fun e => e.field = x) with
  | none => simp [valAt, hf]
  | some e =>
    have hmem : e ∈ S.entries := List.mem_of_find?_eq_some hf
    have hfx : e.field = x := by simpa using List.find?_some hf
    simp [valAt, hf, hx e hmem hfx]

end PhreeqcVerif.Raw
