import PhreeqcVerif.Model.Thermo
/-! Speciation model of C01, generic over `NumOps`.

* mass-action equations as linear forms (`Eqn`), substitution of non-master species until only the masters in use
  remain (`rewriteToMasters`: the algebra of `rewrite_eqn_to_secondary/primary`, `rewrite_master_to_secondary`,
  `write_mass_action_eqn_x` with `trxn_add`/`trxn_combine`);
* `speciate` — the assignment of `molalities()`: `lm = lk + Σ c·la − lg`;
* sums of `sum_species()` (element totals, charge balance, alkalinity) and the ionic-strength sum;
* read-outs (`pH`, `SI`, `SR`, `la`);
* the convergence gate: `fails`/`converged` (= the per-unknown tests of `residuals()`), `checkResiduals`
  (= `check_residuals()`), and `runModel`, the control skeleton of `model()` with the Newton step, the basis switch and
  the "try again" decisions as arbitrary parameter functions. -/
namespace PhreeqcVerif.Speciation
open PhreeqcVerif PhreeqcVerif.Thermo

variable {α : Type} [NumOps α]

/-- `log a(head) = K(k) + Σ c · log a(name)` ; an in-use master species has body `[(head, 1)]` and `k = 0` -/
structure Eqn (α : Type) where
  head : String
  body : List (String × α)
  k : LogK α

/-- `Σ c · v(name)` over a token list -/
def evalBody (v : String → α) : List (String × α) → α
  | [] => NumOps.lit 0
  | (n, c) :: t => c * v n + evalBody v t

/-- sum of the coefficients of `n` -/
def coefOf (n : String) : List (String × α) → α
  | [] => NumOps.lit 0
  | (m, c) :: t => if m == n then c + coefOf n t else coefOf n t

def scaleBody (c : α) (b : List (String × α)) : List (String × α) := b.map fun p => (p.1, c * p.2)

def removeName (n : String) (b : List (String × α)) : List (String × α) := b.filter fun p => !(p.1 == n)

/-- add a token to a combined list (like terms are summed; first-occurrence order) -/
def addTerm (n : String) (c : α) : List (String × α) → List (String × α)
  | [] => [(n, c)]
  | (m, x) :: t => if m == n then (m, x + c) :: t else (m, x) :: addTerm n c t

def mergeInto (acc : List (String × α)) : List (String × α) → List (String × α)
  | [] => acc
  | (n, c) :: t => mergeInto (addTerm n c acc) t

/-- `trxn_combine`: like terms summed, terms the predicate `drop` calls zero removed
(the code: `equal(coef, 0.0, 1e-5)`; exact arithmetic: `c = 0`) -/
def normalise (drop : α → Bool) (b : List (String × α)) : List (String × α) :=
  (mergeInto [] b).filter fun p => !(drop p.2)

/-- residual of a mass-action equation at log-activities `la` with log K functional `K` -/
def residual (la : String → α) (K : LogK α → α) (e : Eqn α) : α :=
  K e.k + evalBody la e.body - la e.head

/-- `trxn_add(def(n), coef(n))` followed by removal of `n`: eliminates species `n` from `e` using its defining equation `d` -/
def substOne (n : String) (d : Eqn α) (e : Eqn α) : Eqn α :=
  let c := coefOf n e.body
  { head := e.head
    body := removeName n e.body ++ scaleBody c d.body
    k := e.k.addScaled c d.k }

def firstOut (inUse : String → Bool) : List (String × α) → Option String
  | [] => none
  | (n, _) :: t => if inUse n then firstOut inUse t else some n

/-- substitute non-master species until only the masters in use remain; `none` = the code's
"Could not reduce equation" (fuel = MAX_ADD_EQUATIONS) or a species without defining equation -/
def rewriteToMasters (drop : α → Bool) (inUse : String → Bool) (defs : String → Option (Eqn α)) :
    Nat → Eqn α → Option (Eqn α)
  | fuel, e =>
    match firstOut inUse e.body with
    | none => some e
    | some n =>
      match fuel with
      | 0 => none
      | fuel + 1 =>
        match defs n with
        | none => none
        | some d =>
          let e1 := substOne n d e
          rewriteToMasters drop inUse defs fuel { e1 with body := normalise drop e1.body }

/-- `rewrite_master_to_secondary(m, m0)` + elimination of the primary species `p`: defining equation of the valence
master `m` (equation `pm` in terms of primary masters) relative to the master in use `m0` (equation `pm0`) -/
def pivot (p : String) (pm pm0 : Eqn α) : Eqn α :=
  let c1 := coefOf p pm.body
  let c2 := coefOf p pm0.body
  let r := NumOps.lit 0 - c1 / c2
  { head := pm.head
    body := pm.body ++ scaleBody r ((pm0.head, NumOps.lit 0 - NumOps.lit 1) :: pm0.body)
    k := pm.k.addScaled r pm0.k }

/-- `trxn_swap(n)`: solve the equation for species `n` (coefficient `c ≠ 0`): `la n = (la head − K − Σ rest) / c` -/
def solveFor (n : String) (e : Eqn α) : Eqn α :=
  let c := coefOf n e.body
  let r := NumOps.lit 0 - NumOps.lit 1 / c
  { head := n
    body := scaleBody r ((e.head, NumOps.lit 0 - NumOps.lit 1) :: removeName n e.body)
    k := LogK.smul r e.k }

/-- `molalities()`: `lm = lk − lg + Σ c·la` -/
def speciateLm (lk lg : α) (la : String → α) (body : List (String × α)) : α :=
  lk - lg + evalBody la body

/-! ### sums of `sum_species` -/

structure SpRec (α : Type) where
  name : String
  z : α
  moles : α
  alk : α
  elts : List (String × α)

def sumBy (f : SpRec α → α) : List (SpRec α) → α
  | [] => NumOps.lit 0
  | s :: t => f s + sumBy f t

def total (elt : String) (sp : List (SpRec α)) : α := sumBy (fun s => coefOf elt s.elts * s.moles) sp
def chargeBalance (sp : List (SpRec α)) : α := sumBy (fun s => s.z * s.moles) sp
def alkalinity (sp : List (SpRec α)) : α := sumBy (fun s => s.alk * s.moles) sp
/-- `0.5 · Σ z² · moles` (the `f` of the MU unknown is `Σ z²·moles`) -/
def ionicSum (sp : List (SpRec α)) : α := sumBy (fun s => s.z * s.z * s.moles) sp
def ionicStrength (sp : List (SpRec α)) (massWater : α) : α := NumOps.lit (1 / 2) * ionicSum sp / massWater
/-- `calc_alk`: alkalinity of a species from the master species of its (secondary-form) reaction -/
def speciesAlk (masterAlk : String → α) (e : Eqn α) : α := evalBody masterAlk e.body

/-- a line of SOLUTION_MASTER_SPECIES: element or valence name, master species, alkalinity, primary? -/
structure MasterLine (α : Type) where
  elt : String
  species : String
  alk : α
  primary : Bool

/-- last line of the wanted kind whose species is `n` (tidy_species walks `master[]` in order and later lines overwrite
`s->primary` / `s->secondary`; the `Alkalinity` line sets neither) -/
def lastLine (wantPrimary : Bool) (n : String) : List (MasterLine α) → Option (MasterLine α)
  | [] => none
  | m :: t =>
    match lastLine wantPrimary n t with
    | some r => some r
    | none => if m.primary == wantPrimary && m.species == n && !(m.elt == "Alkalinity") then some m else none

/-- `calc_alk`: the master whose alkalinity a reaction token contributes. `secondaryFirst` is the lookup order read from
the source by tools/gen_speciation.py (`Gen.SpeciationSrc.ALK_SECONDARY_FIRST`) -/
def masterAlk (secondaryFirst : Bool) (ms : List (MasterLine α)) (n : String) : Option α :=
  let sec := (lastLine false n ms).map (·.alk)
  let pri := (lastLine true n ms).map (·.alk)
  if secondaryFirst then sec.orElse (fun _ => pri) else pri.orElse (fun _ => sec)

/-- `trxn_combine` drops a combined coefficient when `equal(coef, 0.0, 1e-5)` -/
def combineTol : Rat := 1 / 100000

/-- `under(lm) * mass_water`: `moles` of an aqueous species as `molalities()` stores it -/
def underMoles [DecidableLT α] (lm massWater : α) : α :=
  if lm < NumOps.lit (-40) then NumOps.lit 0 * massWater
  else if NumOps.lit 3 < lm then NumOps.lit 1000 * massWater
  else NumOps.exp10 lm * massWater

/-- `sum_species` per valence state: `master->total = Σ moles · master->coef · (coefficient of the valence master species in
the species' secondary-form reaction)`; `sec s` is that reaction, `atoms` is `coef_in_master` -/
def valenceTotal (masterSpecies : String) (atoms : α) (sec : String → List (String × α)) (sp : List (SpRec α)) : α :=
  sumBy (fun s => atoms * coefOf masterSpecies (sec s.name) * s.moles) sp

/-! ### read-outs -/

def pH (la : String → α) : α := NumOps.lit 0 - la "H+"
def logActivity (lm lg : α) : α := lm + lg
/-- `saturation_index`: `Σ c·la − lk` -/
def satIndex (la : String → α) (lk : α) (body : List (String × α)) : α := evalBody la body - lk
def satRatio (la : String → α) (lk : α) (body : List (String × α)) : α := NumOps.exp10 (satIndex la lk body)

/-! ### convergence gate -/

inductive UType where
  | mb | alk | spb | cb | mu | ah2o | mh | mh2o | other
  deriving Repr, DecidableEq, Inhabited

/-- one unknown: `moles`, the mass-balance sum `f`, the residual the engine formed from them, and `aux`
(MH: `2·mass_oxygen_unknown->moles`; others unused) -/
structure Unknown (α : Type) where
  type : UType
  moles : α
  f : α
  resid : α
  aux : α

structure GateCtx (α : Type) where
  tol : α          -- convergence_tolerance
  minTotal : α     -- MIN_TOTAL
  mu : α
  massWater : α
  waterSwitch : Bool   -- mass_water_switch
  phIsCb : Bool        -- ph_unknown == charge_balance_unknown

def absv [DecidableLT α] (x : α) : α := if x < NumOps.lit 0 then NumOps.lit 0 - x else x

/-- residual formed by `residuals()` for the unknowns whose residual is a plain function of `moles`, `f` -/
def residualOf (c : GateCtx α) (u : Unknown α) : α :=
  match u.type with
  | .mb | .alk => u.moles - u.f
  | .cb => if c.phIsCb then NumOps.lit 0 - u.f + u.moles else NumOps.lit 0 - u.f
  | .mu => c.massWater * c.mu - NumOps.lit (1 / 2) * u.f
  | _ => u.resid

/-- the per-unknown test of `residuals()`: `true` = "converge = FALSE" -/
def fails [DecidableLT α] [DecidableLE α] (c : GateCtx α) (u : Unknown α) : Bool :=
  let r := absv (residualOf c u)
  match u.type with
  | .mb => (decide (c.tol * u.moles < r) && decide (NumOps.sqrt (absv u.moles * c.minTotal) < r)
              && decide (c.minTotal < u.moles)) || decide (u.moles < NumOps.lit 0)
  | .alk => decide (c.tol * u.moles < r)
  | .spb => decide (c.tol < r)
  | .cb => decide (c.tol * c.mu * c.massWater ≤ r)
  | .mu => decide (c.tol * c.mu * c.massWater < r)
  | .ah2o => decide (c.tol < r)
  | .mh => decide (c.tol * (u.moles + u.aux) < r)
  | .mh2o => if c.waterSwitch then false else decide (NumOps.lit (1 / 100) * c.tol * u.moles < r)
  | .other => false

/-- `residuals() == CONVERGED` -/
def converged [DecidableLT α] [DecidableLE α] (c : GateCtx α) (us : List (Unknown α)) : Bool :=
  us.all fun u => !(fails c u)

/-- the per-unknown test of `check_residuals()`: `true` = an ERROR message is issued -/
def checkFails [DecidableLT α] [DecidableLE α] (c : GateCtx α) (u : Unknown α) : Bool :=
  let r := absv (residualOf c u)
  match u.type with
  | .mb | .alk => decide (c.tol * u.moles ≤ r) && decide (NumOps.sqrt (absv u.moles * c.minTotal) < r)
              && decide (c.minTotal < u.moles)
  | .spb => decide (c.tol ≤ r)
  | .cb => decide (c.tol * c.mu * c.massWater ≤ r)
  | .mu => decide (c.tol * c.mu * c.massWater ≤ r)
  | .ah2o => decide (c.tol ≤ r)
  | .mh => decide (c.tol * (u.moles + u.aux) < r)
  | .mh2o => if c.waterSwitch then false else decide (NumOps.lit (1 / 100) * c.tol * u.moles ≤ r)
  | .other => false

/-- `check_residuals()` issues no ERROR -/
def checkResiduals [DecidableLT α] [DecidableLE α] (c : GateCtx α) (us : List (Unknown α)) : Bool :=
  us.all fun u => !(checkFails c u)

inductive Outcome (σ : Type) where
  | ok (s : σ)
  | error
  deriving Inhabited

/-- inner `while (residuals() != CONVERGED)` loop of `model()`: at most `fuel` iterations (`itmax`), then
"Maximum iterations exceeded" (`none`) -/
def iterate {σ : Type} [DecidableLT α] [DecidableLE α] (view : σ → GateCtx α × List (Unknown α)) (step : σ → σ) :
    Nat → σ → Option σ
  | 0, s => if converged (view s).1 (view s).2 then some s else none
  | fuel + 1, s => if converged (view s).1 (view s).2 then some s else iterate view step fuel (step s)

/-- control skeleton of `model()`: iterate until `residuals()` reports CONVERGED, then `check_residuals()`; the outer
`for(;;)` may ask for another pass (`again`: water switch flipped, unstable phases removed). `step` (jacobian, ineq,
reset, gammas, molalities, mb_sums, basis switch) is arbitrary. -/
def runModel {σ : Type} [DecidableLT α] [DecidableLE α] (view : σ → GateCtx α × List (Unknown α)) (step : σ → σ)
    (again : σ → Option σ) (itmax : Nat) : Nat → σ → Outcome σ
  | 0, _ => .error
  | passes + 1, s =>
    match iterate view step itmax s with
    | none => .error
    | some s1 =>
      if checkResiduals (view s1).1 (view s1).2 then
        match again s1 with
        | none => .ok s1
        | some s2 => runModel view step again itmax passes s2
      else .error

end PhreeqcVerif.Speciation
