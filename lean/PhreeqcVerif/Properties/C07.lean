/-
C07 — Loading a database returns the instance to the fresh state.

Part 1 (theorems, all histories): the wrapper state machine of Model/Reset.lean.  For every history of calls (setters,
accumulated lines, successful and failing runs, earlier loads) a LoadDatabase that returns 0 leaves exactly the state a
newly created instance reaches after the same load once it has been given the same instance id, global switches and
file names; hence every later call returns the same code and every getter the same value — provided the engine satisfies
`EngineReset` (unload = fresh).
Part 2 (obligations over data regenerated from the clang AST of /repo on every run, `decide`): the static half of
`EngineReset` — every member an input reader can write is put back by init()/initialize()/clean_up()/UnLoadDatabase/
the read_input prologue or is explained in Model/ResetPolicy.lean; every member of class Phreeqc is accounted for; the
data members of class IPhreeqc are handled by UnLoadDatabase as the model says.
The dynamic half of `EngineReset` is the correspondence check of tools/props/c07.py (white-box member dump + black-box channels).
-/
import PhreeqcVerif.Model.Reset
import PhreeqcVerif.Model.ResetPolicy
import PhreeqcVerif.Lemmas.Reset
import PhreeqcVerif.Gen.Members

namespace PhreeqcVerif.C07
open PhreeqcVerif.Reset

variable {E : Type}

/-! ## Part 1 — wrapper model -/

/-- UnLoadDatabase leaves id, switches, names (and the per-call strings) alone and puts every other member back -/
theorem unload_resets (eng : Engine E) (w : W E) :
    (unloadDatabase eng w).c = ({} : Cleared) ∧ survivors (unloadDatabase eng w) = survivors w ∧
    (unloadDatabase eng w).pc = w.pc := by
  simp [unloadDatabase, survivors]

/-- `load_resets_wrapper`: after a load that returns 0, the whole instance state (every member of the model, engine included)
    equals the state of a new instance after the same load, whatever the history left in `w`; the new instance also returns 0. -/
theorem load_resets_wrapper (eng : Engine E) (hE : EngineReset eng) (w : W E) (db : String)
    (h0 : (load eng w db).2 = 0) :
    (load eng w db).1 = (load eng (freshWith eng (survivors w)) db).1 ∧
    (load eng (freshWith eng (survivors w)) db).2 = 0 := by
  unfold load at h0 ⊢
  simp only [loadDb_eq eng hE] at h0 ⊢
  by_cases hn : (eng.readDb eng.fresh db).2 = 0
  · simp [hn, freshWith, create, survivors, runString, runCore, runEnv] at h0 ⊢
    exact h0
  · simp [hn] at h0

/-- the result code of a load does not depend on the history either -/
theorem load_result_eq_fresh (eng : Engine E) (hE : EngineReset eng) (w : W E) (db : String) :
    (load eng w db).2 = (load eng (freshWith eng (survivors w)) db).2 := by
  unfold load
  simp only [loadDb_eq eng hE]
  by_cases hn : (eng.readDb eng.fresh db).2 = 0
  · simp [hn, freshWith, create, survivors, runString, runCore, runEnv]
  · simp [hn]

/-- `load_then_calls_eq_fresh`: for every history `hist` run on a new instance (including failing calls and earlier loads)
    and every sequence of later calls, result codes and all observations after a successful load coincide with those of a
    fresh instance given the same survivors. -/
theorem load_then_calls_eq_fresh (eng : Engine E) (hE : EngineReset eng) (i : Nat) (hist later : List Op) (db : String)
    (h0 : (load eng (runOps eng (create eng i) hist) db).2 = 0) :
    trace eng (load eng (runOps eng (create eng i) hist) db).1 later =
    trace eng (load eng (freshWith eng (survivors (runOps eng (create eng i) hist))) db).1 later := by
  rw [(load_resets_wrapper eng hE _ db h0).1]

/-- the survivors the property names do survive: id and the global switches are those before the load -/
theorem load_keeps_id_and_switches (eng : Engine E) (w : W E) (db : String) :
    (load eng w db).1.id = w.id ∧ (load eng w db).1.sw = w.sw := by
  unfold load loadDb unloadDatabase
  by_cases hn : (eng.readDb (eng.unload w.engine) db).2 = 0
  · simp [hn, runString, runCore]
  · simp [hn]

/-- user-set file names survive a load whose internal test run opens no selected-output or dump file -/
theorem load_keeps_names (eng : Engine E) (w : W E) (db : String)
    (hrun : ∀ e env s, (eng.run e env s).2.selNames = env.names.sel ∧ (eng.run e env s).2.dumpName = env.names.dump) :
    (load eng w db).1.names = w.names := by
  unfold load loadDb unloadDatabase
  by_cases hn : (eng.readDb (eng.unload w.engine) db).2 = 0
  · simp [hn, runString, runCore, runEnv, hrun]
  · simp [hn]

/-- a fresh instance given its own survivors is itself -/
theorem freshWith_create (eng : Engine E) (i : Nat) : freshWith eng (survivors (create eng i)) = create eng i := by
  simp [freshWith, create, survivors]

/-- nothing but the survivors of `w` enters the state after a successful load -/
theorem load_depends_on_survivors_only (eng : Engine E) (hE : EngineReset eng) (w w' : W E) (db : String)
    (hs : survivors w = survivors w') (h0 : (load eng w db).2 = 0) :
    (load eng w db).1 = (load eng w' db).1 := by
  have h1 := load_resets_wrapper eng hE w db h0
  have h0' : (load eng w' db).2 = 0 := by
    rw [load_result_eq_fresh eng hE w' db, ← hs]; exact h1.2
  rw [h1.1, (load_resets_wrapper eng hE w' db h0').1, hs]

/-! ### the same with a weaker engine hypothesis: reset up to an indistinguishability relation

`EngineReset` (unload = fresh, as an equation) is more than the code provides: scratch members keep their old value.
What the code is meant to provide is that unload reaches the fresh engine *up to* a relation R that no operation can tell
apart (`Respects`).  The theorems below need only that. -/

/-- after a load that returns 0 the instance is indistinguishable from a fresh one given the same survivors -/
theorem load_resets_wrapper_upto (eng : Engine E) (R : E → E → Prop) (hEq : Equivalence R) (hR : Respects eng R)
    (hU : EngineResetUpTo eng R) (w : W E) (db : String) (h0 : (load eng w db).2 = 0) :
    Rel R (load eng w db).1 (load eng (freshWith eng (survivors w)) db).1 ∧
    (load eng (freshWith eng (survivors w)) db).2 = 0 :=
  load_rel_fresh eng R hEq hR hU w db h0

/-- `load_then_calls_eq_fresh` for every history and every later call sequence, under `EngineResetUpTo R` -/
theorem load_then_calls_eq_fresh_upto (eng : Engine E) (R : E → E → Prop) (hEq : Equivalence R) (hR : Respects eng R)
    (hU : EngineResetUpTo eng R) (i : Nat) (hist later : List Op) (db : String)
    (h0 : (load eng (runOps eng (create eng i) hist) db).2 = 0) :
    trace eng (load eng (runOps eng (create eng i) hist) db).1 later =
    trace eng (load eng (freshWith eng (survivors (runOps eng (create eng i) hist))) db).1 later :=
  Reset.load_then_calls_eq_fresh_upto eng R hEq hR hU i hist later db h0

/-- related instances stay related under every call and return the same codes (the simulation the two theorems rest on) -/
theorem calls_preserve_relation (eng : Engine E) (R : E → E → Prop) (hR : Respects eng R) (w1 w2 : W E) (op : Op)
    (h : Rel R w1 w2) : Rel R (step eng w1 op) (step eng w2 op) ∧ result eng w1 op = result eng w2 op :=
  step_rel eng R hR w1 w2 op h

/-- the equation form is the special case R = equality -/
theorem engineReset_is_upto_eq (eng : Engine E) : EngineReset eng ↔ EngineResetUpTo eng Eq := Iff.rfl

/-! ### a concrete engine: non-vacuity and the witness that the premise "returns 0" is needed -/

/-- toy engine: the state is the list of definitions read so far; a database containing "bad" has one input error;
    a run whose input contains "fail" reports one error but keeps what it read before -/
def toy : Engine (List String) where
  fresh := []
  unload := fun _ => []
  readDb := fun _ db => if db = "bad" then ([], 1) else ([db], 0)
  readDbText := fun _ db => if db = "bad" then ("ERROR: bad database", "") else ("", "")
  run := fun e env s =>
    (e ++ [s],
     { errors := if s = "fail" then 1 else 0,
       pc := { outputString := if env.sw.outStr then String.intercalate ";" (e ++ [s]) else "",
               logString := if env.logOn && env.sw.logStr then "log" else "" },
       selTables := [(env.curSel, s)], selStrings := [], selLines := [], dumpString := env.dumpString,
       errText := if s = "fail" then "ERROR" else "", warnText := "",
       selNames := env.names.sel, dumpName := env.names.dump, logOn := env.logOn || s = "knobs" })
  testInput := fun _ => "SOLUTION 1;DELETE"
  components := fun e => e

theorem toy_reset : EngineReset toy := fun _ => rfl

/-- a history with setters, a successful run, a run that switches the log on, a failing run and an earlier load -/
def hist1 : List Op :=
  [.setSwitch .outStr true, .setName .out "my.out", .load "db1", .runString "knobs", .setCur 5, .setSelStrOn true,
   .accumulate "line", .runString "fail", .listComponents]

example : (load toy (runOps toy (create toy 3) hist1) "db2").2 = 0 := by decide
-- the history really left something behind …
example : (runOps toy (create toy 3) hist1).c.logOn = true ∧ (runOps toy (create toy 3) hist1).c.curSel = 5 ∧
          (runOps toy (create toy 3) hist1).engine.length = 4 := by decide
-- … and the load removed it, keeping the survivors
example : (load toy (runOps toy (create toy 3) hist1) "db2").1.c.logOn = false ∧
          (load toy (runOps toy (create toy 3) hist1) "db2").1.c.curSel = 1 ∧
          (load toy (runOps toy (create toy 3) hist1) "db2").1.sw.outStr = true ∧
          (load toy (runOps toy (create toy 3) hist1) "db2").1.names.out = "my.out" ∧
          (load toy (runOps toy (create toy 3) hist1) "db2").1.id = 3 := by decide
-- the theorem instantiated: later calls see the same thing (and something non-trivial)
example : trace toy (load toy (runOps toy (create toy 3) hist1) "db2").1 [.runString "x", .listComponents] =
          trace toy (load toy (freshWith toy (survivors (runOps toy (create toy 3) hist1))) "db2").1 [.runString "x", .listComponents] :=
  load_then_calls_eq_fresh toy toy_reset 3 hist1 _ "db2" (by decide)
example : ((trace toy (load toy (runOps toy (create toy 3) hist1) "db2").1 [.runString "x"]).map (·.2.pc.outputString)) =
          ["db2;SOLUTION 1;DELETE;x"] := by decide

/-- the premise "returns 0" cannot be dropped: a load that fails leaves the per-call strings of the history in place
    (UnLoadDatabase does not clear OutputString; only the test run of a successful load does) -/
theorem load_failure_keeps_output_string :
    (load toy (runOps toy (create toy 0) [.setSwitch .outStr true, .load "db1", .runString "x"]) "bad").2 ≠ 0 ∧
    (load toy (runOps toy (create toy 0) [.setSwitch .outStr true, .load "db1", .runString "x"]) "bad").1.pc.outputString ≠
    (load toy (freshWith toy (survivors (runOps toy (create toy 0) [.setSwitch .outStr true, .load "db1", .runString "x"]))) "bad").1.pc.outputString := by
  decide

/-- without `EngineReset` the conclusion fails: an engine whose unload keeps its definitions shows the history after the load -/
def leaky : Engine (List String) := { toy with unload := fun e => e, readDb := fun e db => (e ++ [db], 0) }

theorem engine_reset_needed :
    (load leaky (runOps leaky (create leaky 0) [.load "db1", .runString "x"]) "db2").2 = 0 ∧
    (load leaky (runOps leaky (create leaky 0) [.load "db1", .runString "x"]) "db2").1.engine ≠
    (load leaky (freshWith leaky (survivors (runOps leaky (create leaky 0) [.load "db1", .runString "x"]))) "db2").1.engine := by
  decide

/-! ## Part 2 — obligations over the members extracted from the source (regenerated on every run) -/

open PhreeqcVerif.Gen.Members PhreeqcVerif.ResetPolicy

/-- members the load path puts back -/
def resetIds : List Nat := initAssigned ++ cleaned ++ unloadReset ++ simPrologue

def maskOf (l : List Nat) : Nat := l.foldl (fun m i => m ||| (1 <<< i)) 0

/-- the bit mask in Gen/Members is the mask of the four extracted lists -/
theorem reset_mask_ok : resetMask = maskOf resetIds := by decide +kernel

def isReset (i : Nat) : Bool := resetMask.testBit i

/-- a member path is covered when it, its parent member, or every accessed field of it is reset -/
def covered (i : Nat) : Bool :=
  isReset i ||
  parentOf.any (fun p => p.1 == i && isReset p.2) ||
  (parentOf.any (fun p => p.2 == i) && parentOf.all (fun p => p.2 != i || isReset p.1))

/-- also explained when the parent member is explained -/
def explainedBy (l : List Nat) (i : Nat) : Bool :=
  l.contains i || parentOf.any (fun p => p.1 == i && l.contains p.2)

/-- the same as a bit mask: the members of `l` and the field paths of those members -/
def explainedMask (l : List Nat) : Nat :=
  parentOf.foldl (fun acc p => if (maskOf l).testBit p.2 then acc ||| (1 <<< p.1) else acc) (maskOf l)

/-- the mask in Gen/Members is the mask of the four reviewed lists -/
theorem dead_mask_ok :
    deadMask = explainedMask scratchIds ||| explainedMask healedIds ||| explainedMask fileNamesIds ||| explainedMask knownUnreset := by
  decide +kernel

/-- listed (itself or as a whole member) in a reviewed list: its old value cannot reach a result -/
def dead (i : Nat) : Bool := deadMask.testBit i

/-- the translator recognised every code shape it relies on -/
theorem translator_clean : translatorErrors = [] ∧ unknownResetCallees = [] := by decide

/-- the id lists in Gen/Members are the policy lists -/
theorem policy_ids_ok :
    healedIds.map (fun i => names.getD i "") = healed.map (·.1) ∧
    scratchIds.map (fun i => names.getD i "") = scratch.map (·.1) ∧
    fileNamesIds.map (fun i => names.getD i "") = fileNames.map (·.1) ∧ names.length = memberCount := by
  decide +kernel

/-- `readers_state_reset`: whatever an input reader can write is undone by a load
    (or is a user-set file name, or is healed as ResetPolicy explains, or is a listed known finding) -/
theorem readers_state_reset :
    ∀ f ∈ readerWritten, covered f = true ∨ explainedBy healedIds f = true ∨ explainedBy fileNamesIds f = true ∨
      explainedBy knownUnreset f = true := by
  decide +kernel

/-- reset, or listed (itself or as a whole member) in one of the reviewed lists -/
def accountedPath (i : Nat) : Bool := covered i || dead i

/-- a struct-typed member is also accounted for when every accessed field of it is -/
def accounted (i : Nat) : Bool :=
  accountedPath i || (parentOf.any (fun p => p.2 == i) && parentOf.all (fun p => p.2 != i || accountedPath p.1))

/-- `every_member_accounted`: no data member of class Phreeqc (and no directly accessed field of a struct-typed member) is
    outside reset ∪ scratch ∪ healed ∪ file names -/
theorem every_member_accounted : ∀ f ∈ List.range memberCount, accounted f = true := by
  decide +kernel

/-- the code still has the shape every `healed` reason rests on (e.g. read_master_species ends with an *unconditional*
    gfw_map.clear(), read_rates with rates_map.clear(), delete_entities with delete_info.SetAll(false)), and every healed
    member has such an entry -/
theorem healed_reasons_hold :
    (∀ p ∈ healedBy, p ∈ policyEvidence) ∧ (∀ h ∈ healed, h.1 ∈ healedBy.map (·.1)) ∧ (∀ p ∈ ioHealedBy, p ∈ policyEvidence) := by
  decide +kernel

/-- every scratch member that the policy says "is overwritten by F" is indeed written by F -/
theorem scratch_writers_exist :
    (∀ p ∈ scratchWriter, p ∈ policyEvidence) ∧ (∀ p ∈ scratchWriter, p.1 ∈ scratch.map (·.1)) := by
  decide +kernel

/-- pointer members: every one is reassigned (NULL or a new object) by the load path or is reviewed as dead; every owning
    pointer is released by clean_up() (or by the function the policy names) and every pointer clean_up() releases is
    reassigned afterwards — nothing of an old heap object stays reachable -/
theorem pointer_members_reset :
    (∀ p ∈ pointerMembers, covered p = true ∨ dead p = true) ∧
    (∀ p ∈ ownedPointers, p ∈ freedInCleanUp ∨ p ∈ freedElsewhereIds) ∧
    (∀ p ∈ freedInCleanUp, covered p = true) ∧
    (∀ p ∈ freedElsewhere, p ∈ policyEvidence) ∧
    freedElsewhereIds.map (fun i => names.getD i "") = freedElsewhere.map (·.1) := by
  decide +kernel

/-- PHRQ_io switches that input can flip are restored by UnLoadDatabase / the read_input prologue or explained -/
theorem io_flags_reset :
    ∀ f ∈ ioFlagsSetByReaders, f ∈ ioFlagsResetByUnload ∨ f ∈ ioFlagsResetByPrologue ∨ f ∈ ioHealed.map (·.1) ∨ f ∈ knownUnresetIo := by
  decide +kernel

/-- the load path has the shape the model gives it (facts over the bodies with helpers inlined) -/
theorem load_shape_ok : ∀ p ∈ expectedLoadShape, p ∈ loadShape := by
  decide +kernel

/-- every data member of class IPhreeqc / PHRQ_io has a class in the policy, and the policy names only existing members -/
theorem wrapper_members_classified :
    (∀ f ∈ wrapperFields, f ∈ wrapperClass.map (·.1)) ∧ (∀ p ∈ wrapperClass, p.1 ∈ wrapperFields) := by
  decide +kernel

/-- members the model resets in `unloadDatabase` are reset by IPhreeqc::UnLoadDatabase in the source -/
theorem wrapper_unload_resets : ∀ p ∈ wrapperClass, p.2 = "unload" → p.1 ∈ wrapperUnloadResets := by
  decide +kernel

/-- the survivors (id, global switches, file names) are not written by UnLoadDatabase -/
theorem wrapper_survivors_untouched :
    ∀ p ∈ wrapperClass, (p.2 = "id" ∨ p.2 = "switch" ∨ p.2 = "name") → p.1 ∉ wrapperUnloadWrites := by
  decide +kernel

/-- the per-call members are overwritten by check_database / update_errors / close_output_files -/
theorem wrapper_percall_overwritten : ∀ p ∈ wrapperClass, p.2 = "percall" → p.1 ∈ wrapperPerCall := by
  decide +kernel

/-! ### Part 1 and Part 2 joined: an engine whose state is a valuation of the numbered members -/

/-- a struct-typed member that is only an aggregate of separately numbered field paths, all of them accounted for -/
def aggregateOnly (i : Nat) : Bool :=
  !covered i && parentOf.any (fun p => p.2 == i) && parentOf.all (fun p => p.2 != i || accountedPath p.1)

/-- members whose value can reach a result -/
def liveMember (i : Nat) : Bool := decide (i < memberCount) && !dead i && !aggregateOnly i

theorem live_members_reset_in_range : ∀ i ∈ List.range memberCount, liveMember i = true → covered i = true := by
  decide +kernel

/-- every live member is put back by the load path (the content of `every_member_accounted`, in the form the model uses) -/
theorem live_members_reset (i : Nat) (h : liveMember i = true) : covered i = true := by
  by_cases hi : i < memberCount
  · exact live_members_reset_in_range i (List.mem_range.mpr hi) h
  · simp [liveMember, hi] at h

/-- C07 for every engine whose state assigns a value to each member of class Phreeqc, whose unload is the reset path
    *as extracted from the source* (`covered`), and whose operations cannot see the members listed as dead:
    for every history and every later call sequence the observations after a successful load equal those of a fresh
    instance.  The only engine hypothesis left is `Respects` — "scratch / healed members are not read before written". -/
theorem c07_member_engine {V : Type} (eng : Engine (Nat → V))
    (hunload : eng.unload = unloadTable eng.fresh (fun i => covered i))
    (hR : Respects eng (Agree liveMember)) (i : Nat) (hist later : List Op) (db : String)
    (h0 : (load eng (runOps eng (create eng i) hist) db).2 = 0) :
    trace eng (load eng (runOps eng (create eng i) hist) db).1 later =
    trace eng (load eng (freshWith eng (survivors (runOps eng (create eng i) hist))) db).1 later := by
  apply Reset.load_then_calls_eq_fresh_upto eng (Agree liveMember) (agree_equivalence _) hR _ i hist later db h0
  intro e
  rw [hunload]
  exact unloadTable_agrees eng.fresh (fun i => covered i) liveMember live_members_reset e

-- non-vacuity of Part 2: the sets are large and the obligations bite
example : (List.range memberCount).countP liveMember > 500 := by decide +kernel
example : 500 < memberCount ∧ 150 < readerWritten.length ∧ 300 < initAssigned.length ∧ 50 < cleaned.length := by decide +kernel
example : covered 0 = false := by decide +kernel      -- `phrq_io` is not reset (it is scratch by policy)

end PhreeqcVerif.C07
