import PhreeqcVerif.Model.ErrAcct
/-! Invariants of the error-accounting state machine (helper lemmas for Properties/C08.lean). Core Lean only. -/
namespace PhreeqcVerif.ErrAcct
open PhreeqcVerif.Route

theorem errCount_append (l₁ l₂ : List ErrEv) : errCount (l₁ ++ l₂) = errCount l₁ + errCount l₂ := by
  induction l₁ with
  | nil => simp [errCount]
  | cons e es ih => cases e <;> simp [errCount, ih] <;> omega

/-- `io_error_count` counts the ERROR events of the call -/
def K (a : Acct) : Prop := a.ioErrors = errCount a.events
/-- an `IPhreeqcStop` is only thrown by an ERROR event -/
def S (a : Acct) : Prop := a.stopped = true → a.ioErrors > 0
/-- `input_error` is non-zero only together with a recorded ERROR event -/
def P (a : Acct) : Prop := a.inputError ≠ 0 → a.ioErrors > 0

def Weak (a : Acct) : Prop := K a ∧ S a
def Good (a : Acct) : Prop := K a ∧ S a ∧ P a

theorem Good.weak {a : Acct} (h : Good a) : Weak a := ⟨h.1, h.2.1⟩

theorem good_start : Good Acct.start := by
  simp [Good, K, S, P, Acct.start, errCount]

theorem good_ioErr {a : Acct} (h : K a) (on stop : Bool) (t : List Char) : Good (a.ioErr on stop t) := by
  refine ⟨?_, ?_, ?_⟩
  · simp [K, Acct.ioErr, errCount_append, errCount]; exact h
  · intro _; simp [Acct.ioErr]
  · intro _; simp [Acct.ioErr]

theorem good_engineErr {a : Acct} (h : K a) (on stop : Bool) (t : List Char) : Good (a.engineErr on stop t) := by
  unfold Acct.engineErr
  split
  · exact good_ioErr (a := { a with inputError := 1 }) h on stop t
  · exact good_ioErr h on stop t

theorem weak_bump {a : Acct} (h : Weak a) : Weak a.bump := h
theorem good_warn {a : Acct} (h : Good a) (on : Bool) (t : List Char) : Good (a.warn on t) := by
  obtain ⟨k, s, p⟩ := h
  refine ⟨?_, s, p⟩
  simp [K, Acct.warn, errCount_append, errCount]; exact k
theorem weak_warn {a : Acct} (h : Weak a) (on : Bool) (t : List Char) : Weak (a.warn on t) := by
  obtain ⟨k, s⟩ := h
  refine ⟨?_, s⟩
  simp [K, Acct.warn, errCount_append, errCount]; exact k
theorem good_other {a : Acct} (h : Good a) : Good a.other := h
theorem weak_other {a : Acct} (h : Weak a) : Weak a.other := h

theorem weak_read {a : Acct} (h : Weak a) (s : ReadStep) : Weak (a.read s) := by
  unfold Acct.read
  split
  · exact h
  · cases s with
    | bump => exact weak_bump h
    | engineErr on stop t => exact (good_engineErr h.1 on stop t).weak
    | ioErr on stop t => exact (good_ioErr h.1 on stop t).weak
    | warn on t => exact weak_warn h on t
    | other => exact weak_other h

theorem good_run {a : Acct} (h : Good a) (s : RunStep) : Good (a.run s) := by
  unfold Acct.run
  split
  · exact h
  · cases s with
    | engineErr on stop t => exact good_engineErr h.1 on stop t
    | ioErr on stop t => exact good_ioErr h.1 on stop t
    | warn on t => exact good_warn h on t
    | other => exact good_other h
    | bumpErr on stop t => exact good_engineErr (a := a.bump) h.1 on stop t
    | errBump on stop t =>
      have g := good_engineErr h.1 on stop t
      show Good (if stop = true then a.engineErr on stop t else (a.engineErr on stop t).bump)
      split
      · exact g
      · refine ⟨g.1, g.2.1, ?_⟩
        intro _
        have : (a.engineErr on stop t).ioErrors > 0 := by
          unfold Acct.engineErr; split <;> simp [Acct.ioErr]
        exact this

theorem good_tailStep {a : Acct} (h : Good a) (s : TailStep) : Good (a.tailStep s) := by
  unfold Acct.tailStep
  split
  · exact h
  · cases s with
    | ioErr on stop t => exact good_ioErr h.1 on stop t
    | warn on t => exact good_warn h on t
    | other => exact good_other h

theorem good_readInput {a : Acct} (h : Weak a) : Good a.readInput := by
  unfold Acct.readInput
  split
  · rename_i hs; exact ⟨h.1, h.2, fun _ => h.2 hs⟩
  · exact ⟨h.1, h.2, by simp [P]⟩

theorem good_gate {a : Acct} (h : Weak a) (pe on : Bool) : Good (a.gate pe on) := by
  unfold Acct.gate
  split
  · rename_i hs; exact ⟨h.1, h.2, fun _ => h.2 hs⟩
  · split
    · exact good_engineErr h.1 on true gateText
    · rename_i hc
      refine ⟨h.1, h.2, ?_⟩
      intro hi
      have : a.count = 0 := by
        have := hc; simp at this; omega
      simp [Acct.count, hi] at this

theorem weak_foldl_read (l : List ReadStep) : ∀ {a : Acct}, Weak a → Weak (l.foldl Acct.read a) := by
  induction l with
  | nil => intro a h; exact h
  | cons s l ih => intro a h; exact ih (weak_read h s)

theorem good_foldl_run (l : List RunStep) : ∀ {a : Acct}, Good a → Good (l.foldl Acct.run a) := by
  induction l with
  | nil => intro a h; exact h
  | cons s l ih => intro a h; exact ih (good_run h s)

theorem good_foldl_tail (l : List TailStep) : ∀ {a : Acct}, Good a → Good (l.foldl Acct.tailStep a) := by
  induction l with
  | nil => intro a h; exact h
  | cons s l ih => intro a h; exact ih (good_tailStep h s)

theorem good_sim {a : Acct} (h : Weak a) (s : Sim) : Good (a.sim s) := by
  unfold Acct.sim
  exact good_foldl_run _ (good_gate (weak_foldl_read _ (good_readInput h).weak) _ _)

theorem good_foldl_sim (l : List Sim) : ∀ {a : Acct}, Good a → Good (l.foldl Acct.sim a) := by
  induction l with
  | nil => intro a h; exact h
  | cons s l ih => intro a h; exact ih (good_sim h.weak s)

theorem good_prog {a : Acct} (h : Good a) (p : Program) : Good (a.prog p) := by
  unfold Acct.prog
  exact good_foldl_tail _ (good_readInput (good_foldl_sim _ h).weak)

/-- in a consistent state the value of `get_input_errors()` is non-zero exactly when an ERROR event was routed -/
theorem good_count {a : Acct} (h : Good a) : a.count ≠ 0 ↔ errCount a.events > 0 := by
  obtain ⟨k, _, p⟩ := h
  unfold K at k
  unfold P at p
  unfold Acct.count
  constructor
  · intro hc
    split at hc
    · omega
    · rename_i hi; have := p hi; omega
  · intro he
    split
    · omega
    · rename_i hi; exact hi

/-- one direction needs no shape at all: an ERROR event makes the count non-zero, whatever else happened -/
theorem count_pos_of_K {a : Acct} (k : K a) (he : errCount a.events > 0) : a.count ≠ 0 := by
  unfold K at k
  unfold Acct.count
  split <;> omega

/-! ### STOP ends the stream -/

def NoStop (l : List ErrEv) : Prop := ∀ e ∈ l, isStop e = false

/-- shape of the event list: no STOP event while running; after the throw the STOP event is the last one and nothing was routed since -/
def StopInv (a : Acct) : Prop :=
  (a.stopped = false → NoStop a.events ∧ a.stopAt = none) ∧
  (a.stopped = true → ∃ pre e, a.events = pre ++ [e] ∧ isStop e = true ∧ NoStop pre ∧ a.stopAt = some a.routed)

theorem stopInv_start : StopInv Acct.start := by
  simp [StopInv, Acct.start, NoStop]

theorem stopInv_ioErr {a : Acct} (h : StopInv a) (hs : a.stopped = false) (on stop : Bool) (t : List Char) :
    StopInv (a.ioErr on stop t) := by
  obtain ⟨hn, hnone⟩ := h.1 hs
  cases stop with
  | false =>
    refine ⟨fun _ => ⟨?_, ?_⟩, fun h' => by simp [Acct.ioErr] at h'⟩
    · intro e he
      simp [Acct.ioErr] at he
      rcases he with he | he
      · exact hn e he
      · subst he; rfl
    · simp [Acct.ioErr, hnone]
  | true =>
    refine ⟨fun h' => by simp [Acct.ioErr] at h', fun _ => ⟨a.events, .err on true t, ?_, rfl, hn, ?_⟩⟩
    · simp [Acct.ioErr]
    · simp [Acct.ioErr]

theorem stopInv_engineErr {a : Acct} (h : StopInv a) (hs : a.stopped = false) (on stop : Bool) (t : List Char) :
    StopInv (a.engineErr on stop t) := by
  unfold Acct.engineErr
  split
  · exact stopInv_ioErr (a := { a with inputError := 1 }) h hs on stop t
  · exact stopInv_ioErr h hs on stop t

theorem stopInv_warn {a : Acct} (h : StopInv a) (hs : a.stopped = false) (on : Bool) (t : List Char) : StopInv (a.warn on t) := by
  obtain ⟨hn, hnone⟩ := h.1 hs
  refine ⟨fun _ => ⟨?_, ?_⟩, fun h' => by simp [Acct.warn, hs] at h'⟩
  · intro e he
    simp [Acct.warn] at he
    rcases he with he | he
    · exact hn e he
    · subst he; rfl
  · simp [Acct.warn, hnone]

theorem stopInv_other {a : Acct} (h : StopInv a) (hs : a.stopped = false) : StopInv a.other := by
  obtain ⟨hn, hnone⟩ := h.1 hs
  exact ⟨fun _ => ⟨hn, hnone⟩, fun h' => by simp [Acct.other, hs] at h'⟩

theorem stopInv_bump {a : Acct} (h : StopInv a) : StopInv a.bump := h

theorem stopInv_read {a : Acct} (h : StopInv a) (s : ReadStep) : StopInv (a.read s) := by
  unfold Acct.read
  split
  · exact h
  · rename_i hs
    have hs' : a.stopped = false := by simpa using hs
    cases s with
    | bump => exact stopInv_bump h
    | engineErr on stop t => exact stopInv_engineErr h hs' on stop t
    | ioErr on stop t => exact stopInv_ioErr h hs' on stop t
    | warn on t => exact stopInv_warn h hs' on t
    | other => exact stopInv_other h hs'

theorem stopInv_run {a : Acct} (h : StopInv a) (s : RunStep) : StopInv (a.run s) := by
  unfold Acct.run
  split
  · exact h
  · rename_i hs
    have hs' : a.stopped = false := by simpa using hs
    cases s with
    | engineErr on stop t => exact stopInv_engineErr h hs' on stop t
    | ioErr on stop t => exact stopInv_ioErr h hs' on stop t
    | warn on t => exact stopInv_warn h hs' on t
    | other => exact stopInv_other h hs'
    | bumpErr on stop t => exact stopInv_engineErr (a := a.bump) h hs' on stop t
    | errBump on stop t =>
      show StopInv (if stop = true then a.engineErr on stop t else (a.engineErr on stop t).bump)
      split
      · exact stopInv_engineErr h hs' on stop t
      · exact stopInv_bump (stopInv_engineErr h hs' on stop t)

theorem stopInv_tailStep {a : Acct} (h : StopInv a) (s : TailStep) : StopInv (a.tailStep s) := by
  unfold Acct.tailStep
  split
  · exact h
  · rename_i hs
    have hs' : a.stopped = false := by simpa using hs
    cases s with
    | ioErr on stop t => exact stopInv_ioErr h hs' on stop t
    | warn on t => exact stopInv_warn h hs' on t
    | other => exact stopInv_other h hs'

theorem stopInv_readInput {a : Acct} (h : StopInv a) : StopInv a.readInput := by
  unfold Acct.readInput
  split
  · exact h
  · exact h

theorem stopInv_gate {a : Acct} (h : StopInv a) (pe on : Bool) : StopInv (a.gate pe on) := by
  unfold Acct.gate
  split
  · exact h
  · rename_i hs
    have hs' : a.stopped = false := by simpa using hs
    split
    · exact stopInv_engineErr h hs' on true gateText
    · exact h

theorem stopInv_foldl_read (l : List ReadStep) : ∀ {a : Acct}, StopInv a → StopInv (l.foldl Acct.read a) := by
  induction l with
  | nil => intro a h; exact h
  | cons s l ih => intro a h; exact ih (stopInv_read h s)
theorem stopInv_foldl_run (l : List RunStep) : ∀ {a : Acct}, StopInv a → StopInv (l.foldl Acct.run a) := by
  induction l with
  | nil => intro a h; exact h
  | cons s l ih => intro a h; exact ih (stopInv_run h s)
theorem stopInv_foldl_tail (l : List TailStep) : ∀ {a : Acct}, StopInv a → StopInv (l.foldl Acct.tailStep a) := by
  induction l with
  | nil => intro a h; exact h
  | cons s l ih => intro a h; exact ih (stopInv_tailStep h s)
theorem stopInv_sim {a : Acct} (h : StopInv a) (s : Sim) : StopInv (a.sim s) := by
  unfold Acct.sim
  exact stopInv_foldl_run _ (stopInv_gate (stopInv_foldl_read _ (stopInv_readInput h)) _ _)
theorem stopInv_foldl_sim (l : List Sim) : ∀ {a : Acct}, StopInv a → StopInv (l.foldl Acct.sim a) := by
  induction l with
  | nil => intro a h; exact h
  | cons s l ih => intro a h; exact ih (stopInv_sim h s)
theorem stopInv_prog {a : Acct} (h : StopInv a) (p : Program) : StopInv (a.prog p) := by
  unfold Acct.prog
  exact stopInv_foldl_tail _ (stopInv_readInput (stopInv_foldl_sim _ h))

/-- once the exception is in flight no step of any phase changes anything -/
theorem read_stopped {a : Acct} (h : a.stopped = true) (l : List ReadStep) : l.foldl Acct.read a = a := by
  induction l with
  | nil => rfl
  | cons s l ih => simp [List.foldl, Acct.read, h, ih]
theorem run_stopped {a : Acct} (h : a.stopped = true) (l : List RunStep) : l.foldl Acct.run a = a := by
  induction l with
  | nil => rfl
  | cons s l ih => simp [List.foldl, Acct.run, h, ih]
theorem tail_stopped {a : Acct} (h : a.stopped = true) (l : List TailStep) : l.foldl Acct.tailStep a = a := by
  induction l with
  | nil => rfl
  | cons s l ih => simp [List.foldl, Acct.tailStep, h, ih]
theorem sim_stopped {a : Acct} (h : a.stopped = true) (s : Sim) : a.sim s = a := by
  have h1 : a.readInput = a := by simp [Acct.readInput, h]
  have h2 : a.gate s.parseError s.gateOn = a := by simp [Acct.gate, h]
  simp [Acct.sim, h1, read_stopped h, h2, run_stopped h]
theorem sims_stopped {a : Acct} (h : a.stopped = true) (l : List Sim) : l.foldl Acct.sim a = a := by
  induction l with
  | nil => rfl
  | cons s l ih => simp [List.foldl, sim_stopped h, ih]
theorem prog_stopped {a : Acct} (h : a.stopped = true) (p : Program) : a.prog p = a := by
  have h1 : a.readInput = a := by simp [Acct.readInput, h]
  simp [Acct.prog, sims_stopped h, h1, tail_stopped h]

end PhreeqcVerif.ErrAcct
