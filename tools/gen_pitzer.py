"""Translator (C16): the statements of the activity-coefficient code that `Model/Gamma.lean` and `Model/Pitzer.lean`
transcribe, read from the CURRENT source -> lean/PhreeqcVerif/Gen/GammaSrc.lean.

For each modelled function the comment-free, whitespace-free text of every statement that assigns one of the modelled
quantities is emitted in source order (with whatever `case …:` label / `if (…) {` guard precedes it in the same statement):
  * pitzer.cpp  `pitzer()` (the PITZER_LISTS variant that is compiled): LGAMMA[..], OSMOT, CSUM, F/F1/F2/F_var, GAMCLM, PHIMAC,
                COSMOT, AW, B/B1/B2/pap, XXX, BIGZ/XX/OSUM/DI, M[..]/IPRSNT[..], lg_pitzer; `G`, `GP`; the two result lines of
                `ETHETAS`; `calc_pitz_param`'s temperature function; `pitzer_tidy`'s ln_coef / os_coef / alpha assignments
  * sit.cpp     `sit()`: sit_LGAMMA[..], OSMOT, F, A/AGAMMA/B/T, COSMOT, AW, XX/XI/OSUM/DI/I; `calc_sit_param`
  * model.cpp   `gammas()`: s_x[i]->lg for the aqueous cases, the LLNL interpolation (f, a_llnl, b_llnl, bdot_llnl, ifirst,
                ilast), log_g_co2, the clamp of mu, muhalf
  * read.cpp    `read_species()`: every assignment to gflag / dha / dhb and the two sscanf calls
`Properties/C16.lean` proves (by `rfl`) that these lists are the ones the models were written from; any edit of a modelled
statement breaks that obligation (protocol P: the check then searches for a failing input with its oracles).
Fails closed (RuntimeError) when a function is not found."""
import re
from pathlib import Path

import vlib


class Shape(RuntimeError):
    pass


def strip_comments(src):
    src = re.sub(r"/\*.*?\*/", " ", src, flags=re.S)
    src = re.sub(r"//[^\n]*", "", src)
    return src


def function_body(src, name, occurrence=0):
    ms = list(re.finditer(r"^" + re.escape(name) + r"\s*\(", src, re.M))
    if len(ms) <= occurrence:
        raise Shape(f"gen_pitzer: function {name} (occurrence {occurrence}) not found")
    m = ms[occurrence]
    i = src.index("{", m.end())
    depth, j = 1, i + 1
    while depth:
        if src[j] == "{":
            depth += 1
        elif src[j] == "}":
            depth -= 1
        j += 1
    return src[i + 1:j - 1]


def statements(body, pattern):
    """whitespace-free statements (split on ';') that contain an assignment matching `pattern`"""
    body = re.sub(r"^\s*#.*$", "", body, flags=re.M)
    out = []
    rx = re.compile(pattern)
    for st in body.split(";"):
        t = re.sub(r"\s+", "", st)
        if t and rx.search(t):
            out.append(t)
    return out


def extract():
    root = vlib.REPO / "src" / "phreeqcpp"
    pz = strip_comments((root / "pitzer.cpp").read_text(errors="replace"))
    st = strip_comments((root / "sit.cpp").read_text(errors="replace"))
    md = strip_comments((root / "model.cpp").read_text(errors="replace"))
    rd = strip_comments((root / "read.cpp").read_text(errors="replace"))
    lists_defined = re.search(r"^#define\s+PITZER_LISTS", pz, re.M) is not None
    if not lists_defined:
        raise Shape("gen_pitzer: PITZER_LISTS is not defined; the other pitzer() variant would be compiled")
    asg = r"(\+=|-=|(?<![=!<>])=(?!=))"
    tabs = {}
    tabs["pitzerStmts"] = statements(
        function_body(pz, "pitzer", 1),
        r"(LGAMMA\[\w+\]|OSMOT|CSUM|F_var|\bF\b|F1|F2|GAMCLM|PHIMAC|COSMOT|\bAW\b|\bB\b|B1|B2|pap|XXX|BIGZ|\bXX\b|OSUM|\bDI\b|M\[\w+\]|IPRSNT\[\w+\]|lg_pitzer|CONV|->etheta|->ethetap)" + asg)
    tabs["gStmts"] = statements(function_body(pz, "G"), r"\bd" + asg)
    tabs["gpStmts"] = statements(function_body(pz, "GP"), r"\bd" + asg)
    tabs["ethetasStmts"] = statements(function_body(pz, "ETHETAS"), r"(\*etheta|\*ethetap|XCON|\bZZ\b|XJK|XJJ|XKK)" + asg)
    tabs["calcParamStmts"] = statements(function_body(pz, "calc_pitz_param"), r"\bparam" + asg)
    tabs["tidyStmts"] = statements(function_body(pz, "pitzer_tidy"), r"(->ln_coef\[\w+\]|->os_coef|->alpha|\border)" + asg)
    tabs["sitStmts"] = statements(
        function_body(st, "sit"),
        r"(sit_LGAMMA\[\w+\]|OSMOT|\bF\b|\bA\b|AGAMMA|\bB\b|\bT\b|COSMOT|\bAW\b|\bXX\b|\bXI\b|OSUM|\bDI\b|\bI\b|sit_M\[\w+\]|lg_pitzer)" + asg)
    tabs["calcSitParamStmts"] = statements(function_body(st, "calc_sit_param"), r"\bparam" + asg)
    g = function_body(md, "gammas")
    cut = g.find("case4:") if False else None
    allg = statements(g, r"(s_x\[i\]->lg|\bf\b|a_llnl|b_llnl|bdot_llnl|ifirst|ilast|log_g_co2|\bmu\b|muhalf|\ba\b|\bb\b)" + asg)
    # the exchange (case 4) and surface (case 6) branches are outside the model: keep the aqueous statements only
    tabs["gammasStmts"] = [t for t in allg if "equiv" not in t and "alk" not in t and "coef*" not in t and "primary" not in t
                           and "exch_gflag" not in t]
    tabs["readSpeciesStmts"] = statements(function_body(rd, "read_species"), r"(->gflag|->dha|->dhb|\bi)" + asg + r".*")
    tabs["readSpeciesStmts"] = [t for t in tabs["readSpeciesStmts"] if "gflag" in t or "dha" in t or "dhb" in t]
    for k, v in tabs.items():
        if not v:
            raise Shape(f"gen_pitzer: no statements recognised for {k}")
    return tabs


def lean_str(s):
    return '"' + s.replace("\\", "\\\\").replace('"', '\\"') + '"'


def render(tabs):
    out = ["/-! Generated by tools/gen_pitzer.py from src/phreeqcpp/{pitzer,sit,model,read}.cpp — do not edit.",
           "The statements of the activity-coefficient code that Model/Gamma.lean and Model/Pitzer.lean transcribe. -/",
           "namespace PhreeqcVerif.Gen.GammaSrc", ""]
    for k, v in tabs.items():
        out.append(f"def {k} : List String := [")
        out.append(",\n".join("  " + lean_str(t) for t in v))
        out.append("]\n")
    out.append("end PhreeqcVerif.Gen.GammaSrc\n")
    return "\n".join(out)


def generate(ctx=None):
    tabs = extract()
    text = render(tabs)
    out = vlib.LEAN / "PhreeqcVerif" / "Gen" / "GammaSrc.lean"
    if not out.exists() or out.read_text() != text:
        out.write_text(text)
    return {k: len(v) for k, v in tabs.items()}


if __name__ == "__main__":
    import json
    print(json.dumps(generate(), indent=1))
