import PhreeqcVerif.Model.Assemblage
import Mathlib.Tactic.Linarith
import Mathlib.Tactic.Ring
import Mathlib.Tactic.FieldSimp
import Mathlib.Algebra.Order.Field.Basic
/-! Helper lemmas for `Properties/C03.lean`: soundness of the `model()` loop, admissible regions of the PP rows,
the bounds that `reset()` maintains for pure-phase unknowns, sums of mole fractions. -/
set_option linter.style.haveILetI false
set_option linter.unusedSimpArgs false
namespace PhreeqcVerif.Assemblage
open NumOps


section generic
variable {α : Type} [NumOps α] [∀ a b : α, Decidable (a < b)] [∀ a b : α, Decidable (a ≤ b)]

theorem runModel_sound (step : State α → State α) (itmax n : Nat) (s s' : State α)
    (h : runModel step itmax n s = some s') :
    converged s' = true ∧ s'.removeUnstable = false ∧ (checkResiduals s').1 = false ∧ (checkResiduals s').2 = false := by
  induction n generalizing s with
  | zero => simp [runModel] at h
  | succ n ih =>
    simp only [runModel] at h
    split at h
    · rename_i hc
      split at h
      · cases h
      · split at h
        · exact ih _ h
        · cases h
          simp only [Bool.and_eq_true, Bool.not_eq_true'] at hc
          rename_i h1 h2
          exact ⟨hc.1, hc.2, by simpa using h1, by simpa using h2⟩
    · split at h
      · cases h
      · exact ih _ h

theorem gate_rows (step : State α → State α) (itmax n : Nat) (s s' : State α)
    (h : runModel step itmax n s = some s') :
    ∀ r ∈ s'.rows, r.fails s'.env s'.iterations = false ∧ (r.check s'.env).1 = false ∧ (r.check s'.env).2 = false := by
  have ⟨hc, _, h1, h2⟩ := runModel_sound step itmax n s s' h
  intro r hr
  simp only [converged, Bool.and_eq_true, List.all_eq_true, Bool.not_eq_true'] at hc
  simp only [checkResiduals, Bool.or_eq_false_iff, List.any_eq_false] at h1 h2
  exact ⟨hc.2 r hr, by simpa using h1.2 r hr, by simpa using h2 r hr⟩

end generic


/-- admissible region of an unrestricted PP row (no alternative formula, not dissolve_only), in terms of residual -/
theorem pp_pass_plain (f : TransFns Rat) (e : Env Rat) (it : Nat) (u : PP Rat)
    (ha : u.addFormula = false) (hd : u.dissolveOnly = false) :
    letI := ratOps f
    (Row.pp u).fails e it = false → ((Row.pp u).check e).1 = false → ((Row.pp u).check e).2 = false →
      (-e.tol < u.f * LOG_10) ∧ (0 < u.moles → u.f * LOG_10 < e.tol * 100) ∧ 1 ≤ it := by
  letI := ratOps f
  intro h1 h2 h3
  simp only [Row.fails, Row.check, ha, hd, NumOps.lit, NumOps.ofRat, id_eq, Bool.not_false, if_true,
    Bool.false_eq_true, if_false] at h1 h2 h3
  simp only [Bool.or_eq_false_iff, decide_eq_false_iff_not, not_lt] at h1
  by_cases c1 : e.tol * 100 ≤ u.f * LOG_10 <;> by_cases c2 : 0 < u.moles <;> by_cases c3 : u.f * LOG_10 ≤ -e.tol <;>
    simp [c1, c2, c3] at h2 h3 <;> refine ⟨by linarith, fun hm => by linarith, by omega⟩

theorem pp_pass_dissolve (f : TransFns Rat) (e : Env Rat) (it : Nat) (u : PP Rat)
    (ha : u.addFormula = false) (hd : u.dissolveOnly = true) :
    letI := ratOps f
    (Row.pp u).fails e it = false →
      (0 < u.moles → u.f * LOG_10 ≤ e.tol) ∧ (u.moles < u.initial → -e.tol ≤ u.f * LOG_10) := by
  letI := ratOps f
  intro h1
  simp only [Row.fails, ha, hd, NumOps.lit, NumOps.ofRat, id_eq, Bool.not_false, if_true] at h1
  simp only [Bool.or_eq_false_iff, Bool.and_eq_false_iff, decide_eq_false_iff_not, not_lt] at h1
  constructor
  · intro hm
    rcases h1.1 with h | h
    · exact h
    · exact absurd hm (of_decide_eq_false h)
  · intro hm
    rcases h1.2 with h | h
    · exact h
    · exact absurd (by linarith) (of_decide_eq_false h)



/-- bounds that `reset()` maintains for a PP unknown -/
def Bounds (u : PP Rat) : Prop := 0 ≤ u.moles ∧ (u.dissolveOnly = true → u.moles ≤ u.initial)

/-- what the scan of `reset()` guarantees for a revised delta `d` under the common factor `F` -/
def Good (F : Rat) (u : PP Rat) (d : Rat) : Prop :=
  (u.moles = 0 → d ≤ 0) ∧ (0 < u.moles → d ≤ F * u.moles) ∧ (u.dissolveOnly = true → -d ≤ F * (u.initial - u.moles))

theorem good_mono (F G : Rat) (u : PP Rat) (d : Rat) (hb : Bounds u) (hFG : F ≤ G) (h : Good F u d) : Good G u d := by
  obtain ⟨h1, h2, h3⟩ := h
  refine ⟨h1, fun hm => ?_, fun hd => ?_⟩
  · have := h2 hm
    have : F * u.moles ≤ G * u.moles := mul_le_mul_of_nonneg_right hFG hb.1
    linarith
  · have := h3 hd
    have hr : 0 ≤ u.initial - u.moles := by have := hb.2 hd; linarith
    have : F * (u.initial - u.moles) ≤ G * (u.initial - u.moles) := mul_le_mul_of_nonneg_right hFG hr
    linarith

theorem scanDissolve_spec (f : TransFns Rat) (u : PP Rat) (d0 factor : Rat) (hb : Bounds u) (hf : 1 ≤ factor) :
    letI := ratOps f
    factor ≤ (scanDissolve u d0 factor).2 ∧
      (u.dissolveOnly = true → -(scanDissolve u d0 factor).1 ≤ (scanDissolve u d0 factor).2 * (u.initial - u.moles)) := by
  letI := ratOps f
  obtain ⟨hm0, hdis⟩ := hb
  by_cases hd : u.dissolveOnly = true
  · have hr : 0 ≤ u.initial - u.moles := by have := hdis hd; linarith
    by_cases c1 : d0 < 0
    · by_cases c2 : u.initial - u.moles < -d0
      · by_cases c3 : u.initial - u.moles < 0 ∨ 0 < u.initial - u.moles
        · have hr' : 0 < u.initial - u.moles := by rcases c3 with h | h <;> [linarith; exact h]
          have hq : d0 / (u.initial - u.moles) < 0 := div_neg_of_neg_of_pos c1 hr'
          simp only [scanDissolve, hd, c1, c2, c3, NumOps.lit, NumOps.ofRat, id_eq, absv, hq, decide_true, Bool.and_self,
            if_true]
          have hcancel : -(d0 / (u.initial - u.moles)) * (u.initial - u.moles) = -d0 := by field_simp
          by_cases c4 : factor < -(d0 / (u.initial - u.moles))
          · simp only [c4, if_true]
            exact ⟨le_of_lt c4, fun _ => by rw [hcancel]⟩
          · simp only [c4, if_false]
            refine ⟨le_refl _, fun _ => ?_⟩
            have : -(d0 / (u.initial - u.moles)) * (u.initial - u.moles) ≤ factor * (u.initial - u.moles) :=
              mul_le_mul_of_nonneg_right (not_lt.mp c4) hr
            linarith
        · simp only [scanDissolve, hd, c1, c2, c3, NumOps.lit, NumOps.ofRat, id_eq, decide_true, Bool.and_self, if_true, if_false]
          refine ⟨le_refl _, fun _ => ?_⟩
          have : 0 ≤ factor * (u.initial - u.moles) := mul_nonneg (by linarith) hr
          linarith
      · simp only [scanDissolve, hd, c1, c2, NumOps.lit, NumOps.ofRat, id_eq, decide_true, decide_false, Bool.and_false,
          Bool.and_true, Bool.false_eq_true, if_false]
        refine ⟨le_refl _, fun _ => ?_⟩
        have : (u.initial - u.moles) ≤ factor * (u.initial - u.moles) := by
          have := mul_le_mul_of_nonneg_right hf hr; linarith
        linarith
    · simp only [scanDissolve, hd, c1, NumOps.lit, NumOps.ofRat, id_eq, decide_false, Bool.and_false, Bool.false_and,
        Bool.false_eq_true, if_false]
      refine ⟨le_refl _, fun _ => ?_⟩
      have : 0 ≤ factor * (u.initial - u.moles) := mul_nonneg (by linarith) hr
      linarith
  · simp only [Bool.not_eq_true] at hd
    simp only [scanDissolve, hd, Bool.false_and, Bool.false_eq_true, if_false]
    exact ⟨le_refl _, fun h => by cases h⟩

theorem scanRemove_spec (f : TransFns Rat) (u : PP Rat) (d1 f1 : Rat) (hb : Bounds u) (hf : 1 ≤ f1) :
    letI := ratOps f
    f1 ≤ (scanRemove u d1 f1).2 ∧ ((scanRemove u d1 f1).1 = d1 ∨ (scanRemove u d1 f1).1 = 0) ∧
      (u.moles = 0 → (scanRemove u d1 f1).1 ≤ 0) ∧
      (0 < u.moles → (scanRemove u d1 f1).1 ≤ (scanRemove u d1 f1).2 * u.moles) := by
  letI := ratOps f
  obtain ⟨hm0, _⟩ := hb
  by_cases c1 : 0 < u.moles
  · by_cases c2 : u.moles < d1
    · have hcancel : d1 / u.moles * u.moles = d1 := by field_simp
      simp only [scanRemove, c1, c2, NumOps.lit, NumOps.ofRat, id_eq, decide_true, Bool.and_self, if_true]
      by_cases c4 : f1 < d1 / u.moles
      · simp only [c4, if_true]
        exact ⟨le_of_lt c4, by simp, fun h => by linarith, fun _ => by rw [hcancel]⟩
      · simp only [c4, if_false]
        refine ⟨le_refl _, by simp, fun h => by linarith, fun _ => ?_⟩
        have : d1 / u.moles * u.moles ≤ f1 * u.moles := mul_le_mul_of_nonneg_right (not_lt.mp c4) hm0
        linarith
    · have c3 : ¬ u.moles ≤ 0 := by linarith
      simp only [scanRemove, c1, c2, c3, NumOps.lit, NumOps.ofRat, id_eq, decide_true, decide_false, Bool.and_false,
        Bool.false_eq_true, if_false]
      refine ⟨le_refl _, by simp, fun h => by linarith, fun _ => ?_⟩
      have : u.moles ≤ f1 * u.moles := by have := mul_le_mul_of_nonneg_right hf hm0; linarith
      linarith
  · have c3 : u.moles ≤ 0 := by linarith
    by_cases c5 : 0 < d1
    · simp only [scanRemove, c1, c3, c5, NumOps.lit, NumOps.ofRat, id_eq, decide_true, decide_false, Bool.false_and,
        Bool.and_self, Bool.false_eq_true, if_false, if_true]
      exact ⟨le_refl _, by simp, fun _ => le_refl _, fun h => h.elim⟩
    · simp only [scanRemove, c1, c3, c5, NumOps.lit, NumOps.ofRat, id_eq, decide_true, decide_false, Bool.false_and,
        Bool.and_true, Bool.false_eq_true, if_false]
      exact ⟨le_refl _, by simp, fun _ => by linarith, fun h => h.elim⟩

theorem resetScan_spec (f : TransFns Rat) (u : PP Rat) (d factor : Rat) (hb : Bounds u) (hf : 1 ≤ factor) :
    letI := ratOps f
    factor ≤ (resetScan u d factor).2 ∧ Good (resetScan u d factor).2 u (resetScan u d factor).1 := by
  letI := ratOps f
  have h1 := scanDissolve_spec f u (clampDelta d) factor hb hf
  have h2 := scanRemove_spec f u (scanDissolve u (clampDelta d) factor).1 (scanDissolve u (clampDelta d) factor).2 hb
    (le_trans hf h1.1)
  simp only [resetScan]
  refine ⟨le_trans h1.1 h2.1, h2.2.2.1, h2.2.2.2, fun hd => ?_⟩
  have hr : 0 ≤ u.initial - u.moles := by have := hb.2 hd; linarith
  have h3 := h1.2 hd
  have hmono := mul_le_mul_of_nonneg_right h2.1 hr
  rcases h2.2.1 with h | h
  · rw [h]; linarith
  · rw [h]
    have : 0 ≤ (scanRemove u (scanDissolve u (clampDelta d) factor).1 (scanDissolve u (clampDelta d) factor).2).2 * (u.initial - u.moles) :=
      mul_nonneg (by linarith [le_trans hf h1.1, h2.1]) hr
    linarith


theorem resetScanAll_spec (f : TransFns Rat) (us : List (PP Rat × Rat)) (factor : Rat)
    (hb : ∀ p ∈ us, Bounds p.1) (hf : 1 ≤ factor) :
    letI := ratOps f
    factor ≤ (resetScanAll us factor).2 ∧ (resetScanAll us factor).1.length = us.length ∧
      ∀ q ∈ us.zip (resetScanAll us factor).1, Good (resetScanAll us factor).2 q.1.1 q.2 := by
  letI := ratOps f
  induction us generalizing factor with
  | nil => simp [resetScanAll]
  | cons p rest ih =>
    obtain ⟨u, d⟩ := p
    have hbu : Bounds u := hb (u, d) (by simp)
    have h1 := resetScan_spec f u d factor hbu hf
    have ih' := ih (resetScan u d factor).2 (fun q hq => hb q (by simp [hq])) (le_trans hf h1.1)
    simp only [resetScanAll]
    refine ⟨le_trans h1.1 ih'.1, by simp [ih'.2.1], ?_⟩
    intro q hq
    simp only [List.zip_cons_cons, List.mem_cons] at hq
    rcases hq with hq | hq
    · subst hq
      exact good_mono _ _ u _ hbu ih'.1 h1.2
    · exact ih'.2.2 q hq

theorem resetApply_bounds (f : TransFns Rat) (e : Env Rat) (u : PP Rat) (d F : Rat) (hb : Bounds u) (hF : 1 ≤ F)
    (hg : Good F u d) :
    letI := ratOps f
    Bounds (resetApply e u (d / F)) := by
  letI := ratOps f
  obtain ⟨hm0, hdis⟩ := hb
  obtain ⟨g1, g2, g3⟩ := hg
  have hFp : 0 < F := by linarith
  have hlow : 0 ≤ u.moles - d / F := by
    rcases lt_or_eq_of_le hm0 with h | h
    · have := g2 h
      have : d / F ≤ u.moles := by rw [div_le_iff₀ hFp]; linarith
      linarith
    · have := g1 h.symm
      have : d / F ≤ 0 := div_nonpos_of_nonpos_of_nonneg this hFp.le
      linarith
  have hup : u.dissolveOnly = true → u.moles - d / F ≤ u.initial := by
    intro hd
    have := g3 hd
    have : -d / F ≤ u.initial - u.moles := by rw [div_le_iff₀ hFp]; linarith
    have e1 : -d / F = -(d / F) := by ring
    linarith
  have hini : u.dissolveOnly = true → 0 ≤ u.initial := fun hd => le_trans hm0 (hdis hd)
  simp only [resetApply, Bounds, NumOps.lit, NumOps.ofRat, id_eq]
  by_cases hd : u.dissolveOnly = true
  · simp only [hd, Bool.true_and]
    split <;> split <;> simp_all
  · simp only [Bool.not_eq_true] at hd
    simp only [hd, Bool.false_and, Bool.false_eq_true, if_false]
    split <;> simp_all

/-- bounds of every PP unknown after `reset()` -/
theorem resetPP_bounds (f : TransFns Rat) (e : Env Rat) (us : List (PP Rat × Rat)) (hb : ∀ p ∈ us, Bounds p.1) :
    letI := ratOps f
    ∀ u' ∈ resetPP e us, Bounds u' := by
  letI := ratOps f
  have h := resetScanAll_spec f us 1 hb (le_refl _)
  intro u' hu'
  simp only [resetPP, NumOps.lit, NumOps.ofRat, id_eq, List.mem_map] at hu'
  obtain ⟨q, hq, rfl⟩ := hu'
  have hbq : Bounds q.1.1 := hb q.1 (List.of_mem_zip hq).1
  exact resetApply_bounds f e q.1.1 q.2 _ hbq h.1 (h.2.2 q hq)



theorem lt_of_mul_lt {a b L : Rat} (hL : 0 < L) (h : a * L < b * L) : a < b := lt_of_mul_lt_mul_right h hL.le
theorem le_of_mul_le {a b L : Rat} (hL : 0 < L) (h : a * L ≤ b * L) : a ≤ b := le_of_mul_le_mul_right h hL

/-- sum of the fractions -/
theorem sumL_map_div (f : TransFns Rat) (ns : List Rat) (t : Rat) :
    letI := ratOps f
    sumL (ns.map fun n => n / t) = sumL ns / t := by
  letI := ratOps f
  induction ns with
  | nil => simp [sumL, NumOps.lit, NumOps.ofRat]
  | cons n rest ih =>
    simp only [List.map_cons, sumL, ih]
    ring

theorem ssTotal_eq (f : TransFns Rat) (ns : List Rat) :
    letI := ratOps f
    ssTotal ns = sumL ns := by
  letI := ratOps f
  have h : ∀ (l : List Rat) (acc : Rat), l.foldl (fun acc n => acc + n) acc = acc + sumL l := by
    intro l
    induction l with
    | nil => intro acc; simp only [List.foldl_nil, sumL, NumOps.lit]; exact (add_zero acc).symm
    | cons n rest ih => intro acc; simp only [List.foldl_cons, ih, sumL]; ring
  simp only [ssTotal, NumOps.lit, NumOps.ofRat, id_eq, h]
  ring

theorem sumL_pos (f : TransFns Rat) (ns : List Rat) (hne : ns ≠ []) (hp : ∀ n ∈ ns, 0 < n) :
    letI := ratOps f
    0 < sumL ns := by
  letI := ratOps f
  induction ns with
  | nil => exact absurd rfl hne
  | cons n rest ih =>
    simp only [sumL]
    have hn := hp n (by simp)
    by_cases hr : rest = []
    · subst hr; simp [sumL, NumOps.lit, NumOps.ofRat]; exact hn
    · have := ih hr (fun m hm => hp m (by simp [hm])); linarith


end PhreeqcVerif.Assemblage
