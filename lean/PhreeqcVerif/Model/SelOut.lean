/-
Model of `CSelectedOutput` (src/CSelectedOutput.cpp) and of the VAR variant (src/Var.c).
Core Lean only (no Mathlib) so that the driver links.

The C++ object keeps
  m_vecVarHeadings : vector<CVar>            -- one heading per column, in column order
  m_mapHeadingToCol: map<string,size_t>      -- heading -> column; a new key gets index = map.size()
  m_arrayVar       : vector<vector<CVar>>    -- column-major cells
  m_nRowCount      : size_t                  -- completed data rows
Because every new key appends exactly one heading and receives index `size()`, the map is
the function "index of the key in the heading vector"; the model uses `List.idxOf?`-style
lookup (`findCol`) instead of a separate map.
-/
namespace PhreeqcVerif.SelOut

/-- VRESULT codes of Var.h. -/
def VR_OK : Int := 0
def VR_OUTOFMEMORY : Int := -1
def VR_BADVARTYPE : Int := -2
def VR_INVALIDARG : Int := -3
def VR_INVALIDROW : Int := -4
def VR_INVALIDCOL : Int := -5

/-- The VAR variant. Doubles are carried as their bit pattern (exact routing, no arithmetic). -/
inductive Var where
  | empty
  | error (code : Int)
  | long (v : Int)
  | double (bits : UInt64)
  | str (s : String)
deriving DecidableEq, Repr, Inhabited

def Var.isError : Var → Bool
  | .error _ => true
  | _ => false

structure Table where
  headings : List String
  cols : List (List Var)
  rowCount : Nat
deriving Repr, DecidableEq

def Table.init : Table := ⟨[], [], 0⟩

def Table.clear (_ : Table) : Table := Table.init

def Table.colCount (t : Table) : Nat := t.headings.length

/-- `GetRowCount`: data rows + heading row, 0 when there are no columns. -/
def Table.rowCountAPI (t : Table) : Nat :=
  if t.colCount ≠ 0 then t.rowCount + 1 else 0

/-- Column of a heading (`m_mapHeadingToCol.find`). -/
def findCol : List String → String → Option Nat
  | [], _ => none
  | h :: hs, k => if h = k then some 0 else (findCol hs k).map (· + 1)

/-- apply `f` to the `i`-th element -/
def modifyNth {α} (f : α → α) : List α → Nat → List α
  | [], _ => []
  | x :: xs, 0 => f x :: xs
  | x :: xs, n+1 => x :: modifyNth f xs n

def padTo (n : Nat) (c : List Var) : List Var :=
  c ++ List.replicate (n - c.length) Var.empty

/-- what `PushBack` does to an existing column -/
def putCell (r : Nat) (v : Var) (c : List Var) : List Var :=
  if c.length = r then c ++ [v] else c.set r v

/-- `CSelectedOutput::PushBack(key, var)` -/
def Table.pushBack (t : Table) (key : String) (v : Var) : Table :=
  match findCol t.headings key with
  | none =>
    { t with headings := t.headings ++ [key],
             cols := t.cols ++ [List.replicate t.rowCount Var.empty ++ [v]] }
  | some i =>
    { t with cols := modifyNth (putCell t.rowCount v) t.cols i }

/-- `CSelectedOutput::EndRow()`. Since fix b4accc5a the row is counted even while the table has no column
(`GetRowCount` still answers 0 then; a column that appears later is padded with `rowCount` empty cells by `PushBack`);
before it a row ended without columns was dropped. -/
def Table.endRow (t : Table) : Table :=
  { t with rowCount := t.rowCount + 1, cols := t.cols.map (padTo (t.rowCount + 1)) }

/-- `CSelectedOutput::Get(nRow, nCol, pVAR)`: result code and the VAR written. -/
def Table.get (t : Table) (nRow nCol : Int) : Int × Var :=
  if nRow < 0 ∨ nRow ≥ (t.rowCountAPI : Int) then (VR_INVALIDROW, .error VR_INVALIDROW)
  else if nCol < 0 ∨ nCol ≥ (t.colCount : Int) then (VR_INVALIDCOL, .error VR_INVALIDCOL)
  else if nRow = 0 then (VR_OK, .str (t.headings.getD nCol.toNat ""))
  else (VR_OK, (t.cols.getD nCol.toNat []).getD (nRow.toNat - 1) .empty)

inductive Op where
  | push (key : String) (v : Var)
  | endRow
  | clear
deriving Repr, DecidableEq

def Table.step (t : Table) : Op → Table
  | .push k v => t.pushBack k v
  | .endRow => t.endRow
  | .clear => t.clear

def Table.run (t : Table) (ops : List Op) : Table := ops.foldl Table.step t

/-- Invariant of the object between calls. -/
structure Table.Inv (t : Table) : Prop where
  ncols : t.cols.length = t.headings.length
  cells : ∀ c ∈ t.cols, c.length = t.rowCount ∨ c.length = t.rowCount + 1

/-- Every column is complete (state right after `EndRow`, `Clear` or construction). -/
def Table.Full (t : Table) : Prop := ∀ c ∈ t.cols, c.length = t.rowCount


/-! ### language bindings (`IPhreeqc::GetSelectedOutputValue`, `…Value2`, `GetSelectedOutputValueF`,
`GetSelectedOutputRowCountF`, `padfstring`) -/

/-- `IPhreeqc::GetSelectedOutputValue` for the current user number: no table for that number →
`VR_INVALIDARG` and an error-typed VAR -/
def getOpt (t : Option Table) (r c : Int) : Int × Var :=
  match t with
  | none => (VR_INVALIDARG, .error VR_INVALIDARG)
  | some t => t.get r c

/-- the Fortran accessor: columns are 1-based, rows are passed through (row 0 = headings) -/
def getOptF (t : Option Table) (r c1 : Int) : Int × Var := getOpt t r (c1 - 1)

/-- `GetSelectedOutputRowCountF`: data rows only -/
def rowCountF (api : Nat) : Nat := if api > 0 then api - 1 else api

/-- VAR_TYPE codes; `Value2`/`ValueF` report a long as a double -/
def vtypeReported : Var → Int
  | .empty => 0
  | .error _ => 1
  | .long _ => 3
  | .double _ => 3
  | .str _ => 4

/-- `*dvalue` as written by `Value2`/`ValueF` (bit pattern), `none` = left untouched -/
def dvalReported : Var → Option UInt64
  | .long v => some (Float.ofInt v).toBits
  | .double b => some b
  | _ => none

/-- `padfstring(dest, src, &len)`: `cap` bytes = the first `cap` bytes of `src`, blank-padded; reported length = strlen(src) -/
def padF (cap : Nat) (src : List UInt8) : List UInt8 × Nat :=
  (src.take cap ++ List.replicate (cap - src.length) 32, src.length)

/-- `strncpy(svalue, src, cap)` as seen through `strnlen(svalue, cap)` -/
def strncpyView (cap : Nat) (src : List UInt8) : List UInt8 := src.take cap

end PhreeqcVerif.SelOut
