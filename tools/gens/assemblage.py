"""Seeded generator of PHREEQC reaction calculations with reactant assemblages (property C03).

A case is a *spec* (plain dict, JSON-able) that `render(spec)` turns into input text, so a failing case can be shrunk by
editing the spec.  All randomness comes from the `rng` passed in.  `dbinfo` is what the harness's `list` op reports for a
database: {"phases": {name: {"elts": {el: coef}, "gas": bool, "redox": bool}}, "ex": bool, "hfo": bool}.

Shape of a case: SOLUTION 1 (2–7 elements, pH 3.5–10.5, 0–100 C) + EQUILIBRIUM_PHASES 1 (1–6 minerals drawn from the
database; target SI 0 or in [-2, 2]; initial amount 0 / default 10 / 1e-6…1; dissolve_only, precipitate_only,
-force_equality, alternative formula / alternative phase) + optionally EXCHANGE 1 (explicit composition, or
-equilibrate, or related to a mineral), SURFACE 1 (Hfo sites, explicit or -equilibrate, ddl or -no_edl) and
SOLID_SOLUTIONS 1 (ideal with 2–4 components, or binary non-ideal with -Gugg_nondim / -Gugg_kJ / -Thompson /
-Margules / -activity_coefficients / -tempk); then 0–2 further simulations that USE the saved reactants and add a
REACTION (acid, base, salts, CO2; 1–3 steps, sometimes INCREMENTAL_REACTIONS) or change the temperature.
"""
import math

# every database family: Debye–Hückel/Davies (phreeqc, wateq4f, minteq.v4), LLNL, Pitzer (model_pz), SIT (model_sit)
DBS = ["phreeqc.dat", "wateq4f.dat", "minteq.v4.dat", "llnl.dat", "pitzer.dat", "sit.dat"]
DBW = [0.34, 0.14, 0.12, 0.15, 0.14, 0.11]

# solution components: keyword, element symbol(s) it brings, (lo, hi) mol/kgw
COMPS = [
    ("Na", ["Na"], (1e-4, 0.3)), ("K", ["K"], (1e-5, 0.05)), ("Ca", ["Ca"], (1e-5, 0.05)), ("Mg", ["Mg"], (1e-5, 0.05)),
    ("Cl", ["Cl"], (1e-4, 0.3)), ("S(6)", ["S"], (1e-5, 0.05)), ("C(4)", ["C"], (1e-5, 0.02)), ("Si", ["Si"], (1e-6, 2e-3)),
    ("Al", ["Al"], (1e-8, 1e-5)), ("Fe(2)", ["Fe"], (1e-7, 1e-3)), ("Fe(3)", ["Fe"], (1e-9, 1e-5)), ("Ba", ["Ba"], (1e-7, 1e-4)),
    ("Sr", ["Sr"], (1e-6, 1e-3)), ("Mn(2)", ["Mn"], (1e-7, 1e-4)), ("F", ["F"], (1e-6, 1e-3)), ("P", ["P"], (1e-7, 1e-4)),
    ("Zn", ["Zn"], (1e-8, 1e-4)), ("Cd", ["Cd"], (1e-9, 1e-5)), ("Pb", ["Pb"], (1e-9, 1e-5)), ("Cu(2)", ["Cu"], (1e-9, 1e-5)),
]
CW = [8, 4, 9, 6, 8, 7, 9, 4, 2, 2, 1, 2, 3, 1, 2, 1, 1, 1, 1, 1]
COMMON = ["Calcite", "Gypsum", "Dolomite", "Aragonite", "Anhydrite", "Quartz", "Chalcedony", "SiO2(a)", "Barite", "Celestite",
          "Fluorite", "Siderite", "Rhodochrosite", "Strontianite", "Witherite", "Magnesite", "Halite", "Sylvite", "Gibbsite",
          "Kaolinite", "Fe(OH)3(a)", "Goethite", "Brucite", "Portlandite", "Smithsonite", "Otavite", "Cerussite", "Hydroxyapatite"]
SS_FAMILIES = [["Calcite", "Strontianite", "Rhodochrosite", "Siderite", "Smithsonite", "Magnesite", "Otavite", "Witherite", "Cerussite"],
               ["Aragonite", "Strontianite", "Witherite", "Cerussite"],
               ["Barite", "Celestite", "Anhydrite", "Anglesite"], ["Gypsum", "Anhydrite"]]
ZAPPROX = {"Na": 1, "K": 1, "Ca": 2, "Mg": 2, "Cl": -1, "S(6)": -2, "C(4)": -1, "Si": 0, "Al": 3, "Fe(2)": 2, "Fe(3)": 3, "Ba": 2,
           "Sr": 2, "Mn(2)": 2, "F": -1, "P": -1.5, "Zn": 2, "Cd": 2, "Pb": 2, "Cu(2)": 2}
REACTANTS = [("HCl", 1e-5, 0.05), ("NaOH", 1e-5, 0.05), ("CO2", 1e-5, 0.05), ("CaCl2", 1e-5, 0.02), ("Na2SO4", 1e-5, 0.02),
             ("NaCl", 1e-4, 0.5), ("H2SO4", 1e-5, 0.01), ("Na2CO3", 1e-5, 0.02), ("H2O", 0.1, 20), ("MgCl2", 1e-5, 0.02)]


def loguni(rng, lo, hi):
    return 10 ** rng.uniform(math.log10(lo), math.log10(hi))


def fmt(x):
    return "%.8g" % x


def eligible(dbinfo, elems, allow_missing=0):
    out = []
    have = set(elems) | {"H", "O"}
    for nm, p in dbinfo["phases"].items():
        if p["gas"]:
            continue
        miss = [e for e in p["elts"] if e not in have and e != "E"]
        if len(miss) <= allow_missing:
            out.append(nm)
    return sorted(out)


def gen_phase(rng, dbinfo, name, pool):
    ph = {"name": name, "si": 0.0 if rng.random() < 0.5 else round(rng.uniform(-2, 2), 3)}
    r = rng.random()
    ph["moles"] = 0.0 if r < 0.25 else (10.0 if r < 0.4 else float(fmt(loguni(rng, 1e-6, 1.0))))
    r = rng.random()
    if r < 0.12:
        ph["opt"] = "dissolve_only"
    elif r < 0.24:
        ph["opt"] = "precipitate_only"
    if rng.random() < 0.1:
        ph["force_equality"] = True
    if rng.random() < 0.08 and "opt" not in ph:
        # alternative formula (a salt) or alternative phase
        if rng.random() < 0.5 and len(pool) > 1:
            ph["alt"] = rng.choice([p for p in pool if p != name])
        else:
            ph["alt"] = rng.choice(["CaCl2", "NaOH", "HCl", "Na2SO4", "NaHCO3", "CO2"])
    return ph


def redefine(rng, phases):
    """same minerals, same order; restriction / force_equality / target / amount (rarely the alternative formula) changed"""
    import copy
    out = copy.deepcopy(phases)
    changed = False
    for p in out:
        if rng.random() < 0.55 or (not changed and p is out[-1]):
            changed = True
            r = rng.random()
            if r < 0.4 and "alt" not in p:
                new = rng.choice([None, "dissolve_only", "precipitate_only"])
                if new == p.get("opt"):
                    new = None if p.get("opt") else "dissolve_only"
                p.pop("opt", None)
                if new:
                    p["opt"] = new
            elif r < 0.5:
                if p.pop("force_equality", None) is None:
                    p["force_equality"] = True
            elif r < 0.8:
                p["si"] = 0.0 if (p["si"] != 0 and rng.random() < 0.4) else round(p["si"] + rng.choice([-1, 1]) * rng.uniform(0.05, 1.5), 3)
            elif r < 0.95:
                p["moles"] = 0.0 if rng.random() < 0.3 else float(fmt(loguni(rng, 1e-6, 1.0)))
            elif "alt" in p:
                p.pop("alt")
            else:
                p["si"] = round(p["si"] - 0.5, 3)
    return out


def gen_case(rng, i, dbinfos):
    db = rng.choices(DBS, DBW)[0]
    info = dbinfos[db]
    ncomp = rng.randint(2, 7)
    comps = []
    known = info.get("elements")
    avail = [(c, w) for c, w in zip(COMPS, CW) if known is None or (c[0] in known and all(e in known for e in c[1]))]
    ncomp = min(ncomp, len(avail))
    while len(comps) < ncomp:
        c = rng.choices([a[0] for a in avail], [a[1] for a in avail])[0]
        if all(c[0] != d["kw"] for d in comps):
            comps.append({"kw": c[0], "conc": float(fmt(loguni(rng, *c[2])))})
    want_ss = rng.random() < 0.4
    if want_ss:
        add = rng.choice([["Ca", "C(4)", "Sr"], ["Ca", "C(4)", "Mn(2)", "Mg"], ["Ba", "Sr", "S(6)"], ["Ca", "C(4)", "Ba", "Sr"],
                          ["Ca", "C(4)", "Fe(2)", "Mn(2)"], ["Ca", "S(6)"], ["Ca", "C(4)", "Zn", "Cd"]])
        for kw in add:
            c = next(c for c in COMPS if c[0] == kw)
            if known is not None and not (c[0] in known and all(e in known for e in c[1])):
                continue
            if all(kw != d["kw"] for d in comps):
                comps.append({"kw": kw, "conc": float(fmt(loguni(rng, *c[2])))})
    elems = sorted({e for d in comps for c in COMPS if c[0] == d["kw"] for e in c[1]})
    temp = round(rng.choice([25.0, 25.0, rng.uniform(0, 100), rng.uniform(0, 100), rng.uniform(5, 40)]), 2)
    spec = {"id": i, "db": db, "temp": temp, "pH": round(rng.uniform(3.5, 10.5), 2), "pe": round(rng.choice([4.0, 4.0, rng.uniform(-3, 12)]), 2),
            "comps": comps, "water": 1.0 if rng.random() < 0.8 else float(fmt(loguni(rng, 0.05, 5)))}
    if rng.random() < 0.6:
        # put the charge-balance keyword on the ion that has to be ADDED (Cl for a cation excess, Na for an anion excess)
        net = sum(ZAPPROX.get(d["kw"], 0) * d["conc"] for d in comps)
        kw = "Cl" if net > 0 else "Na"
        if all(d["kw"] != kw for d in comps):
            comps.append({"kw": kw, "conc": float(fmt(max(abs(net), 1e-5)))})
        spec["charge"] = kw
        elems = sorted(set(elems) | {kw})
    pool = eligible(info, elems)
    pool1 = eligible(info, elems, 1)
    common = [p for p in COMMON if p in pool]
    nph = rng.choices([1, 2, 3, 4, 5, 6], [3, 4, 4, 3, 2, 1])[0]
    if rng.random() < 0.12:
        nph = 0
    phases = []
    for _ in range(nph):
        r = rng.random()
        src = common if (r < 0.55 and common) else (pool if (r < 0.9 and pool) else pool1)
        if not src:
            continue
        nm = rng.choice(src)
        if any(p["name"].lower() == nm.lower() for p in phases):
            continue
        phases.append(gen_phase(rng, info, nm, pool))
    # a gas held at a fixed partial pressure (only SI = target is judged here; the fugacity-adjusted target is the engine's, C19)
    if rng.random() < 0.12 and "CO2(g)" in info["phases"] and len(phases) < 6 and (known is None or "C(4)" in known):
        if all(d["kw"] != "C(4)" for d in comps) and (known is None or "C(4)" in known):
            comps.append({"kw": "C(4)", "conc": float(fmt(loguni(rng, 1e-5, 0.02)))})
        phases.append({"name": "CO2(g)", "si": round(rng.uniform(-4, -0.5), 3), "moles": rng.choice([10.0, 10.0, 0.0, float(fmt(loguni(rng, 1e-4, 1)))]),
                       "gas": True})
    # targeted: two polymorphs defined in the input whose log K differ by 1e-8 … 1e-2 (around the thresholds tol/ln10,
    # 100·tol/ln10 and the property's 1e-6): the more soluble one must end absent unless the difference is below tolerance
    if rng.random() < 0.14:
        for kw in ("Ca", "C(4)"):
            if all(kw != d["kw"] for d in comps):
                c = next(c for c in COMPS if c[0] == kw)
                comps.append({"kw": kw, "conc": float(fmt(loguni(rng, *c[2])))})
        spec["twin"] = {"logk": round(rng.uniform(-9.2, -7.8), 3), "delta": float(fmt(loguni(rng, 1e-8, 1e-2)))}
        phases = phases[:4]
        r = rng.random()
        ma = float(fmt(loguni(rng, 1e-5, 1e-1)))
        mb = float(fmt(loguni(rng, 1e-5, 1e-1)))
        if r < 0.2:
            ma = 0.0
        elif r < 0.4:
            mb = 0.0
        tsi = 0.0 if rng.random() < 0.6 else round(rng.uniform(-1, 1), 3)
        phases.append({"name": "TwinA", "si": tsi, "moles": ma})
        phases.append({"name": "TwinB", "si": tsi, "moles": mb})
    spec["phases"] = phases
    # exchanger
    if info["ex"] and rng.random() < 0.4:
        ex = {"kind": rng.choice(["explicit", "explicit", "equilibrate", "equilibrate", "phase"])}
        cap = float(fmt(loguni(rng, 1e-4, 0.5)))
        if ex["kind"] == "explicit":
            forms = [("NaX", 1), ("KX", 1), ("CaX2", 2), ("MgX2", 2), ("X", 1)]
            k = rng.randint(1, 3)
            ex["comps"] = []
            for f, z in rng.sample(forms, k):
                if True:
                    ex["comps"].append({"formula": f, "moles": float(fmt(cap * rng.uniform(0.1, 1))), "x": z})
            if not ex["comps"]:
                ex["comps"] = [{"formula": "X", "moles": cap, "x": 1}]
            if any(c["formula"] == "X" for c in ex["comps"]):
                ex["kind"] = "equilibrate"
        elif ex["kind"] == "equilibrate":
            ex["comps"] = [{"formula": "X", "moles": cap, "x": 1}]
        else:
            cands = [p for p in phases if p["moles"] > 0 and "alt" not in p]
            if cands:
                p = rng.choice(cands)
                ex["comps"] = [{"formula": "X", "phase": p["name"], "prop": float(fmt(loguni(rng, 1e-3, 0.5))), "x": 1}]
            else:
                ex["kind"] = "equilibrate"
                ex["comps"] = [{"formula": "X", "moles": cap, "x": 1}]
        spec["exchange"] = ex
    # surface
    if info["hfo"] and rng.random() < 0.25:
        su = {"equilibrate": rng.random() < 0.7, "no_edl": rng.random() < 0.4,
              "w": float(fmt(loguni(rng, 1e-5, 1e-2))), "area": float(fmt(loguni(rng, 50, 800))), "grams": float(fmt(loguni(rng, 0.05, 5)))}
        if rng.random() < 0.6:
            su["s"] = float(fmt(su["w"] * rng.uniform(0.01, 0.1)))
        spec["surface"] = su
    # solid solutions
    if want_ss:
        fam = [[m for m in f if m in pool] for f in SS_FAMILIES]
        fam = [f for f in fam if len(f) >= 2]
        if fam:
            f = rng.choice(fam)
            used = {p["name"] for p in phases}
            f = [m for m in f if m not in used]
            if len(f) >= 2:
                ss = {"name": "SSa"}
                if rng.random() < 0.5:
                    k = rng.randint(2, min(4, len(f)))
                    ss["ideal"] = True
                    ss["comps"] = [{"name": m, "moles": 0.0 if rng.random() < 0.5 else float(fmt(loguni(rng, 1e-6, 0.1)))} for m in rng.sample(f, k)]
                else:
                    c = rng.sample(f, 2)
                    ss["ideal"] = False
                    ss["comps"] = [{"name": m, "moles": 0.0 if rng.random() < 0.5 else float(fmt(loguni(rng, 1e-6, 0.1)))} for m in c]
                    kind = rng.choice(["Gugg_nondim", "Gugg_nondim", "Gugg_kJ", "Gugg_kJ", "Thompson", "Margules", "activity_coefficients"])
                    ss["parm"] = kind
                    if kind == "Gugg_nondim":
                        ss["p"] = [round(rng.uniform(-1.5, 3.5), 3), round(rng.choice([0, 0, rng.uniform(-1, 1)]), 3)]
                    elif kind == "Gugg_kJ":
                        ss["p"] = [round(rng.uniform(-4, 9), 3), round(rng.choice([0, 0, rng.uniform(-2.5, 2.5)]), 3)]
                    elif kind == "Thompson":
                        ss["p"] = [round(rng.uniform(-3, 8), 3), round(rng.uniform(-3, 8), 3)]
                    elif kind == "Margules":
                        ss["p"] = [round(rng.uniform(-1, 3), 3), round(rng.uniform(-1.5, 1.5), 3)]
                    else:
                        ss["p"] = [round(rng.uniform(0.7, 6), 3), round(rng.uniform(0.7, 6), 3), round(rng.uniform(0.05, 0.45), 3), round(rng.uniform(0.55, 0.95), 3)]
                    r = rng.random()
                    if r < 0.25:
                        ss["tempk"] = round(273.15 + rng.uniform(0, 100), 2)
                    elif r < 0.45:
                        ss["tempc"] = round(rng.uniform(0, 100), 2)
                    elif r < 0.55:
                        ss["temp"] = round(rng.uniform(0, 100), 2)
                spec["ss"] = ss
                # rarely: a second (ideal) solid solution of the same assemblage that shares a component phase with the first
                others = [m for fam_ in SS_FAMILIES for m in fam_ if m in pool and m not in used and all(m != c["name"] for c in ss["comps"])]
                if others and rng.random() < 0.07:
                    spec["ss2"] = {"name": "SSb", "ideal": True,
                                   "comps": [{"name": ss["comps"][0]["name"], "moles": float(fmt(loguni(rng, 1e-5, 0.05)))},
                                             {"name": rng.choice(sorted(set(others))), "moles": float(fmt(loguni(rng, 1e-5, 0.05)))}]}
    if not phases and "exchange" not in spec and "surface" not in spec and "ss" not in spec:
        spec["phases"] = [gen_phase(rng, info, rng.choice(common or pool or ["Calcite"]), pool)]
    # later stages
    stages = []
    for _ in range(rng.choices([0, 1, 2], [4, 4, 2])[0]):
        st = {}
        r = rng.random()
        if r < 0.75:
            rc = rng.choice(REACTANTS)
            nsteps = rng.choices([1, 2, 3], [6, 2, 2])[0]
            total = loguni(rng, rc[1], rc[2])
            st["reaction"] = {"formula": rc[0], "amounts": [float(fmt(total * (k + 1) / nsteps)) for k in range(nsteps)]}
            if nsteps > 1 and rng.random() < 0.4:
                st["incremental"] = True
        if r >= 0.6:
            st["temp"] = round(rng.uniform(0, 100), 2)
        stages.append(st)
    # histories: a later stage may REDEFINE the assemblage with the same minerals (so that the engine's same-model fast path
    # quick_setup is taken) but other restrictions / targets / amounts, and may be a separate Run* call on the same instance
    related = "exchange" in spec and any("phase" in c for c in spec["exchange"]["comps"])
    if spec["phases"] and not related:
        if not stages and rng.random() < 0.45:
            stages.append({})
        if stages and rng.random() < 0.6 and len(stages) < 3:
            stages.append({} if rng.random() < 0.6 else {"temp": round(rng.uniform(0, 100), 2)})
        cur = spec["phases"]
        for st in stages:
            if rng.random() < 0.35:
                st["newrun"] = True
            if rng.random() < 0.65:
                cur = redefine(rng, cur)
                st["redef"] = cur
    # drivers and multi-step temperature: a stage is run by USE/SAVE/END or by RUN_CELLS (cell 1 = every reactant numbered 1);
    # temperature steps alternate so that a phase dissolves in one step and is supersaturated in the next
    for st in stages:
        if rng.random() < 0.3:
            st["run_cells"] = {"time_step": rng.choice([None, 0.0, 3600.0]), "start_time": rng.choice([None, 0.0, 100.0])}
            st.pop("newrun", None) if rng.random() < 0.5 else None
        if rng.random() < 0.3:
            lo, hi = sorted([round(rng.uniform(0, 40), 2), round(rng.uniform(50, 100), 2)])
            seq = [lo, hi, lo, hi] if rng.random() < 0.5 else [hi, lo, hi, lo]
            st["temps"] = seq[:rng.randint(2, 4)]
            st.pop("temp", None)
            if "reaction" in st:
                st["reaction"]["amounts"] = st["reaction"]["amounts"][:len(st["temps"])]
            if rng.random() < 0.6:
                st["incremental"] = True
    # solid-solution histories: redefinition ideal <-> non-ideal with the same phases, SOLID_SOLUTIONS_MODIFY that makes a
    # non-ideal solid solution ideal (a0 = a1 = 0), temperature excursions that return to the starting temperature
    if "ss" in spec and len(spec["ss"]["comps"]) == 2 and "ss2" not in spec:
        if not stages and rng.random() < 0.6:
            stages.append({})
        if stages and len(stages) < 3 and rng.random() < 0.5:
            stages.append({})
        cur_ideal = spec["ss"]["ideal"]
        hot = False
        for st in stages:
            r = rng.random()
            if r < 0.3:
                import copy
                new = copy.deepcopy(spec["ss"])
                for k in ("parm", "p", "tempk", "tempc", "temp"):
                    new.pop(k, None)
                new["ideal"] = not cur_ideal
                for c in new["comps"]:
                    c["moles"] = 0.0 if rng.random() < 0.3 else float(fmt(loguni(rng, 1e-6, 0.1)))
                if not new["ideal"]:
                    new["parm"] = rng.choice(["Gugg_nondim", "Gugg_kJ", "Thompson", "Margules"])
                    new["p"] = [round(rng.uniform(-1, 3), 3), round(rng.uniform(-1, 1), 3)]
                    if rng.random() < 0.5:
                        new[rng.choice(["tempk", "tempc", "temp"])] = round(rng.uniform(0, 100), 2) + (273.15 if False else 0)
                        if "tempk" in new:
                            new["tempk"] = round(new["tempk"] + 273.15, 2)
                st["ss_redef"] = new
                cur_ideal = new["ideal"]
            elif r < 0.45 and not cur_ideal:
                st["ss_modify_ideal"] = True
                cur_ideal = True
            if "temp" not in st and rng.random() < 0.5:
                st["temp"] = spec["temp"] if hot and rng.random() < 0.7 else round(rng.uniform(0, 100), 2)
            if "temp" in st:
                hot = st["temp"] != spec["temp"]
    spec["stages"] = stages
    if rng.random() < 0.12:
        spec["high_precision"] = True
    if rng.random() < 0.06:
        spec["knobs"] = rng.choice(["-convergence_tolerance 1e-10", "-step_size 10", "-pe_step_size 5", "-diagonal_scale true", "-tolerance 1e-14"])
    return spec


# ------------------------------------------------------------------------------------------------------------ rendering
def phase_lines(spec):
    out = []
    for p in spec["phases"]:
        ln = f" {p['name']} {fmt(p['si'])}"
        if "alt" in p:
            ln += f" {p['alt']}"
        ln += f" {fmt(p['moles'])}"
        if "opt" in p:
            ln += f" {p['opt']}"
        out.append(ln)
        if p.get("force_equality"):
            out.append("  -force_equality true")
    return out


def ss_parm_lines(ss):
    L = []
    for k in ("tempk", "tempc", "temp"):
        if k in ss:
            L.append(f"  -{k} {fmt(ss[k])}")
    L.append(f"  -{ss['parm']} " + " ".join(fmt(x) for x in ss["p"]))
    return L


def ss_block(ss):
    L = ["SOLID_SOLUTIONS 1", f" {ss['name']}"]
    if ss["ideal"]:
        for c in ss["comps"]:
            L.append(f"  -comp {c['name']} {fmt(c['moles'])}")
    else:
        L.append(f"  -comp1 {ss['comps'][0]['name']} {fmt(ss['comps'][0]['moles'])}")
        L.append(f"  -comp2 {ss['comps'][1]['name']} {fmt(ss['comps'][1]['moles'])}")
        L += ss_parm_lines(ss)
    return L


def punch_items(spec):
    """(heading, BASIC expression) pairs; headings are parsed by the oracle"""
    it = []
    for p in spec["phases"]:
        it.append((f"equi:{p['name']}", f'EQUI("{p["name"]}")'))
        it.append((f"si:{p['name']}", f'SI("{p["name"]}")'))
    if "ss" in spec:
        for c in spec["ss"]["comps"] + [c for c in spec.get("ss2", {}).get("comps", []) if all(c["name"] != d["name"] for d in spec["ss"]["comps"])]:
            it.append((f"ss:{c['name']}", f'S_S("{c["name"]}")'))
            it.append((f"si:{c['name']}", f'SI("{c["name"]}")'))
        # total of every element held by the solid solution is not needed; SUM_S_S of one element as a cross-check
    if "exchange" in spec:
        it.append(("sys:X", 'SYS("X")'))
        it.append(("totx:X", 'TOT("X")*TOT("water")'))
    if "surface" in spec:
        it.append(("sys:Hfo_w", 'SYS("Hfo_w")'))
        if "s" in spec["surface"]:
            it.append(("sys:Hfo_s", 'SYS("Hfo_s")'))
    it.append(("tc", "TC"))
    it.append(("ph", '-LA("H+")'))
    return it


def render(spec):
    L = []
    if "knobs" in spec:
        L += ["KNOBS", " " + spec["knobs"]]
    if "twin" in spec:
        t = spec["twin"]
        L += ["PHASES", " TwinA", "  CaCO3 = CO3-2 + Ca+2", f"  log_k {t['logk']!r}", " TwinB", "  CaCO3 = CO3-2 + Ca+2",
              f"  log_k {t['logk'] + t['delta']!r}"]
    L += ["SOLUTION 1", f" temp {fmt(spec['temp'])}", f" pH {fmt(spec['pH'])}", f" pe {fmt(spec['pe'])}", " units mol/kgw",
          f" -water {fmt(spec['water'])}"]
    for c in spec["comps"]:
        L.append(f" {c['kw']} {fmt(c['conc'])}" + (" charge" if spec.get("charge") == c["kw"] else ""))
    if spec["phases"]:
        L.append("EQUILIBRIUM_PHASES 1")
        L += phase_lines(spec)
    if "exchange" in spec:
        ex = spec["exchange"]
        L.append("EXCHANGE 1")
        for c in ex["comps"]:
            if "phase" in c:
                L.append(f" {c['formula']} {c['phase']} equilibrium_phase {fmt(c['prop'])}")
            else:
                L.append(f" {c['formula']} {fmt(c['moles'])}")
        if ex["kind"] != "explicit":
            L.append(" -equilibrate 1")
    if "surface" in spec:
        su = spec["surface"]
        L.append("SURFACE 1")
        if su["equilibrate"]:
            L.append(" -equilibrate 1")
        L.append(f" Hfo_w{'' if su['equilibrate'] else 'OH'} {fmt(su['w'])} {fmt(su['area'])} {fmt(su['grams'])}")
        if "s" in su:
            L.append(f" Hfo_s{'' if su['equilibrate'] else 'OH'} {fmt(su['s'])}")
        if su["no_edl"]:
            L.append(" -no_edl")
    if "ss" in spec:
        L += ss_block(spec["ss"])
        if "ss2" in spec:
            L += ss_block(spec["ss2"])[1:]
    items = punch_items(spec)
    L += ["SELECTED_OUTPUT 1", " -reset false", " -simulation true", " -state true", " -step true"]
    if spec.get("high_precision"):
        L.append(" -high_precision true")   # also sets convergence_tolerance to 1e-12
    if spec["phases"]:
        L.append(" -equilibrium_phases " + " ".join(p["name"] for p in spec["phases"]))
        L.append(" -saturation_indices " + " ".join(p["name"] for p in spec["phases"]))
    if "ss" in spec:
        L.append(" -solid_solutions " + " ".join(c["name"] for c in spec["ss"]["comps"]))
    L += ["USER_PUNCH 1", " -headings cb " + " ".join(h for h, _ in items), ' 10 PUNCH CALLBACK(0,0,"dump")']
    n = 20
    for h, e in items:
        L.append(f" {n} PUNCH {e}")
        n += 10
    saves = []
    if spec["phases"]:
        saves.append("equilibrium_phases")
    if "exchange" in spec:
        saves.append("exchange")
    if "surface" in spec:
        saves.append("surface")
    if "ss" in spec:
        saves.append("solid_solutions")
    L.append("SAVE solution 1")
    for s in saves:
        L.append(f"SAVE {s} 1")
    L.append("END")
    for st in spec["stages"]:
        if st.get("newrun"):
            L.append("#RUNSPLIT")      # the harness starts a new RunString call here (same instance)
        if st.get("ss_modify_ideal"):
            L += ["SOLID_SOLUTIONS_MODIFY 1", f" -solid_solution {spec['ss']['name']}", "  -a0 0", "  -a1 0", "  -ag0 0", "  -ag1 0", "END"]
        rc = st.get("run_cells")
        if rc:
            # RUN_CELLS takes every reactant numbered 1: what an earlier stage defined must not take part unasked
            L += ["DELETE", " -reaction 1", " -temperature 1", "END"]
        else:
            L.append("USE solution 1")
            for s in saves:
                if s == "equilibrium_phases" and "redef" in st:
                    continue
                if s == "solid_solutions" and "ss_redef" in st:
                    continue
                L.append(f"USE {s} 1")
        if "redef" in st:
            L.append("EQUILIBRIUM_PHASES 1")
            L += phase_lines({"phases": st["redef"]})
        if "ss_redef" in st:
            L += ss_block(st["ss_redef"])
        if "reaction" in st:
            L.append("REACTION 1")
            L.append(f" {st['reaction']['formula']} 1")
            L.append(" " + " ".join(fmt(a) for a in st["reaction"]["amounts"]) + " moles")
        if "reaction" in st or "temps" in st or rc:
            L.append("INCREMENTAL_REACTIONS " + ("true" if st.get("incremental") else "false"))
        if "temps" in st:
            L.append("REACTION_TEMPERATURE 1")
            L.append(" " + " ".join(fmt(t) for t in st["temps"]))
        elif "temp" in st:
            L.append("REACTION_TEMPERATURE 1")
            L.append(f" {fmt(st['temp'])}")
        if rc:
            L.append("END")
            L.append("RUN_CELLS")
            L.append(" -cells 1")
            if rc.get("time_step") is not None:
                L.append(f" -time_step {fmt(rc['time_step'])}")
            if rc.get("start_time") is not None:
                L.append(f" -start_time {fmt(rc['start_time'])}")
            L.append("END")
        else:
            L.append("SAVE solution 1")
            for s in saves:
                L.append(f"SAVE {s} 1")
            L.append("END")
        # a stage's REACTION / REACTION_TEMPERATURE must not leak into the next stage
    L += ["DUMP", " -equilibrium_phases 1", " -exchange 1", " -surface 1", " -solid_solutions 1", "END"]
    return "\n".join(L) + "\n"


def shrink_candidates(spec):
    """smaller variants of a spec (one change each)"""
    import copy
    out = []

    def mod(f):
        s = copy.deepcopy(spec)
        f(s)
        out.append(s)
    if spec["stages"]:
        mod(lambda s: s["stages"].pop())
        for k, st in enumerate(spec["stages"]):
            if "newrun" in st:
                mod(lambda s, k=k: s["stages"][k].pop("newrun"))
            if "redef" in st:
                mod(lambda s, k=k: s["stages"][k].pop("redef"))
            for fld in ("ss_redef", "ss_modify_ideal"):
                if fld in st:
                    mod(lambda s, k=k, fld=fld: s["stages"][k].pop(fld))
        for k, st in enumerate(spec["stages"]):
            for fld in ("run_cells", "temps"):
                if fld in st:
                    mod(lambda s, k=k, fld=fld: s["stages"][k].pop(fld))
            if "temp" in st and "reaction" in st:
                mod(lambda s, k=k: s["stages"][k].pop("temp"))
            if "reaction" in st and len(st["reaction"]["amounts"]) > 1:
                mod(lambda s, k=k: s["stages"][k]["reaction"].update(amounts=s["stages"][k]["reaction"]["amounts"][-1:]))
    if "ss2" in spec:
        mod(lambda s: s.pop("ss2"))
    for key in (("surface", "exchange", "knobs", "high_precision") if "ss2" in spec else ("ss", "surface", "exchange", "knobs", "high_precision")):
        if key in spec:
            mod(lambda s, key=key: s.pop(key))
    for k in range(len(spec["phases"])):
        if spec["phases"][k]["name"].startswith("Twin"):
            continue
        dep = "exchange" in spec and any(c.get("phase") == spec["phases"][k]["name"] for c in spec["exchange"]["comps"])
        if not dep and len(spec["phases"]) > 1:
            def drop(s, k=k):
                s["phases"].pop(k)
                for st in s["stages"]:
                    if "redef" in st:
                        st["redef"].pop(k)
            mod(drop)
        for fld in ("opt", "force_equality", "alt"):
            if fld in spec["phases"][k]:
                mod(lambda s, k=k, fld=fld: s["phases"][k].pop(fld))
        if spec["phases"][k]["si"] != 0:
            mod(lambda s, k=k: s["phases"][k].update(si=0.0))
    for k in range(len(spec["comps"])):
        if len(spec["comps"]) > 1 and spec.get("charge") != spec["comps"][k]["kw"]:
            mod(lambda s, k=k: s["comps"].pop(k))
    if spec["temp"] != 25.0:
        mod(lambda s: s.update(temp=25.0))
    if spec["water"] != 1.0:
        mod(lambda s: s.update(water=1.0))
    if "charge" in spec:
        mod(lambda s: s.pop("charge"))
    return out
