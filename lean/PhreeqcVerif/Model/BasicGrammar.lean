import PhreeqcVerif.Model.BasicExpr
/-! Derivation trees of the documented BASIC expression grammar (C17), their token strings and the expression
tree each derivation denotes:

    expr    := andexpr ((OR|XOR) andexpr)*          level 0, left associative
    andexpr := relexpr (AND relexpr)*               level 1
    relexpr := sexpr ((=|<|>|<=|>=|<>) sexpr)*      level 2
    sexpr   := term ((+|-) term)*                   level 3
    term    := upexpr ((*|/|MOD) upexpr)*           level 4
    upexpr  := factor [ ^ upexpr ]                  level 5, right associative
    factor  := number | string | variable | variable ( expr (, expr)* ) | GET ( [expr (, expr)*] ) | ( expr ) | (-|+|NOT|fn) factor | EOL$ …        level 6
             | TRIM/LTRIM/RTRIM ( factor ) | INSTR ( factor , factor ) | PAD ( expr , expr )
             | MID$ ( expr , expr [, expr] ) | STR_F$ / STR_E$ ( expr , expr , expr )

`Deriv.den` is what "standard semantics" means for precedence and associativity: a chain at one level denotes the
left fold of its operators, `^` nests to the right, unary operators bind tighter than every binary operator. The
theorem `parse_print_roundtrip` (Properties/C17.lean) says the parser of the model — the code's seven functions —
returns exactly `den d` on the token string of every well-formed derivation `d`. -/
namespace PhreeqcVerif.Basic

mutual
inductive Deriv (α : Type) where
  | num (x : α)
  | str (s : String)
  | var (name : String)
  | eol | eolNotab | noNewline
  | paren (d : Deriv α)                                   -- ( expr )
  | un (f : UnFn) (d : Deriv α)                            -- prefix operator / function applied to a factor
  | trimf (f : TrimFn) (d : Deriv α)                       -- TRIM ( factor )
  | instr (a b : Deriv α)                                  -- INSTR ( factor , factor )
  | pad (a n : Deriv α)                                    -- PAD ( expr , expr )
  | mid2 (s i : Deriv α)
  | mid3 (s i j : Deriv α)
  | fmt (isE : Bool) (x w p : Deriv α)                     -- STR_F$ / STR_E$ ( expr , expr , expr )
  | varSub (name : String) (first : Deriv α) (more : DArgs α)   -- name ( expr (, expr)* )
  | get0                                                   -- GET ( )
  | get (first : Deriv α) (more : DArgs α)                 -- GET ( expr (, expr)* )
  | getS0
  | getS (first : Deriv α) (more : DArgs α)
  | up (a b : Deriv α)                                     -- factor ^ upexpr
  | chain (l : Nat) (first : Deriv α) (rest : DTail α)     -- operand (op operand)+ at level l ≤ 4
inductive DTail (α : Type) where
  | nil
  | cons (op : BinOp) (d : Deriv α) (tl : DTail α)
/-- the remaining subscripts / arguments: `(, expr)* )` -/
inductive DArgs (α : Type) where
  | nil
  | cons (d : Deriv α) (tl : DArgs α)
end

variable {α : Type}

/-- the grammar level a derivation belongs to -/
def Deriv.level : Deriv α → Nat
  | .chain l _ _ => l
  | .up _ _ => 5
  | _ => 6

mutual
/-- the token string of a derivation -/
def Deriv.flat : Deriv α → List (Tok α)
  | .num x => [.num x]
  | .str s => [.str s]
  | .var n => [.var n]
  | .eol => [.k .eol_]
  | .eolNotab => [.k .eol_notab_]
  | .noNewline => [.k .no_newline_]
  | .paren d => [.k .lp] ++ d.flat ++ [.k .rp]
  | .un f d => [.k (kOfUn f)] ++ d.flat
  | .trimf f d => [.k (kOfTrim f), .k .lp] ++ d.flat ++ [.k .rp]
  | .instr a b => [.k .instr, .k .lp] ++ a.flat ++ [.k .comma] ++ b.flat ++ [.k .rp]
  | .pad a n => [.k .pad, .k .lp] ++ a.flat ++ [.k .comma] ++ n.flat ++ [.k .rp]
  | .mid2 s i => [.k .mid_, .k .lp] ++ s.flat ++ [.k .comma] ++ i.flat ++ [.k .rp]
  | .mid3 s i j => [.k .mid_, .k .lp] ++ s.flat ++ [.k .comma] ++ i.flat ++ [.k .comma] ++ j.flat ++ [.k .rp]
  | .fmt isE x w p =>
    [.k (if isE then .str_e_ else .str_f_), .k .lp] ++ x.flat ++ [.k .comma] ++ w.flat ++ [.k .comma] ++ p.flat ++ [.k .rp]
  | .varSub n f m => [.var n, .k .lp] ++ f.flat ++ m.flat
  | .get0 => [.k .get, .k .lp, .k .rp]
  | .get f m => [.k .get, .k .lp] ++ f.flat ++ m.flat
  | .getS0 => [.k .get_, .k .lp, .k .rp]
  | .getS f m => [.k .get_, .k .lp] ++ f.flat ++ m.flat
  | .up a b => a.flat ++ [.k .up] ++ b.flat
  | .chain _ f r => f.flat ++ r.flat
def DTail.flat : DTail α → List (Tok α)
  | .nil => []
  | .cons op d tl => [.k (kOfBin op)] ++ d.flat ++ tl.flat
def DArgs.flat : DArgs α → List (Tok α)
  | .nil => [.k .rp]
  | .cons d tl => [.k .comma] ++ d.flat ++ tl.flat
end

mutual
/-- the expression tree a derivation denotes -/
def Deriv.den : Deriv α → Expr α
  | .num x => .num x
  | .str s => .str s
  | .var n => .var n .nil
  | .eol => .eol
  | .eolNotab => .eolNotab
  | .noNewline => .noNewline
  | .paren d => d.den
  | .un f d => .un f d.den
  | .trimf f d => .trimf f d.den
  | .instr a b => .instr a.den b.den
  | .pad a n => .pad a.den n.den
  | .mid2 s i => .mid2 s.den i.den
  | .mid3 s i j => .mid3 s.den i.den j.den
  | .fmt isE x w p => .fmt isE x.den w.den p.den
  | .varSub n f m => .var n (.cons f.den m.den)
  | .get0 => .get .nil
  | .get f m => .get (.cons f.den m.den)
  | .getS0 => .getS .nil
  | .getS f m => .getS (.cons f.den m.den)
  | .up a b => .bin .up a.den b.den
  | .chain _ f r => r.fold f.den
/-- left fold of a chain onto the accumulated left operand -/
def DTail.fold : DTail α → Expr α → Expr α
  | .nil, acc => acc
  | .cons op d tl, acc => tl.fold (.bin op acc d.den)
def DArgs.den : DArgs α → Args α
  | .nil => .nil
  | .cons d tl => .cons d.den tl.den
end

mutual
/-- well-formed: every operand sits at the level the grammar gives it -/
def Deriv.WF : Deriv α → Prop
  | .paren d => d.WF
  | .un _ d => d.level = 6 ∧ d.WF
  | .trimf _ d => d.level = 6 ∧ d.WF
  | .instr a b => a.level = 6 ∧ a.WF ∧ b.level = 6 ∧ b.WF
  | .pad a n => a.WF ∧ n.WF
  | .mid2 s i => s.WF ∧ i.WF
  | .mid3 s i j => s.WF ∧ i.WF ∧ j.WF
  | .fmt _ x w p => x.WF ∧ w.WF ∧ p.WF
  | .varSub _ f m => f.WF ∧ m.WF
  | .get f m => f.WF ∧ m.WF
  | .getS f m => f.WF ∧ m.WF
  | .up a b => a.level = 6 ∧ a.WF ∧ 5 ≤ b.level ∧ b.WF
  | .chain l f r => l ≤ 4 ∧ l + 1 ≤ f.level ∧ f.WF ∧ r.WF l
  | _ => True
def DTail.WF : DTail α → Nat → Prop
  | .nil, _ => True
  | .cons op d tl, l => binLevel op = l ∧ l + 1 ≤ d.level ∧ d.WF ∧ tl.WF l
def DArgs.WF : DArgs α → Prop
  | .nil => True
  | .cons d tl => d.WF ∧ tl.WF
end

/-- binary-operator level of a token (`none`: not a binary operator) -/
def tokOpLevel : Tok α → Option Nat
  | .k .or_ | .k .xor_ => some 0
  | .k .and_ => some 1
  | .k .eq | .k .lt | .k .gt | .k .le | .k .ge | .k .ne => some 2
  | .k .plus | .k .minus => some 3
  | .k .times | .k .div | .k .mod_ => some 4
  | .k .up => some 5
  | _ => none

/-- what may follow an expression parsed at level `l`: not a left parenthesis (it would turn a variable into an
array reference) and not a binary operator of level `≥ l` (the loops of levels `l … 5` would go on) -/
def FollowOk (l : Nat) : List (Tok α) → Prop
  | [] => True
  | t :: _ => t.isK .lp = false ∧ ∀ j, tokOpLevel t = some j → j < l

end PhreeqcVerif.Basic
