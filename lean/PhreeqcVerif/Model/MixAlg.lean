import PhreeqcVerif.Model.Units
/-!
# Mixing algebra on name-keyed totals

Models of
* `cxxNameDouble::add_extensive`, `multiply` (NameDouble.cxx),
* `cxxSolution::add`, `cxxSolution::multiply`, the mixing constructor `cxxSolution(solutions, mix, n)` (Solution.cxx),
* `cxxMix::Add` (MIX block reader: fractions of a repeated solution number are summed),
* `Phreeqc::add_solution`, `Phreeqc::add_mix` (step.cpp) accumulating into the master totals and the `_x` variables.

Quirks reproduced: `add_extensive` and `cxxSolution::add` return at once for factor 0; `multiply` returns at once
for factor 0 *and* 1; `add_mix` weighs intensive properties by water mass (`intensive_water`) and, when some
fraction is not positive, re-normalises only the positive ones (the negative ones keep `extensive_water /
sum_fractions_water`); a MIX entry whose solution is missing is skipped with an error.
-/
namespace PhreeqcVerif.MixAlg
open Std PhreeqcVerif.Units

/-- `m[k] = m[k] + v` (absent counts as 0): body of `add_extensive`, `master_ptr->total += …` -/
def addAt (m : Totals) (k : String) (v : Rat) : Totals := m.insert k (m[k]?.getD 0 + v)

/-- `cxxNameDouble::add_extensive(addee, factor)` -/
def addExtensive (m addee : Totals) (f : Rat) : Totals :=
  if f = 0 then m else addee.toList.foldl (fun acc kv => addAt acc kv.1 (kv.2 * f)) m

/-- `cxxNameDouble::multiply` -/
def multiplyTotals (m : Totals) (f : Rat) : Totals := m.map (fun _ v => v * f)

/-- the part of `cxxSolution` that mixing touches -/
structure Sol where
  tc : Rat
  ph : Rat
  pe : Rat
  mu : Rat
  ah2o : Rat
  density : Rat
  patm : Rat
  totalH : Rat
  totalO : Rat
  cb : Rat
  water : Rat
  alk : Rat
  totals : Totals

/-- `cxxSolution::zero()` -/
def Sol.zero : Sol := ⟨0, 0, 0, 0, 0, 1, 1, 0, 0, 0, 0, 0, ∅⟩

/-- `cxxSolution::add(addee, extensive)` -/
def Sol.add (s a : Sol) (ext : Rat) : Sol :=
  if ext = 0 then s else
  let e1 := s.water
  let e2 := a.water * ext
  let f1 := e1 / (e1 + e2)
  let f2 := e2 / (e1 + e2)
  { tc := f1 * s.tc + f2 * a.tc
    ph := f1 * s.ph + f2 * a.ph
    pe := f1 * s.pe + f2 * a.pe
    mu := f1 * s.mu + f2 * a.mu
    ah2o := f1 * s.ah2o + f2 * a.ah2o
    density := f1 * s.density + f2 * a.density
    patm := f1 * s.patm + f2 * a.patm
    totalH := s.totalH + a.totalH * ext
    totalO := s.totalO + a.totalO * ext
    cb := s.cb + a.cb * ext
    water := s.water + a.water * ext
    alk := s.alk + a.alk * ext
    totals := addExtensive s.totals a.totals ext }

/-- `cxxSolution::multiply(extensive)` -/
def Sol.multiply (s : Sol) (f : Rat) : Sol :=
  if f = 0 ∨ f = 1 then s else
  { s with totalH := s.totalH * f, totalO := s.totalO * f, cb := s.cb * f, water := s.water * f, alk := s.alk * f,
           totals := multiplyTotals s.totals f }

/-- MIX components: solution number ↦ fraction, iterated in key order (`std::map<int, LDBLE>`) -/
abbrev MixComps := ExtTreeMap Int Rat compare

/-- `cxxMix::Add` -/
def mixAdd (m : MixComps) (n : Int) (f : Rat) : MixComps :=
  match m[n]? with
  | some g => m.insert n (g + f)
  | none => m.insert n f

/-- the data lines of a MIX block in input order -/
def readMix (lines : List (Int × Rat)) : MixComps := lines.foldl (fun m l => mixAdd m l.1 l.2) ∅

/-- the mixing constructor of `cxxSolution` (used by DUMP/transport/StorageBin): `zero()`, `ah2o = 0`, then `add` per entry -/
def mixSolutions (store : Int → Option Sol) (comps : List (Int × Rat)) : Sol :=
  comps.foldl (fun acc nf => match store nf.1 with | some s => acc.add s nf.2 | none => acc) { Sol.zero with ah2o := 0 }

/-- the accumulator of step.cpp: the `_x` variables and `master[i]->total` keyed by primary element -/
structure Acc where
  tc : Rat
  ph : Rat
  pe : Rat
  mu : Rat
  ah2o : Rat
  density : Rat
  patm : Rat
  totalH : Rat
  totalO : Rat
  cb : Rat
  water : Rat
  totals : Totals
  err : Nat

/-- `xsolution_zero` -/
def Acc.zero : Acc := ⟨0, 0, 0, 0, 0, 0, 0, 0, 0, 0, 0, ∅, 0⟩

/-- one entry of the solution's totals added to the primary master species (`master_bsearch_primary`) -/
def addEntry (primary : String → Option String) (ext : Rat) (a : Acc) (kv : String × Rat) : Acc :=
  match primary kv.1 with
  | some p => { a with totals := addAt a.totals p (kv.2 * ext) }
  | none => { a with err := a.err + 1 }

/-- `add_solution(solution, extensive, intensive)` -/
def addSolution (primary : String → Option String) (a : Acc) (s : Sol) (ext int : Rat) : Acc :=
  let a1 : Acc :=
    { a with tc := a.tc + s.tc * int, ph := a.ph + s.ph * int, pe := a.pe + s.pe * int, mu := a.mu + s.mu * int,
             ah2o := a.ah2o + s.ah2o * int, density := a.density + s.density * int, patm := a.patm + s.patm * int,
             totalH := a.totalH + s.totalH * ext, totalO := a.totalO + s.totalO * ext, cb := a.cb + s.cb * ext,
             water := a.water + s.water * ext }
  s.totals.toList.foldl (addEntry primary ext) a1

/-- the sums of the first loop of `add_mix` over the entries whose solution exists -/
structure Sums where
  fw : Rat        -- sum_fractions_water
  pw : Rat        -- sum_positive_water
  npos : Nat      -- count_positive

def sums (store : Int → Option Sol) (comps : List (Int × Rat)) : Sums :=
  comps.foldl (fun s nf => match store nf.1 with
    | some sol => ⟨s.fw + nf.2 * sol.water, if (0 : Rat) < nf.2 then s.pw + nf.2 * sol.water else s.pw,
                   if (0 : Rat) < nf.2 then s.npos + 1 else s.npos⟩
    | none => s) ⟨0, 0, 0⟩

/-- the weight `intensive_water` that `add_mix` hands to `add_solution` -/
def intensiveWater (sm : Sums) (size : Nat) (frac water : Rat) : Rat :=
  if sm.npos < size ∧ (0 : Rat) < frac then frac * water / sm.pw else frac * water / sm.fw

/-- `add_mix`: `comps` in key order -/
def addMix (primary : String → Option String) (store : Int → Option Sol) (comps : List (Int × Rat)) (a : Acc) : Acc :=
  if comps.isEmpty then a else
  let sm := sums store comps
  comps.foldl (fun acc nf => match store nf.1 with
    | some sol => addSolution primary acc sol nf.2 (intensiveWater sm comps.length nf.2 sol.water)
    | none => { acc with err := acc.err + 2 }) a      -- "Mix solution not found" is reported in both loops

/-- the solution with water mass and every extensive amount multiplied by `k` (what `-water k` does to an initial
solution, cf. `Units.water_scaling`; also `cxxSolution::multiply`) -/
def Sol.scale (s : Sol) (k : Rat) : Sol :=
  { s with totalH := s.totalH * k, totalO := s.totalO * k, cb := s.cb * k, water := s.water * k, alk := s.alk * k,
           totals := multiplyTotals s.totals k }

def Acc.scale (a : Acc) (k : Rat) : Acc :=
  { a with totalH := a.totalH * k, totalO := a.totalO * k, cb := a.cb * k, water := a.water * k,
           totals := multiplyTotals a.totals k }

end PhreeqcVerif.MixAlg
