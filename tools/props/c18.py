"""C18 — every reported inverse model is a genuine, admissible mole-balance model.

(1) proof obligations: Properties/C18.lean (checkModel_sound, matrix_encodes_admissible, minimal_antichain,
    range_contains_value, ...) about Model/Inverse.lean;
(2) tie A (set-up): after the real setup_inverse the harness dumps the parsed problem and my_array / delta / names;
    `pmodel inverse` rebuilds the matrix with `setupMatrix` from the parsed problem; compared entry by entry at 1e-12;
(3) tie B (models): at every reported model the internal vectors (inv_delta1, min_delta, max_delta) are read by friend
    access and run through the proved `checkModel` with element totals taken from an independent speciation
    (SELECTED_OUTPUT of TOT()/ALK of the same solutions in the same run); the punched selected-output values are compared
    with the internal ones at print precision; a direct, existential oracle per chemical element (formula
    stoichiometry, redox states summed) is evaluated on the punched values;
(4) tie C (search): the feasibility oracle (solve_with_mask for every mask) is tabulated in-process and the Lean `search`
    must reproduce the sequence of reported models and the counters good/bad/minimal/calls of the real run;
    -minimal: reported models must form an antichain (direct oracle).
"""
import json
import math
import struct
import concurrent.futures as cf

import vlib
from gens import inverse as gen


# ----------------------------------------------------------------------------------------------- helpers
def d2h(x):
    return struct.pack(">d", float(x)).hex()


def h2d(h):
    return struct.unpack(">d", bytes.fromhex(h))[0]


def unhex(h):
    return "" if h == "-" else bytes.fromhex(h).decode("utf-8", "replace")


def kv(words, start=0):
    return {words[i]: words[i + 1] for i in range(start, len(words) - 1, 2)}


def parse_harness(text):
    """harness stdout of one run → dict"""
    res = {"setups": [], "seltabs": {}, "rc": None, "final": {}, "err": "", "warn": "", "out": "", "load": None,
           "exception": False, "complete": False}
    cur = None
    model = None
    for line in text.splitlines():
        w = line.split()
        if not w:
            continue
        t = w[0]
        if t == "SETUP":
            cur = {"n_user": int(w[3]), "solns": [], "elts": [], "phases": [], "redox": [], "colnames": [], "rows": [],
                   "models": [], "oracle": None, "oracle_aborted": False}
            res["setups"].append(cur)
        elif t == "DIMS":
            cur["dims"] = {k: int(v) for k, v in kv(w, 1).items()}
        elif t == "OPTS":
            o = kv(w, 1)
            cur["opts"] = {k: (h2d(v) if len(v) == 16 else int(v)) for k, v in o.items()}
        elif t == "SOLN":
            if "missing" in w:
                cur["solns"].append(None)
                continue
            i = w.index("totals")
            o = kv(w[:i], 3)
            tot = []
            for j in range(i + 1, len(w) - 2, 3):
                tot.append((unhex(w[j]), int(w[j + 1]), h2d(w[j + 2])))
            cur["solns"].append({"n": int(w[2]), "force": int(o["force"]), "mass_water": h2d(o["mass_water"]),
                                 "alk": h2d(o["alk"]), "ph": h2d(o["ph"]), "ph_unc": h2d(o["ph_unc"]),
                                 "dalk_dph": h2d(o["dalk_dph"]), "dalk_dc": h2d(o["dalk_dc"]), "totals": tot})
        elif t == "ELT":
            i = w.index("unc")
            o = kv(w[:i], 3)
            cur["elts"].append({"name": unhex(w[2]), "prim": unhex(o["prim"]), "isE": int(o["isE"]), "isAlk": int(o["isAlk"]),
                                "alkName": int(o["alkName"]), "zalk": h2d(o["zalk"]), "isC4": int(o["isC4"]),
                                "unc": [h2d(x) for x in w[i + 1:]]})
        elif t == "PHASE":
            i = w.index("tokens")
            j = w.index("elts")
            o = kv(w[:i], 3)
            toks = [(int(w[k]), h2d(w[k + 1]), h2d(w[k + 2])) for k in range(i + 1, j - 2, 3)]
            els = [(unhex(w[k]), h2d(w[k + 1])) for k in range(j + 1, len(w) - 1, 2)]
            cur["phases"].append({"name": unhex(w[2]), "constraint": int(o["constraint"]), "force": int(o["force"]),
                                  "alk": h2d(o["alk"]), "formula": unhex(o["formula"]), "tokens": toks, "elts": els})
        elif t == "REDOX":
            i = w.index("tokens")
            o = kv(w[:i], 3)
            toks = [(int(w[k]), h2d(w[k + 1])) for k in range(i + 1, len(w) - 1, 2)]
            cur["redox"].append({"name": unhex(w[2]), "elt": int(o["elt"]), "coef": h2d(o["coef"]), "alk": h2d(o["alk"]),
                                 "salk": h2d(o["salk"]), "tokens": toks})
        elif t == "COLNAME":
            cur["colnames"].append(unhex(w[2]))
        elif t == "ROW":
            cells = {}
            for c in w[3:]:
                a, b = c.split(":")
                cells[int(a)] = h2d(b)
            cur["rows"].append((unhex(w[2]), cells))
        elif t == "DELTA":
            cur["delta"] = [h2d(x) for x in w[2:]]
        elif t == "ORACLE":
            ent = w[2:]
            if ent and ent[-1] == "ABORTED":
                cur["oracle_aborted"] = True
                ent = ent[:-1]
            cur["oracle"] = ent
            cur["oracle_nbits"] = int(w[1])
        elif t == "MODEL":
            o = kv(w, 1)
            model = {"count_good": int(o["count_good"]), "count_bad": int(o["count_bad"]), "count_minimal": int(o["count_minimal"]),
                     "count_calls": int(o["count_calls"]), "bits": int(o["bits"]), "error": h2d(o["error"]),
                     "scaled_error": h2d(o["scaled_error"]), "max_pct": h2d(o["max_pct"]), "punch": []}
            cur["models"].append(model)
        elif t in ("X", "MIN", "MAX", "DSAVE"):
            model[t] = [h2d(x) for x in w[2:]]
        elif t == "MINIMAL":
            model["minimal"] = [int(x) for x in w[1:]]
        elif t == "GOOD":
            model["good"] = [int(x) for x in w[1:]]
        elif t == "PUNCH":
            if model is not None:
                model["punch"].append((unhex(w[1]), h2d(w[2]), unhex(w[3])))
        elif t == "LOAD":
            res["load"] = int(w[1])
        elif t == "RUN":
            res["rc"] = int(w[1])
        elif t == "EXCEPTION":
            res["exception"] = True
        elif t == "FINAL":
            res["final"] = {k: int(v) for k, v in kv(w, 1).items()}
        elif t == "ERRSTR":
            res["err"] = unhex(w[1])
        elif t == "WARNSTR":
            res["warn"] = unhex(w[1])
        elif t == "OUTSTR":
            res["out"] = unhex(w[1])
        elif t == "SELSTR":
            res["seltabs"][int(w[1])] = unhex(w[2])
        elif t == "END":
            res["complete"] = True
    return res


def harness_text(db, inp, oracle_bits, output=0, tag="c"):
    return "db %s\noracle %d\noutput %d\ninput %s\nrun %s\n" % (db.encode().hex(), oracle_bits, output, inp.encode().hex(), tag)


# ----------------------------------------------------------------------------------------------- pmodel input
def problem_lines(su, totals_override=None):
    """parsed problem of one set-up → lines for `pmodel inverse`.
    totals_override: per solution a dict elt-name → moles (independent speciation) and "Alkalinity" """
    o = su["opts"]
    elts = su["elts"]
    ne = len(elts)
    ialk = next((i for i, e in enumerate(elts) if e["isAlk"]), 0)
    icarb = next((i for i, e in enumerate(elts) if e["isC4"]), -1)
    lines = ["problem",
             "opts %s %d %s %d %d %d %d" % (d2h(o["toler"]), o["mineral_water"], d2h(o["water_unc"]), o["carbon"], ialk, icarb, o["range"])]
    for q, s in enumerate(su["solns"]):
        T = [0.0] * ne
        if totals_override is not None:
            for e, el in enumerate(elts):
                T[e] = totals_override[q].get(el["name"], 0.0)
        else:
            for name, row, val in s["totals"]:
                if row >= 0:
                    T[row] += val
            T[ialk] = s["alk"]
        lines.append("soln %s %s %s %s %s" % (d2h(s["mass_water"] / o["gfw_water"]), d2h(s["ph_unc"]), d2h(s["dalk_dph"]),
                                              d2h(s["dalk_dc"]), " ".join(d2h(t) for t in T)))
    for e in elts:
        lines.append("elt %d %d %d %s %s" % (e["isE"], e["isAlk"], e["alkName"], d2h(e["zalk"]), " ".join(d2h(u) for u in e["unc"])))
    for p in su["phases"]:
        lines.append("phase %d %d %s %s" % (p["constraint"], p["force"], d2h(p["alk"]),
                                            " ".join("%d %s %s" % (r, d2h(c), d2h(mc)) for r, c, mc in p["tokens"])))
    for r in su["redox"]:
        lines.append("redox %s %s %s %s" % (d2h(r["coef"]), d2h(r["alk"]), d2h(r["salk"]),
                                            " ".join("%d %s" % (row, d2h(c)) for row, c in r["tokens"])))
    return lines


def close(a, b, rel=1e-12, absol=1e-300):
    if a == b:
        return True
    if math.isnan(a) or math.isnan(b) or math.isinf(a) or math.isinf(b):
        return False
    return abs(a - b) <= rel * max(abs(a), abs(b)) + absol


def compare_matrix(su, mlines):
    """my_array / delta of the real code vs setupMatrix / signOf of the model. Returns list of differences."""
    d = su["dims"]
    diffs = []
    mrows = [l.split() for l in mlines if l.startswith("ROW ")]
    mdelta = next((l.split()[1:] for l in mlines if l.startswith("DELTA")), None)
    nunk = d["count_unknowns"]
    if len(mrows) != len(su["rows"]):
        diffs.append(("row-count", len(su["rows"]), len(mrows)))
    for r, ((name, cells), mw) in enumerate(zip(su["rows"], mrows)):
        kind = "opt" if r < d["row_mb"] else ("eq" if r < d["row_epsilon"] else "le")
        if mw[1] != kind:
            diffs.append(("row-kind", r, name, kind, mw[1]))
            continue
        mc = {}
        for c in mw[3:]:
            a, b = c.split(":")
            mc[int(a)] = h2d(b)
        rhs = h2d(mw[2])
        real = dict(cells)
        real_rhs = real.pop(nunk, 0.0)
        if not close(rhs, real_rhs):
            diffs.append(("rhs", r, name, real_rhs, rhs))
        for c in sorted(set(real) | set(mc)):
            if not close(real.get(c, 0.0), mc.get(c, 0.0)):
                diffs.append(("cell", r, name, c, su["colnames"][c] if c < len(su["colnames"]) else "?", real.get(c, 0.0), mc.get(c, 0.0)))
    if mdelta is None or len(mdelta) != len(su["delta"]):
        diffs.append(("delta-length", len(su["delta"]), None if mdelta is None else len(mdelta)))
    else:
        for c, (a, b) in enumerate(zip(su["delta"], mdelta)):
            if (a > 0) - (a < 0) != int(b):
                diffs.append(("delta", c, su["colnames"][c], a, int(b)))
    return diffs


# ----------------------------------------------------------------------------------------------- evaluation of one case
MIN_TOTAL_INVERSE = 1e-14


def indep_totals(res, su):
    """totals (moles) of every solution of the inverse problem from the speciation simulations (USER_PUNCH 2)"""
    rows = res.get("selrows", {}).get(2)
    if not rows or len(rows) != len(su["solns"]) + 1:
        return None
    head = rows[0]
    out = []
    for r in rows[1:]:
        d = {}
        for h, v in zip(head, r):
            if isinstance(v, float):
                d[h] = v
        out.append(d)
    return out


def parse_selrows(text):
    rows = {}
    for line in text.splitlines():
        if line.startswith("SELROW "):
            w = line.split()
            cells = []
            for c in w[3:]:
                if c[0] == "D":
                    cells.append(h2d(c[1:]))
                elif c[0] == "S":
                    cells.append(unhex(c[1:]))
                elif c[0] == "L":
                    cells.append(float(c[1:]))
                else:
                    cells.append(None)
            rows.setdefault(int(w[1]), []).append(cells)
    return rows


def bound_of(T, u, toler):
    c = -u if u <= 0 else abs(T * u)
    return 0.0 if c < toler else c


def direct_oracle(su, model, totals, tol_print):
    """the property evaluated on the punched values only (fractions, transfers, min, max) with independent totals and
    formula stoichiometry: per chemical element an adjustment within the declared uncertainties must exist"""
    bad = []
    o = su["opts"]
    ns, np_ = len(su["solns"]), len(su["phases"])
    vals = [p[1] for p in model["punch"]]
    if len(vals) != 3 + 3 * (ns + np_):
        return ["punch-count %d" % len(vals)]
    alpha = [vals[3 + 3 * q] for q in range(ns)]
    amin = [vals[3 + 3 * q + 1] for q in range(ns)]
    amax = [vals[3 + 3 * q + 2] for q in range(ns)]
    x = [vals[3 + 3 * ns + 3 * i] for i in range(np_)]
    xmin = [vals[3 + 3 * ns + 3 * i + 1] for i in range(np_)]
    xmax = [vals[3 + 3 * ns + 3 * i + 2] for i in range(np_)]
    toler = o["toler"]
    slack = lambda v: tol_print * abs(v) + 100 * toler + 1e-12
    for q in range(ns - 1):
        if alpha[q] < -slack(alpha[q]):
            bad.append("fraction<0 soln %d %g" % (q, alpha[q]))
    if abs(alpha[ns - 1] - 1) > slack(1):
        bad.append("final fraction %g" % alpha[ns - 1])
    for i, ph in enumerate(su["phases"]):
        if ph["constraint"] > 0 and x[i] < -slack(x[i]):
            bad.append("dissolve-only %s %g" % (ph["name"], x[i]))
        if ph["constraint"] < 0 and x[i] > slack(x[i]):
            bad.append("precipitate-only %s %g" % (ph["name"], x[i]))
    if o["range"]:
        for nm, v, lo, hi in [("soln%d" % q, alpha[q], amin[q], amax[q]) for q in range(ns)] + \
                             [(su["phases"][i]["name"], x[i], xmin[i], xmax[i]) for i in range(np_)]:
            if abs(v) >= abs(o["range_max"]):
                continue
            s = 1e-6 * max(abs(v), abs(lo), abs(hi)) + tol_print * max(abs(v), abs(lo), abs(hi)) + 1000 * toler
            if v < lo - s or v > hi + s:
                bad.append("range %s %g not in [%g, %g]" % (nm, v, lo, hi))
    if totals is not None:
        prims = {}
        for e, el in enumerate(su["elts"]):
            if el["isE"] or el["isAlk"] or el["prim"] in ("H", "O", "E", "Alkalinity"):
                continue
            prims.setdefault(el["prim"], []).append(e)
        for E, rows in prims.items():
            resid, mag, allow = 0.0, 0.0, 0.0
            for q in range(ns):
                sg = -1.0 if q == ns - 1 else 1.0
                for e in rows:
                    T = totals[q].get(su["elts"][e]["name"], 0.0)
                    resid += sg * alpha[q] * T
                    mag += abs(alpha[q] * T)
                    b = bound_of(T, su["elts"][e]["unc"][q], toler)
                    allow += abs(alpha[q]) * (b + toler)
            for i, ph in enumerate(su["phases"]):
                c = sum(cf for nm, cf in ph["elts"] if nm == E)
                resid += c * x[i]
                mag += abs(c * x[i])
            if abs(resid) > allow + tol_print * mag + 1000 * toler + 1e-12:
                bad.append("element %s residual %.3e allowed %.3e" % (E, resid, allow))
    return bad


def eval_case(ctx, exe, case, oracle_bits=11, want_output=False):
    """run one generated problem on the real code and through the model; returns a result dict"""
    r = ctx.run_harness(exe, harness_text(str(vlib.REPO / "database" / case["db"]), case["input"], oracle_bits, 1 if want_output else 0),
                        timeout=600)
    out = {"status": "ok", "corr": [], "viol": [], "nmodels": 0, "stats": {}}
    if r.returncode != 0:
        out["status"] = "crash"
        out["viol"].append("harness exit code %s: %s" % (r.returncode, r.stderr[-300:]))
        return out
    res = parse_harness(r.stdout)
    res["selrows"] = parse_selrows(r.stdout)
    out["rc"] = res["rc"]
    out["err"] = res["err"][-400:]
    if not res["setups"]:
        out["status"] = "no-setup"
        return out
    su = res["setups"][0]
    o = su["opts"]
    out["stats"].update(nsol=o["nsol"], nelt=o["nelt"], nphase=o["nphase"], nredox=o["nredox"], minimal=o["minimal"], range=o["range"],
                        mp=o["mp"], nmodels=len(su["models"]), rc=res["rc"], oracle=su["oracle"] is not None)
    if o["nisotopes"]:
        out["status"] = "isotopes"
        return out
    if res["rc"] != 0:
        out["status"] = "run-error"          # outside "completes without error": counted, not judged further than set-up
    # ---- tie A: matrix
    base = problem_lines(su)
    totals = indep_totals(res, su)
    cmds = list(base) + ["matrix"]
    toler = o["toler"]
    tcheck = max(1e-9, 1000 * toler)
    if totals is not None:
        for q, s in enumerate(su["solns"]):
            totals[q]["Alkalinity"] = totals[q].get("Alkalinity", 0.0)
        cmds += problem_lines(su, totals)
    for m in su["models"]:
        cmds.append("check %s X %s MIN %s MAX %s" % (d2h(tcheck), " ".join(map(d2h, m["X"])), " ".join(map(d2h, m["MIN"])),
                                                     " ".join(map(d2h, m["MAX"]))))
    nbits = o["nphase"] + o["nsol"]
    forced = 0
    for i, ph in enumerate(su["phases"]):
        if ph["force"]:
            forced |= 1 << i
    for q, s in enumerate(su["solns"]):
        if s and s["force"]:
            forced |= 1 << (o["nphase"] + q)
    if su["oracle"] is not None and not su["oracle_aborted"]:
        cmds.append("search %d %d %d %d %d %s" % (o["nphase"], o["nsol"], o["minimal"], o["range"], forced, " ".join(su["oracle"])))
    mout = ctx.pmodel("inverse", "\n".join(cmds) + "\n")
    diffs = compare_matrix(su, mout)
    if diffs:
        out["corr"].append({"what": "setup_inverse matrix differs from setupMatrix", "diffs": [list(map(str, d)) for d in diffs[:8]],
                            "ndiffs": len(diffs)})
    # ---- independent totals vs the totals the code used
    if totals is not None:
        worst = 0.0
        for q, s in enumerate(su["solns"]):
            T = {}
            for name, row, val in s["totals"]:
                if row >= 0:
                    nm = su["elts"][row]["name"]
                    T[nm] = T.get(nm, 0.0) + val
            T["Alkalinity"] = s["alk"]
            for el in su["elts"]:
                if el["isE"]:
                    continue
                a, b = T.get(el["name"], 0.0), totals[q].get(el["name"], 0.0)
                if max(abs(a), abs(b)) > 1e-13:
                    worst = max(worst, abs(a - b) / max(abs(a), abs(b)))
        out["stats"]["totals_reldiff"] = worst
        if worst > 1e-6:
            out["corr"].append({"what": "totals used by setup_inverse differ from independent speciation", "rel": worst})
    # ---- tie B: every reported model
    checks = [l for l in mout if l.startswith("CHECK")]
    tol_print = 2e-12 if any("%20.12e" in p[2] for m in su["models"] for p in m["punch"][:1]) else 1e-4
    for k, m in enumerate(su["models"]):
        out["nmodels"] += 1
        line = checks[k].split() if k < len(checks) else ["CHECK", "missing"]
        st = {"mb": h2d(line[3]) if len(line) > 3 else None, "charge": h2d(line[5]) if len(line) > 5 else None,
              "water": h2d(line[7]) if len(line) > 7 else None}
        out["stats"].setdefault("worst_mb", 0.0)
        out["stats"]["worst_mb"] = max(out["stats"]["worst_mb"], st["mb"] or 0.0)
        if line[1] != "ok":
            out["viol"].append("model %d (bits %d): checkModel fails: %s" % (k, m["bits"], " ".join(line[8:])[:300]))
        # punched values = internal values
        ns, np_ = o["nsol"], o["nphase"]
        exp = [m["error"] / 0.0009765625, m["scaled_error"], m["max_pct"]]
        for q in range(ns):
            exp += [m["X"][q], m["MIN"][q], m["MAX"][q]]
        for i in range(np_):
            c = su["dims"]["col_phases"] + i
            exp += [m["X"][c], m["MIN"][c], m["MAX"][c]]
        exp = exp[:3] + [0.0 if abs(v) <= MIN_TOTAL_INVERSE else v for v in exp[3:]]
        got = [p[1] for p in m["punch"]]
        if len(got) != len(exp) or any(not (a == b or (math.isnan(a) and math.isnan(b))) for a, b in zip(got, exp)):
            out["corr"].append({"what": "punched values differ from inv_delta1/min_delta/max_delta", "model": k,
                                "got": got[:12], "exp": exp[:12]})
        for name, dval, sval in m["punch"]:
            try:
                pv = float(sval)
            except ValueError:
                pv = float("nan")
            if not (pv == dval or abs(pv - dval) <= 1e-4 * abs(dval) + 1e-300) and not (math.isnan(pv) and math.isnan(dval)):
                out["corr"].append({"what": "rendered selected-output cell differs from the value", "cell": name, "text": sval, "value": dval})
        # bits vs non-zero pattern
        nz = 0
        for q in range(ns):
            if abs(m["X"][q]) > 1e-9:
                nz |= 1 << (np_ + q)
        for i in range(np_):
            if abs(m["X"][su["dims"]["col_phases"] + i]) > 1e-9:
                nz |= 1 << i
        if nz != m["bits"]:
            out["corr"].append({"what": "saved model bits differ from the non-zero pattern of the reported vector", "bits": m["bits"], "nz": nz})
        bad = direct_oracle(su, m, totals, tol_print)
        for b in bad:
            out["viol"].append("model %d (bits %d): %s" % (k, m["bits"], b))
    # selected-output string rows = punched strings
    sel = res["seltabs"].get(1, "")
    rows = [ln for ln in sel.split("\n") if ln.strip()]
    data = rows[1:] if rows else []
    if len(data) != len(su["models"]):
        out["corr"].append({"what": "selected-output rows != reported models", "rows": len(data), "models": len(su["models"])})
    else:
        for ln, m in zip(data, su["models"]):
            cells = [c.strip() for c in ln.split("\t") if c.strip() != ""]
            if cells != [p[2].strip() for p in m["punch"]]:
                out["corr"].append({"what": "selected-output row differs from punched cells", "row": ln[:200]})
    # ---- tie C: search
    reported = [m["bits"] for m in su["models"]]
    sl = next((l for l in mout if l.startswith("SEARCH")), None)
    if sl is not None and res["rc"] == 0:
        parts = sl[len("SEARCH "):].split("|")
        rep = [int(x) for x in parts[0].split()[1:]]
        good = [int(x) for x in parts[1].split()[1:]]
        mini = [int(x) for x in parts[2].split()[1:]]
        tail = parts[3].split()
        nbad, calls = int(tail[1]), int(tail[3])
        f = res["final"]
        real = (reported, f.get("count_good"), f.get("count_minimal"), f.get("count_bad"), f.get("count_calls"))
        pred = (rep, len(good), len(mini), nbad, calls)
        out["stats"]["search_checked"] = True
        if real != pred:
            out["corr"].append({"what": "search differs from solve_inverse", "real": real, "model": pred})
    if o["minimal"]:
        for a in range(len(reported)):
            for b in range(len(reported)):
                if a != b and reported[a] | reported[b] == reported[b] and reported[a] != reported[b]:
                    out["viol"].append("-minimal: model bits %d strictly contained in model bits %d" % (reported[a], reported[b]))
        if len(set(reported)) != len(reported):
            out["viol"].append("-minimal: a model was reported twice: %s" % reported)
    out["reported"] = reported
    return out
