"""Translator (C12): the Runge-Kutta tableau, step-control constants and time bookkeeping statements of
`Phreeqc::rk_kinetics` / `Phreeqc::run_reactions` (src/phreeqcpp/kinetics.cpp) as exact rationals
-> lean/PhreeqcVerif/Gen/RKTableau.lean.

What is read from the CURRENT source (nothing is taken from memory of the Cash-Karp tableau):
  * the literal initialisers `LDBLE b31 = 3. / 40., ...` and `LDBLE dc1 = c1 - 2825. / 27648., ...` (decimal literals
    become exact fractions, identifiers are resolved in order of definition);
  * every `Set_moles(<linear combination of rk_moles[..]>)` in source order: stage combinations for k2..k6, the early-exit
    weights of -runge_kutta 1/2/3, the 5th-order weights; the error expression `l_error = fabs(...)`;
  * the nodes from `rate_sim_time = rate_sim_time_start + h_sum + <c> * h;`
  * the step-control constants (safety, moles_max, exponents, growth threshold/factor, MASS_BALANCE reduction, 1e-30 floor)
    and the presence of the loop statements the model mirrors;
  * the assignments to sum_t / tout1 / cvode_last_good_time / t inside the CVODE restart loop of run_reactions as a
    straight-line linear program, and the time argument of the two CVode calls.
Fails closed (RuntimeError -> protocol P) when a shape is not recognised."""
import re
from fractions import Fraction
from pathlib import Path

import vlib

SRC = "src/phreeqcpp/kinetics.cpp"


class Shape(RuntimeError):
    pass


def strip_comments(src):
    src = re.sub(r"/\*.*?\*/", lambda m: "\n" * m.group(0).count("\n"), src, flags=re.S)
    src = re.sub(r"//[^\n]*", "", src)
    return src


def function_body(src, name):
    m = re.search(r"^" + re.escape(name) + r"\s*\(", src, re.M)
    if not m:
        raise Shape(f"gen_rk: function {name} not found")
    i = src.index("{", m.end())
    depth, j = 1, i + 1
    while depth:
        if src[j] == "{":
            depth += 1
        elif src[j] == "}":
            depth -= 1
        j += 1
    return src[i + 1:j - 1], src[:i].count("\n") + 1


# ---------------------------------------------------------------------------------------------------------------
# a tiny exact evaluator for C arithmetic: numbers, identifiers, + - * /, unary minus, parentheses, casts removed
# ---------------------------------------------------------------------------------------------------------------
TOK = re.compile(r"\s*(?:(\d+\.?\d*(?:[eE][-+]?\d+)?|\.\d+(?:[eE][-+]?\d+)?)|([A-Za-z_]\w*(?:\s*\[[^\]]*\])?)|(.))")
CAST = re.compile(r"\(\s*(?:LDBLE|size_t|double|int|long)\s*\)")


def num(text):
    text = text.rstrip("fFlL")
    m = re.fullmatch(r"(\d*)\.?(\d*)(?:[eE]([-+]?\d+))?", text)
    if not m:
        raise Shape(f"gen_rk: bad numeric literal {text!r}")
    ip, fp, ex = m.group(1) or "0", m.group(2) or "", int(m.group(3) or 0)
    v = Fraction(int(ip + fp), 10 ** len(fp))
    return v * Fraction(10) ** ex


class Lin:
    """linear form: const + sum coef*symbol (symbols are strings); products need one side constant"""

    def __init__(self, c=Fraction(0), t=None):
        self.c = Fraction(c)
        self.t = dict(t or {})

    def is_const(self):
        return not any(self.t.values())

    def __add__(self, o):
        t = dict(self.t)
        for k, v in o.t.items():
            t[k] = t.get(k, 0) + v
        return Lin(self.c + o.c, t)

    def __neg__(self):
        return Lin(-self.c, {k: -v for k, v in self.t.items()})

    def __sub__(self, o):
        return self + (-o)

    def __mul__(self, o):
        if self.is_const():
            return Lin(self.c * o.c, {k: self.c * v for k, v in o.t.items()})
        if o.is_const():
            return o * self
        raise Shape("gen_rk: non-linear product in an expression that must be linear")

    def __truediv__(self, o):
        if not o.is_const() or o.c == 0:
            raise Shape("gen_rk: division by a non-constant")
        return self * Lin(1 / o.c)


def parse_expr(text, env, symbols=()):
    """env: name -> Fraction (resolved); symbols: names kept symbolic (normalised without blanks)"""
    text = CAST.sub("", text)
    toks = []
    pos = 0
    while pos < len(text):
        m = TOK.match(text, pos)
        if not m or m.end() == pos:
            break
        pos = m.end()
        if m.group(1):
            toks.append(("n", m.group(1)))
        elif m.group(2):
            toks.append(("i", re.sub(r"\s+", "", m.group(2))))
        elif m.group(3).strip():
            toks.append(("o", m.group(3)))
    p = [0]

    def peek():
        return toks[p[0]] if p[0] < len(toks) else ("e", "")

    def eat():
        t = peek()
        p[0] += 1
        return t

    def atom():
        k, v = eat()
        if k == "n":
            return Lin(num(v))
        if k == "i":
            if v in env:
                return Lin(env[v])
            if v in symbols or symbols == "*":
                return Lin(0, {v: Fraction(1)})
            raise Shape(f"gen_rk: unknown identifier {v!r} in {text.strip()!r}")
        if (k, v) == ("o", "("):
            e = expr()
            if eat() != ("o", ")"):
                raise Shape(f"gen_rk: unbalanced parenthesis in {text.strip()!r}")
            return e
        if (k, v) == ("o", "-"):
            return -atom()
        if (k, v) == ("o", "+"):
            return atom()
        raise Shape(f"gen_rk: cannot parse {text.strip()!r} at {v!r}")

    def term():
        e = atom()
        while peek() in (("o", "*"), ("o", "/")):
            op = eat()[1]
            r = atom()
            e = e * r if op == "*" else e / r
        return e

    def expr():
        e = term()
        while peek() in (("o", "+"), ("o", "-")):
            op = eat()[1]
            r = term()
            e = e + r if op == "+" else e - r
        return e

    e = expr()
    if p[0] != len(toks):
        raise Shape(f"gen_rk: trailing tokens in {text.strip()!r}")
    return e


def split_top(s, sep=","):
    out, depth, cur = [], 0, ""
    for ch in s:
        if ch == sep and depth == 0:
            out.append(cur)
            cur = ""
        else:
            depth += ch in "(["
            depth -= ch in ")]"
            cur += ch
    out.append(cur)
    return out


def balanced_arg(body, start):
    """text of the parenthesised argument starting just after '(' at `start`"""
    depth, i = 1, start
    while depth:
        depth += body[i] == "("
        depth -= body[i] == ")"
        i += 1
    return body[start:i - 1], i


# ---------------------------------------------------------------------------------------------------------------
def extract_rk(body, line0):
    info = {}
    # 1. coefficient initialisers -------------------------------------------------------------------------------
    env = {}
    split = {}
    decls = [m for m in re.finditer(r"\bLDBLE\s+([^;]*?=[^;]*);", body) if re.search(r"\b(b\d\d|c\d|dc\d)\s*=", m.group(1))]
    if len(decls) != 2:
        raise Shape(f"gen_rk: expected 2 LDBLE initialiser statements with tableau coefficients, found {len(decls)}")
    for d in decls:
        for part in split_top(d.group(1)):
            nm, _, rhs = part.partition("=")
            nm = nm.strip()
            if not re.fullmatch(r"b\d\d|c\d|dc\d", nm):
                raise Shape(f"gen_rk: unexpected initialiser {nm!r}")
            v = parse_expr(rhs, env)
            if not v.is_const():
                raise Shape(f"gen_rk: initialiser of {nm} is not constant")
            # `dcN = cN - <literal quotient>`: keep both operands (the double value is the rounded difference of the two
            # rounded operands, not the rounded exact difference)
            ms = re.fullmatch(r"\s*(c\d)\s*-\s*([^-+]+?)\s*", rhs)
            if nm.startswith("dc"):
                if ms and ms.group(1) in env:
                    split[nm] = (env[ms.group(1)], parse_expr(ms.group(2), env).c)
                else:
                    split[nm] = (v.c, Fraction(0))
            if nm in env:
                raise Shape(f"gen_rk: {nm} initialised twice")
            env[nm] = v.c
    info["coef_line"] = line0 + body[:decls[0].start()].count("\n")
    expected = {"b31", "b32", "b51", "b53", "b54", "b61", "b62", "b63", "b64", "b65", "c1", "c3", "c4", "c6",
                "dc1", "dc3", "dc4", "dc5", "dc6"}
    if set(env) != expected:
        raise Shape(f"gen_rk: coefficient names differ: {sorted(set(env) ^ expected)}")
    # any later assignment to a coefficient would invalidate the extraction
    rest = body[decls[1].end():]
    for nm in env:
        if re.search(r"\b" + nm + r"\s*(?:[-+*/]?=)(?!=)", rest):
            raise Shape(f"gen_rk: coefficient {nm} is assigned after its initialiser")

    # 2. walk through the body: k = N*n_reactions, stores into rk_moles, Set_moles(...) and l_error -------------
    def stage_of(idx, kcur):
        idx = re.sub(r"\s+", "", CAST.sub("", idx))
        idx = idx.replace("(", "").replace(")", "")
        if idx == "j":
            return 0
        if idx in ("k+j", "j+k"):
            if kcur is None:
                raise Shape("gen_rk: rk_moles[k + j] used before k is set")
            return kcur
        m = re.fullmatch(r"(?:(\d+)\*)?n_reactions\+j", idx)
        if m:
            return int(m.group(1) or 1)
        raise Shape(f"gen_rk: unrecognised rk_moles index {idx!r}")

    events = []
    pat = re.compile(r"\bk\s*=\s*(?:(\d+)\s*\*\s*)?n_reactions\s*;|rk_moles\s*\[([^\]]*)\]\s*=\s*kinetics_comp_ptr->Get_moles\(\)\s*;"
                     r"|kinetics_comp_ptr->Set_moles\s*\(|l_error\s*=\s*fabs\s*\(|rate_sim_time\s*=\s*rate_sim_time_start\s*\+\s*h_sum([^;]*);"
                     r"|rk_moles\s*\[\s*j\s*\]\s*\*=\s*\(\s*h\s*/\s*h_old\s*\)\s*;")
    kcur = None
    for m in pat.finditer(body):
        txt = m.group(0)
        ln = line0 + body[:m.start()].count("\n")
        if re.match(r"k\s*=", txt):
            kcur = int(m.group(1) or 1)
        elif txt.startswith("rk_moles") and "*=" in txt:
            events.append(("rescale", ln))
        elif txt.startswith("rk_moles"):
            events.append(("store", stage_of(m.group(2), kcur), ln))
        elif txt.startswith("rate_sim_time"):
            tail = m.group(3).strip()
            if tail == "":
                node = Fraction(0)
            else:
                e = parse_expr("0 " + tail, {}, symbols=("h",))
                if e.c != 0 or set(e.t) - {"h"}:
                    raise Shape(f"gen_rk: unrecognised node expression {tail!r}")
                node = e.t.get("h", Fraction(0))
            events.append(("node", node, ln))
        else:
            arg, _ = balanced_arg(body, m.end())
            if "rk_moles" not in arg and "Get_moles()" not in arg:
                continue            # Set_moles(0.), Set_moles(m_temp[i]) ...
            # make rk_moles[...] symbolic per stage, Get_moles() = "cur"
            syms = {}

            def repl(mm):
                s = f"K{stage_of(mm.group(1), kcur)}"
                syms[s] = 1
                return s
            a2 = re.sub(r"rk_moles\s*\[([^\]]*)\]", repl, arg)
            a2 = a2.replace("kinetics_comp_ptr->Get_moles()", "CUR")
            e = parse_expr(a2, env, symbols=tuple(syms) + ("CUR",))
            if e.c != 0:
                raise Shape(f"gen_rk: constant term in stage expression {arg.strip()!r}")
            events.append(("err" if txt.startswith("l_error") else "set", {k: v for k, v in e.t.items() if v != 0}, ln))
    info['split'] = split
    return env, events, info


def lin_to_row(t, n):
    bad = [k for k in t if not re.fullmatch(r"K\d", k) or int(k[1]) >= n]
    if bad:
        raise Shape(f"gen_rk: stage expression uses unexpected stage(s) {bad} (allowed < {n})")
    return [t.get(f"K{i}", Fraction(0)) for i in range(n)]


def shape_rk(env, events):
    """match the event sequence of the current rk_kinetics; returns the tableau"""
    kinds = [e[0] for e in events]
    sets = [e for e in events if e[0] == "set"]
    errs = [e for e in events if e[0] == "err"]
    nodes = [e[1] for e in events if e[0] == "node"]
    stores = [e[1] for e in events if e[0] == "store"]
    if len(errs) != 1:
        raise Shape("gen_rk: expected exactly one l_error = fabs(...) expression")
    if stores != [0, 1, 2, 3, 4, 5]:
        raise Shape(f"gen_rk: stage stores are {stores}, expected k1..k6 in order")
    if kinds.count("rescale") != 1:
        raise Shape("gen_rk: expected exactly one rk_moles[j] *= (h / h_old) statement")
    # nodes: first two are the time of k1 (before the loop and inside), then the end of the -runge_kutta 1 Euler step (the rate
    # "at the end of the step" is evaluated at start + h_sum + h), then k2..k6
    if len(nodes) != 8 or nodes[0] != 0 or nodes[1] != 0 or nodes[2] != 1:
        raise Shape(f"gen_rk: unexpected sequence of rate_sim_time assignments {nodes}")
    c = [Fraction(0)] + nodes[3:]
    # Set_moles sequence (source order)
    if len(sets) != 11:
        raise Shape(f"gen_rk: expected 11 Set_moles(<combination>) statements, found {len(sets)}")
    s = [x[1] for x in sets]
    a21_bad, a21_cur, e1, a21_rk1, st3, e2, st4, e3, st5, st6, fin = s
    if set(a21_cur) != {"CUR"}:
        raise Shape("gen_rk: k2 reaction is not <k1> * const")
    a21 = a21_cur["CUR"]
    if a21_bad != {"K0": a21} or a21_rk1 != {"K0": a21}:
        raise Shape("gen_rk: the three definitions of the k2 reaction (normal, after a bad step, after rk=1) differ")
    A = [[], [a21], lin_to_row(st3, 2), lin_to_row(st4, 3), lin_to_row(st5, 4), lin_to_row(st6, 5)]
    b = lin_to_row(fin, 6)
    d = lin_to_row(errs[0][1], 6)
    return dict(A=A, c=c, b=b, d=d, e1=lin_to_row(e1, 1), e2=lin_to_row(e2, 2), e3=lin_to_row(e3, 3),
                lines={"stage3": sets[4][2], "final": sets[10][2], "error": errs[0][2]})


def norm(s):
    return re.sub(r"\s+", "", s)


def extract_control(body):
    nb = norm(CAST.sub("", body))
    out = {}

    def one(name, pattern, conv=num):
        ms = re.findall(pattern, nb)
        if len(set(ms)) != 1:
            raise Shape(f"gen_rk: control constant {name}: pattern {pattern!r} matched {ms}")
        out[name] = conv(ms[0])
    NUM = r"(-?\d+\.?\d*(?:[eE][-+]?\d+)?)"
    one("safety", r"safety=" + NUM + ";")
    one("molesMax", r"moles_max=" + NUM + ";")
    one("shrinkExp", r"h=h\*safety\*pow\(error_max," + NUM + r"\);l_bad=TRUE", lambda x: -num(x[1:]) if x.startswith("-") else num(x))
    one("growExp", r"error_max>[\d.eE+-]+\)\{h=h\*safety\*pow\(error_max," + NUM + r"\);\}", lambda x: -num(x[1:]) if x.startswith("-") else num(x))
    one("growThreshold", r"if\(error_max>" + NUM + r"\)\{h=h\*safety\*pow")
    one("growFactor", r"else\{h\*=" + NUM + r";\}")
    one("mbReduction", r"==MASS_BALANCE\)\{run_reactions_iterations\+=iterations;moles_reduction=" + NUM + ";gotoMOLES_TOO_LARGE;")
    one("tinyM", r"Get_m\(\)<" + NUM + r"\)kinetics_comp_ptr->Set_m\(0\.?\)")
    required = [
        "h_sum=0.;", "h=h_old=kin_time;", "while(h_sum<kin_time)", "h_sum+=h;", "step_ok++;", "step_bad++;",
        "if(error_max>1){h_old=h;if(step_ok==0)h=h*safety/error_max;else",
        "if(h>(kin_time-h_sum))h=(kin_time-h_sum);", "if(h_sum<kin_time){if(error_max>",
        "h_old=h;h=safety*h/(1.0+moles_reduction);moles_reduction=1.0;equal_rate=FALSE;l_bad=TRUE;",
        "if(kinetics_ptr->Get_step_divide()>1.0){h=h_old=kin_time/kinetics_ptr->Get_step_divide();equal_rate=FALSE;}"
        "elseif(kinetics_ptr->Get_step_divide()<1.0)moles_max=kinetics_ptr->Get_step_divide();",
        "l_error/=kinetics_comp_ptr->Get_tol();if(l_error>error_max)error_max=l_error;",
        "if(step_bad>kinetics_ptr->Get_bad_step_max())",
        "kinetics_comp_ptr->Set_m(m_temp[j]-kinetics_comp_ptr->Get_moles());",
        "if(moles_reduction*moles_max<fabs(kinetics_comp_ptr->Get_moles())){moles_reduction=fabs(kinetics_comp_ptr->Get_moles())/moles_max;}",
        "if(kinetics_ptr->Get_rk()<1)kinetics_ptr->Set_rk(1);elseif(kinetics_ptr->Get_rk()>3)kinetics_ptr->Set_rk(6);",
        "if(kinetics_ptr->Get_rk()==6)equal_rate=FALSE;elseequal_rate=TRUE;",
    ]
    missing = [r for r in required if r not in nb]
    if missing:
        raise Shape(f"gen_rk: loop statements of rk_kinetics not found: {missing[:3]}")
    return out


def extract_clamp(src):
    """calc_final_kinetic_reaction: moles > m_temp[i] -> moles = m_temp[i], m = 0"""
    body, _ = function_body(src, "calc_final_kinetic_reaction")
    nb = norm(body)
    need = "if(kinetics_comp_ptr->Get_moles()>m_temp[i]){kinetics_comp_ptr->Set_moles(m_temp[i]);kinetics_comp_ptr->Set_m(0);}"
    if need not in nb:
        raise Shape("gen_rk: clamp of the reaction to the available moles not found in calc_final_kinetic_reaction")


VARS = ["tout", "sum_t", "cvode_last_good_time", "tout1", "t"]


def extract_restart(src):
    body, line0 = function_body(src, "run_reactions")
    m = re.search(r"RESTART\s*:\s*while\s*\(\s*flag\s*!=\s*SUCCESS\s*\)\s*\{", body)
    if not m:
        raise Shape("gen_rk: CVODE restart loop `RESTART: while (flag != SUCCESS)` not found")
    depth, j = 1, m.end()
    while depth:
        depth += body[j] == "{"
        depth -= body[j] == "}"
        j += 1
    loop = body[m.end():j - 1]
    pre = body[:m.start()]
    nb_pre = norm(pre)
    if not nb_pre.rstrip().endswith("m_iter=0;sum_t=0;"):
        raise Shape("gen_rk: `m_iter = 0; sum_t = 0;` does not directly precede the restart loop")
    first = re.findall(r"CVode\s*\(\s*kinetics_cvode_mem\s*,\s*(\w+)\s*,\s*kinetics_y\s*,\s*&t\s*,\s*NORMAL\s*\)", pre)
    inner = re.findall(r"CVode\s*\(\s*kinetics_cvode_mem\s*,\s*(\w+)\s*,\s*kinetics_y\s*,\s*&t\s*,\s*NORMAL\s*\)", loop)
    if first != ["tout"] or len(inner) != 1:
        raise Shape(f"gen_rk: CVode calls: before loop {first}, in loop {inner}")
    if not re.search(r"\btout\s*=\s*kin_time\s*;", pre):
        raise Shape("gen_rk: `tout = kin_time;` not found")
    if "N_VScale(1.0,cvode_last_good_y,kinetics_y);" not in norm(loop):
        raise Shape("gen_rk: restart does not continue from cvode_last_good_y")
    # straight-line assignments before the CVode call of the loop (nested blocks: only the error exit, skipped)
    call_pos = re.search(r"CVode\s*\(", loop).start()
    prog = []
    depth = 0
    stmt_start = 0
    flat = loop[:call_pos]
    for mm in re.finditer(r"\b(" + "|".join(VARS) + r")\s*(\+=|-=|=)(?!=)\s*([^;]*);", flat):
        # ignore statements nested in an inner block (error exit): count braces before it
        depth = flat[:mm.start()].count("{") - flat[:mm.start()].count("}")
        if depth != 0:
            continue
        if re.search(r"flag\s*$", flat[:mm.start()].rstrip()[-6:]):
            continue
        lhs, op, rhs = mm.group(1), mm.group(2), mm.group(3)
        e = parse_expr(rhs, {}, symbols=tuple(VARS))
        if op == "+=":
            e = e + Lin(0, {lhs: Fraction(1)})
        elif op == "-=":
            e = Lin(0, {lhs: Fraction(1)}) - e
        prog.append((lhs, [e.t.get(v, Fraction(0)) for v in VARS], e.c, line0 + body[:m.end()].count("\n") + flat[:mm.start()].count("\n")))
    if not prog:
        raise Shape("gen_rk: no time bookkeeping statements found in the restart loop")
    return dict(prog=prog, call_arg=inner[0])


def extract_cvstep(repo):
    """cvode.cpp CVStep: which vector is tested and stored as cvode_last_good_y at the top of every attempt"""
    src = strip_comments((repo / "src/phreeqcpp/cvode.cpp").read_text())
    src = re.sub(r"#ifdef DEBUG_CVODE.*?#endif", "", src, flags=re.S)
    m = re.search(r"\nCVStep\s*\(CVodeMem cv_mem\)\s*\{", src)
    if not m:
        raise Shape("gen_rk: CVStep not found in cvode.cpp")
    body = src[m.end():m.end() + 6000]
    nb = norm(body)
    mm = re.search(r"loop\{boolpredict_fail=false;CVMEMcvode_test=TRUE;f\(N,tn,(zn\[0\]|y),ftemp,f_data\);CVMEMcvode_test=FALSE;"
                   r"if\(CVMEMcvode_error==TRUE\)\{predict_fail=true;\}else\{CVMEMcvode_prev_good_time=CVMEMcvode_last_good_time;"
                   r"N_VScale\(1\.0,CVMEMcvode_last_good_y,CVMEMcvode_prev_good_y\);CVMEMcvode_last_good_time=tn;"
                   r"N_VScale\(1\.0,(zn\[0\]|y),CVMEMcvode_last_good_y\);\}", nb)
    if not mm:
        raise Shape("gen_rk: the last-good-state hook at the top of the CVStep attempt loop is not recognised")
    if "CVPredict(cv_mem);" not in nb[mm.end():mm.end() + 200]:
        raise Shape("gen_rk: CVPredict does not follow the last-good-state hook")
    code = {"zn[0]": 0, "y": 1}
    return {"test": code[mm.group(1)], "save": code[mm.group(2)]}


def extract_miter(src):
    body, _ = function_body(src, "run_reactions")
    nb = norm(body)
    m = re.search(r"if\(\+\+m_iter(>=|>)kinetics_ptr->Get_bad_step_max\(\)\)", nb)
    if not m:
        raise Shape("gen_rk: `if (++m_iter >= bad_step_max)` not recognised in the CVODE restart loop")
    return m.group(1)


# ---------------------------------------------------------------------------------------------------------------
def q(x):
    x = Fraction(x)
    if x.denominator == 1:
        return f"({x.numerator} : Rat)"
    return f"(({x.numerator} : Rat) / {x.denominator})"


def qlist(xs):
    return "[" + ", ".join(q(x) for x in xs) + "]"


def render(tab, ctl, rst, repo_rel):
    L = []
    L.append("/-! GENERATED by tools/gen_rk.py from " + repo_rel + " — do not edit.")
    L.append(f"Source lines: coefficient initialisers {tab['coef_line']}, k3 combination {tab['lines']['stage3']}, "
             f"result weights {tab['lines']['final']}, error expression {tab['lines']['error']}. -/")
    L.append("namespace PhreeqcVerif.Gen.RKTableau")
    L.append("")
    L.append("/-- stage combinations: row i = coefficients of k1..k_i in the reaction used to evaluate k_{i+1} -/")
    L.append("def A : List (List Rat) := [" + ", ".join(qlist(r) for r in tab["A"]) + "]")
    L.append("/-- nodes: `rate_sim_time = rate_sim_time_start + h_sum + c_i * h` at the evaluation of k_i -/")
    L.append("def c : List Rat := " + qlist(tab["c"]))
    L.append("/-- weights of the accepted result `Set_moles(c1*k1 + c3*k3 + c4*k4 + c6*k6)` -/")
    L.append("def b : List Rat := " + qlist(tab["b"]))
    L.append("/-- weights of the error expression `l_error = fabs(dc1*k1 + dc3*k3 + dc4*k4 + dc5*k5 + dc6*k6)` -/")
    L.append("def d : List Rat := " + qlist(tab["d"]))
    L.append("/-- operands of the initialisers `dc_i = c_i - <literal>`: d = dMin - dSub (the doubles are rounded differences) -/")
    L.append("def dMin : List Rat := " + qlist(tab["dmin"]))
    L.append("def dSub : List Rat := " + qlist(tab["dsub"]))
    L.append("/-- early-exit weights of -runge_kutta 1, 2, 3 -/")
    L.append("def e1 : List Rat := " + qlist(tab["e1"]))
    L.append("def e2 : List Rat := " + qlist(tab["e2"]))
    L.append("def e3 : List Rat := " + qlist(tab["e3"]))
    L.append("")
    for k in ("safety", "molesMax", "shrinkExp", "growExp", "growThreshold", "growFactor", "mbReduction", "tinyM"):
        L.append(f"def {k} : Rat := {q(ctl[k])}")
    L.append("")
    L.append("/-- CVODE restart loop of run_reactions: straight-line assignments executed before each re-started CVode call.")
    L.append("variables: 0 tout, 1 sum_t, 2 cvode_last_good_time, 3 tout1, 4 t; an entry is (lhs, coefficients, constant) -/")
    L.append("def restartProg : List (Nat × List Rat × Rat) := [")
    rows = []
    for lhs, coefs, const, ln in rst["prog"]:
        rows.append(f"  ({VARS.index(lhs)}, {qlist(coefs)}, {q(const)})   -- line {ln}: {lhs} = ...")
    # commas between rows but comments at end of line: put comma before the comment
    for i, r in enumerate(rows):
        code, _, cm = r.partition("   -- ")
        L.append(code + ("," if i + 1 < len(rows) else "") + "   -- " + cm)
    L.append("]")
    L.append(f"/-- variable passed as end time to the re-started CVode call -/")
    L.append(f"def restartCallArg : Nat := {VARS.index(rst['call_arg'])}")
    L.append("/-- `if (++m_iter >= bad_step_max)` (true) or `>` (false): when the restart loop gives up -/")
    L.append(f"def restartStopsAtGe : Bool := {'true' if rst['miter'] == '>=' else 'false'}")
    L.append("/-- cvode.cpp CVStep, top of every attempt: vector handed to the f test / stored as cvode_last_good_y (0 = zn[0], 1 = y) -/")
    L.append(f"def hookTestVec : Nat := {rst['hook']['test']}")
    L.append(f"def hookSaveVec : Nat := {rst['hook']['save']}")
    L.append("")
    L.append("end PhreeqcVerif.Gen.RKTableau")
    return "\n".join(L) + "\n"


def extract(repo=None):
    repo = Path(repo or vlib.REPO)
    src = strip_comments((repo / SRC).read_text())
    body, line0 = function_body(src, "rk_kinetics")
    env, events, info = extract_rk(body, line0)
    tab = shape_rk(env, events)
    tab["coef_line"] = info["coef_line"]
    # operands of the error weights in stage order (a stage without a weight has (0, 0))
    names = {0: "dc1", 1: "dc2", 2: "dc3", 3: "dc4", 4: "dc5", 5: "dc6"}
    dmin, dsub = [], []
    for i in range(6):
        a, b2 = info["split"].get(names[i], (Fraction(0), Fraction(0)))
        if a - b2 != tab["d"][i]:
            raise Shape(f"gen_rk: error weight of stage {i + 1} is not the initialiser {names[i]}")
        dmin.append(a)
        dsub.append(b2)
    tab["dmin"], tab["dsub"] = dmin, dsub
    ctl = extract_control(body)
    extract_clamp(src)
    rst = extract_restart(src)
    rst["miter"] = extract_miter(src)
    rst["hook"] = extract_cvstep(repo)
    return tab, ctl, rst


def generate(ctx=None):
    out = vlib.LEAN / "PhreeqcVerif" / "Gen" / "RKTableau.lean"
    tab, ctl, rst = extract()
    text = render(tab, ctl, rst, SRC)
    if not out.exists() or out.read_text() != text:
        out.write_text(text)
    return {"source": SRC, "stages": len(tab["A"]), "b": [str(x) for x in tab["b"]], "d": [str(x) for x in tab["d"]],
            "c": [str(x) for x in tab["c"]], "control": {k: str(v) for k, v in ctl.items()},
            "restart_prog": [(l, [str(x) for x in cs], str(c)) for l, cs, c, _ in rst["prog"]],
            "restart_call_arg": rst["call_arg"], "restart_stops_at": "++m_iter " + rst["miter"] + " bad_step_max",
            "cvstep_hook": rst["hook"]}


if __name__ == "__main__":
    import json
    print(json.dumps(generate(), indent=1))
