"""Seeded generators for C15: initial solutions in every unit spelling, and metamorphic pairs (two descriptions of one
chemical system). All randomness comes from the rng passed in. Numbers are written with repr() so that the text carries
the exact double."""
import math
import re

# spelling -> canonical name produced by check_units (verified against the engine on every run)
SPELL = {
    "Mol/kgw": ["mol/kgw", "Mol/kgw", "moles/kgw", "mol/kgH2O", "MOL/KGW"],
    "mMol/kgw": ["mmol/kgw", "millimoles/kgw", "mMol/kgw", "mmol/kgh2o"],
    "uMol/kgw": ["umol/kgw", "micromol/kgw", "uMol/kgw"],
    "g/kgw": ["g/kgw", "grams/kgw"],
    "mg/kgw": ["mg/kgw", "milligrams/kgw", "mg/kgH2O"],
    "ug/kgw": ["ug/kgw", "micrograms/kgw"],
    "Mol/l": ["mol/l", "mol/L", "moles/liter"],
    "mMol/l": ["mmol/l", "mmol/L", "millimol/liter"],
    "uMol/l": ["umol/l", "umol/L"],
    "g/l": ["g/l", "g/L", "grams/liter"],
    "mg/l": ["mg/l", "mg/L", "milligrams/liter"],
    "ug/l": ["ug/l", "ug/L", "micrograms/L"],
    "Mol/kgs": ["mol/kgs", "moles/kgs"],
    "mMol/kgs": ["mmol/kgs"],
    "uMol/kgs": ["umol/kgs"],
    "g/kgs": ["g/kgs", "ppt"],
    "mg/kgs": ["mg/kgs", "ppm"],
    "ug/kgs": ["ug/kgs", "ppb"],
}
ALK_SPELL = {
    "eq/kgw": ["eq/kgw", "equivalents/kgw"], "meq/kgw": ["meq/kgw", "milliequivalents/kgw"], "ueq/kgw": ["ueq/kgw"],
    "eq/l": ["eq/l", "eq/L"], "meq/l": ["meq/l", "meq/L"], "ueq/l": ["ueq/l"],
    "eq/kgs": ["eq/kgs"], "meq/kgs": ["meq/kgs"], "ueq/kgs": ["ueq/kgs"],
}
# spellings with a blank: only on a concentration line (cxxISolutionComp::read glues "kg " to the next word)
COMP_SPELL = {
    "Mol/kgw": ["mol/kg water", "Mol/Kg water"], "mMol/kgw": ["mmol/kg water", "millimoles/kg  water"], "mg/kgw": ["mg/kg water", "mg/KG H2O"],
    "ug/kgw": ["ug/kg water"], "g/kgw": ["g/kg water"], "uMol/kgw": ["umol/kg water"],
    "mg/kgs": ["mg/kg solution", "mg/kg soln"], "ug/kgs": ["ug/kg solution"], "Mol/kgs": ["mol/kg solution"], "mMol/kgs": ["mmol/kg solution"],
    "g/kgs": ["g/kg solution"], "uMol/kgs": ["umol/kg solution"],
}
PREF = {"": 1.0, "m": 1e-3, "u": 1e-6}


def canon_parts(c):
    """('m'|'u'|'', 'Mol'|'g'|'eq', 'l'|'kgs'|'kgw')"""
    m = re.match(r"^(m|u)?(Mol|g|eq)/(l|kgs|kgw)$", c)
    return (m.group(1) or "", m.group(2), m.group(3))


def parse_formula(f):
    """element list of a neutral formula: Ca0.5(CO3)0.5 -> [('Ca',0.5),('C',0.5),('O',1.5)] (order of appearance, merged)"""
    pos = 0

    def num():
        nonlocal pos
        m = re.match(r"\d*\.?\d+", f[pos:])
        if m:
            pos += len(m.group(0))
            return float(m.group(0))
        return 1.0

    def group(depth):
        nonlocal pos
        out = []
        while pos < len(f):
            ch = f[pos]
            if ch == "(":
                pos += 1
                inner = group(depth + 1)
                c = num()
                out += [(e, k * c) for e, k in inner]
            elif ch == ")":
                pos += 1
                return out
            elif ch.isupper():
                m = re.match(r"[A-Z][a-z]*", f[pos:])
                pos += len(m.group(0))
                out.append((m.group(0), num()))
            else:
                raise ValueError("formula " + f)
        return out

    items = group(0)
    merged = {}
    for e, k in items:
        merged[e] = merged.get(e, 0.0) + k
    return list(merged.items())


class Db:
    """independent reading of SOLUTION_MASTER_SPECIES: element weights and master-species weights"""

    def __init__(self, path):
        self.elt = {}
        self.master_formula = {}
        self.master_num = {}
        on = False
        for raw in open(path, errors="replace"):
            line = raw.split("#")[0].rstrip()
            if not line.strip():
                continue
            if re.match(r"^[A-Z_]+\s*$", line.strip()) and not line.startswith((" ", "\t")):
                on = line.strip() == "SOLUTION_MASTER_SPECIES"
                continue
            if not on:
                continue
            t = line.split()
            if len(t) < 4:
                continue
            name = t[0].replace("(+", "(")
            if re.match(r"^[\d.+-]", t[3]):
                self.master_num[name] = float(t[3])
            else:
                self.master_formula[name] = t[3]
            if "(" not in name and len(t) >= 5:
                self.elt[name] = float(t[4])

    def gfw(self, formula):
        g = 0.0
        for e, k in parse_formula(formula):
            g += k * self.elt[e]
        return g

    def master_gfw(self, name):
        name = name.replace("(+", "(")
        if name in self.master_num:
            return self.master_num[name]
        return self.gfw(self.master_formula[name])


# elements used in generated solutions: name, list of admissible `as` formulas, typical molality range (log10)
ELEMS = [
    ("Na", [], (-4, -1.3)), ("K", [], (-5, -2)), ("Ca", [], (-4.5, -2)), ("Mg", [], (-4.5, -2)),
    ("Cl", [], (-4, -1.3)), ("S(6)", ["SO4", "S"], (-5, -2)), ("N(5)", ["NO3", "N"], (-5, -3)),
    ("Si", ["SiO2", "Si", "H4SiO4"], (-5, -3.5)), ("C(4)", ["HCO3", "CO3", "CO2", "C"], (-4.5, -2.3)),
    ("Alkalinity", ["CaCO3", "HCO3", "Ca0.5(CO3)0.5"], (-4, -2.3)), ("F", [], (-6, -4)), ("Br", [], (-6, -4)),
    ("Sr", [], (-6, -4)), ("Li", [], (-6, -4)), ("B", ["B", "H3BO3"], (-6, -4)), ("Ba", [], (-8, -6.5)),
    ("P", ["PO4", "P"], (-7, -5)),
]
EMAP = {e[0]: e for e in ELEMS}


def pick_elems(rng, nmin=1, nmax=6, allow_alk=True):
    names = [e[0] for e in ELEMS]
    k = rng.randint(nmin, nmax)
    out = rng.sample(names, k)
    if "Alkalinity" in out and "C(4)" in out:
        out.remove(rng.choice(["Alkalinity", "C(4)"]))
    if not allow_alk and "Alkalinity" in out:
        out.remove("Alkalinity")
    return out


def gen_amounts(rng, elems):
    return {e: 10 ** rng.uniform(*EMAP[e][2]) for e in elems}


def unit_number(db, elem, n, canon, as_formula=None, gfw=None):
    """the number that expresses n mol (per kgw / kgs / l) of `elem` in unit `canon`"""
    pre, kind, _ = canon_parts(canon)
    x = n / PREF[pre]
    if kind == "g":
        if gfw is not None:
            g = gfw
        elif as_formula:
            g = db.gfw(as_formula)
            if elem == "Alkalinity" and as_formula == "CaCO3":
                g = g / 2.0
        else:
            g = db.master_gfw(elem)
        x = x * g
    return x


def comp_line(elem, number, spelling=None, as_formula=None, gfw=None, extra=""):
    s = f" {elem} {number!r}"
    if spelling:
        s += f" {spelling}"
    if as_formula:
        s += f" as {as_formula}"
    if gfw is not None:
        s += f" gfw {gfw!r}"
    return s + extra


def choose_expr(rng, db, elem, den, default_canon, per_elem=True):
    """random way of writing an element: returns dict(spelling, canon_own or None, as, gfw)"""
    own = None
    spelling = None
    if per_elem and rng.random() < 0.5:
        fam = [c for c in SPELL if canon_parts(c)[2] == den]
        if elem == "Alkalinity":
            fam = fam + [c for c in ALK_SPELL if canon_parts(c)[2] == den]
        own = rng.choice(fam)
        spelling = rng.choice((SPELL.get(own) or ALK_SPELL[own]) + COMP_SPELL.get(own, []))
    eff = own or default_canon
    kind = canon_parts(eff)[1]
    as_f = None
    gfw = None
    if kind == "g" or rng.random() < 0.15:
        r = rng.random()
        if EMAP[elem][1] and r < 0.5:
            as_f = rng.choice(EMAP[elem][1])
        elif r < 0.65:
            gfw = round(db.master_gfw(elem) * rng.uniform(0.8, 1.2), 3)
    return dict(spelling=spelling, own=own, as_f=as_f, gfw=gfw)


OPT_SPELL = {"units": ["units", "-units", "unit", "-unit", "-u", "Units"], "temp": ["temp", "-temp", "temperature", "-t", "Temp"],
             "density": ["density", "-density", "dens", "-dens", "-d"], "water": ["water", "-water", "-w"], "pH": ["pH", "ph", "-pH", "PH"],
             "pe": ["pe", "-pe"], "pressure": ["pressure", "-pressure", "press", "-pr"]}
CALLBACK_TAIL = ["SELECTED_OUTPUT 1", " -reset false", "USER_PUNCH 1", None, " 20 PUNCH 1", "END"]


def _tail(calc):
    t = list(CALLBACK_TAIL)
    t[3] = f' 10 x = CALLBACK({2 if calc else 1}, 0, "tot")'
    return t


def _comp_desc(db, e, num, ex):
    return dict(name=e, conc=num, own=ex["own"], alk=e.lower().startswith("alk"), gfw=ex["gfw"] or 0.0, as_f=ex["as_f"] or "",
                spelling=ex["spelling"], elts=parse_formula(ex["as_f"]) if ex["as_f"] else [], master=db.master_gfw(e))


def conv_case(rng, db):
    """one SOLUTION block exercising convert_units: option lines (several spellings, any position in the block) and constituent
    lines. returns (input text, description); description["sols"][0]["model_ops"] is the raw text handed to the model."""
    den = rng.choice(["kgw", "kgw", "kgw", "l", "l", "kgs", "kgs"])
    default = rng.choice([c for c in SPELL if canon_parts(c)[2] == den])
    dspell = rng.choice(SPELL[default])
    ph = round(rng.uniform(5.0, 9.0), 3)
    water = rng.choice([1.0, 1.0, 0.5, 2.0, 1e-3, 1e3, 0.123, 37.5])
    temp = rng.choice([25.0, 25.0, 10.0, 40.0])
    density = round(rng.uniform(0.98, 1.15), 4) if (den == "l" or rng.random() < 0.2) else None
    calc = density is not None and den != "kgw" and rng.random() < 0.35
    elems = pick_elems(rng)
    amounts = gen_amounts(rng, elems)
    body = [f" {rng.choice(OPT_SPELL['pH'])} {ph!r}", f" {rng.choice(OPT_SPELL['units'])} {dspell}"]
    if temp != 25.0 or rng.random() < 0.3:
        body.append(f" {rng.choice(OPT_SPELL['temp'])} {temp!r}")
    if density is not None:
        body.append(f" {rng.choice(OPT_SPELL['density'])} {density!r}" + (rng.choice([" calculate", " c", " Calc"]) if calc else ""))
    if water != 1.0 or rng.random() < 0.2:
        body.append(f" {rng.choice(OPT_SPELL['water'])} {water!r}")
    comps = []
    order = list(elems)
    rng.shuffle(order)
    for e in order:
        ex = choose_expr(rng, db, e, den, default)
        eff = ex["own"] or default
        n = amounts[e]
        if rng.random() < 0.04:
            num = rng.choice([0.0, -1.0])
        else:
            num = unit_number(db, e, n, eff, ex["as_f"], ex["gfw"])
            num = float(f"{num:.6g}")
        cl = comp_line(e, num, ex["spelling"], ex["as_f"], ex["gfw"])
        r = rng.random()
        if r < 0.15:
            cl = cl.replace(" as ", rng.choice([" AS ", " As ", "\tas  "])).replace(" gfw ", rng.choice([" GFW ", " gfm ", "  gfw\t"]))
        elif r < 0.3:
            cl = "  " + cl.replace(" ", rng.choice(["  ", "\t", " \t "]), 2)
        if e == "C(4)" and rng.random() < 0.3:
            cl = cl.replace(" C(4) ", " C(+4) ", 1)
        body.append(cl)
        comps.append(_comp_desc(db, e, num, ex))
    if rng.random() < 0.6:
        rng.shuffle(body)           # options and constituents in any order: the units in force at the END of the block count
    lines = ["SOLUTION 1"] + body + _tail(calc)
    sol = dict(n=1, ph=ph, water=water, temp=temp, pe=4.0, density=density if density is not None else 1.0, default=default, den=den,
               comps=comps, model_ops=["text2 block"] + [f"tline {hexs(l)}" for l in body])
    desc = dict(kind="block", calc=calc, default=default, sols=[sol])
    return "\n".join(lines) + "\n", desc


def hexs(s):
    return s.encode().hex() if s else "-"


def spread_case(rng, db, rows=None):
    """a SOLUTION_SPREAD with block-level options, per-row special columns (units, pH, temp, water, density, pe, pressure,
    description) whose values differ from the block level and between rows, and an optional units row giving units (`as`, gfw) for
    SOME element columns only. The units in force for a row: its `units` cell > block-level -units > built-in mmol/kgw."""
    block_units = rng.random() < 0.7
    den = rng.choice(["kgw", "kgw", "l", "kgs"]) if block_units else "kgw"
    fam = [c for c in SPELL if canon_parts(c)[2] == den]
    bdefault = rng.choice(fam) if block_units else "mMol/kgw"
    bl = []
    if block_units:
        bl.append(f" -units {rng.choice(SPELL[bdefault])}")
    b = dict(ph=7.0, temp=25.0, water=1.0, pe=4.0, density=1.0, pressure=1.0)
    if rng.random() < 0.4:
        b["temp"] = rng.choice([10.0, 18.5, 40.0])
        bl.append(f" -temp {b['temp']!r}")
    if rng.random() < 0.3:
        b["ph"] = round(rng.uniform(5.5, 8.5), 2)
        bl.append(f" -pH {b['ph']!r}")
    if rng.random() < 0.3:
        b["water"] = rng.choice([0.5, 2.0, 0.123])
        bl.append(f" -water {b['water']!r}")
    if den == "l" or rng.random() < 0.15:
        b["density"] = round(rng.uniform(0.98, 1.12), 4)
        bl.append(f" -density {b['density']!r}")
    rng.shuffle(bl)
    nrows = rows or rng.choice([1, 2, 2, 3])
    elems = pick_elems(rng, 1, 5)
    with_units_row = rng.random() < 0.7
    # per-column own units (the same for all rows) for SOME columns
    colex = {}
    for e in elems:
        ex = choose_expr(rng, db, e, den, bdefault, per_elem=with_units_row)
        if not with_units_row:
            ex = dict(spelling=None, own=None, as_f=None, gfw=None)
        elif rng.random() < 0.4:
            ex = dict(spelling=None, own=None, as_f=None, gfw=None)      # no unit cell: inherits the row's units
        if ex["own"] is None and (ex["as_f"] or ex["gfw"] is not None) and not with_units_row:
            ex["as_f"], ex["gfw"] = None, None
        colex[e] = ex
    special = [c for c in ["units", "pH", "temp", "water", "pe", "pressure", "description"] if rng.random() < {"units": 0.6, "pH": 0.7, "temp": 0.4,
               "water": 0.35, "pe": 0.2, "pressure": 0.15, "description": 0.2}[c]]
    if den == "l" and rng.random() < 0.5:
        special.append("density")
    head_spell = {"units": ["units", "Units", "unit"], "pH": ["pH", "ph"], "temp": ["temp", "Temp", "temperature"], "water": ["water", "Water"],
                  "pe": ["pe"], "pressure": ["pressure", "press"], "description": ["description", "desc"], "density": ["density", "dens"]}
    cols = ["Number"] + special + list(elems)
    rng.shuffle(cols)
    heads = [rng.choice(head_spell[c]) if c in head_spell else c for c in cols]
    ucells = []
    for c in cols:
        if c in colex and with_units_row:
            ex = colex[c]
            u = ((ex["spelling"] or "") + (f" as {ex['as_f']}" if ex["as_f"] else "") + (f" gfw {ex['gfw']!r}" if ex["gfw"] is not None else "")).strip()
            ucells.append(u)
        else:
            ucells.append("")
    numbers = sorted(rng.sample(range(1, 60), nrows))
    datarows, sols = [], []
    for n in numbers:
        v = dict(b)
        row_default = bdefault
        cellvals = {}
        for c in special:
            if c == "units":
                if rng.random() < 0.75:
                    ru = rng.choice([u for u in fam if u != bdefault] or fam)
                    cellvals[c] = rng.choice(SPELL[ru])
                    row_default = ru
                else:
                    cellvals[c] = ""                     # empty cell: the block-level units stay in force
            elif c == "pH":
                v["ph"] = round(rng.uniform(5.0, 9.0), 3)
                cellvals[c] = repr(v["ph"])
            elif c == "temp":
                v["temp"] = rng.choice([5.0, 12.5, 25.0, 33.0, 60.0])
                cellvals[c] = repr(v["temp"])
            elif c == "water":
                v["water"] = rng.choice([0.25, 1.0, 3.0, 0.077])
                cellvals[c] = repr(v["water"])
            elif c == "pe":
                v["pe"] = round(rng.uniform(0, 10), 2)
                cellvals[c] = repr(v["pe"])
            elif c == "pressure":
                v["pressure"] = rng.choice([1.0, 2.0, 5.0])
                cellvals[c] = repr(v["pressure"])
            elif c == "density":
                v["density"] = round(rng.uniform(0.98, 1.12), 4)
                cellvals[c] = repr(v["density"])
            elif c == "description":
                cellvals[c] = rng.choice(["well_7", "spring", "sample-3"])
        amounts = gen_amounts(rng, elems)
        comps = []
        for e in elems:
            ex = colex[e]
            eff = ex["own"] or row_default
            num = float(f"{unit_number(db, e, amounts[e], eff, ex['as_f'], ex['gfw']):.6g}")
            if rng.random() < 0.08:
                cellvals[e] = ""                         # element not analysed in this row
            else:
                cellvals[e] = repr(num)
                comps.append(_comp_desc(db, e, num, ex))
        cellvals["Number"] = str(n)
        datarows.append([cellvals[c] for c in cols])
        ops = ["text2 row"] + [f"bopt {hexs(l)}" for l in bl]
        for c, h, u in zip(cols, heads, ucells):
            if c == "Number" or cellvals[c] == "":
                continue                                 # spread_row_to_solution skips the number column and empty data cells
            ops.append(f"cell {hexs(h)} {hexs(cellvals[c])} {hexs(u)}")
        sols.append(dict(n=n, ph=v["ph"], water=v["water"], temp=v["temp"], pe=v["pe"], density=v["density"], pressure=v["pressure"],
                         default=row_default, den=den, comps=comps, model_ops=ops))
    L = ["SOLUTION_SPREAD"] + bl + [" " + "\t".join(heads)]
    if with_units_row:
        L.append(" " + "\t".join(ucells))
    for dr in datarows:
        L.append(" " + "\t".join(dr))
    text_body = "\n".join(L) + "\n"
    desc = dict(kind="spread", calc=False, default=bdefault, sols=sols, body=text_body)
    return text_body + "\n".join(_tail(False)) + "\n", desc


def reference_blocks(desc, base_units=False):
    """the SOLUTION blocks a description denotes (the reference of the property): one block per solution, every option written out,
    every constituent with its own unit / `as` / gfw; units in force = row cell > block-level > built-in (decided in the generator)"""
    out = []
    for s in desc["sols"]:
        L = [f"SOLUTION {s['n']}", f" temp {s['temp']!r}", f" pH {s['ph']!r}", f" pe {s['pe']!r}",
             f" units {s['default']}", f" density {s['density']!r}" + (" calculate" if desc["calc"] else ""), f" -water {s['water']!r}"]
        if s.get("pressure", 1.0) != 1.0:
            L.append(f" -pressure {s['pressure']!r}")
        for c in s["comps"]:
            L.append(comp_line(c["name"], c["conc"], c["own"], c["as_f"] or None, c["gfw"] if c["gfw"] > 0 else None))
        out.append("\n".join(L) + "\n")
    return "".join(out)


# ------------------------------------------------------------------------------------------------ metamorphic pairs

PUNCH_HEAD = ["SELECTED_OUTPUT 1", " -reset false", " -high_precision true", "USER_PUNCH 1"]


def punch_block(items):
    """items: list of (tag, heading, basic expression); tag 'i' intensive, 'e' extensive, 'p' pe-like (conditionally judged)"""
    heads = " ".join(f"{t}:{h}" for t, h, _ in items)
    lines = list(PUNCH_HEAD) + [" -headings " + heads]
    ln = 10
    for _, _, ex in items:
        lines.append(f" {ln} PUNCH {ex}")
        ln += 10
    return "\n".join(lines) + "\n"


SPECIES_OF = {"Na": ["Na+"], "K": ["K+"], "Ca": ["Ca+2", "CaOH+"], "Mg": ["Mg+2"], "Cl": ["Cl-"], "S(6)": ["SO4-2", "HSO4-"],
              "N(5)": ["NO3-"], "Si": ["H4SiO4", "H3SiO4-"], "C(4)": ["HCO3-", "CO3-2", "CO2"], "Alkalinity": ["HCO3-", "CO3-2"],
              "F": ["F-"], "Br": ["Br-"], "Sr": ["Sr+2"], "Li": ["Li+"], "B": ["H3BO3"], "Ba": ["Ba+2"], "P": ["HPO4-2", "H2PO4-"]}
TOTNAME = {"S(6)": "S(6)", "N(5)": "N(5)", "C(4)": "C(4)", "Alkalinity": "C(4)"}


def observables(elems, extra=()):
    it = [("i", "pH", '-LA("H+")'), ("p", "pe", '-LA("e-")'), ("i", "mu", "MU"), ("i", "tc", "TC"),
          ("i", "aw", 'ACT("H2O")'), ("e", "water", 'TOT("water")'), ("i", "alk", "ALK"), ("e", "cb", "CHARGE_BALANCE"),
          ("i", "rho", "RHO"), ("e", "vol", "SOLN_VOL"), ("i", "sc", "SC"), ("i", "OH", 'MOL("OH-")'), ("i", "m_H+", 'MOL("H+")')]
    for e in elems:
        tn = TOTNAME.get(e, e)
        it.append(("i", f"tot_{tn}", f'TOT("{tn}")'))
        it.append(("e", f"totmole_{tn}", f'TOTMOLE("{tn}")'))
        for sp in SPECIES_OF.get(e, []):
            it.append(("i", f"m_{sp}", f'MOL("{sp}")'))
            it.append(("i", f"la_{sp}", f'LA("{sp}")'))
    for ph_ in ("Calcite", "Gypsum", "Halite", "CO2(g)", "Quartz"):
        it.append(("s", f"si_{ph_}", f'SI("{ph_}")'))
    it += list(extra)
    return it


def solution_block(db, n, ph, temp, water, amounts, exprs, default_spell, order, pe=None, extra_lines=(), desc=None):
    """SOLUTION n with the amounts (mol/kgw) written per `exprs` (elem -> dict(canon, spelling, as_f, gfw))"""
    lines = [f"SOLUTION {n}" + (f" {desc}" if desc else ""), f" temp {temp!r}", f" pH {ph!r}"]
    if pe is not None:
        lines.append(f" pe {pe!r}")
    lines.append(f" units {default_spell}")
    if water != 1.0:
        lines.append(f" -water {water!r}")
    for e in order:
        ex = exprs[e]
        num = unit_number(db, e, amounts[e], ex["canon"], ex.get("as_f"), ex.get("gfw"))
        lines.append(comp_line(e, num, ex.get("spelling"), ex.get("as_f"), ex.get("gfw"), ex.get("extra", "")))
    lines += list(extra_lines)
    return "\n".join(lines) + "\n"


def plain_exprs(elems, canon="Mol/kgw"):
    return {e: dict(canon=("eq/kgw" if False else canon), spelling=None) for e in elems}


def random_kgw_exprs(rng, db, elems, default):
    """every element in a random per-kg-water unit (own units or the default), random `as`/gfw where grams are used"""
    out = {}
    fam = [c for c in SPELL if canon_parts(c)[2] == "kgw"]
    for e in elems:
        if rng.random() < 0.6:
            f2 = fam + ([c for c in ALK_SPELL if c.endswith("kgw")] if e == "Alkalinity" else [])
            c = rng.choice(f2)
            sp = rng.choice(SPELL.get(c) or ALK_SPELL[c])
        else:
            c, sp = default, None
        d = dict(canon=c, spelling=sp)
        if canon_parts(c)[1] == "g":
            r = rng.random()
            if EMAP[e][1] and r < 0.5:
                d["as_f"] = rng.choice(EMAP[e][1])
            elif r < 0.7:
                d["gfw"] = round(db.master_gfw(e) * rng.uniform(0.7, 1.3), 4)
        out[e] = d
    return out


def fmt(x):
    return repr(float(x))


class System:
    """a chemical system in abstract form; render(variant) gives PHREEQC input. Variant keys:
    exprs/default (units), k (water/extensive factor), perm (rng for orders), renum (offset map), dup (bool), spread (bool),
    mixmode"""

    def __init__(self, rng, db, kind, fam=None):
        self.db = db
        self.kind = kind
        self.temp = rng.choice([25.0, 25.0, 25.0, 10.0, 40.0, 60.0])
        self.ph = round(rng.uniform(5.5, 8.8), 2)
        redox = False
        allow_alk = kind in ("speciation", "mix")
        self.elems = pick_elems(rng, 2, 6, allow_alk=allow_alk)
        if kind in ("exchange",) and "Na" not in self.elems:
            self.elems.append("Na")
        if kind in ("batch", "gas", "kinetics") and "Ca" not in self.elems:
            self.elems.append("Ca")
        if "Cl" not in self.elems:
            self.elems.append("Cl")
        self.amounts = gen_amounts(rng, self.elems)
        self.water = 1.0
        self.redox = redox
        # second solution for mixes
        self.elems2 = pick_elems(rng, 2, 4, allow_alk=False)
        if "Cl" not in self.elems2:
            self.elems2.append("Cl")
        self.amounts2 = gen_amounts(rng, self.elems2)
        self.ph2 = round(rng.uniform(5.5, 8.8), 2)
        self.temp2 = rng.choice([25.0, 15.0, 50.0])
        self.water2 = rng.choice([1.0, 0.5, 2.0])
        self.fracs = [round(rng.uniform(0.1, 0.9), 3), round(rng.uniform(0.1, 0.9), 3)]
        if kind == "mix":
            # ordinary analyses: not charge balanced (no `charge`), different water masses, fractions that do not sum to 1
            self.water = rng.choice([1.0, 0.4, 2.5, 1.0])
            self.water2 = rng.choice([1.0, 0.4, 2.5, 0.5, 2.0])
            self.elems3 = pick_elems(rng, 2, 4, allow_alk=False)
            self.amounts3 = gen_amounts(rng, self.elems3)
            self.ph3 = round(rng.uniform(5.5, 8.8), 2)
            self.water3 = rng.choice([1.0, 0.4, 2.5, 3.0])
            self.fracs = [round(rng.uniform(0.1, 1.6), 3), round(rng.uniform(0.1, 1.6), 3), round(rng.uniform(0.1, 1.6), 3)]
            if fam == "imbalanced" or rng.random() < 0.5:
                # a strongly imbalanced analysis (an anion or a cation not reported)
                drop = [e for e in self.elems if e in (("Cl", "S(6)", "N(5)") if rng.random() < 0.5 else ("Na", "Ca", "Mg", "K"))]
                for e in drop[:1]:
                    self.amounts[e] = self.amounts[e] * 1e-3
        p = {}
        if kind == "batch":
            p["phases"] = rng.sample([("Calcite", 0.0), ("Gypsum", 0.0), ("CO2(g)", round(rng.uniform(-3.5, -1.5), 2)),
                                      ("Quartz", 0.0), ("Fluorite", 0.0)], rng.randint(1, 3))
            p["moles"] = {ph: round(10 ** rng.uniform(-3, -1), 6) for ph, _ in p["phases"]}
            p["reaction"] = rng.choice([None, ("NaCl", round(10 ** rng.uniform(-4, -2), 7)), ("HCl", round(10 ** rng.uniform(-5, -3.3), 8)),
                                        ("NaOH", round(10 ** rng.uniform(-5, -3.5), 8))])
        elif kind == "exchange":
            p["x"] = round(10 ** rng.uniform(-3, -1.5), 6)
            p["explicit"] = rng.random() < 0.4
            p["xs"] = rng.sample([("NaX", 1), ("KX", 1), ("CaX2", 2), ("MgX2", 2)], rng.randint(1, 3))
            p["xm"] = {n: round(10 ** rng.uniform(-3.5, -2), 6) for n, _ in p["xs"]}
        elif kind == "surface":
            p["w"] = round(10 ** rng.uniform(-4, -2.7), 7)
            p["s"] = round(p["w"] / 40.0, 9)
            p["area"] = 600.0
            p["grams"] = round(p["w"] / 0.2 * 89.0 / 1000 * 10, 6)
            p["nodl"] = rng.random() < 0.3
        elif kind == "gas":
            p["fixed"] = rng.choice(["pressure", "volume"])
            p["P"] = rng.choice([1.0, 1.0, 2.0, 0.5])
            p["V"] = round(rng.uniform(0.2, 2.0), 3)
            p["gases"] = rng.sample([("CO2(g)", round(10 ** rng.uniform(-3, -0.5), 5)), ("N2(g)", round(rng.uniform(0.1, 0.8), 3)),
                                     ("O2(g)", round(rng.uniform(0.01, 0.2), 3))], rng.randint(1, 3))
        elif kind == "kinetics":
            p["k"] = round(10 ** rng.uniform(-7, -5), 10)
            p["m0"] = round(10 ** rng.uniform(-3, -1.5), 6)
            p["time"] = rng.choice([3600.0, 86400.0, 1000.0])
            p["steps"] = rng.choice([1, 2, 3])
            p["formula"] = rng.choice(["CaCl2", "NaCl", "KBr"])
            # the integrator's error control is absolute (moles): under a water-mass factor only a rate law that Runge-Kutta
            # integrates exactly (zero order, per kg water) is an exact restatement; first order (∝ M) elsewhere
            p["order"] = 0 if fam == "water" else rng.choice([0, 1])
        self.p = p

    # ---- rendering
    def render(self, v, rng_perm=None):
        db = self.db
        k = v.get("k", 1.0)
        ren = v.get("renum", {})
        n1, n2, nmix, nother = ren.get(1, 1), ren.get(2, 2), ren.get("mix", 1), ren.get("other", 1)
        exprs = v.get("exprs") or plain_exprs(self.elems)
        default_spell = v.get("default_spell", "mol/kgw")
        order = list(self.elems)
        if rng_perm:
            rng_perm.shuffle(order)
        blocks = []
        sol1 = solution_block(db, n1, self.ph, self.temp, self.water * k, self.amounts, exprs, default_spell, order)
        if v.get("spread"):
            sol1 = self.spread_block(n1, self.water * k, order)
        if v.get("dupline"):
            ls = sol1.rstrip("\n").split("\n")
            j = v["dupline"] % len(self.elems)
            target = [l for l in ls if l.startswith(f" {self.elems[j]} ")]
            if target:
                ls.append(target[0])
            sol1 = "\n".join(ls) + "\n"
        blocks.append(sol1)
        if v.get("dupblock"):
            blocks.append(sol1)
        kind = self.kind
        p = self.p
        use = [f"USE solution {n1}"]
        extra_obs = []
        if kind == "mix":
            ex2 = plain_exprs(self.elems2)
            o2 = list(self.elems2)
            if rng_perm:
                rng_perm.shuffle(o2)
            blocks.append(solution_block(db, n2, self.ph2, self.temp2, self.water2 * k, self.amounts2, ex2, "mol/kgw", o2))
            mm = v.get("mixmode", "plain")
            fs = v.get("fscale", 1.0)
            a, b, c3 = [f * fs for f in self.fracs]
            if mm in ("direct3", "nest12_3", "nest23_1"):
                # three solutions at one temperature (a nested mix re-weighs temperature by the water mass after reaction,
                # which is not an exact restatement); SAVE between the nested steps
                n3, ns = ren.get(3, 3), ren.get("save", 10)
                o3 = list(self.elems3)
                sols = [solution_block(db, n1, self.ph, self.temp, self.water * k, self.amounts, exprs, default_spell, order),
                        solution_block(db, n2, self.ph2, self.temp, self.water2 * k, self.amounts2, ex2, "mol/kgw", o2),
                        solution_block(db, n3, self.ph3, self.temp, self.water3 * k, self.amounts3, plain_exprs(self.elems3), "mol/kgw", o3)]
                eo = list(self.elems) + [e for e in self.elems2 + self.elems3 if e not in self.elems]
                eo = list(dict.fromkeys(eo))
                obs = observables(eo, [])
                text = punch_block(obs) + "".join(sols) + "END\n"
                if mm == "direct3":
                    text += f"MIX {nmix}\n {n1} {a!r}\n {n2} {b!r}\n {n3} {c3!r}\nEND\n"
                elif mm == "nest12_3":
                    text += (f"MIX {nmix}\n {n1} {a!r}\n {n2} {b!r}\nSAVE solution {ns}\nEND\n"
                             f"MIX {nmix}\n {ns} 1.0\n {n3} {c3!r}\nEND\n")
                else:
                    text += (f"MIX {nmix}\n {n3} {c3!r}\n {n2} {b!r}\nSAVE solution {ns}\nEND\n"
                             f"MIX {nmix}\n {n1} {a!r}\n {ns} 1.0\nEND\n")
                return text, obs
            ml = [f"MIX {nmix}"]
            if mm == "plain":
                ml += [f" {n1} {a!r}", f" {n2} {b!r}"]
            elif mm == "single":          # a solution mixed with itself only: any amount of it is the same solution
                ml += [f" {n1} {a!r}"]
            elif mm == "singlesplit":     # … also split over two lines
                a1 = round(a * 0.375, 6)
                ml += [f" {n1} {a1!r}", f" {n1} {a - a1!r}"]
            elif mm == "swap":
                ml += [f" {n2} {b!r}", f" {n1} {a!r}"]
            elif mm == "selfline":        # the same solution on two lines of the MIX block
                a1 = round(a * 0.375, 6)
                ml += [f" {n1} {a1!r}", f" {n2} {b!r}", f" {n1} {a - a1!r}"]
            elif mm == "selfcopy":        # a copy of solution 1 under another number, mixed at a1 and a - a1
                a1 = round(a * 0.375, 6)
                nc = ren.get("copy", 9)
                blocks.append(f"COPY solution {n1} {nc}\nEND\n")
                ml += [f" {n1} {a1!r}", f" {nc} {a - a1!r}", f" {n2} {b!r}"]
            blocks.append("\n".join(ml) + "\n")
            use = [f"USE mix {nmix}"]
        elif kind == "batch":
            phs = list(p["phases"])
            if rng_perm:
                rng_perm.shuffle(phs)
            bl = [f"EQUILIBRIUM_PHASES {nother}"] + [f" {ph} {si!r} {fmt(p['moles'][ph] * k)}" for ph, si in phs]
            eb = "\n".join(bl) + "\n"
            blocks.append(eb)
            if v.get("dupblock"):
                blocks.append(eb)
            use.append(f"USE equilibrium_phases {nother}")
            if p["reaction"]:
                f, m = p["reaction"]
                blocks.append(f"REACTION {nother}\n {f} 1.0\n {fmt(m * k)} moles\n")
                use.append(f"USE reaction {nother}")
            for ph, _ in p["phases"]:
                extra_obs.append(("e", f"equi_{ph}", f'EQUI("{ph}")'))
        elif kind == "exchange":
            if p["explicit"]:
                xs = list(p["xs"])
                if rng_perm:
                    rng_perm.shuffle(xs)
                bl = [f"EXCHANGE {nother}"] + [f" {n} {fmt(p['xm'][n] * k)}" for n, _ in xs]
            else:
                bl = [f"EXCHANGE {nother}", f" X {fmt(p['x'] * k)}", f" -equilibrate {n1}"]
            eb = "\n".join(bl) + "\n"
            blocks.append(eb)
            if v.get("dupblock"):
                blocks.append(eb)
            use.append(f"USE exchange {nother}")
            blocks.append(f"REACTION {nother}\n NaCl 1.0\n {fmt(1e-3 * k)} moles\n")
            use.append(f"USE reaction {nother}")
            for sp in ("NaX", "CaX2", "KX", "MgX2"):
                extra_obs.append(("i", f"m_{sp}", f'MOL("{sp}")'))
            extra_obs.append(("e", "totmole_X", 'TOTMOLE("X")'))
        elif kind == "surface":
            sl = [f" Hfo_w {fmt(p['w'] * k)} {p['area']!r} {fmt(p['grams'] * k)}", f" Hfo_s {fmt(p['s'] * k)}"]
            if rng_perm and rng_perm.random() < 0.0:
                sl.reverse()
            bl = [f"SURFACE {nother}"] + sl + [f" -equilibrate {n1}"] + ([" -no_edl"] if p["nodl"] else [])
            eb = "\n".join(bl) + "\n"
            blocks.append(eb)
            if v.get("dupblock"):
                blocks.append(eb)
            use.append(f"USE surface {nother}")
            blocks.append(f"REACTION {nother}\n HCl 1.0\n {fmt(2e-5 * k)} moles\n")
            use.append(f"USE reaction {nother}")
            extra_obs += [("i", "m_Hfo_wOH", 'MOL("Hfo_wOH")'), ("i", "m_Hfo_wOH2+", 'MOL("Hfo_wOH2+")'),
                          ("e", "totmole_Hfo_w", 'TOTMOLE("Hfo_w")'), ("i", "psi", 'EDL("psi", "Hfo")')]
        elif kind == "gas":
            gs = list(p["gases"])
            if rng_perm:
                rng_perm.shuffle(gs)
            bl = [f"GAS_PHASE {nother}", f" -fixed_{p['fixed']}", f" -pressure {p['P']!r}", f" -volume {fmt(p['V'] * k)}",
                  f" -temperature {self.temp!r}"] + [f" {g} {pp!r}" for g, pp in gs]
            eb = "\n".join(bl) + "\n"
            blocks.append(eb)
            if v.get("dupblock"):
                blocks.append(eb)
            use.append(f"USE gas_phase {nother}")
            for g, _ in p["gases"]:
                extra_obs.append(("e", f"gas_{g}", f'GAS("{g}")'))
            extra_obs.append(("e", "gas_total", 'SYS("gas")'))
        elif kind == "kinetics":
            law = "PARM(1) * M" if p["order"] == 1 else "PARM(1) * TOT(\"water\")"
            rate = (f"RATES\n Dissolve\n -start\n 10 rate = {law}\n 20 moles = rate * TIME\n"
                    " 30 SAVE moles\n -end\n")
            blocks.insert(0, rate)
            kb = (f"KINETICS {nother}\n Dissolve\n -formula {p['formula']} 1.0\n -m0 {fmt(p['m0'] * k)}\n -parms {p['k']!r}\n"
                  f" -tol {fmt(1e-12 * k)}\n -steps {p['time']!r} in {p['steps']} steps\n")
            blocks.append(kb)
            if v.get("dupblock"):
                blocks.append(kb)
            use.append(f"USE kinetics {nother}")
            extra_obs.append(("e", "kin", 'KIN("Dissolve")'))
        head_n = v.get("blockorder")
        body = list(blocks)
        if head_n is not None and len(body) > 1:
            rates = [b for b in body if b.startswith("RATES")]
            copies = [b for b in body if b.startswith("COPY")]
            rest = [b for b in body if not b.startswith(("RATES", "COPY"))]
            rr = __import__("random").Random(head_n)
            # identical repeated blocks stay adjacent-agnostic: any order of independent blocks
            rr.shuffle(rest)
            if copies:
                # COPY needs its own simulation after the solution exists
                sols = [b for b in rest if b.startswith("SOLUTION")]
                others = [b for b in rest if not b.startswith("SOLUTION")]
                body = rates + sols + copies + others
            else:
                body = rates + rest
        elems_obs = list(self.elems) + ([e for e in self.elems2 if e not in self.elems] if kind == "mix" else [])
        if kind == "kinetics":
            elems_obs += [e for e in ("Ca", "Na", "K", "Br", "Cl") if e not in elems_obs]
        if kind == "exchange" or (kind == "batch" and p.get("reaction")):
            elems_obs += [e for e in ("Na", "Cl") if e not in elems_obs]
        obs = observables(elems_obs, extra_obs)
        if kind == "mix":
            mixb = [b for b in body if b.startswith("MIX")]
            copies = [b.replace("END\n", "") for b in body if b.startswith("COPY")]
            sols = [b for b in body if not b.startswith(("MIX", "COPY"))]
            text = punch_block(obs) + "".join(sols) + "".join(copies) + "END\n" + "".join(mixb) + "END\n"
        elif kind == "speciation":
            text = punch_block(obs) + "".join(body) + "END\n"
        else:
            text = punch_block(obs) + "".join(body) + "END\n" + "\n".join(use) + "\nEND\n"
        return text, obs

    def spread_block(self, n, water, order):
        """the same solution as a SOLUTION_SPREAD row (mol/kgw)"""
        heads = ["Number", "pH", "temp"] + order
        vals = [str(n), repr(self.ph), repr(self.temp)] + [repr(self.amounts[e]) for e in order]
        s = "SOLUTION_SPREAD\n -units mol/kgw\n"
        if water != 1.0:
            s += f" -water {water!r}\n"
        s += " " + "\t".join(heads) + "\n " + "\t".join(vals) + "\n"
        return s


class History:
    """a multi-simulation history: two solutions and a reactant (exchange / surface / gas / kinetics / equilibrium phases) defined in
    simulation 1 and reacted; solution and reactant SAVEd under new numbers, reacted again with an added REACTION in simulation 2,
    mixed with the second solution in simulation 3. render(numbers, k, shuffle seed) → input text; physically irrelevant: the entity
    numbers (any injective choice), the order of keyword blocks inside a simulation, a common factor on water and amounts."""
    KINDS = ["exchange", "surface", "gas", "kinetics", "batch"]

    def __init__(self, rng, db, kind, fam=None):
        self.db, self.kind = db, kind
        self.temp = rng.choice([25.0, 25.0, 15.0, 40.0])
        self.A = pick_elems(rng, 2, 5, allow_alk=False)
        for e in ("Na", "Cl", "Ca"):
            if e not in self.A:
                self.A.append(e)
        self.B = pick_elems(rng, 2, 4, allow_alk=False)
        if "Cl" not in self.B:
            self.B.append("Cl")
        self.amA, self.amB = gen_amounts(rng, self.A), gen_amounts(rng, self.B)
        self.phA, self.phB = round(rng.uniform(6, 8.5), 2), round(rng.uniform(6, 8.5), 2)
        self.wA, self.wB = rng.choice([1.0, 0.4, 2.5]), rng.choice([1.0, 0.5, 2.0])
        self.salt = (rng.choice(["NaCl", "KCl", "CaCl2"]), round(10 ** rng.uniform(-4, -2.5), 7))
        self.acid = (rng.choice(["HCl", "NaOH", "NaCl"]), round(10 ** rng.uniform(-5.5, -4), 8))
        self.f = [round(rng.uniform(0.2, 1.2), 3), round(rng.uniform(0.2, 1.2), 3)]
        self.x = round(10 ** rng.uniform(-3, -1.7), 6)
        self.w = round(10 ** rng.uniform(-4, -2.8), 7)
        self.V = round(rng.uniform(0.3, 1.5), 3)
        self.gases = rng.sample([("CO2(g)", round(10 ** rng.uniform(-3, -1), 5)), ("N2(g)", round(rng.uniform(0.1, 0.8), 3)),
                                 ("O2(g)", round(rng.uniform(0.01, 0.2), 3))], rng.randint(1, 3))
        self.rate = round(10 ** rng.uniform(-7, -5.5), 10)
        self.m0 = round(10 ** rng.uniform(-3, -1.7), 6)
        self.order = 0 if fam in ("hist_water", "hist_all") else rng.choice([0, 1])
        self.time = rng.choice([3600.0, 20000.0])
        self.phases = rng.sample([("Calcite", 0.0), ("Gypsum", 0.0), ("Quartz", 0.0), ("CO2(g)", -2.5)], rng.randint(1, 2))
        self.pmoles = {p: round(10 ** rng.uniform(-3, -1.5), 6) for p, _ in self.phases}

    def reactant(self, num, n1, k):
        kd = self.kind
        if kd == "exchange":
            return "exchange", f"EXCHANGE {num}\n X {fmt(self.x * k)}\n -equilibrate {n1}\n"
        if kd == "surface":
            return "surface", (f"SURFACE {num}\n Hfo_w {fmt(self.w * k)} 600.0 {fmt(self.w * k * 445.0)}\n Hfo_s {fmt(self.w * k / 40)}\n"
                               f" -equilibrate {n1}\n")
        if kd == "gas":
            return "gas_phase", (f"GAS_PHASE {num}\n -fixed_volume\n -volume {fmt(self.V * k)}\n -temperature {self.temp!r}\n"
                                 + "".join(f" {g} {p!r}\n" for g, p in self.gases))
        if kd == "kinetics":
            return "kinetics", (f"KINETICS {num}\n Dissolve\n -formula KBr 1.0\n -m0 {fmt(self.m0 * k)}\n -parms {self.rate!r}\n"
                                f" -tol {fmt(1e-12 * k)}\n -steps {self.time!r} in 2 steps\n")
        return "equilibrium_phases", (f"EQUILIBRIUM_PHASES {num}\n" + "".join(f" {p} {si!r} {fmt(self.pmoles[p] * k)}\n" for p, si in self.phases))

    def render(self, N=None, k=1.0, shuffle=None):
        N = N or {}
        g = lambda key, d: N.get(key, d)
        n1, n2, n3, n4, n5 = g("s1", 1), g("s2", 2), g("s3", 3), g("s4", 4), g("s5", 5)
        r1, r2, q1, q2, m = g("r1", 1), g("r2", 2), g("q1", 1), g("q2", 2), g("m", 1)
        db = self.db
        kw, rb = self.reactant(r1, n1, k)
        kin = self.kind == "kinetics"
        rsave = r1 if kin else r2
        obs_extra = {"exchange": [("i", "m_NaX", 'MOL("NaX")'), ("i", "m_CaX2", 'MOL("CaX2")'), ("e", "totmole_X", 'TOTMOLE("X")')],
                     "surface": [("i", "m_Hfo_wOH", 'MOL("Hfo_wOH")'), ("e", "totmole_Hfo_w", 'TOTMOLE("Hfo_w")')],
                     "gas": [("e", f"gas_{gn}", f'GAS("{gn}")') for gn, _ in self.gases],
                     "kinetics": [("e", "kin", 'KIN("Dissolve")')],
                     "batch": [("e", f"equi_{p}", f'EQUI("{p}")') for p, _ in self.phases]}[self.kind]
        eo = list(dict.fromkeys(self.A + self.B + (["K", "Br"] if kin else []) + (["K"] if self.salt[0] == "KCl" else [])))
        obs = observables(eo, obs_extra)
        sims = []
        s1 = [solution_block(db, n1, self.phA, self.temp, self.wA * k, self.amA, plain_exprs(self.A), "mol/kgw", list(self.A)),
              solution_block(db, n2, self.phB, self.temp, self.wB * k, self.amB, plain_exprs(self.B), "mol/kgw", list(self.B)),
              rb, f"REACTION {q1}\n {self.salt[0]} 1.0\n {fmt(self.salt[1] * k)} moles\n",
              f"USE solution {n1}\n", f"USE {kw} {r1}\n", f"USE reaction {q1}\n", f"SAVE solution {n3}\n"]
        if not kin:
            s1.append(f"SAVE {kw} {r2}\n")
        s2 = [f"USE solution {n3}\n", f"USE {kw} {rsave}\n", f"REACTION {q2}\n {self.acid[0]} 1.0\n {fmt(self.acid[1] * k)} moles\n",
              f"SAVE solution {n4}\n"] + ([] if kin else [f"SAVE {kw} {rsave}\n"])
        s3 = [f"MIX {m}\n {n4} {self.f[0]!r}\n {n2} {self.f[1]!r}\n", f"USE {kw} {rsave}\n", f"SAVE solution {n5}\n"]
        s4 = [f"USE solution {n5}\n", f"USE reaction {q1}\n"]
        sims = [s1, s2, s3, s4]
        if shuffle is not None:
            rr = __import__("random").Random(shuffle)
            for sm in sims:
                rr.shuffle(sm)
        text = punch_block(obs)
        if kin:
            law = "PARM(1) * M" if self.order == 1 else "PARM(1) * TOT(\"water\")"
            text += f"RATES\n Dissolve\n -start\n 10 rate = {law}\n 20 moles = rate * TIME\n 30 SAVE moles\n -end\n"
        for sm in sims:
            text += "".join(sm) + "END\n"
        return text, obs
