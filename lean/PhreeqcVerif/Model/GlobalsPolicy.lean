/-!
Reviewed policy for process-global writable state of the library (C06).  `Gen/Globals.lean` lists what the build of the
current source contains (every object symbol — strong or weak, so also function-local statics of inline and template
functions, static members of class templates and inline variables — whose section is writable at run time); every entry
must be accounted for here, **each with its reason**.

Kinds of reason:
  * `lock`      — a mutex of thread.h;
  * `guarded`   — the instance registry: every access lies inside `map_lock` (obligation `registry_accesses_guarded`);
  * `initOnly`  — a lookup table that is filled by its (dynamic) initialiser before `main` and never written afterwards:
                  backed by the source reading `Gen.Globals.initOnly` (no assignment, increment, container mutation or
                  address-taking anywhere in src/; obligation `init_only_tables_never_written`);
  * `compiler`  — emitted by the compiler for exception handling, resolved by the loader, not reachable from the source.
`knownShared` — file-scope *variables* of `src/phreeqcpp/transport.cpp` that TRANSPORT calculations read and write
  (multicomponent diffusion work arrays, counters).  They are shared by all instances of the process: a genuine
  departure from C06, recorded in /verif/known_findings.txt under the key `transport-file-scope-globals`
  (observable without any race detector: two multicomponent-diffusion runs nested on one thread crash the process).
-/
namespace PhreeqcVerif.GlobalsPolicy

inductive Why where
  | lock | guarded | initOnly (table : String) | compiler
deriving DecidableEq, Repr

/-- (symbol, kind of reason, reason in words) -/
def allowedWhy : List (String × Why × String) := [
  ("map_lock", .lock, "mutex guarding the instance registry (thread.h)"),
  ("qsort_lock", .lock, "mutex around the C library sort (thread.h macro)"),
  ("IPhreeqc::Instances", .guarded, "id -> object map; all 6 accesses inside map_lock"),
  ("IPhreeqc::InstancesIndex", .guarded, "next id; incremented inside map_lock in the constructor only"),
  ("IPhreeqc::Version", .initOnly "Version", "std::string built from VERSION_STRING; only .c_str() is taken"),
  ("Keywords::phreeqc_keywords", .initOnly "phreeqc_keywords", "const std::map built from temp_keywords; find/end only"),
  ("Keywords::phreeqc_keyword_names", .initOnly "phreeqc_keyword_names", "const std::map built from temp_keyword_names; find/end only"),
  ("temp_keywords", .initOnly "temp_keywords", "const value_type[] feeding phreeqc_keywords"),
  ("temp_keyword_names", .initOnly "temp_keyword_names", "const value_type[] feeding phreeqc_keyword_names"),
  ("PBasic::command_tokens", .initOnly "command_tokens", "std::map built from temp_tokens; find/begin/end only (not declared const)"),
  ("temp_tokens", .initOnly "temp_tokens", "const value_type[] feeding command_tokens"),
  ("temp_vopts", .initOnly "temp_vopts", "const value_type[] feeding the option list of one reader class (one per translation unit)"),
  ("Phreeqc::iso_defaults", .initOnly "iso_defaults", "const table of default isotope ratios; read by inverse.cpp and spread.cpp"),
  ("F_Re3", .initOnly "F_Re3", "F/(R*1000), computed once by its initialiser; read in transport.cpp (not declared const)"),
  ("DW.ref.*", .compiler, "pointer to the personality routine / a typeinfo used by the unwinder's tables, one per object file")]

def allowedExact : List String := allowedWhy.map (·.1)

def knownShared : List String := [
  "tk_x2", "dV_dcell", "find_current", "token", "dif_spec_names", "dif_els_names", "neg_moles", "els",
  "Ct2", "l_tk_x2", "A", "LU", "mixf", "mixf_stag", "mixf_comp_size", "current_cells", "sum_R", "sum_Rd", "ct",
  "cell_J_ij", "moles_added", "count_moles_added"]

/-- `last` is the last `::` component of `name` (emitted by the translator); `X::vopts` is the const option list of reader
class `X` (reason: `initOnly "vopts"`) -/
def allowed (name last : String) : Bool := allowedExact.contains name || (last == "vopts" && name != last)

/-- the table behind a symbol whose reason is "written only by its initialiser" -/
def initOnlyTableOf (name last : String) : Option String :=
  match allowedWhy.find? (fun e => e.1 == name) with
  | some e => (match e.2.1 with | .initOnly t => some t | _ => none)
  | none => if last == "vopts" && name != last then some "vopts" else none

/-- std::map / std::set types keyed by a POINTER (their iteration order is the order of addresses, i.e. allocator history):
each occurrence reviewed, with the reason why that order cannot reach any result -/
def pointerKeyedReviewed : List (String × String) := [
  ("std::map<const char*>", "Phreeqc::rates_map: interned rate name -> index; only find / operator[] / clear, never iterated"),
  ("std::set<StorageBinListItem*>", "StorageBinList::GetAllItems: the same Clear/Set_defined/Augment is applied to every item; the effect does not depend on the order"),
  ("std::set<std::ostream*>", "PHRQ_io::close_ostreams: the distinct streams to close; closing order is not observable in any channel")]

end PhreeqcVerif.GlobalsPolicy
