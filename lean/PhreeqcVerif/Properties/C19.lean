import PhreeqcVerif.Model.PengRobinson
import PhreeqcVerif.Model.GasPhase
import PhreeqcVerif.Lemmas.Gas
/-! C19 — gas phases obey their equation of state and fugacity-based equilibrium.

Theorems about the model of `calc_PR` / `calc_gas_pressures` / `mb_gases` over `Rat` with *uninterpreted*
`sqrt cbrt cos acos ln exp` (`ratOps f` for every `f`): whatever is used about those functions is an explicit
hypothesis at the very argument where the code applies them (never a universally quantified law, which no function
on `Rat` could satisfy).  The `Float` instance of the same definitions is compared with the real code by
`tools/props/c19.py`. -/
set_option linter.style.haveILetI false
namespace PhreeqcVerif.C19
open PhreeqcVerif NumOps PR GasPhase GasLemmas

/-- the identity function for every transcendental: enough for the examples that never call one -/
def idFns : TransFns Rat := ⟨id, id, id, id, id, id, id, id, id, id⟩

/-! ## 1. Peng–Robinson pressure ⇔ the cubic the code solves -/

/-- multiplied-out form: `P·(V−b)·D − (RT·D − a·(V−b)) = P·cubic(V)` with `D = V(V+2b) − b²`, for every `P ≠ 0` -/
theorem pr_cubic_identity (f : TransFns Rat) (rt b a p v : Rat) (hp : p ≠ 0) :
    letI := ratOps f
    p * (v - b) * (v * (v + 2 * b) - b * b) - (rt * (v * (v + 2 * b) - b * b) - a * (v - b))
      = p * (cubicOf rt b a p).eval v := by
  simp only [cubicOf, Cubic.eval, NumOps.lit, NumOps.ofRat, id]
  grind

/-- `P = RT/(V−b) − a/(V(V+2b)−b²)` iff `V` is a root of the code's cubic, under the non-zero denominators -/
theorem pr_iff_cubic (f : TransFns Rat) (rt b a p v : Rat) (hp : p ≠ 0) (hv : v - b ≠ 0)
    (hd : v * (v + 2 * b) - b * b ≠ 0) :
    letI := ratOps f
    p = prP rt b a v ↔ (cubicOf rt b a p).eval v = 0 := by
  have key := pr_cubic_identity f rt b a p v hp
  simp only [prP, cubicOf, Cubic.eval, NumOps.lit, NumOps.ofRat, id] at *
  constructor
  · intro h
    grind
  · intro h
    grind

/-- non-vacuity: RT = 24, b = 1, a = 35, V = 3: D = 14, P = 24/2 − 35/14 = 19/2, and 3 is a root of the cubic -/
example : (letI := ratOps idFns; prP (24 : Rat) 1 35 3) = 19 / 2 := by decide +kernel
example : (letI := ratOps idFns; (cubicOf (24 : Rat) 1 35 (19 / 2)).eval 3) = 0 := by decide +kernel
example : (letI := ratOps idFns; (cubicOf (24 : Rat) 1 35 (19 / 2)).eval 4) ≠ 0 := by decide +kernel

/-! ## 2. every branch of the cubic solver returns a root -/

/-- Cardano, `rz ≥ 0` and `ri + rq/2 ≤ 0`: sum of two real cube roots -/
theorem cardano_rootA (f : TransFns Rat) (c : Cubic Rat) :
    letI := ratOps f
    f.sqrt c.rz * f.sqrt c.rz = c.rz →
    (let A := f.sqrt c.rz - c.rq / 2; f.cbrt A * f.cbrt A * f.cbrt A = A) →
    (let B := -f.sqrt c.rz - c.rq / 2; f.cbrt B * f.cbrt B * f.cbrt B = B) →
    c.eval (rootA c) = 0 := by
  intro hs hA hB
  letI := ratOps f
  have hz : c.rz = c.rq * c.rq / 4 + c.rp * c.rp * c.rp / 27 := rfl
  have key := cardano_sum c.rp c.rq _ _ _ _ hA hB (by ring)
    (by rw [hz] at hs; rw [hz]; linarith [hs])
  have dep := depress c.r1 c.r2 c.r3
    (f.cbrt (f.sqrt c.rz - c.rq / 2) + f.cbrt (-f.sqrt c.rz - c.rq / 2))
  exact dep.trans key

/-- Cardano, `rz ≥ 0` and `ri + rq/2 > 0`: `w = −cbrt(ri + rq/2)`, `V = w − rp/(3w) − r1/3` -/
theorem cardano_rootB (f : TransFns Rat) (c : Cubic Rat) :
    letI := ratOps f
    f.sqrt c.rz * f.sqrt c.rz = c.rz →
    0 < f.sqrt c.rz + c.rq / 2 →
    (let B := f.sqrt c.rz + c.rq / 2; f.cbrt B * f.cbrt B * f.cbrt B = B) →
    c.eval (rootB c) = 0 := by
  intro hs hpos hB
  letI := ratOps f
  have hz : c.rz = c.rq * c.rq / 4 + c.rp * c.rp * c.rp / 27 := rfl
  have hw : (-(f.cbrt (f.sqrt c.rz + c.rq / 2))) * (-(f.cbrt (f.sqrt c.rz + c.rq / 2)))
      * (-(f.cbrt (f.sqrt c.rz + c.rq / 2))) = -(f.sqrt c.rz + c.rq / 2) := by
    have : ∀ y : Rat, (-y) * (-y) * (-y) = -(y * y * y) := by intro y; ring
    rw [this, hB]
  have key := cardano_quot c.rp c.rq (f.sqrt c.rz - c.rq / 2) (-(f.sqrt c.rz + c.rq / 2))
    (-(f.cbrt (f.sqrt c.rz + c.rq / 2))) hw (by linarith) (by ring)
    (by rw [hz] at hs; rw [hz]; linarith [hs])
  have dep := depress c.r1 c.r2 c.r3
    (-(f.cbrt (f.sqrt c.rz + c.rq / 2)) - c.rp / (3 * -(f.cbrt (f.sqrt c.rz + c.rq / 2))))
  exact dep.trans key

/-- trigonometric branch, `rz < 0`: `ri = sqrt(−rp³/27)`, `θ = acos(−rq/2/ri)`, `V = 2 cbrt(ri) cos(θ/3) − r1/3`;
the triple-angle law `cos θ = 4 cos³(θ/3) − 3 cos(θ/3)` and `cos (acos y) = y` are required at the used arguments -/
theorem cardano_rootC (f : TransFns Rat) (c : Cubic Rat) :
    letI := ratOps f
    c.rz < 0 →
    (let s := -(c.rp * c.rp * c.rp) / 27; f.sqrt s * f.sqrt s = s) →
    (let ri := f.sqrt (-(c.rp * c.rp * c.rp) / 27); f.cbrt ri * f.cbrt ri * f.cbrt ri = ri) →
    (let ri := f.sqrt (-(c.rp * c.rp * c.rp) / 27); f.cos (f.acos (-c.rq / 2 / ri)) = -c.rq / 2 / ri) →
    (let ri := f.sqrt (-(c.rp * c.rp * c.rp) / 27); let th := f.acos (-c.rq / 2 / ri)
      let k := f.cos (th / 3); f.cos th = 4 * (k * k * k) - 3 * k) →
    c.eval (rootC c) = 0 := by
  intro hneg hs hm hacos h3
  letI := ratOps f
  have hz : c.rz = c.rq * c.rq / 4 + c.rp * c.rp * c.rp / 27 := rfl
  have h0 := ri_ne_zero c.rp c.rq _ (by rw [hz] at hneg; exact hneg) hs
  have key := cardano_trig c.rp c.rq _ _ _ _ hs h0 hm hacos h3
  have dep := depress c.r1 c.r2 c.r3
    (2 * f.cbrt (f.sqrt (-(c.rp * c.rp * c.rp) / 27))
      * f.cos (f.acos (-c.rq / 2 / f.sqrt (-(c.rp * c.rp * c.rp) / 27)) / 3))
  exact dep.trans key

/-- the molar volume `calc_PR` returns for a given pressure is a root of its cubic — whichever branch is taken —
provided `sqrt`, `cbrt`, `cos`, `acos` obey their defining laws at the arguments of that branch -/
theorem cardano_branches_root (f : TransFns Rat) (rt b a p : Rat) :
    letI := ratOps f
    let c := cubicOf rt b a p
    (0 ≤ c.rz → f.sqrt c.rz * f.sqrt c.rz = c.rz) →
    (0 ≤ c.rz → f.sqrt c.rz + c.rq / 2 ≤ 0 →
      (let A := f.sqrt c.rz - c.rq / 2; f.cbrt A * f.cbrt A * f.cbrt A = A) ∧
      (let B := -f.sqrt c.rz - c.rq / 2; f.cbrt B * f.cbrt B * f.cbrt B = B)) →
    (0 ≤ c.rz → 0 < f.sqrt c.rz + c.rq / 2 →
      (let B := f.sqrt c.rz + c.rq / 2; f.cbrt B * f.cbrt B * f.cbrt B = B)) →
    (c.rz < 0 →
      (let s := -(c.rp * c.rp * c.rp) / 27; f.sqrt s * f.sqrt s = s) ∧
      (let ri := f.sqrt (-(c.rp * c.rp * c.rp) / 27); f.cbrt ri * f.cbrt ri * f.cbrt ri = ri) ∧
      (let ri := f.sqrt (-(c.rp * c.rp * c.rp) / 27); f.cos (f.acos (-c.rq / 2 / ri)) = -c.rq / 2 / ri) ∧
      (let ri := f.sqrt (-(c.rp * c.rp * c.rp) / 27); let th := f.acos (-c.rq / 2 / ri)
        let k := f.cos (th / 3); f.cos th = 4 * (k * k * k) - 3 * k)) →
    c.eval (vmOfP rt b a p) = 0 := by
  intro c hsq hA hB hC
  letI := ratOps f
  show c.eval (match c.branch with | 0 => rootA c | 1 => rootB c | _ => rootC c) = 0
  by_cases hz : (0 : Rat) ≤ c.rz
  · by_cases hb : f.sqrt c.rz + c.rq / 2 ≤ 0
    · have hbr : c.branch = 0 := by
        show (if (0 : Rat) ≤ c.rz then (if f.sqrt c.rz + c.rq / 2 ≤ 0 then 0 else 1) else 2) = 0
        rw [if_pos hz, if_pos hb]
      rw [hbr]
      exact cardano_rootA f c (hsq hz) (hA hz hb).1 (hA hz hb).2
    · have hbr : c.branch = 1 := by
        show (if (0 : Rat) ≤ c.rz then (if f.sqrt c.rz + c.rq / 2 ≤ 0 then 0 else 1) else 2) = 1
        rw [if_pos hz, if_neg hb]
      rw [hbr]
      exact cardano_rootB f c (hsq hz) (by linarith [not_le.mp hb]) (hB hz (not_le.mp hb))
  · have hbr : c.branch = 2 := by
      show (if (0 : Rat) ≤ c.rz then (if f.sqrt c.rz + c.rq / 2 ≤ 0 then 0 else 1) else 2) = 2
      rw [if_neg hz]
    rw [hbr]
    have hn := not_le.mp hz
    obtain ⟨h1, h2, h3, h4⟩ := hC hn
    exact cardano_rootC f c hn h1 h2 h3 h4

/-! non-vacuity of the three branches on concrete rationals (depressed cubics, `r1 = 0`):
A: `t³ − 6t − 9`, `rz = 49/4`, `ri = 7/2`, `ri + rq/2 = −1`, cube roots of 8 and 1, root 3;
B: `t³ − 6t + 9`, `ri + rq/2 = 8`, `w = −2`, root −3;
C: `t³ − 3t + 9/8`, `rz = 81/256 − 1 < 0`, `ri = 1`, `cos θ = −9/16`, `cos(θ/3) = 3/4`, root 3/2. -/
def exFns : TransFns Rat :=
  { idFns with
    sqrt := fun x => if x = 49 / 4 then 7 / 2 else if x = 1 then 1 else 0
    cbrt := fun x => if x = 8 then 2 else if x = 1 then 1 else 0
    acos := fun x => if x = -9 / 16 then 7 else 0
    cos := fun x => if x = 7 then -9 / 16 else if x = 7 / 3 then 3 / 4 else 0 }

example : (letI := ratOps exFns; rootA (⟨0, -6, -9⟩ : Cubic Rat)) = 3 := by decide +kernel
example : (letI := ratOps exFns; (⟨0, -6, -9⟩ : Cubic Rat).branch) = 0 := by decide +kernel
example : (letI := ratOps exFns; (⟨0, -6, -9⟩ : Cubic Rat).eval (rootA ⟨0, -6, -9⟩)) = 0 :=
  cardano_rootA exFns ⟨0, -6, -9⟩ (by decide +kernel) (by decide +kernel) (by decide +kernel)
example : (letI := ratOps exFns; rootB (⟨0, -6, 9⟩ : Cubic Rat)) = -3 := by decide +kernel
example : (letI := ratOps exFns; (⟨0, -6, 9⟩ : Cubic Rat).branch) = 1 := by decide +kernel
example : (letI := ratOps exFns; (⟨0, -6, 9⟩ : Cubic Rat).eval (rootB ⟨0, -6, 9⟩)) = 0 :=
  cardano_rootB exFns ⟨0, -6, 9⟩ (by decide +kernel) (by decide +kernel) (by decide +kernel)
example : (letI := ratOps exFns; rootC (⟨0, -3, 9 / 8⟩ : Cubic Rat)) = 3 / 2 := by decide +kernel
example : (letI := ratOps exFns; (⟨0, -3, 9 / 8⟩ : Cubic Rat).branch) = 2 := by decide +kernel
example : (letI := ratOps exFns; (⟨0, -3, 9 / 8⟩ : Cubic Rat).eval (rootC ⟨0, -3, 9 / 8⟩)) = 0 :=
  cardano_rootC exFns ⟨0, -3, 9 / 8⟩ (by decide +kernel) (by decide +kernel) (by decide +kernel)
    (by decide +kernel) (by decide +kernel)

/-! ## 3. partial pressures are mole-fraction shares of the total and sum to it -/

/-- `pr_p_i = (n_i / Σn) · P` for every component, and `Σ pr_p_i = P` whenever the phase holds gas -/
theorem partial_pressures_sum (f : TransFns Rat) (ns : List Rat) (p : Rat) :
    letI := ratOps f
    (∀ i (h : i < ns.length), (partials ns p)[i]'(by simp [partials]; exact h) = ns[i] / total ns * p) ∧
    (total ns ≠ 0 → total (partials ns p) = p) := by
  letI := ratOps f
  refine ⟨fun i h => by simp [partials], fun h0 => ?_⟩
  have ht : ∀ l : List Rat, total l = l.sum := by
    intro l
    show l.foldl (fun acc x => acc + x) 0 = l.sum
    rw [foldl_sum]; ring
  rw [ht] at h0 ⊢
  show (ns.map fun n => n / total ns * p).sum = p
  rw [ht, sum_map_mul_right (fun n => n / ns.sum) ns p, sum_map_div]
  field_simp

example : (letI := ratOps idFns; partials [1, 3, 4] (16 : Rat)) = [2, 6, 8] := by decide +kernel
example : (letI := ratOps idFns; total (partials [1, 3, 4] (16 : Rat))) = 16 := by decide +kernel

/-! ## 4. the fugacity coefficient stays inside its clamp -/

/-- `−4.6 ≤ ln φ ≤ 4.44` for every input and whatever `ln` returns (φ between 0.01 and 85) -/
theorem phi_clamp (f : TransFns Rat) (rt b a p v bi aa2i : Rat) :
    letI := ratOps f
    lnPhiLo ≤ lnPhi rt b a p v bi aa2i ∧ lnPhi rt b a p v bi aa2i ≤ (lnPhiHi : Rat) := by
  simp only [lnPhi, clampPhi, lnPhiLo, lnPhiHi, NumOps.lit, NumOps.ofRat, id]
  grind

/-- inside the clamp the stored value is the equation-of-state expression itself -/
theorem phi_inside_clamp (f : TransFns Rat) (rt b a p v bi aa2i : Rat) :
    letI := ratOps f
    b * p / rt < p * v / rt → lnPhiLo ≤ lnPhiRaw rt b a p v bi aa2i → lnPhiRaw rt b a p v bi aa2i ≤ lnPhiHi →
    lnPhi rt b a p v bi aa2i = lnPhiRaw rt b a p v bi aa2i := by
  simp only [lnPhi, clampPhi, lnPhiLo, lnPhiHi, NumOps.lit, NumOps.ofRat, id]
  grind

/-- non-vacuity: with `ln = id`, RT = 1, b = 1/10, a = 1/5, P = 1, V = 2, pure gas: raw value inside the clamp;
with `ln x = 100` the clamp is active -/
example : (letI := ratOps idFns; lnPhi (1 : Rat) (1 / 10) (1 / 5) 1 2 (1 / 10) (1 / 5))
    = (letI := ratOps idFns; lnPhiRaw (1 : Rat) (1 / 10) (1 / 5) 1 2 (1 / 10) (1 / 5)) := by decide +kernel
example : (letI := ratOps { idFns with ln := fun _ => -100 }; lnPhi (1 : Rat) (1 / 10) (1 / 5) 1 2 (1 / 10) (1 / 5))
    = 444 / 100 := by decide +kernel
example : (letI := ratOps idFns; lnPhi (1 : Rat) (1 / 10) (1 / 5) 1 (1 / 20) (1 / 10) (1 / 5)) = -46 / 10 := by
  decide +kernel

/-! ## 5. existence of a fixed-pressure gas phase -/

/-- `mb_gases` and the `GAS_MOLES` row of `residuals`: in a state the convergence gate accepts,
* the phase equation is in the model iff Σ equilibrium partial pressures exceeds P (+1e-7) or the phase holds moles;
* if it is in, Σ p = P within the tolerance; if it is out, the phase is empty and Σ p ≤ P + 1e-7. -/
theorem fixedP_exists_iff (f : TransFns Rat) (tol sumP totalP moles minTotal : Rat) :
    letI := ratOps f
    gateOk tol sumP totalP (gasIn sumP totalP moles minTotal) = true →
    (gasIn sumP totalP moles minTotal = true ↔ (totalP + 1 / 10000000 < sumP ∨ minTotal < moles)) ∧
    (gasIn sumP totalP moles minTotal = true → totalP - tol ≤ sumP ∧ sumP ≤ totalP + tol) ∧
    (gasIn sumP totalP moles minTotal = false → sumP ≤ totalP + 1 / 10000000 ∧ moles ≤ minTotal) := by
  simp only [gateOk, gasIn, absv, NumOps.lit, NumOps.ofRat, id]
  grind

/-- a phase that exists (moles above `MIN_TOTAL`) has Σ equilibrium partial pressures = P within the tolerance -/
theorem fixedP_exists_reaches (f : TransFns Rat) (tol sumP totalP moles minTotal : Rat) :
    letI := ratOps f
    gateOk tol sumP totalP (gasIn sumP totalP moles minTotal) = true → minTotal < moles →
    totalP - tol ≤ sumP ∧ sumP ≤ totalP + tol := by
  simp only [gateOk, gasIn, absv, NumOps.lit, NumOps.ofRat, id]
  grind

/-- if Σ equilibrium partial pressures stays below P − tol the phase cannot exist; and (for `tol ≤ 1e-7`) an accepted
state never has Σ p above P + 1e-7 -/
theorem fixedP_absent_below (f : TransFns Rat) (tol sumP totalP moles minTotal : Rat) :
    letI := ratOps f
    gateOk tol sumP totalP (gasIn sumP totalP moles minTotal) = true →
    (sumP < totalP - tol → moles ≤ minTotal) ∧ (tol ≤ 1 / 10000000 → sumP ≤ totalP + 1 / 10000000) := by
  simp only [gateOk, gasIn, absv, NumOps.lit, NumOps.ofRat, id]
  grind

example : (letI := ratOps idFns; gasIn (3 / 2 : Rat) 1 0 (1 / 10 ^ 25)) = true := by decide +kernel
example : (letI := ratOps idFns; gasIn (1 / 2 : Rat) 1 0 (1 / 10 ^ 25)) = false := by decide +kernel
example : (letI := ratOps idFns; gateOk (1 / 10 ^ 8 : Rat) (3 / 2) 1 true) = false := by decide +kernel
example : (letI := ratOps idFns; gateOk (1 / 10 ^ 8 : Rat) 1 1 true) = true := by decide +kernel

/-! ## 6. ideal-gas limit and the fixed-volume bookkeeping -/

/-- `a = b = 0` ⇒ `P V = R T` for the molar volume, hence `P·Vol = n R T` -/
theorem ideal_limit (f : TransFns Rat) (rt v : Rat) (hv : v ≠ 0) :
    letI := ratOps f
    prP rt 0 0 v * v = rt := by
  simp only [prP, NumOps.lit, NumOps.ofRat, id]
  grind

theorem ideal_limit_moles (f : TransFns Rat) (rt vol n : Rat) (hv : vol ≠ 0) (hn : n ≠ 0) :
    letI := ratOps f
    prP rt 0 0 (vol / n) * vol = n * rt := by
  simp only [prP, NumOps.lit, NumOps.ofRat, id]
  grind

/-- with `a = b = 0` the ideal volume `RT/P` is a root of the cubic the code solves -/
theorem ideal_cubic_root (f : TransFns Rat) (rt p : Rat) (_hp : p ≠ 0) :
    letI := ratOps f
    (cubicOf rt 0 0 p).eval (rt / p) = 0 := by
  simp only [cubicOf, Cubic.eval, NumOps.lit, NumOps.ofRat, id]
  grind

/-- `idealP n T V · V = n R T` -/
theorem ideal_gas_law (f : TransFns Rat) (n tk vol : Rat) (hv : vol ≠ 0) :
    letI := ratOps f
    idealP n tk vol * vol = n * gasR * tk := by
  simp only [idealP, gasR, NumOps.lit, NumOps.ofRat, id]
  grind

example : (letI := ratOps idFns; prP (24 : Rat) 0 0 3) = 8 := by decide +kernel
example : (letI := ratOps idFns; idealP (2 : Rat) 300 10 * 10) = 2 * (820597 / 10000000) * 300 := by decide +kernel

end PhreeqcVerif.C19
