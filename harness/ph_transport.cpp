// Correspondence harness for C11 (transport only moves dissolved mass).
// stdin:  db <path>            database used for every following case
//         case <id> <hex of a complete PHREEQC input>
// The input's USER_PUNCH calls CALLBACK(CELL_NO, STEP_NO, "c11"): the callback (SetBasicCallback) reads, through the
// friend declaration `friend class TestIPhreeqc` of Phreeqc.h / IPhreeqc.hpp, the engine's state in the middle of
// transport(): Dispersion_mix_map (erased by transport_cleanup before transport() returns), nmix, the parsed column
// set-up. After the run every selected-output table is printed with doubles as 16 hex digits of the bit pattern.
// stdout per case:
//   CASE <id> ret=<RunString result> nmix_after=<engine nmix after the run>
//   SETUP cells=<n> ishift= bf= bl= corr= stag= mcd= impl= timest=<hex> diffc=<hex> diffc_tr=<hex> L <hex>... D <hex>...
//   MIX step=<transport_step of the observation> nmix=<n> | i k=f k=f k=f | ...      (or "MIX none")
//   SMIX stag= exch=<hex> thm=<hex> thim=<hex> | k j=f j=f | ...   Rxn_mix_map at the same moment (or "SMIX none")
//   CB  <cell>,<step>,<state>,<mixrun>,<water>,<total_h_x>,<total_o_x>,<cb_x>,<master total of Na K Li Ca Mg Cl Br>,<moles added by the MCD guard so far, same 7 elements> ...
//       one item per callback = per punched row, in order (doubles as hex)
//   SEL <user> rows=<r> cols=<c> | heading;heading... | row | row    cells: D<hex> L<int> S<hex> E X
//   FINAL <cell> s:<elt>=<hex> x:<elt>=<hex> p:<phase>=<hex> ...   stored solution / exchanger / pure-phase state after the run
//   WARN <hex warning text>   ERR <hex error text>
//   END
#ifndef CPPUNIT
#define CPPUNIT 1
#endif
#include "IPhreeqc.hpp"
#include "Phreeqc.h"
#include "CSelectedOutput.hxx"
#include "Solution.h"
#include "cxxMix.h"
#include "Exchange.h"
#include "ExchComp.h"
#include "PPassemblage.h"
#include "hx.hpp"
#include <sstream>

// bookkeeping of the explicit multicomponent-diffusion guard ("Negative concentration in MCD: added … moles"): a plain
// global of transport.cpp (allocated in transport(), freed and nulled in transport_cleanup)
struct MOLES_ADDED { char* name; LDBLE moles; };
extern struct MOLES_ADDED* moles_added;
extern int count_moles_added;

struct Obs {
  Phreeqc* e = 0;
  bool mix_seen = false;
  std::string mix_line = "MIX none";
  std::string smix_line = "SMIX none";
  std::string setup_line = "SETUP none";
  std::ostringstream cb;
  long ncb = 0;
};

class TestIPhreeqc {   // the friend of Phreeqc and IPhreeqc (this translation unit's own definition)
public:
  static Phreeqc* engine(IPhreeqc* p) { return p->PhreeqcPtr; }
  static int nmix(Phreeqc* e) { return e->nmix; }
  // stored state after the run, per cell: solution totals, exchanger totals, pure-phase moles (independent of the BASIC
  // functions SYS/TOTMOLE/EQUI used in USER_PUNCH)
  static std::string final_state(Phreeqc* e, int ncells) {
    std::ostringstream o;
    for (int i = 1; i <= ncells; i++) {
      o << "FINAL " << i;
      cxxSolution* s = Utilities::Rxn_find(e->Rxn_solution_map, i);
      if (s) for (cxxNameDouble::const_iterator it = s->Get_totals().begin(); it != s->Get_totals().end(); ++it)
        o << " s:" << it->first << "=" << hx::hexd(it->second);
      cxxExchange* x = Utilities::Rxn_find(e->Rxn_exchange_map, i);
      if (x) for (size_t k = 0; k < x->Get_exchange_comps().size(); k++) {
        const cxxNameDouble& t = x->Get_exchange_comps()[k].Get_totals();
        for (cxxNameDouble::const_iterator it = t.begin(); it != t.end(); ++it) o << " x:" << it->first << "=" << hx::hexd(it->second);
      }
      cxxPPassemblage* pp = Utilities::Rxn_find(e->Rxn_pp_assemblage_map, i);
      if (pp) for (std::map<std::string, cxxPPassemblageComp>::const_iterator it = pp->Get_pp_assemblage_comps().begin();
                   it != pp->Get_pp_assemblage_comps().end(); ++it) o << " p:" << it->first << "=" << hx::hexd(it->second.Get_moles());
      o << "\n";
    }
    return o.str();
  }
  static int count_cells(Phreeqc* e) { return e->count_cells > e->count_ad_cells ? e->count_cells : e->count_ad_cells; }
  static std::string setup(Phreeqc* e) {
    std::ostringstream o;
    o << "SETUP cells=" << e->count_cells << " ishift=" << e->ishift << " bf=" << e->bcon_first << " bl=" << e->bcon_last
      << " corr=" << e->correct_disp << " stag=" << e->stag_data.count_stag << " mcd=" << e->multi_Dflag
      << " impl=" << (int)e->implicit << " shifts=" << e->count_shifts
      << " timest=" << hx::hexd(e->timest) << " diffc=" << hx::hexd(e->diffc) << " diffc_tr=" << hx::hexd(e->diffc_tr) << " L";
    for (int i = 1; i <= e->count_cells && i < (int)e->cell_data.size(); i++) o << " " << hx::hexd(e->cell_data[i].length);
    o << " D";
    for (int i = 1; i <= e->count_cells && i < (int)e->cell_data.size(); i++) o << " " << hx::hexd(e->cell_data[i].disp);
    return o.str();
  }
  static double callback(double x1, double x2, const char* str, void* cookie) {
    Obs* ob = (Obs*)cookie;
    Phreeqc* e = ob->e;
    ob->ncb++;
    ob->cb << " " << (long)x1 << "," << (long)x2 << "," << e->state << "," << e->mixrun;
    // the totals the engine itself carries for the solution being punched (exact: the BASIC functions TOTMOLE/TOT
    // sum the species of the converged speciation and so carry its mass-balance residual, ~1e-9 relative)
    {
      static const char* els[] = {"Na", "K", "Li", "Ca", "Mg", "Cl", "Br"};
      ob->cb << "," << hx::hexd(e->mass_water_aq_x) << "," << hx::hexd(e->total_h_x) << "," << hx::hexd(e->total_o_x)
             << "," << hx::hexd(e->cb_x);
      for (int k = 0; k < 7; k++) {
        class master* m = e->master_bsearch(els[k]);
        ob->cb << "," << hx::hexd(m ? m->total : 0.0);
      }
      // moles the engine says it has added so far to balance negative concentrations (cumulative, per element)
      for (int k = 0; k < 7; k++) {
        double a = 0.0;
        if (e->multi_Dflag && e->state == TRANSPORT && moles_added)
          for (int q = 0; q < count_moles_added; q++)
            if (moles_added[q].name && !strcmp(moles_added[q].name, els[k])) a += moles_added[q].moles;
        ob->cb << "," << hx::hexd(a);
      }
    }
    if (!ob->mix_seen && (e->state == TRANSPORT) && e->transport_step >= 1) {
      ob->mix_seen = true;
      ob->setup_line = setup(e);
      std::ostringstream o;
      o << "MIX step=" << e->transport_step << " nmix=" << e->nmix;
      for (std::map<int, cxxMix>::const_iterator it = e->Dispersion_mix_map.begin(); it != e->Dispersion_mix_map.end(); ++it) {
        o << " | " << it->first;
        const std::map<int, LDBLE>& mc = it->second.Get_mixComps();
        for (std::map<int, LDBLE>::const_iterator jt = mc.begin(); jt != mc.end(); ++jt)
          o << " " << jt->first << "=" << hx::hexd(jt->second);
      }
      ob->mix_line = o.str();
      // mobile/immobile exchange fractions built by transport() for -stagnant 1 <exch_f> <th_m> <th_im>
      std::ostringstream q;
      q << "SMIX stag=" << e->stag_data.count_stag << " exch=" << hx::hexd(e->stag_data.exch_f) << " thm=" << hx::hexd(e->stag_data.th_m)
        << " thim=" << hx::hexd(e->stag_data.th_im);
      for (std::map<int, cxxMix>::const_iterator it = e->Rxn_mix_map.begin(); it != e->Rxn_mix_map.end(); ++it) {
        q << " | " << it->first;
        const std::map<int, LDBLE>& mc = it->second.Get_mixComps();
        for (std::map<int, LDBLE>::const_iterator jt = mc.begin(); jt != mc.end(); ++jt)
          q << " " << jt->first << "=" << hx::hexd(jt->second);
      }
      ob->smix_line = q.str();
    }
    return (double)e->state;
  }
};

static std::string showVar(const VAR& v) {
  switch (v.type) {
    case TT_EMPTY: return "E";
    case TT_ERROR: return "X";
    case TT_LONG: return "L" + std::to_string(v.lVal);
    case TT_DOUBLE: return "D" + hx::hexd(v.dVal);
    case TT_STRING: return "S" + hx::hex(v.sVal ? v.sVal : "");
  }
  return "?";
}

int main() {
  std::string line, db;
  while (std::getline(std::cin, line)) {
    std::vector<std::string> w = hx::words(line);
    if (w.empty()) continue;
    if (w[0] == "db" && w.size() >= 2) { db = w[1]; continue; }
    if (w[0] != "case" || w.size() < 3) { std::cout << "bad-op\n"; continue; }
    std::string input = hx::unhex(w[2]);
    IPhreeqc* ip = new IPhreeqc();
    Obs ob;
    ob.e = TestIPhreeqc::engine(ip);
    int ret = 0;
    int nload = ip->LoadDatabase(db.c_str());
    if (nload != 0) {
      std::cout << "CASE " << w[1] << " ret=-1 nmix_after=0\nERR " << hx::hex(ip->GetErrorString()) << "\nEND\n";
      delete ip;
      continue;
    }
    ip->SetBasicCallback(&TestIPhreeqc::callback, &ob);
    ip->SetOutputFileOn(false);
    ip->SetErrorFileOn(false);
    ip->SetLogFileOn(false);
    ip->SetSelectedOutputFileOn(false);
    ip->SetDumpFileOn(false);
    ip->SetOutputStringOn(false);
    ip->SetErrorStringOn(true);
    ret = ip->RunString(input.c_str());
    std::cout << "CASE " << w[1] << " ret=" << ret << " nmix_after=" << TestIPhreeqc::nmix(ob.e) << "\n";
    if (!ob.mix_seen) ob.setup_line = TestIPhreeqc::setup(ob.e);
    std::cout << ob.setup_line << "\n" << ob.mix_line << "\n" << ob.smix_line << "\n";
    std::cout << "CB" << ob.cb.str() << "\n";
    int ns = ip->GetSelectedOutputCount();
    for (int k = 0; k < ns; k++) {
      int nu = ip->GetNthSelectedOutputUserNumber(k);
      ip->SetCurrentSelectedOutputUserNumber(nu);
      int nr = ip->GetSelectedOutputRowCount(), nc = ip->GetSelectedOutputColumnCount();
      std::cout << "SEL " << nu << " rows=" << nr << " cols=" << nc;
      for (int r = 0; r < nr; r++) {
        std::cout << " |";
        for (int c = 0; c < nc; c++) {
          VAR v; VarInit(&v);
          ip->GetSelectedOutputValue(r, c, &v);
          std::cout << " " << showVar(v);
          VarClear(&v);
        }
      }
      std::cout << "\n";
    }
    if (ret == 0) std::cout << TestIPhreeqc::final_state(ob.e, TestIPhreeqc::count_cells(ob.e));
    const char* ws = ip->GetWarningString();
    std::cout << "WARN " << hx::hex(ws ? ws : "") << "\n";
    if (ret != 0) std::cout << "ERR " << hx::hex(ip->GetErrorString()) << "\n";
    std::cout << "END\n" << std::flush;
    delete ip;
  }
  return 0;
}
