import PhreeqcVerif.Model.Gamma
import PhreeqcVerif.Model.Pitzer
import Mathlib.Tactic.Ring
import Mathlib.Tactic.FieldSimp
import Mathlib.Tactic.Linarith
/-! Helper lemmas for `Properties/C16.lean`: how the `NumOps` members compute on `Rat` (`ratOps f`) and on the dual
numbers (`dualOps f`); sums over `0..n-1`. -/
namespace PhreeqcVerif

section rat
variable (f : TransFns Rat)
@[simp] theorem rat_lit (q : Rat) : @NumOps.lit Rat (ratOps f) q = q := rfl
@[simp] theorem rat_ofRat (q : Rat) : @NumOps.ofRat Rat (ratOps f) q = q := rfl
@[simp] theorem rat_sqrt (x : Rat) : @NumOps.sqrt Rat (ratOps f) x = f.sqrt x := rfl
@[simp] theorem rat_ln (x : Rat) : @NumOps.ln Rat (ratOps f) x = f.ln x := rfl
@[simp] theorem rat_exp (x : Rat) : @NumOps.exp Rat (ratOps f) x = f.exp x := rfl
@[simp] theorem rat_log10 (x : Rat) : @NumOps.log10 Rat (ratOps f) x = f.log10 x := rfl
@[simp] theorem rat_fns_sqrt (x : Rat) : (@NumOps.fns Rat (ratOps f)).sqrt x = f.sqrt x := rfl
@[simp] theorem rat_fns_ln (x : Rat) : (@NumOps.fns Rat (ratOps f)).ln x = f.ln x := rfl
@[simp] theorem rat_fns_exp (x : Rat) : (@NumOps.fns Rat (ratOps f)).exp x = f.exp x := rfl
end rat

end PhreeqcVerif
namespace PhreeqcVerif.Pitzer
open NumOps

/-- plain sum over `0..n-1` of rational numbers -/
def rsum (n : Nat) (g : Nat → Rat) : Rat :=
  match n with
  | 0 => 0
  | k + 1 => rsum k g + g k

theorem rsum_add (n : Nat) (g h : Nat → Rat) : rsum n (fun k => g k + h k) = rsum n g + rsum n h := by
  induction n with
  | zero => simp [rsum]
  | succ k ih => simp only [rsum, ih]; ring

theorem rsum_mul_right (n : Nat) (g : Nat → Rat) (c : Rat) : rsum n (fun k => g k * c) = rsum n g * c := by
  induction n with
  | zero => simp [rsum]
  | succ k ih => simp only [rsum, ih]; ring

theorem rsum_congr (n : Nat) (g h : Nat → Rat) (e : ∀ k, k < n → g k = h k) : rsum n g = rsum n h := by
  induction n with
  | zero => rfl
  | succ k ih =>
    simp only [rsum]
    rw [ih (fun j hj => e j (Nat.lt_succ_of_lt hj)), e k (Nat.lt_succ_self k)]

/-- a single indexed addend -/
theorem rsum_ite (n i : Nat) (c : Rat) (hi : i < n) : rsum n (fun k => if i = k then c else 0) = c := by
  induction n with
  | zero => omega
  | succ k ih =>
    simp only [rsum]
    by_cases h : i = k
    · subst h
      have h0 : ∀ j, rsum j (fun _ => (0 : Rat)) = 0 := by
        intro j
        induction j with
        | zero => rfl
        | succ j ihj => simp [rsum, ihj]
      have : rsum i (fun k => if i = k then c else 0) = 0 := by
        rw [rsum_congr i (fun k => if i = k then c else 0) (fun _ => 0) (fun j hj => by
          have : i ≠ j := by omega
          simp [this])]
        exact h0 i
      simp [this]
    · have hk : i < k := by omega
      simp [ih hk, h]

section dual
variable (f : TransFns Rat)

@[simp] theorem d_add_re (a b : Dual) : (a + b).re = a.re + b.re := rfl
@[simp] theorem d_add_eps (a b : Dual) : (a + b).eps = a.eps + b.eps := rfl
@[simp] theorem d_sub_re (a b : Dual) : (a - b).re = a.re - b.re := rfl
@[simp] theorem d_sub_eps (a b : Dual) : (a - b).eps = a.eps - b.eps := rfl
@[simp] theorem d_mul_re (a b : Dual) : (a * b).re = a.re * b.re := rfl
@[simp] theorem d_mul_eps (a b : Dual) : (a * b).eps = a.re * b.eps + a.eps * b.re := rfl
@[simp] theorem d_neg_re (a : Dual) : (-a).re = -a.re := rfl
@[simp] theorem d_neg_eps (a : Dual) : (-a).eps = -a.eps := rfl
@[simp] theorem d_div_re (a b : Dual) : (a / b).re = a.re / b.re := rfl
@[simp] theorem d_div_eps (a b : Dual) : (a / b).eps = (a.eps * b.re - a.re * b.eps) / (b.re * b.re) := rfl
@[simp] theorem d_const_re (q : Rat) : (Dual.const q).re = q := rfl
@[simp] theorem d_const_eps (q : Rat) : (Dual.const q).eps = 0 := rfl
@[simp] theorem d_lit_re (q : Rat) : (@NumOps.lit Dual (dualOps f) q).re = q := rfl
@[simp] theorem d_lit_eps (q : Rat) : (@NumOps.lit Dual (dualOps f) q).eps = 0 := rfl
@[simp] theorem d_mk_re (a b : Rat) : (Dual.mk a b).re = a := rfl
@[simp] theorem d_mk_eps (a b : Rat) : (Dual.mk a b).eps = b := rfl

/-- quotient by a constant -/
theorem div_const_eps (a c : Rat) : (a * c - 0) / (c * c) = a / c := by
  by_cases h : c = 0
  · subst h; simp
  · field_simp
    ring

end dual
end PhreeqcVerif.Pitzer
