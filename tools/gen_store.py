"""Translator (C14): facts of the anchored C++ that the store model depends on, re-read from the CURRENT source and
written as Lean data to lean/PhreeqcVerif/Gen/StoreTables.lean:

  * the order of the calls of one simulation in IPhreeqc::do_run and Phreeqc::run_simulations
    (read_input, tidy_model, initial_*, reactions, ..., run_as_cells, do_mixes, copy_entities, dump, delete_entities);
  * the kind orders inside set_use (order of the "not found" checks), copy_use, saver (+ which kinds are fanned out with
    Rxn_copies and which with a Rxn_copy loop), do_mixes, copy_entities (+ the loop variable type), delete_entities,
    dump_ostream, list_components;
  * the option vectors of StorageBinList (DELETE), runner (RUN_CELLS) and dumper (DUMP) and the item each option case selects;
  * the option names the generator writes (tools/gens/store.py DEL_NAME), so that the theorem "every written option resolves to
    the intended item" is about the text that is really sent.

Regex based over comment-stripped text; FAILS CLOSED (TranslatorError) when a shape is not recognised.
`extract(repo)` returns Python data, `generate(ctx)` writes the Lean file (only when its content changes)."""
import re
from pathlib import Path

import vlib


class TranslatorError(Exception):
    pass


MAPNAME = {"solution": "solution", "pp_assemblage": "pp", "exchange": "exchange", "surface": "surface",
           "ss_assemblage": "ss", "gas_phase": "gas", "kinetics": "kinetics", "mix": "mix", "reaction": "reaction",
           "temperature": "temperature", "pressure": "pressure", "cell": "cell"}


def strip_comments(src):
    src = re.sub(r"/\*.*?\*/", lambda m: "\n" * m.group(0).count("\n"), src, flags=re.S)
    return re.sub(r"//[^\n]*", "", src)


def body_of(src, header_re, what):
    """text of the function whose header matches header_re (brace matching from the first '{' after the header)"""
    m = re.search(header_re, src)
    if not m:
        raise TranslatorError(f"{what}: function header not found")
    i = src.index("{", m.end())
    depth, j = 0, i
    while j < len(src):
        if src[j] == "{":
            depth += 1
        elif src[j] == "}":
            depth -= 1
            if depth == 0:
                return src[i:j + 1]
        j += 1
    raise TranslatorError(f"{what}: unbalanced braces")


def kinds(names, what):
    out = []
    for n in names:
        if n not in MAPNAME:
            raise TranslatorError(f"{what}: unknown map Rxn_{n}_map")
        out.append(MAPNAME[n])
    return out


SIM_CALLS = ["read_input", "tidy_model", "initial_solutions", "initial_exchangers", "initial_surfaces", "initial_gas_phases",
             "reactions", "inverse_models", "advection", "transport", "run_as_cells", "do_mixes", "copy_entities",
             "dump_entities", "dump_ostream", "delete_entities"]


def sim_calls(body, prefix, what):
    """the store-relevant calls of the simulation loop, in source order (dump_entities/dump_ostream → one "dump")"""
    calls = []
    for m in re.finditer(prefix + r"(\w+)\s*\(", body):
        n = m.group(1)
        if n in SIM_CALLS:
            n = "dump" if n.startswith("dump_") else n
            if not (calls and calls[-1] == n == "dump"):
                calls.append(n)
    if calls.count("read_input") != 1 or calls[0] != "read_input":
        raise TranslatorError(f"{what}: read_input is not the first call of the loop: {calls}")
    for n in ("tidy_model", "reactions", "run_as_cells", "do_mixes", "copy_entities", "dump", "delete_entities"):
        if calls.count(n) != 1:
            raise TranslatorError(f"{what}: expected exactly one call of {n}: {calls}")
    return calls


def vopts_of(src, what):
    m = re.search(r"temp_vopts\[\]\s*=\s*\{(.*?)\};", src, re.S)
    if not m:
        raise TranslatorError(f"{what}: temp_vopts not found")
    v = re.findall(r'value_type\("([^"]*)"\)', m.group(1))
    if not v:
        raise TranslatorError(f"{what}: empty option vector")
    return v


def extract(repo=None):
    repo = Path(repo or vlib.REPO)
    pp = repo / "src" / "phreeqcpp"
    facts = {}
    ip = strip_comments((repo / "src" / "IPhreeqc.cpp").read_text())
    facts["do_run"] = sim_calls(body_of(ip, r"void\s+IPhreeqc::do_run\s*\(", "do_run"), r"PhreeqcPtr->", "do_run")
    ms = strip_comments((pp / "mainsubs.cpp").read_text())
    facts["run_simulations"] = sim_calls(body_of(ms, r"\nrun_simulations\s*\(void\)", "run_simulations"), r"\b", "run_simulations")
    # copy_entities guarded by new_copy in both drivers
    for name, txt in (("do_run", ip), ("run_simulations", ms)):
        if not re.search(r"if\s*\((?:this->PhreeqcPtr->)?new_copy\)\s*(?:this->PhreeqcPtr->)?copy_entities\(\)", txt):
            raise TranslatorError(f"{name}: copy_entities is no longer guarded by new_copy")
    b = body_of(ms, r"\nset_use\s*\(void\)", "set_use")
    facts["set_use"] = kinds(re.findall(r"Rxn_find\(Rxn_(\w+)_map", b), "set_use")
    b = body_of(ms, r"\ncopy_use\s*\(int i\)", "copy_use")
    facts["copy_use"] = kinds(re.findall(r"Rxn_copy\(Rxn_(\w+)_map", b), "copy_use")
    if not re.search(r"save\.solution\s*=\s*TRUE;\s*save\.n_solution_user\s*=\s*i;", b):
        raise TranslatorError("copy_use: 'always save solution to i' not recognised")
    b = body_of(ms, r"\nsaver\s*\(void\)", "saver")
    sv = []
    for m in re.finditer(r"if \(save\.(\w+) == TRUE(.*?)\n\t\}", b, re.S):
        k = m.group(1)
        if k == "kinetics":
            continue
        blk = m.group(2)
        c = re.findall(r"Utilities::Rxn_copies\(Rxn_(\w+)_map", blk)
        e = re.findall(r"Utilities::Rxn_copy\(Rxn_(\w+)_map", blk)
        if len(c) + len(e) != 1 or not re.search(r"x\w+_save\(n\)", blk):
            raise TranslatorError(f"saver: block of {k} not recognised")
        sv.append((MAPNAME[(c + e)[0]], bool(c)))
    if [k for k, _ in sv] != ["solution", "pp", "exchange", "surface", "gas", "ss"]:
        raise TranslatorError(f"saver: kinds {sv}")
    facts["saver"] = sv
    b = body_of(ms, r"\nPhreeqc::do_mixes\s*\(void\)", "do_mixes")
    facts["do_mixes"] = kinds(re.findall(r"Rxn_mix\(Rxn_\w+_mix_map,\s*Rxn_(\w+)_map", b), "do_mixes")
    b = body_of(ms, r"\ncopy_entities\s*\(void\)", "copy_entities")
    loops = re.findall(r"for \((\w+) i = copy_(\w+)\.start\[j\]; i <= copy_\w+\.end\[j\]; i\+\+\)", b)
    types = {t for t, _ in loops}
    if len(loops) != 11 or len(types) != 1 or types - {"size_t", "int"}:
        raise TranslatorError(f"copy_entities loops not recognised: {loops}")
    facts["copy_entities"] = kinds([k for _, k in loops], "copy_entities")
    facts["copy_loop"] = "sizet" if types == {"size_t"} else "int"
    if len(re.findall(r"continue;|if \(i != copy_\w+\.n_user\[j\]\)", b)) != 11:
        raise TranslatorError("copy_entities: the 'skip the source number' test is not in all 11 loops")
    rc = strip_comments((pp / "ReadClass.cxx").read_text())
    b = body_of(rc, r"\ndelete_entities\s*\(void\)", "delete_entities")
    cl = re.findall(r"Rxn_(\w+)_map\.clear\(\)", b)
    er = re.findall(r"Rxn_(\w+)_map\.erase\(\*it\)", b)
    if cl != er:
        raise TranslatorError(f"delete_entities: clear() and erase() orders differ: {cl} vs {er}")
    # each block must test its own item and act on its own map
    for m in re.finditer(r"if \(delete_info\.Get_(\w+)\(\)\.Get_defined\(\)\)\s*\{(.*?)\n\t\}", b, re.S):
        maps = set(re.findall(r"Rxn_(\w+)_map", m.group(2)))
        items = set(re.findall(r"delete_info\.Get_(\w+)\(\)", m.group(2)))
        if maps != {m.group(1)} or items != {m.group(1)}:
            raise TranslatorError(f"delete_entities: block of {m.group(1)} touches {maps} / {items}")
    facts["delete_entities"] = kinds(cl, "delete_entities")
    b = body_of(rc, r"\ndump_ostream\s*\(std::ostream", "dump_ostream")
    facts["dump_ostream"] = kinds(re.findall(r"Rxn_dump_raw\(Rxn_(\w+)_map", b), "dump_ostream")
    for m in re.finditer(r"if \(dump_info\.Get_bool_(\w+)\(\)\)\s*\{(.*?)\n\t\}", b, re.S):
        maps = set(re.findall(r"Rxn_(\w+)_map", m.group(2)))
        if maps != {m.group(1)}:
            raise TranslatorError(f"dump_ostream: block of {m.group(1)} touches {maps}")
    ph = strip_comments((pp / "Phreeqc.cpp").read_text())
    b = body_of(ph, r"size_t\s+Phreeqc::list_components\s*\(", "list_components")
    facts["list_components"] = kinds(re.findall(r"cit = Rxn_(\w+)_map\.begin\(\)|it = Rxn_(kinetics)_map\.begin\(\)", b) and
                                     [a or c for a, c in re.findall(r"cit = Rxn_(\w+)_map\.begin\(\)|it = Rxn_(kinetics)_map\.begin\(\)", b)],
                                     "list_components")
    hdr = strip_comments((pp / "Phreeqc.h").read_text())
    if not re.search(r"void Rxn_copies\(.*?if \(n_user_end <= n_user\) return;.*?for \(int j = n_user \+ 1; j <= n_user_end; j\+\+\)\s*\{\s*"
                     r"b\[j\] = it->second;\s*it = b\.find\(j\);", hdr, re.S):
        raise TranslatorError("Rxn_copies loop shape not recognised")
    # option tables
    sb = strip_comments((pp / "StorageBinList.cpp").read_text())
    facts["bin_vopts"] = vopts_of(sb, "StorageBinList")
    rd = body_of(sb, r"bool\s+StorageBinList::Read\s*\(", "StorageBinList::Read")
    sw = re.search(r"StorageBinListItem \*item = NULL;\s*switch \(opt\)\s*\{(.*?)\n\t\t\}", rd, re.S)
    if not sw:
        raise TranslatorError("StorageBinList::Read: item switch not found")
    cases, pend = {}, []
    for ln in sw.group(1).splitlines():
        m = re.match(r"\s*case (\d+):", ln)
        if m:
            pend.append(int(m.group(1)))
        m = re.match(r"\s*item = &\(this->Get_(\w+)\(\)\);", ln)
        if m:
            for c in pend:
                cases[c] = MAPNAME[m.group(1)]
            pend = []
    m = re.search(r"case (\d+):\s*this->SetAll\(true\);", rd)
    if not m:
        raise TranslatorError("StorageBinList::Read: -all case not found")
    cases[int(m.group(1))] = "all"
    if sorted(cases) != list(range(len(facts["bin_vopts"]))):
        raise TranslatorError(f"StorageBinList::Read: cases {sorted(cases)} do not cover the {len(facts['bin_vopts'])} options")
    facts["bin_cases"] = [cases[i] for i in range(len(facts["bin_vopts"]))]
    if not re.search(r"this->cell\.Clear\(\);\s*this->cell\.Set_defined\(false\);\s*for \(;;\)", rd):
        raise TranslatorError("StorageBinList::Read: the cell list is no longer cleared at the start of a block")
    rn = strip_comments((pp / "runner.cpp").read_text())
    facts["runner_vopts"] = vopts_of(rn, "runner")
    rr = body_of(rn, r"bool\s+runner::Read\s*\(", "runner::Read")
    m = re.search(r"((?:case \d+:\s*)+)for \(;;\)", rr)
    if not m:
        raise TranslatorError("runner::Read: cell cases not found")
    facts["runner_cell_cases"] = [int(x) for x in re.findall(r"case (\d+):", m.group(1))]
    dm = strip_comments((pp / "dumper.cpp").read_text())
    facts["dumper_vopts"] = vopts_of(dm, "dumper")
    dr = body_of(dm, r"bool\s+dumper::Read\s*\(", "dumper::Read")
    m = re.search(r"case (\d+):\s*this->SetAll\(true\);", dr)
    if not m:
        raise TranslatorError("dumper::Read: -all case not found")
    facts["dumper_all_case"] = int(m.group(1))
    sw = re.search(r"StorageBinListItem \*item = NULL;\s*switch \(opt\)\s*\{(.*?)\n\t\t\}", dr, re.S)
    if not sw:
        raise TranslatorError("dumper::Read: item switch not found")
    dc, pend = {0: "file", 1: "append", facts["dumper_all_case"]: "all"}, []
    for ln in sw.group(1).splitlines():
        mm = re.match(r"\s*case (\d+):", ln)
        if mm:
            pend.append(int(mm.group(1)))
        mm = re.match(r"\s*item = &\(this->binList\.Get_(\w+)\(\)\);", ln)
        if mm:
            for c in pend:
                dc[c] = MAPNAME[mm.group(1)]
            pend = []
        if re.match(r"\s*item = &cells;", ln):
            for c in pend:
                dc[c] = "cell"
            pend = []
    if sorted(dc) != list(range(len(facts["dumper_vopts"]))):
        raise TranslatorError(f"dumper::Read: cases {sorted(dc)} do not cover the {len(facts['dumper_vopts'])} options")
    facts["dumper_cases"] = [dc[i] for i in range(len(facts["dumper_vopts"]))]
    # USE / SAVE / COPY: which Keywords::KEY_x selects which kind
    rd = strip_comments((pp / "read.cpp").read_text())
    usemap = {"solution": "solution", "pp_assemblage": "pp", "reaction": "reaction", "mix": "mix", "exchange": "exchange",
              "surface": "surface", "temperature": "temperature", "pressure": "pressure", "gas_phase": "gas",
              "kinetics": "kinetics", "ss_assemblage": "ss"}
    b = body_of(rd, r"\nread_use\s*\(void\)", "read_use")
    uk = re.findall(r"case Keywords::(KEY_\w+):\s*use\.Set_n_(\w+)_user\(n_user\);", b)
    if len(uk) != 11:
        raise TranslatorError(f"read_use: {len(uk)} cases recognised")
    facts["use_keys"] = [(k, usemap[m]) for k, m in uk]
    b = body_of(rd, r"\nread_save\s*\(void\)", "read_save")
    sk = re.findall(r"case Keywords::(KEY_\w+):\s*save\.(\w+) = TRUE;\s*save\.n_(\w+)_user = n_user;\s*save\.n_(\w+)_user_end = n_user_end;", b)
    if len(sk) != 6 or any(len({a, b_, c}) != 1 for _, a, b_, c in sk):
        raise TranslatorError(f"read_save: cases not recognised: {sk}")
    facts["save_keys"] = [(k, usemap[m]) for k, m, _, _ in sk]
    b = body_of(rd, r"\nread_copy\s*\(void\)", "read_copy")
    ck = re.findall(r"case Keywords::(KEY_\w+):\s*copier_add\(&copy_(\w+), n_user, n_user_start, n_user_end\);\s*break;", b)
    if len(ck) != 11:
        raise TranslatorError(f"read_copy: {len(ck)} single-kind cases recognised")
    facts["copy_keys"] = [(k, usemap[m]) for k, m in ck]
    mcell = re.search(r"case Keywords::KEY_NONE:\s*str_tolower\(nonkeyword\);\s*if \(strstr\(nonkeyword, \"cell\"\) != nonkeyword\)(.*?)break;", b, re.S)
    if not mcell or sorted(re.findall(r"copier_add\(&copy_(\w+), n_user, n_user_start, n_user_end\)", mcell.group(1))) != sorted(usemap):
        raise TranslatorError("read_copy: COPY cell does not add all eleven kinds")
    # what the generator writes
    from gens import store as G
    facts["del_names"] = [(k, G.DEL_NAME[k]) for k in G.KINDS]
    facts["use_names"] = [(k, G.USE_NAME[k]) for k in G.KINDS]
    facts["kw_names"] = [(k, G.KW[k].lower()) for k in G.KINDS]
    return facts


def lean_list(xs, f=lambda x: f'"{x}"'):
    return "[" + ", ".join(f(x) for x in xs) + "]"


def render(f):
    o = ["/-! GENERATED by tools/gen_store.py from the current /repo sources — do not edit.",
         "Sources: src/IPhreeqc.cpp (do_run), src/phreeqcpp/mainsubs.cpp (run_simulations, set_use, copy_use, saver, do_mixes,",
         "copy_entities), read.cpp (read_use, read_save, read_copy), ReadClass.cxx (delete_entities, dump_ostream), Phreeqc.cpp (list_components), StorageBinList.cpp,",
         "runner.cpp, dumper.cpp, Phreeqc.h (Rxn_copies), tools/gens/store.py (DEL_NAME). -/",
         "namespace PhreeqcVerif.Gen.StoreTables", ""]
    for name in ("do_run", "run_simulations", "set_use", "copy_use", "do_mixes", "copy_entities", "delete_entities",
                 "dump_ostream", "list_components", "bin_vopts", "bin_cases", "runner_vopts", "dumper_vopts", "dumper_cases"):
        lname = re.sub(r"_(\w)", lambda m: m.group(1).upper(), name)
        o.append(f"def {lname} : List String := {lean_list(f[name])}")
    o.append("def saverFan : List (String × Bool) := " + lean_list(f["saver"], lambda p: f'("{p[0]}", {"true" if p[1] else "false"})'))
    o.append(f"def copyLoopUnsigned : Bool := {'true' if f['copy_loop'] == 'sizet' else 'false'}")
    o.append("def runnerCellCases : List Nat := " + lean_list(f["runner_cell_cases"], str))
    o.append(f"def dumperAllCase : Nat := {f['dumper_all_case']}")
    for lname, key in (("delNames", "del_names"), ("useNames", "use_names"), ("kwNames", "kw_names"), ("useKeys", "use_keys"),
                       ("saveKeys", "save_keys"), ("copyKeys", "copy_keys")):
        o.append(f"def {lname} : List (String × String) := " + lean_list(f[key], lambda p: f'("{p[0]}", "{p[1]}")'))
    o += ["", "end PhreeqcVerif.Gen.StoreTables", ""]
    return "\n".join(o)


def generate(ctx=None):
    f = extract()
    text = render(f)
    out = vlib.LEAN / "PhreeqcVerif" / "Gen" / "StoreTables.lean"
    if not out.exists() or out.read_text() != text:
        out.write_text(text)
    return f


if __name__ == "__main__":
    import json
    print(json.dumps(generate(), indent=1))
