"""C06 — deterministic results; instances are isolated and usable from parallel threads.

Proof obligations (Properties/C06.lean): for EVERY schedule of every number of threads, what a thread observes of its
own instances equals what its own program yields alone (`schedule_projection`, `schedule_independence`), ids are unique
and never reused (`ids_unique_all_schedules`); over data regenerated from the current source: every registry access is
inside `map_lock`, every qsort call is inside the qsort guard, every writable global of the built library is accounted
for by the reviewed policy, no non-reentrant libc call.  Tie: translators gen_lock_audit.py / gen_globals.py (run on
every check) discharge the model's hypothesis "an operation touches only its own instance; registry steps are atomic";
correspondence/exploration on the real code: the same jobs (speciation, exchange/surface, gas, kinetics RK and CVODE,
transport, advection, inverse, BASIC, Pitzer) on fresh instances sequentially in two processes with different numbers of
co-existing instances, and from N threads with create/destroy churn, natively and under ThreadSanitizer; results compared
bit for bit (output, selected-output values and text, error, warning, dump strings, component list)."""
import os
import re

import gen_comparators
import gen_globals
import gen_lock_audit
from gens import threads as gt

MANIFEST = dict(
    technique="Lean 4 theorems over all schedules on a model of the instance registry and thread programs, and over all call "
              "sequences on the settings model (id enters only rendered default names); generated lock-guard, lock-shape and "
              "writable-global audits proved by decide; bitwise differential runs of the real library (sequential, multi-process, "
              "multi-thread with overlapping lifetimes, nested on one thread, ThreadSanitizer) with a lock-balance monitor",
    text="Theorems (all schedules, all thread counts, all programs): schedule_projection, schedule_independence, "
         "ids_unique_all_schedules; (all call sequences) id_enters_only_default_file_names, default_names; obligations over "
         "data regenerated from the current source: registry_accesses_guarded, qsort_calls_guarded, qsort_guard_is_one_statement, "
         "globals_accounted_partial (strong AND weak object symbols in writable sections: function-local statics of inline/template "
         "functions, static members, inline variables), policy_entries_have_reasons, init_only_tables_never_written "
         "(source reading: no assignment / mutation / address-taking of any table the policy calls initialiser-only), "
         "no_nonreentrant_libc_calls. Correspondence: the registry model is also checked against the C API in C13; here the "
         "isolation hypothesis of the model is tied to the code by the audits and by bit-for-bit comparison of sequential / "
         "multi-process / multi-thread / TSan executions of 17 calculation families plus concurrent loading of all 20 shipped "
         "databases; nested single-thread interleavings through the BASIC callback; default-name jobs at two ids (names and files "
         "written = SName.render of the model, all content identical); every pthread unlock of qsort_lock/map_lock preceded by a "
         "lock of the same thread.",
    note="Partial: real pthread schedules, data races inside the engine and libc are runtime behaviour a model cannot exhibit; "
         "TSan samples schedules. The full statement 'no shared mutable state' is false on this tree (transport.cpp file-scope "
         "variables, known finding transport-file-scope-globals, now also shown deterministically: two multicomponent-diffusion "
         "TRANSPORT runs of different instances nested on one thread kill the process); globals_accounted_partial proves "
         "everything else is accounted for. Trusted: nm, g++ -E, the reviewed policy list Model/GlobalsPolicy.lean, ThreadSanitizer, "
         "ld --wrap for the lock monitor.")

KNOWN_SHARED = {"tk_x2", "dV_dcell", "find_current", "token", "dif_spec_names", "dif_els_names", "neg_moles", "els", "Ct2",
                "l_tk_x2", "A", "LU", "mixf", "mixf_stag", "mixf_comp_size", "current_cells", "sum_R", "sum_Rd", "ct",
                "cell_J_ij", "moles_added", "count_moles_added"}
ALLOC_WRAPPER = re.compile(r"::(free_check_null|PHRQ_free|PHRQ_malloc|PHRQ_calloc|PHRQ_realloc|space)\(")
TRANSPORT_FAMILIES = {"transport", "transport_multi_d"}
TSAN_FLAGS = "-fsanitize=thread -g1 -O1 -fno-omit-frame-pointer"
TSAN_ENV = "halt_on_error=0 exitcode=0 report_signal_unsafe=0 second_deadlock_stack=1"


def H(s):
    return s.encode().hex() if s else "-"


def jobs_text(jobs, repo):
    out = []
    for j in jobs:
        flags = j[3] if len(j) > 3 else ""
        db = j[1] if "dbstring" in flags else str(repo / "database" / j[1])
        out.append(f"J {H(db)} {H(j[2])} {flags}\n")
    return "".join(out)


TIMEOUT_RC = -999
LOCKMON = ["-DLOCKMON", "-Wl,--wrap=pthread_mutex_lock", "-Wl,--wrap=pthread_mutex_unlock"]
LAST = {}


def run_h(ctx, exe, jobs, nthreads, coexist, churn, tsan=False, timeout=1800, hold=None, cwd=None, perturb=None):
    """returns (exit code, {job: result}, ids, stderr); LAST holds the F lines, lock-balance counters and the jobs whose nested
    partner was never started, of the most recent call"""
    import subprocess
    import vlib
    env = dict(os.environ)
    if tsan:
        env["TSAN_OPTIONS"] = TSAN_ENV
    if perturb is not None:
        env["MALLOC_PERTURB_"] = str(perturb)      # glibc fills every malloc'ed block with a byte pattern derived from this
    args = [str(nthreads), str(coexist), str(churn)] + ([str(hold)] if hold is not None else [])
    LAST.clear()
    LAST.update({"F": {}, "lockbal": None, "notnested": [], "timeout": False})
    try:
        r = subprocess.run([str(exe)] + args, input=jobs_text(jobs, vlib.REPO), text=True, capture_output=True, timeout=timeout, env=env, cwd=cwd)
    except subprocess.TimeoutExpired as e:
        # watchdog: the process is killed; what it printed so far (TSan reports come out as they happen) is kept
        class R:
            pass
        r = R()
        r.returncode = TIMEOUT_RC
        dec = lambda b: b.decode(errors="replace") if isinstance(b, (bytes, bytearray)) else (b or "")
        r.stdout, r.stderr = dec(e.stdout), dec(e.stderr)
        LAST["timeout"] = True
    res, ids = {}, []
    for l in r.stdout.splitlines():
        w = l.split()
        if w and w[0] == "R":
            res[int(w[1])] = {"id": int(w[2]), "rc": int(w[3]), "h": w[4:10], "rows": int(w[10]), "unbal": int(w[11]) if len(w) > 11 else 0}
        elif w and w[0] == "F":
            LAST["F"][int(w[1])] = {"id": int(w[2]), "names": w[3:7], "sel": w[7], "files": w[8] if len(w) > 8 else "-"}
        elif w and w[0] == "IDS":
            ids = [int(x) for x in w[1:]]
        elif w and w[0] == "LOCKBAL":
            LAST["lockbal"] = (int(w[1]), int(w[2]))
        elif w and w[0] == "NOTNESTED":
            LAST["notnested"].append(int(w[1]))
    return r.returncode, res, ids, r.stderr


def lock_balance(ctx, label, js, res, hist):
    """every pthread_mutex_unlock of qsort_lock / map_lock must follow a lock by the same thread (harness lock monitor)"""
    lb = LAST.get("lockbal")
    if lb is None:
        return
    hist["lock_balance_runs"] += 1
    bad = [k for k, r in res.items() if r.get("unbal", 0) > 0]
    if lb[1] > 0:
        ctx.violation(f"{label}: map_lock unlocked {lb[1]} time(s) by a thread that had not locked it", {"mode": "seq", "jobs": [js[k] for k in bad] or js})
    if lb[0] > 0:
        hist["unlock_without_lock"] += lb[0]
        ctx.violation(f"{label}: qsort_lock unlocked {lb[0]} time(s) without a preceding lock by the same thread "
                      f"(jobs {[js[k][0] + ':' + js[k][1][:24] for k in bad][:4]}): the guard around the C library sort no longer excludes",
                      {"mode": "seq", "jobs": [js[k] for k in bad][:3] or js})


def tsan_reports(stderr, transport_phase=False):
    """parse ThreadSanitizer reports; a report is attributed to the known finding `transport-file-scope-globals` iff its
    location is one of the listed globals, or (heap location, e.g. a node of cell_J_ij) a transport.cpp frame takes part, or —
    only in the phase that runs nothing but TRANSPORT jobs — it is a heap error whose faulting access lies in the engine's own
    allocation list (phqalloc.cpp: PHRQ_free_all / PHRQ_free / PHRQ_malloc). Mechanism of the last case: the shared pointers
    (ct, sol_D-like work arrays, mixf, …) are allocated with PHRQ_malloc by one instance and released with PHRQ_free by
    another; PHRQ_free unlinks the block from the doubly linked list through the block's own neighbours, i.e. it edits the
    OTHER instance's list, whose destructor (~Phreeqc -> PHRQ_free_all) then walks freed nodes. TSan often cannot restore the
    second stack of such a report ("failed to restore the stack"), so no transport.cpp frame is visible. Seen on the unchanged
    tree in 2 of 73 transport-phase runs; in the strict phase (no TRANSPORT job) the same report is a violation."""
    import vlib
    src = str(vlib.REPO) + "/src/"
    out = []
    for blk in stderr.split("=================="):
        m = re.search(r"WARNING: ThreadSanitizer: ([^\n(]+)", blk)
        if not m:
            continue
        kind = m.group(1).strip()
        globs = [re.sub(r"\[abi:\w+\]", "", g) for g in re.findall(r"Location is global '([^']+)'", blk)]
        inner = []          # innermost engine frame of each access stack
        raw_inner = []      # the same without skipping the allocator
        body = blk[m.end():]
        for sec in re.split(r"\n\s*\n", body):
            if not re.search(r"^\s*(Read|Write|Previous|Atomic)[^\n]* by (thread|main)", sec, re.M | re.I):
                continue
            fr = [(fn, f, ln) for fn, f, ln in re.findall(r"#\d+ (\S.*?) (/\S+?):(\d+)", sec) if f.startswith(src) and os.path.basename(f) != "phqalloc.cpp" and not ALLOC_WRAPPER.search(fn)]
            inner.append(fr[0] if fr else None)           # None: no engine frame / stack could not be restored
            allf = [f for fn, f, ln in re.findall(r"#\d+ (\S.*?) (/\S+?):(\d+)", sec) if f.startswith(src)]
            raw_inner.append(os.path.basename(allf[0]) if allf else None)
        top = [f"{fn.split('(')[0]} {os.path.basename(f)}:{ln}" for fn, f, ln in (x for x in inner if x)]
        # races on the shared variables also show up as use-after-free / double free of the arrays they point to
        if globs:
            known = all(g in KNOWN_SHARED for g in globs)
        else:
            # heap location: memory reachable through the shared variables (work arrays, cell_J_ij nodes, ct[...] members);
            # the other party may be any code that frees or reuses it (another instance's destructor, the allocator).
            # Only the transport phase of the exploration can produce such reports: the strict phase runs no TRANSPORT job.
            known = re.search(re.escape(src) + r"phreeqcpp/transport\.cpp:\d+", blk) is not None
            # (heap-use-after-free, double free, or a plain data race on the list nodes: the same cross-instance PHRQ_free)
            if not known and transport_phase:
                restored = [x for x in raw_inner if x]
                known = bool(restored) and all(x == "phqalloc.cpp" for x in restored)
        out.append({"kind": kind, "globals": globs, "top": top, "known": known, "text": blk.strip()[:6000]})
    return out


def duplicates(ctx, label, jobs, res, judged, hist, replay):
    """identical jobs inside ONE process (same database, same input) must give identical results wherever they run in the
    process's history — the first instance, after other workloads have come and gone, next to live neighbours, on any thread"""
    groups = {}
    for k, j in enumerate(jobs):
        groups.setdefault((j[1], j[2], j[3] if len(j) > 3 else ""), []).append(k)
    for ks in groups.values():
        have = [k for k in ks if k in res]
        if len(have) < 2:
            continue
        hist["duplicate_comparisons"] = hist.get("duplicate_comparisons", 0) + len(have) - 1
        a = res[have[0]]
        for k in have[1:]:
            b = res[k]
            if a["rc"] != b["rc"] or a["h"] != b["h"] or a["rows"] != b["rows"]:
                ch = [n for n, x, y in zip(["output", "selected", "error", "warning", "dump", "components"], a["h"], b["h"]) if x != y]
                what = (f"{label}: the same job ({jobs[k][0]}) run as job {have[0]} and as job {k} of one process differs in {ch or 'return code'}"
                        " (results depend on what ran before / next to the instance)")
                if judged:
                    ctx.violation(what, dict(replay, jobs=jobs, job_index=k))
                else:
                    ctx.finding("transport-file-scope-globals", what, dict(replay, jobs=jobs))
                return


def compare(ctx, label, jobs, ref, got, judged, hist):
    """bitwise comparison of every channel of every job; returns list of (job index, what)"""
    bad = []
    for k in range(len(jobs)):
        a, b = ref.get(k), got.get(k)
        if a is None or b is None:
            bad.append((k, "missing result"))
            continue
        hist["job_comparisons"] += 1
        if a["rc"] != b["rc"] or a["h"] != b["h"] or a["rows"] != b["rows"]:
            ch = [n for n, x, y in zip(["output", "selected", "error", "warning", "dump", "components"], a["h"], b["h"]) if x != y]
            bad.append((k, f"{label}: job {k} ({jobs[k][0]}) differs in {ch or 'return code'}"))
    return bad


def private_copy(exe, variant):
    """private copy of a harness binary: a concurrent check may recompile the shared one in place"""
    import shutil
    import tempfile
    import vlib
    d = tempfile.mkdtemp(prefix="c06_bin_")
    with vlib.Lock("harness-ph_threads" + variant):
        return shutil.copy2(exe, os.path.join(d, "ph_threads-" + variant)), d


def explore(ctx, budget, tsan_budget, repeats, thread_counts, hist):
    import shutil
    exe, d1 = private_copy(ctx.build_harness("ph_threads", extra=LOCKMON), "lib")
    ctx.build_lib("tsan", cxxflags=TSAN_FLAGS)
    exet, d2 = private_copy(ctx.build_harness("ph_threads", variant="tsan", extra=["-fsanitize=thread", "-g1"]), "tsan")
    try:
        return explore_with(ctx, exe, exet, budget, tsan_budget, repeats, thread_counts, hist)
    finally:
        shutil.rmtree(d1, ignore_errors=True)
        shutil.rmtree(d2, ignore_errors=True)


def explore_with(ctx, exe, exet, budget, tsan_budget, repeats, thread_counts, hist):
    import vlib
    rng = ctx.rng
    jobs = gt.jobs(rng, budget)
    nload = ctx.n(8, 20) if ctx.tier == "thorough" or budget < 100 else 20
    loads = gt.load_jobs(rng, nload)
    loads += gt.tiny_db_jobs(rng, 2)        # databases with 0 / 1 master species: `if (n > 1) qsort(...)` with n <= 1
    nf = len(gt.FAMILIES)
    # every family once, then the database loads, then the rest: the TSan run takes a prefix of this list
    tie = gt.fixed_tie_job()
    # the fixed tie job (order of equal-keyed items in BASIC lists) runs as the FIRST instance of every process, in the middle and
    # last: identical jobs at different points of a process's allocation history must give identical bytes
    dims = gt.fixed_dim_jobs()
    strict = dims + [tie] + [j for j in jobs[:nf] if j[0] not in TRANSPORT_FAMILIES] + loads[:len(loads) // 2] + [tie] + loads[len(loads) // 2:] + \
        [j for j in jobs[nf:] if j[0] not in TRANSPORT_FAMILIES] + dims + [tie]
    trans = [j for j in jobs if j[0] in TRANSPORT_FAMILIES] + gt.multi_d_jobs(rng, max(2, budget // 10))
    for j in strict + trans:
        hist["families"][j[0]] = hist["families"].get(j[0], 0) + 1
    evals = 0
    distinct = set()
    for label, js, judged in (("strict", strict, True), ("transport", trans, False)):
        ctx.log(f"phase {label}: {len(js)} jobs")
        import time
        t0 = time.time()
        rc, ref, ids, err = run_h(ctx, exe, js, 1, 0, 0)
        # watchdog for the concurrent runs of the same jobs: generous (a loaded machine, TSan's slow-down), yet finite — a
        # shared iteration state typically shows up as a loop that no longer converges
        wd = max(120.0, 60 * (time.time() - t0))
        lock_balance(ctx, label, js, ref, hist)
        if rc != 0 or len(ref) != len(js):
            ctx.violation(f"sequential reference run of the {label} jobs did not return normally (exit {rc})",
                          {"mode": "seq", "jobs": js, "stderr": err[-2000:]})
            continue
        hist["jobs_with_error_rc"] += sum(1 for r in ref.values() if r["rc"] != 0)
        duplicates(ctx, f"{label}, sequential", js, ref, judged, hist, {"mode": "seq", "coexist": 0, "churn": 0})
        # uninitialised heap memory: two sequential runs whose malloc'ed blocks are pre-filled with different byte patterns
        # (glibc MALLOC_PERTURB_); a result that depends on memory nobody wrote differs between them (no race involved)
        pr = {}
        for pb in (85, 170):
            rc, pr[pb], _, err = run_h(ctx, exe, js, 1, 0, 0, perturb=pb)
            evals += len(js)
            hist["perturbed_runs"] += 1
            if rc != 0 and judged:
                ctx.violation(f"{label} jobs with MALLOC_PERTURB_={pb}: process ended abnormally (exit {rc})",
                              {"mode": "seq", "coexist": 0, "churn": 0, "jobs": js, "malloc_perturb": pb, "stderr": err[-1500:]})
        for a_, b_, lab in ((pr[85], pr[170], "MALLOC_PERTURB_=85 vs =170"), (ref, pr[85], "no perturbation vs MALLOC_PERTURB_=85")):
            bad = compare(ctx, lab, js, a_, b_, judged, hist)
            for k, what in bad[:3]:
                what = "results depend on uninitialised heap memory: " + what
                if judged:
                    ctx.violation(what, {"mode": "perturb", "jobs": [js[k]], "job_index": 0})
                else:
                    ctx.finding("transport-file-scope-globals", what, {"mode": "perturb", "jobs": js})
            if bad:
                break
        # the same jobs in another order (each instance then has other predecessors: another allocation history)
        perm = list(range(len(js)))
        rng.shuffle(perm)
        rc, got, _, err = run_h(ctx, exe, [js[i] for i in perm], 1, rng.randint(0, 3), rng.randint(0, 2))
        evals += len(js)
        hist["permuted_reruns"] += 1
        back = {perm[k]: v for k, v in got.items()}
        for k, what in compare(ctx, "same jobs in another order", js, ref, back, judged, hist):
            if judged:
                ctx.violation("results are not a function of the call sequence: " + what,
                              {"mode": "seq", "jobs": [js[i] for i in perm], "job_index": perm.index(k), "permuted": True})
            else:
                ctx.finding("transport-file-scope-globals", what, {"mode": "seq", "jobs": js})
        for k, r in ref.items():
            distinct.add((js[k][0], r["h"][0]))
        ctx.sample(f"{label} job 0 ({js[0][0]}): rc={ref[0]['rc']} rows={ref[0]['rows']} output-hash={ref[0]['h'][0]}")
        # determinism: fresh process, other instances alive, ids shifted
        for rep in range(repeats):
            co, ch = rng.randint(1, 6), rng.randint(0, 2)
            rc, got, ids2, err = run_h(ctx, exe, js, 1, co, ch)
            evals += len(js)
            hist["sequential_reruns"] += 1
            duplicates(ctx, f"{label}, sequential with {co} co-existing instances", js, got, judged, hist, {"mode": "seq", "coexist": co, "churn": ch})
            for k, what in compare(ctx, f"process re-run with {co} co-existing instances", js, ref, got, True, hist):
                ctx.violation("results are not a function of the call sequence: " + what,
                              {"mode": "seq", "coexist": co, "churn": ch, "jobs": [js[k]], "job_index": k})
            if len(set(ids2)) != len(ids2):
                ctx.violation("instance ids reused within one process (sequential)", {"mode": "seq", "ids": ids2, "jobs": js})
        # threads, native
        for nt in thread_counts:
            for rep in range(repeats):
                co, ch, hold = rng.randint(0, 4), rng.randint(0, 3), rng.randint(0, 3)
                rc, got, ids3, err = run_h(ctx, exe, js, nt, co, ch, hold=hold, timeout=wd)
                hist["hold_hist"][hold] = hist["hold_hist"].get(hold, 0) + 1
                if LAST["timeout"]:
                    what = f"{label} jobs on {nt} threads did not finish within {wd:.0f} s (one after the other they take {wd / 60:.1f} s or less)"
                    if judged:
                        ctx.violation(what, {"mode": "par", "threads": nt, "coexist": co, "churn": ch, "jobs": js, "watchdog_s": wd})
                    else:
                        ctx.finding("transport-file-scope-globals", what, {"mode": "par", "threads": nt, "jobs": js})
                    break
                evals += len(js)
                hist["thread_runs"] += 1
                hist["ids_checked"] += len(ids3)
                if rc != 0:
                    what = f"{label} jobs on {nt} threads: process ended abnormally (exit {rc})"
                    if judged:
                        ctx.violation(what, {"mode": "par", "threads": nt, "coexist": co, "churn": ch, "jobs": js, "stderr": err[-2000:]})
                    else:
                        ctx.finding("transport-file-scope-globals", what, {"mode": "par", "threads": nt, "jobs": js})
                    continue
                if len(set(ids3)) != len(ids3):
                    ctx.violation(f"instance ids handed out to {nt} threads are not unique", {"mode": "par", "threads": nt, "ids": ids3, "jobs": js})
                duplicates(ctx, f"{label}, {nt} threads", js, got, judged, hist, {"mode": "par", "threads": nt, "coexist": co, "churn": ch})
                for k, what in compare(ctx, f"{nt} threads", js, ref, got, judged, hist):
                    if judged:
                        ctx.violation("results depend on what other threads do: " + what,
                                      {"mode": "par", "threads": nt, "coexist": co, "churn": ch, "jobs": js, "job_index": k})
                    else:
                        ctx.finding("transport-file-scope-globals", what, {"mode": "par", "threads": nt, "jobs": js})
        # threads under ThreadSanitizer
        tj = js[:tsan_budget]
        rc, got, ids4, err = run_h(ctx, exet, tj, min(8, max(2, len(tj))), 2, 2, tsan=True, hold=2, timeout=max(600.0, 20 * wd))
        evals += len(tj)
        hist["tsan_runs"] += 1
        reps = tsan_reports(err, transport_phase=not judged)
        hist["tsan_reports"] += len(reps)
        for rp in reps:
            if rp["known"]:
                hist["tsan_reports_known"] += 1
                ctx.finding("transport-file-scope-globals", "ThreadSanitizer: " + rp["kind"] + " " + " / ".join(rp["top"]),
                            {"mode": "tsan", "jobs": tj, "report": rp["text"]})
            else:
                ctx.violation("ThreadSanitizer: " + rp["kind"] + " at " + " / ".join(rp["top"]) +
                              (" on global " + ",".join(rp["globals"]) if rp["globals"] else ""),
                              {"mode": "tsan", "threads": 8, "jobs": tj, "report": rp["text"]})
        if rc != 0 and not reps:
            what = (f"TSan run of the {label} jobs did not finish within the watchdog time" if LAST["timeout"]
                    else f"TSan run of the {label} jobs ended abnormally (exit {rc})")
            if judged:
                ctx.violation(what, {"mode": "tsan", "jobs": tj, "stderr": err[-2000:]})
            else:
                ctx.finding("transport-file-scope-globals", what, {"mode": "tsan", "jobs": tj})
        refd = {k: ref[k] for k in range(len(tj))}
        for k, what in compare(ctx, "8 threads under TSan", tj, refd, got, judged, hist):
            if judged:
                ctx.violation("results depend on what other threads do: " + what, {"mode": "tsan", "jobs": tj, "job_index": k})
            else:
                ctx.finding("transport-file-scope-globals", what, {"mode": "tsan", "jobs": tj})
    evals += burst_phase(ctx, exe, exet, hist)
    evals += nested_phase(ctx, exe, ctx.n(8, 40), hist)
    evals += names_phase(ctx, exe, ctx.n(3, 12), hist)
    return evals, len(distinct)


def burst_phase(ctx, exe, exet, hist):
    """several jobs of ONE rarely used engine path on several threads at the same time (gens/threads.py BURST_FAMILIES): a piece
    of path-local scratch state turned process-wide (a function-local static in an integrator, a cached argument) is hit by two
    threads at once only then. Natively on 8 threads (results vs the sequential reference, watchdog against non-termination:
    such a change typically makes an iteration stop converging) and under ThreadSanitizer on 4 threads."""
    import time
    rng = ctx.rng
    fams = list(gt.BURST_FAMILIES)
    tsan_fams = fams if ctx.tier == "thorough" else fams[:3] + rng.sample(fams[3:], 2)
    evals = 0
    ctx.log(f"phase bursts: {len(fams)} families natively, {len(tsan_fams)} under TSan")
    for fam in fams:
        js = gt.burst_jobs(rng, fam, ctx.n(8, 16))
        hist["families"][fam] = hist["families"].get(fam, 0) + len(js)
        t0 = time.time()
        rc, ref, _, err = run_h(ctx, exe, js, 1, 0, 0, timeout=600)
        tseq = time.time() - t0
        if rc != 0 or len(ref) != len(js):
            ctx.violation(f"sequential reference of the {fam} burst did not return normally (exit {rc})", {"mode": "seq", "jobs": js, "stderr": err[-1000:]})
            continue
        limit = max(30.0, 40 * tseq)
        for rep in range(ctx.n(2, 4)):
            rc, got, ids, err = run_h(ctx, exe, js, 8, 0, 0, timeout=limit)
            evals += len(js)
            hist["burst_runs"] += 1
            if LAST["timeout"]:
                ctx.violation(f"{fam} burst: 8 threads did not finish within {limit:.0f} s (the same jobs take {tseq:.2f} s one after the other)",
                              {"mode": "par", "threads": 8, "coexist": 0, "churn": 0, "jobs": js, "watchdog_s": limit})
                break
            if rc != 0:
                ctx.violation(f"{fam} burst on 8 threads: process ended abnormally (exit {rc})", {"mode": "par", "threads": 8, "jobs": js, "stderr": err[-1500:]})
                break
            bad = compare(ctx, f"{fam} burst on 8 threads", js, ref, got, True, hist)
            for k, what in bad[:3]:
                ctx.violation("results depend on what other threads do: " + what, {"mode": "par", "threads": 8, "coexist": 0, "churn": 0, "jobs": js, "job_index": k})
            if bad:
                break
        if fam in tsan_fams:
            tj = js[:4]
            t0 = time.time()
            rc, got, ids, err = run_h(ctx, exet, tj, 4, 0, 0, tsan=True, timeout=max(120.0, 400 * tseq))
            evals += len(tj)
            hist["tsan_runs"] += 1
            hist["burst_tsan_s"] = round(hist.get("burst_tsan_s", 0) + time.time() - t0, 1)
            reps = tsan_reports(err)
            hist["tsan_reports"] += len(reps)
            for rp in reps[:3]:
                ctx.violation(f"ThreadSanitizer ({fam} burst): " + rp["kind"] + " at " + " / ".join(rp["top"]) +
                              (" on global " + ",".join(rp["globals"]) if rp["globals"] else ""),
                              {"mode": "tsan", "threads": 4, "jobs": tj, "report": rp["text"]})
            if LAST["timeout"] and not reps:
                ctx.violation(f"{fam} burst under TSan: 4 threads did not finish within the watchdog time", {"mode": "tsan", "threads": 4, "jobs": tj})
            elif rc != 0 and not reps and not LAST["timeout"]:
                ctx.violation(f"{fam} burst under TSan ended abnormally (exit {rc})", {"mode": "tsan", "jobs": tj, "stderr": err[-1500:]})
            elif not LAST["timeout"]:
                for k, what in compare(ctx, f"{fam} burst, 4 threads under TSan", tj, {k: ref[k] for k in range(len(tj))}, got, True, hist)[:3]:
                    ctx.violation("results depend on what other threads do: " + what, {"mode": "tsan", "jobs": tj, "job_index": k})
        if len(ctx.violations) >= 6:
            break
    return evals


def nested_phase(ctx, exe, npairs, hist):
    """two instances interleaved on ONE thread: the outer job's run calls the BASIC callback at every punch; inside one of these
    calls another instance is created, loaded, run and destroyed. The outer and the inner results must equal the sequential
    ones (no threads, no race detector: a difference or a crash is a deterministic observable effect of shared state)."""
    rng = ctx.rng
    pairs = gt.nested_pairs(rng, npairs)
    evals = 0
    ctx.log(f"phase nested: {len(pairs)} pairs")
    for pi, (outer, inner) in enumerate(pairs):
        js = [outer, inner]
        known = outer[0] == "transport_multi_d" and inner[0] == "transport_multi_d"
        rc, ref, _, err = run_h(ctx, exe, js, 1, 0, 0)
        if rc != 0 or len(ref) != 2:
            ctx.violation(f"sequential reference of a nested pair did not return normally (exit {rc})", {"mode": "seq", "jobs": js, "stderr": err[-1000:]})
            continue
        for at in ([3, 7] if known else [rng.choice([2, 3, 4, 5])]):
            rc, got, _, err = run_h(ctx, exe, js, 0, 0, 0, hold=at)
            evals += 2
            key = f"{outer[0]}>{inner[0]}"
            if rc == 0 and LAST["notnested"]:
                hist["nested_not_reached"] += 1
                continue
            hist["nested_pairs"][key] = hist["nested_pairs"].get(key, 0) + 1
            what = None
            if rc != 0:
                what = f"process died (exit {rc}) when instance B ({inner[0]}) ran inside callback {at} of instance A's ({outer[0]}) run, same thread"
            else:
                d = [("A", 0), ("B", 1)]
                diff = [n for n, k in d if got.get(k) is None or got[k]["rc"] != ref[k]["rc"] or got[k]["h"] != ref[k]["h"]]
                if diff:
                    what = f"results of instance {'/'.join(diff)} differ from the sequential ones when B ({inner[0]}) runs inside callback {at} of A's ({outer[0]}) run"
            if what is None:
                hist["nested_identical"] += 1
                continue
            if known:
                hist["nested_known_effect"] += 1
                ctx.finding("transport-file-scope-globals", "deterministic, single thread: " + what, {"mode": "nested", "at": at, "jobs": js})
            else:
                ctx.violation("instances are not isolated (single thread, nested calls): " + what, {"mode": "nested", "at": at, "jobs": js})
    return evals


def names_phase(ctx, exe, njobs, hist):
    """the only allowed id dependence: default file names. The same jobs run in two processes at different ids (other instances
    created first) with default names and every file sink on, each in an empty scratch directory: names reported by the getters =
    `pmodel api` prediction (Model/Settings.lean `fresh`, `selName`) for that id; files written = exactly the predicted names;
    every channel and every file's content identical between the two ids."""
    import shutil
    import tempfile
    js = gt.default_name_jobs(ctx.rng, njobs)
    ctx.log(f"phase default names: {len(js)} jobs at two id offsets")
    return names_phase_jobs(ctx, exe, js, ctx.rng.randint(2, 11), hist)


def names_phase_jobs(ctx, exe, js, offset, hist):
    import shutil
    import tempfile
    hist.setdefault("default_name_checks", 0)
    hist.setdefault("id_pairs", [])
    runs = []
    for co in (0, offset):
        d = tempfile.mkdtemp(prefix="c06names_")
        try:
            rc, res, ids, err = run_h(ctx, exe, js, 1, co, 0, cwd=d)
            runs.append((co, rc, res, dict(LAST["F"]), sorted(os.listdir(d))))
        finally:
            shutil.rmtree(d, ignore_errors=True)
    evals = 0
    unhex = lambda h: "" if h == "-" else bytes.fromhex(h).decode()
    for co, rc, res, F, listing in runs:
        if rc != 0 or len(res) != len(js):
            ctx.violation(f"default-name jobs did not return normally (exit {rc})", {"mode": "seq", "coexist": co, "jobs": js})
            return evals
        q = []
        for k in range(len(js)):
            nums = [x.split("=")[0] for x in F[k]["sel"].split(",")] if F[k]["sel"] != "-" else []
            q.append(f"defaultnames {F[k]['id']} " + " ".join(nums))
        pred = ctx.pmodel("api", "\n".join(q) + "\n")
        for k in range(len(js)):
            evals += 1
            hist["default_name_checks"] += 1
            exp = pred[k].split()
            got = [unhex(x) for x in F[k]["names"]] + ([unhex(x.split("=")[1]) for x in F[k]["sel"].split(",")] if F[k]["sel"] != "-" else [])
            if got != exp:
                ctx.violation(f"default file names of instance {F[k]['id']} are {got}, model (function of the id) says {exp}",
                              {"mode": "names", "coexist": co, "jobs": [js[k]]})
            files = sorted(unhex(x.split("=")[0]) for x in F[k]["files"].split(",")) if F[k]["files"] != "-" else []
            if files != sorted(set(exp)):
                ctx.violation(f"files written by instance {F[k]['id']} with default names: {files}, predicted {sorted(set(exp))}",
                              {"mode": "names", "coexist": co, "jobs": [js[k]]})
    (c0, _, r0, F0, _), (c1, _, r1, F1, _) = runs
    for k in range(len(js)):
        i0, i1 = F0[k]["id"], F1[k]["id"]
        hist["id_pairs"].append([i0, i1])
        if r0[k]["rc"] != r1[k]["rc"] or r0[k]["h"] != r1[k]["h"]:
            ch = [n for n, x, y in zip(["output", "selected", "error", "warning", "dump", "components"], r0[k]["h"], r1[k]["h"]) if x != y]
            ctx.violation(f"same calls at id {i0} and at id {i1}: channels {ch} differ (only default file names may depend on the id)",
                          {"mode": "names", "coexist": c1, "jobs": [js[k]]})
        f0 = {unhex(x.split("=")[0]).replace(f".{i0}.", ".<id>."): x.split("=")[1] for x in F0[k]["files"].split(",")} if F0[k]["files"] != "-" else {}
        f1 = {unhex(x.split("=")[0]).replace(f".{i1}.", ".<id>."): x.split("=")[1] for x in F1[k]["files"].split(",")} if F1[k]["files"] != "-" else {}
        if f0 != f1:
            ctx.violation(f"files written at id {i0} and at id {i1} differ beyond the id in their names: {sorted(set(f0.items()) ^ set(f1.items()))[:4]}",
                          {"mode": "names", "coexist": c1, "jobs": [js[k]]})
    return evals


def run(ctx):
    hist = {"families": {}, "job_comparisons": 0, "sequential_reruns": 0, "thread_runs": 0, "tsan_runs": 0, "tsan_reports": 0,
            "tsan_reports_known": 0, "ids_checked": 0, "jobs_with_error_rc": 0, "lock_balance_runs": 0, "unlock_without_lock": 0,
            "hold_hist": {}, "nested_pairs": {}, "nested_identical": 0, "nested_known_effect": 0, "nested_not_reached": 0,
            "default_name_checks": 0, "id_pairs": [], "burst_runs": 0, "duplicate_comparisons": 0, "permuted_reruns": 0, "perturbed_runs": 0}
    audit, glob = {}, {}
    translators_ok = True
    try:
        audit = gen_lock_audit.generate(ctx)
        glob = gen_globals.generate(ctx)
        cmpr = gen_comparators.generate(ctx)
        hist["comparators"] = {"functions": len(cmpr["comparators"]), "sort_call_sites": cmpr["sort_sites"],
                               "not_analysed": cmpr["not_analysed"], "pointer_keyed_types": [t for t, _ in cmpr["pointer_keyed"]]}
    except Exception as e:
        translators_ok = False
        ctx.proof_broken.append({"stage": "translator", "error": str(e)[:1000]})
        ctx.log("PROOF BROKEN: translator failed:", str(e)[:300])
    ok = ctx.prove(["PhreeqcVerif.Properties.C06"]) and translators_ok
    hist["audit"] = {k: (v if not isinstance(v, list) else len(v)) for k, v in audit.items()}
    shared = sorted(n for _, n in glob.get("writable", []) if n in KNOWN_SHARED)
    hist["writable_globals"] = len(glob.get("writable", []))
    if glob.get("writable"):
        present = {n for _, n in glob["writable"]}
        stale = sorted(n for n in POLICY_NAMES if n not in present)
        if stale:
            # hygiene of the reviewed list, not a property of the code: a symbol that no longer exists needs no exemption
            ctx.notes.append("policy entries whose symbol is no longer in the build (stale, harmless): " + ", ".join(stale))
    if shared:
        ctx.finding("transport-file-scope-globals", "file-scope variables of transport.cpp shared by all instances: " + " ".join(shared),
                    {"symbols": shared})
    if ok:
        ev, dn = explore(ctx, ctx.n(30, 200), ctx.n(26, 100), ctx.n(1, 3), ctx.n([8], [2, 4, 8, 16]), hist)
    else:
        # proof obligation broken: search the real code for a concrete failing schedule/input at the thorough budget
        ev, dn = explore(ctx, 120, 60, 3, [4, 16], hist)
        if not ctx.violations:
            ctx.violation("C06 obligations no longer check (lock audit / global-state audit / theorems) and no failing schedule was found",
                          {"broken": ctx.proof_broken, "audit": {k: v for k, v in audit.items() if k.endswith("unguarded")},
                           "unaccounted_globals": unaccounted(glob)}, found_input=False)
    ctx.cov.update(hist)
    ctx.cov["evaluations"] = ev
    ctx.cov["distinct_nontrivial"] = dn
    ctx.cov["rule"] = ("jobs drawn from 17 calculation families (gens/threads.py) with random parameters + LoadDatabase of the shipped "
                       "databases + databases with 0/1 master species; each job = fresh instance, LoadDatabase, RunString, all "
                       "channels hashed; threads keep 0-3 finished instances with loaded databases alive (overlapping lifetimes); "
                       "nested pairs: instance B's whole life inside a BASIC callback of instance A's run on one thread; default-name "
                       "jobs at two id offsets in scratch directories; evaluations = job executions compared with the sequential "
                       "reference; distinct = distinct (family, output hash) pairs")
    ctx.assumptions += ["an operation on an instance reads and writes only that instance's state (discharged by the lock audit, the "
                        "writable-global audit and the differential/TSan runs, except for the transport.cpp variables of the known finding)",
                        "TSan observes only the schedules that occur in the runs"]


POLICY_NAMES = {"map_lock", "qsort_lock", "IPhreeqc::Instances", "IPhreeqc::InstancesIndex", "IPhreeqc::Version",
                "Keywords::phreeqc_keywords", "Keywords::phreeqc_keyword_names", "temp_keywords", "temp_keyword_names",
                "PBasic::command_tokens", "temp_tokens", "temp_vopts", "Phreeqc::iso_defaults", "F_Re3", "DW.ref.*"} | KNOWN_SHARED


def unaccounted(glob):
    allowed = {"map_lock", "qsort_lock", "IPhreeqc::Instances", "IPhreeqc::InstancesIndex", "IPhreeqc::Version",
               "Keywords::phreeqc_keywords", "Keywords::phreeqc_keyword_names", "temp_keywords", "temp_keyword_names",
               "PBasic::command_tokens", "temp_tokens", "temp_vopts", "Phreeqc::iso_defaults", "F_Re3", "DW.ref.*"}
    return [f"{o}:{n}" for o, n in glob.get("writable", []) if n not in allowed and not n.endswith("::vopts") and n not in KNOWN_SHARED]


def replay(ctx, data):
    """re-run the recorded jobs in the recorded mode and report whether the disagreement / TSan report reproduces"""
    hist = {"families": {}, "job_comparisons": 0}
    jobs = [tuple(j) for j in data.get("jobs", [])]
    if not jobs:
        ctx.log("replay file names a broken obligation, nothing to execute:", data.get("what"))
        ctx.violation("replayed: " + str(data.get("what")), {"replayed": data.get("broken")}, found_input=False)
        return
    ctx.build_lib()
    exe = ctx.build_harness("ph_threads", extra=LOCKMON)
    rc, ref, ids, err = run_h(ctx, exe, jobs, 1, 0, 0)
    mode = data.get("mode", "par")
    duplicates(ctx, "replayed, sequential", jobs, ref, True, hist, {"mode": "seq"})
    if LAST.get("lockbal") and LAST["lockbal"][0] + LAST["lockbal"][1] > 0:
        ctx.violation(f"replayed: a lock was released without being held (qsort_lock, map_lock) = {LAST['lockbal']}", {"jobs": jobs, "mode": "seq"})
    if mode == "perturb":
        a = run_h(ctx, exe, jobs, 1, 0, 0, perturb=85)[1]
        b = run_h(ctx, exe, jobs, 1, 0, 0, perturb=170)[1]
        for k, what in compare(ctx, "MALLOC_PERTURB_=85 vs =170", jobs, a, b, True, hist) + compare(ctx, "no perturbation vs 85", jobs, ref, a, True, hist):
            ctx.violation("replayed: results depend on uninitialised heap memory: " + what, {"jobs": jobs, "mode": mode})
        ctx.cov["evaluations"] = len(jobs)
        return
    if mode == "nested":
        rc, got, ids, err = run_h(ctx, exe, jobs, 0, 0, 0, hold=data.get("at", 3))
        if rc != 0:
            ctx.violation(f"replayed: process died (exit {rc}) in the nested run", {"jobs": jobs, "mode": mode, "at": data.get("at", 3)})
            return
    elif mode == "names":
        names_phase_jobs(ctx, exe, jobs, data.get("coexist", 3), hist)
        ctx.cov["evaluations"] = len(jobs)
        return
    elif mode == "tsan":
        ctx.build_lib("tsan", cxxflags=TSAN_FLAGS)
        exet = ctx.build_harness("ph_threads", variant="tsan", extra=["-fsanitize=thread", "-g1"])
        rc, got, ids, err = run_h(ctx, exet, jobs, 8, 2, 2, tsan=True)
        for rp in tsan_reports(err, transport_phase=all(j[0] in TRANSPORT_FAMILIES for j in jobs)):
            if not rp["known"]:
                ctx.violation("replayed: ThreadSanitizer: " + rp["kind"] + " " + " / ".join(rp["top"]), {"jobs": jobs, "report": rp["text"]})
    elif mode == "seq":
        rc, got, ids, err = run_h(ctx, exe, jobs, 1, data.get("coexist", 3), data.get("churn", 1))
    else:
        rc, got, ids, err = run_h(ctx, exe, jobs, data.get("threads", 8), data.get("coexist", 2), data.get("churn", 2))
    for k, what in compare(ctx, "replay", jobs, ref, got, True, hist):
        ctx.violation("replayed: " + what, {"jobs": jobs, "mode": mode})
    ctx.cov["evaluations"] = len(jobs)
