import PhreeqcVerif.Gen.ApiTable
/-!
Specification of the thin binding layers (C13), stated as decidable well-formedness predicates over the wrapper
tables that `tools/gen_api.py` regenerates from `src/IPhreeqcLib.cpp` and `src/IPhreeqc_interface_F.cpp`.

C binding (IPhreeqc.h): `F(id, a, b, …)` looks the instance up with `GetInstance(id)`, calls the C++ method of the
same name with the same arguments in the same order (`int` switches become `bool` by `!= 0`), translates
`VR_x` to `IPQ_x`, and for an id that is not live returns the documented invalid-instance result without
calling anything. Fortran binding: `FF(id*, …)` calls the C function `F` with every argument dereferenced, 1-based
line/component/ordinal indices shifted by exactly −1, strings blank-padded by `padfstring`, the row count
reported without the heading row and the column of `GetSelectedOutputValueF` shifted by −1.
Only `++` and `==` on strings are used so that `decide` evaluates the predicates in the kernel.
-/
namespace PhreeqcVerif.Api
open PhreeqcVerif.Gen.Api

def boolSetters : List String :=
  ["SetDumpFileOn", "SetDumpStringOn", "SetErrorFileOn", "SetErrorOn", "SetErrorStringOn", "SetLogFileOn",
   "SetLogStringOn", "SetOutputFileOn", "SetOutputStringOn", "SetSelectedOutputFileOn", "SetSelectedOutputStringOn"]

def codes : List String := ["OK", "OUTOFMEMORY", "BADVARTYPE", "INVALIDARG", "INVALIDROW", "INVALIDCOL"]

def expectedArgs (w : CW) : List String :=
  w.params.tail.map fun p => if boolSetters.contains w.name then p.2 ++ "!=0" else p.2

/-! ### What IPhreeqc.h documents for an id that is not live — transcribed by hand, function by function

`code`: the doc block lists `@retval IPQ_BADINSTANCE`.  `negative`: the doc block says "a negative value indicates an error
(see IPQ_RESULT)".  For the remaining functions the documentation is silent about invalid ids; the table then records the
behaviour as built (`silent…`), so that a change of that behaviour is noticed as well: `silentCode` returns `IPQ_BADINSTANCE`,
`silentZero` returns 0, `silentEmpty` a static empty string, `silentMsg` the static text "<name>: Invalid instance id.\n",
`silentVoid` returns nothing (and prints that text).  `noId`: the function has no id parameter. -/
inductive BadDoc where
  | code | negative | silentCode | silentZero | silentEmpty | silentMsg | silentVoid | noId
deriving DecidableEq, Repr

def docSpec : List (String × BadDoc) := [
  ("AccumulateLine", .silentCode), ("AddError", .negative), ("AddWarning", .negative), ("ClearAccumulatedLines", .code),
  ("CreateIPhreeqc", .noId), ("DestroyIPhreeqc", .code), ("GetComponent", .silentMsg), ("GetComponentCount", .negative),
  ("GetCurrentSelectedOutputUserNumber", .silentCode), ("GetDumpFileName", .silentEmpty), ("GetDumpFileOn", .silentCode),
  ("GetDumpString", .silentEmpty), ("GetDumpStringLine", .silentMsg), ("GetDumpStringLineCount", .silentZero),
  ("GetDumpStringOn", .silentCode), ("GetErrorFileName", .silentEmpty), ("GetErrorFileOn", .silentCode),
  ("GetErrorOn", .silentCode), ("GetErrorString", .silentMsg), ("GetErrorStringLine", .silentMsg),
  ("GetErrorStringLineCount", .silentCode), ("GetErrorStringOn", .silentCode), ("GetLogFileName", .silentEmpty),
  ("GetLogFileOn", .silentCode), ("GetLogString", .silentEmpty), ("GetLogStringLine", .silentMsg),
  ("GetLogStringLineCount", .silentZero), ("GetLogStringOn", .silentCode), ("GetNthSelectedOutputUserNumber", .negative),
  ("GetOutputFileName", .silentEmpty), ("GetOutputFileOn", .silentCode), ("GetOutputString", .silentEmpty),
  ("GetOutputStringLine", .silentMsg), ("GetOutputStringLineCount", .silentZero), ("GetOutputStringOn", .silentCode),
  ("GetSelectedOutputColumnCount", .silentCode), ("GetSelectedOutputCount", .silentCode),
  ("GetSelectedOutputFileName", .silentEmpty), ("GetSelectedOutputFileOn", .silentCode),
  ("GetSelectedOutputRowCount", .silentCode), ("GetSelectedOutputString", .silentEmpty),
  ("GetSelectedOutputStringLine", .silentMsg), ("GetSelectedOutputStringLineCount", .silentZero),
  ("GetSelectedOutputStringOn", .silentCode), ("GetSelectedOutputValue", .code), ("GetSelectedOutputValue2", .code),
  ("GetVersionString", .noId), ("GetWarningString", .silentMsg), ("GetWarningStringLine", .silentMsg),
  ("GetWarningStringLineCount", .silentCode), ("LoadDatabase", .silentCode), ("LoadDatabaseString", .silentCode),
  ("OutputAccumulatedLines", .silentVoid), ("OutputErrorString", .silentVoid), ("OutputWarningString", .silentVoid),
  ("RunAccumulated", .silentCode), ("RunFile", .silentCode), ("RunString", .silentCode), ("SetBasicCallback", .code),
  ("SetBasicFortranCallback", .silentCode), ("SetCurrentSelectedOutputUserNumber", .code), ("SetDumpFileName", .code),
  ("SetDumpFileOn", .code), ("SetDumpStringOn", .code), ("SetErrorFileName", .code), ("SetErrorFileOn", .code),
  ("SetErrorOn", .code), ("SetErrorStringOn", .code), ("SetLogFileName", .code), ("SetLogFileOn", .code),
  ("SetLogStringOn", .code), ("SetOutputFileName", .code), ("SetOutputFileOn", .code), ("SetOutputStringOn", .code),
  ("SetSelectedOutputFileName", .code), ("SetSelectedOutputFileOn", .code), ("SetSelectedOutputStringOn", .code)]

def specOf (name : String) : Option BadDoc := (docSpec.find? (fun p => p.1 == name)).map (·.2)

def invalidMsg (name : String) : String := name ++ ": Invalid instance id.\n"

/-- the invalid-instance branch of a wrapper (as extracted from the source) is what the table says -/
def matchesDoc (w : CW) : BadDoc → Bool
  | .code | .negative | .silentCode => w.ret != "const char*" && w.ret != "void" && w.bad == "IPQ_BADINSTANCE"
  | .silentZero => w.ret == "int" && w.bad == "0"
  | .silentEmpty => w.ret == "const char*" && w.badIsStatic && w.badText == ""
  | .silentMsg => w.ret == "const char*" && w.badIsStatic && w.badText == invalidMsg w.name
  | .silentVoid => w.ret == "void" && w.bad == ""
  | .noId => w.params == []

/-- the registry helpers, as semantic facts read from their bodies (shape-independent: nested ifs or early returns, any
local names, any cast spelling): `DestroyIPhreeqc` answers `IPQ_BADINSTANCE` for an id that is negative or not in the map and
`IPQ_OK` after deleting exactly the looked-up object; `GetInstance` searches `IPhreeqc::Instances` by the id and returns the
mapped pointer or null; `CreateIPhreeqc` returns the new object's index, `IPQ_OUTOFMEMORY` when allocation fails.
A fact the translator could not bring into a recognised form is "?" and is then left to the behavioural tie. -/
def expectedHelperFacts : List (String × String) := [
  ("create.oom", "IPQ_OUTOFMEMORY"), ("create.returnsIndex", "yes"), ("destroy.deletes", "yes"), ("destroy.live", "IPQ_OK"),
  ("destroy.notlive", "IPQ_BADINSTANCE"), ("getinstance.finds", "yes"), ("getinstance.returns", "yes")]

def helpersOk : Bool :=
  helperFacts.length == expectedHelperFacts.length &&
  (helperFacts.zip expectedHelperFacts).all (fun p => p.1.1 == p.2.1 && (p.1.2 == p.2.2 || p.1.2 == "?"))

/-- the invalid-instance result of a wrapper is the documented one; a wrapper whose body the translator could not read
(`shape ≠ "ok"`) is not judged here -/
def badOk (w : CW) : Bool :=
  if w.shape != "ok" then true
  else if w.name == "DestroyIPhreeqc" then specOf w.name == some .code && helpersOk
  else if w.name == "CreateIPhreeqc" || w.name == "GetVersionString" then specOf w.name == some .noId && w.params == []
  else match specOf w.name with
  | some d => matchesDoc w d
  | none => false

/-- the hand transcription agrees with the mechanical reading of the doc block of the same function -/
def specMatchesFact (d : BadDoc) (f : DocFact) : Bool :=
  match d with
  | .code => f.retvals.contains "IPQ_BADINSTANCE"
  | .negative => f.negOnError && !f.retvals.contains "IPQ_BADINSTANCE"
  | .noId => true
  | _ => !f.negOnError && !f.retvals.contains "IPQ_BADINSTANCE"

/-- functions declared in IPhreeqc.h without a doc block of their own -/
def undocumented : List String := ["SetBasicFortranCallback"]

def specMatchesHeader : Bool :=
  docSpec.all fun p =>
    match docFacts.find? (fun f => f.name == p.1) with
    | some f => specMatchesFact p.2 f
    | none => undocumented.contains p.1 && p.2 == .silentCode

/-- table, definitions (IPhreeqcLib.cpp) and declarations (IPhreeqc.h) name exactly the same functions, with the same
return type and number of parameters -/
def cComplete : Bool :=
  cWrappers.map (·.name) == docSpec.map (·.1) &&
  hDecls == cWrappers.map (fun w => (w.name, w.ret, w.params.length)) &&
  docFacts.all (fun f => docSpec.any (fun p => p.1 == f.name))

def fComplete : Bool :=
  (let defs := fWrappers.map (fun w => (w.name, w.ret, w.params.length))
   fDecls.length == defs.length && fDecls.all (defs.contains ·) && defs.all (fDecls.contains ·)) &&
  fWrappers.all (fun w => cWrappers.any (fun c => c.name ++ "F" == w.name)) &&
  -- C functions without a Fortran counterpart: whole-string getters (commented out in the glue), the C-only variants
  (cWrappers.filter (fun c => !fWrappers.any (fun w => c.name ++ "F" == w.name))).map (·.name) ==
    ["GetDumpString", "GetErrorString", "GetLogString", "GetOutputString", "GetSelectedOutputString",
     "GetSelectedOutputValue2", "GetWarningString", "SetBasicCallback"]

/-- forwarded arguments: position by position the expected expression, or "?" (an expression outside the normal forms) -/
def argsOk (actual expected : List String) : Bool :=
  actual.length == expected.length && (actual.zip expected).all (fun p => p.1 == p.2 || p.1 == "?")

def transOk (w : CW) : Bool :=
  w.trans.all fun p => codes.any fun c => p.1 == "VR_" ++ c && p.2 == "IPQ_" ++ c

/-- a C wrapper has the documented forwarding shape -/
def wfC (w : CW) : Bool :=
  if w.shape != "ok" then true
  else if w.name == "DestroyIPhreeqc" then
    w.calls == [] && w.lookups == [("DestroyIPhreeqc", "id")] && w.params == [("int", "id")] && badOk w
  else if w.name == "CreateIPhreeqc" then
    w.calls == [] && w.lookups == [("CreateIPhreeqc", "")] && badOk w
  else if w.name == "GetVersionString" then
    w.calls == [] && w.lookups == [("static GetVersionString", "")] && badOk w
  else
    w.params.head? == some ("int", "id") &&
    (match w.calls with
     | [(m, args)] => m == w.name && argsOk args (expectedArgs w)
     | _ => false) &&
    w.lookups == [("GetInstance", "id")] && badOk w && transOk w

/-- Fortran functions whose `n` is a 1-based line / component / ordinal index -/
def shiftedF : List String :=
  ["GetComponentF", "GetDumpStringLineF", "GetErrorStringLineF", "GetLogStringLineF",
   "GetNthSelectedOutputUserNumberF", "GetOutputStringLineF", "GetSelectedOutputStringLineF",
   "GetWarningStringLineF"]

/-- Fortran functions that return a string through a blank-padded buffer + length pair (last two parameters) -/
def stringF : List String :=
  ["GetComponentF", "GetDumpFileNameF", "GetDumpStringLineF", "GetErrorFileNameF", "GetErrorStringLineF",
   "GetLogFileNameF", "GetLogStringLineF", "GetOutputFileNameF", "GetOutputStringLineF",
   "GetSelectedOutputFileNameF", "GetSelectedOutputStringLineF", "GetVersionStringF", "GetWarningStringLineF"]

def derefArg (fname : String) (p : String × String) : String :=
  if p.1 == "char*" || p.1 == "fnptr" then p.2
  else if p.2 == "n" && shiftedF.contains fname then "*n-1"
  else "*" ++ p.2

def inParams (w : FW) : List (String × String) :=
  if stringF.contains w.name then w.params.take (w.params.length - 2) else w.params

def join (xs : List String) : String := String.intercalate "," xs

def wfF (w : FW) : Bool :=
  if w.shape != "ok" then true
  else if w.name == "GetSelectedOutputValueF" then
    (match w.calls with
     | [(m, args)] => m == "GetSelectedOutputValue" && argsOk args ["*id", "*row", "adjcol", "&v"]
     | _ => false) && w.adjcol &&
    !w.rowsMinusHeading &&
    w.pads == [["svalue", "buffer", "svalue_length"], ["svalue", "buffer", "svalue_length"],
               ["svalue", "v.sVal", "svalue_length"]]
  else
    match w.calls with
    | [(callee, args)] =>
      callee ++ "F" == w.name && argsOk args ((inParams w).map (derefArg w.name)) && !w.adjcol &&
      (w.rowsMinusHeading == (w.name == "GetSelectedOutputRowCountF")) &&
      (w.rowsGuard == (if w.name == "GetSelectedOutputRowCountF" then "rows > 0" else "")) &&
      (if stringF.contains w.name then
         match w.params.drop (w.params.length - 2) with
         | [buf, len] => w.pads == [[buf.2, "::" ++ callee ++ "(" ++ join args ++ ")", len.2]]
         | _ => false
       else w.pads == [])
    | _ => false

/-- the documentation's "N is one-based for the Fortran interface" notes (and zero-based `n` parameters) are exactly the
functions whose Fortran glue shifts the index -/
def shiftsMatchDoc : Bool :=
  docFacts.all (fun f => f.oneBasedF == shiftedF.contains (f.name ++ "F") && f.oneBasedF == f.zeroBasedN) &&
  shiftedF.all (fun n => docFacts.any (fun f => f.name ++ "F" == n))

/-- every `bind(C)` target of the Fortran module exists in the C++ glue with the same number of arguments -/
def f90Ok : Bool :=
  f90Binds.all fun b => fWrappers.any fun w => w.name == b.1 && w.params.length == b.2

/-! ### `padfstring(dest, src, len)` on a buffer of `len` characters -/

/-- the buffer after the call and the reported length -/
def padfstring (src : List Char) (len : Nat) : List Char × Nat :=
  ((src.take len) ++ List.replicate (len - src.length) ' ', src.length)

end PhreeqcVerif.Api
