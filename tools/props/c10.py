"""C10 — captured reaction state (DUMP RAW text) can be re-instated without changing behaviour.

Proof obligations (Properties/C10.lean): over the COMPLETE writer/reader tables that gen_raw.py regenerates from the
current source of every entity class — keys_known, no_cross_wiring, state_restored, header_symmetric, required_defined,
guards_ok, fields_distinct, continuation_ok (decide +kernel) — lifted by the generic theorem raw_fixed_point (all
systems, all records) to dump∘read∘dump∘read∘dump = dump∘read∘dump per class; find_option theorems for all inputs.
Tie: the translator runs on every check and fails closed; the real CParser::find_option on the real vopts vectors is
compared with the model; generated reaction states of every entity kind go through dump → fresh instance → dump → …
on the real library (no errors, fixed text after ≤ 1 cycle, follow-up results at 1e-7, SOLUTION_MODIFY, StorageBin /
Serializer / InternalCopy copies), and every difference between first and second dump must be one the model predicts."""
import concurrent.futures
import json
import re
import struct
import time

import gen_raw
import rawparse
import vlib
from gens import raw as graw
from vlib import shrink_list

REL = 1e-7
ABS_FLOOR = 1e-15      # amounts below 1e-15 mol are below every convergence criterion of the solver
DUMP_ALL = "DUMP\n -all\nEND\n"
KW2TAB = {"SOLUTION_RAW": "Solution", "EXCHANGE_RAW": "Exchange", "SURFACE_RAW": "Surface", "GAS_PHASE_RAW": "GasPhase",
          "EQUILIBRIUM_PHASES_RAW": "PPassemblage", "SOLID_SOLUTIONS_RAW": "SSassemblage", "KINETICS_RAW": "Kinetics",
          "MIX_RAW": "Mix", "REACTION_RAW": "Reaction", "REACTION_TEMPERATURE_RAW": "Temperature",
          "REACTION_PRESSURE_RAW": "Pressure"}

def hx(s):
    return s.encode().hex() if s else "-"


def unhx(h):
    return "" if h == "-" else bytes.fromhex(h).decode(errors="replace")


def unhexd(h):
    return struct.unpack(">d", bytes.fromhex(h))[0]


# ---------------------------------------------------------------------------------------------- one case on the real code
class Session:
    """accumulates ops for one harness process; answers are matched by position"""
    def __init__(self):
        self.ops = []

    def add(self, op):
        self.ops.append(op)
        return len(self.ops) - 1


class Slow(Exception):
    pass


def run_ops(ctx, exe, ops, timeout=None):
    import subprocess
    timeout = timeout or (45 if ctx.tier == "quick" else 150)      # per harness process; slower states are counted, not judged
    try:
        r = ctx.run_harness(exe, "\n".join(ops) + "\n", timeout=timeout)
    except subprocess.TimeoutExpired:
        raise Slow()
    return r.stdout.splitlines(), r.returncode, r.stderr[-400:]


def parse_run(line):
    t = line.split()
    return int(t[1]), unhx(t[2]), unhx(t[3])


def parse_sel(line):
    """'sel n | un nr nc cells…' -> {un: (nr, nc, [cells])}"""
    out = {}
    for part in line.split(" | ")[1:]:
        t = part.split()
        out[int(t[0])] = (int(t[1]), int(t[2]), t[3:])
    return out


def cells_differ(a, b, rel=None):
    """compare two selected-output tables at relative 1e-7 (+1e-15 absolute floor); returns a description of the first
    difference or None"""
    if a is None or b is None:
        return "table missing"
    if set(a) != set(b):
        return f"user numbers {sorted(a)} vs {sorted(b)}"
    for un in a:
        (nr, nc, ca), (nr2, nc2, cb) = a[un], b[un]
        if (nr, nc) != (nr2, nc2):
            return f"table {un}: {nr}x{nc} vs {nr2}x{nc2}"
        heads = ca[:nc]
        for k, (x, y) in enumerate(zip(ca, cb)):
            if x == y:
                continue
            if x[0] == "D" and y[0] == "D":
                u, v = unhexd(x[1:]), unhexd(y[1:])
                h = unhx(heads[k % nc][1:]) if heads[k % nc][0] == "S" else "?"
                scale = max(abs(u), abs(v))
                # a change-in-moles column (d_X, dk_X) is a difference of amounts: the tolerance refers to the amount X
                base = h[2:] if h.startswith("d_") else ("k_" + h[3:] if h.startswith("dk_") else None)
                if base is not None:
                    for j in range(nc):
                        if heads[j][0] == "S" and unhx(heads[j][1:]) == base and ca[(k // nc) * nc + j][0] == "D":
                            scale = max(scale, abs(unhexd(ca[(k // nc) * nc + j][1:])))
                if u == v or abs(u - v) <= (rel or REL) * scale + ABS_FLOOR:
                    continue
                return f"table {un} row {k // nc} column {h}: {u!r} vs {v!r}"
            return f"table {un} cell {k}: {x} vs {y}"
    return None


def db_path(db):
    return str(vlib.REPO / "database" / db)


def raw_entities(text):
    return {rawparse.entity_id(e): rawparse.flat(e) for e in rawparse.parse(text)}


def eval_case(ctx, exe, case, status_of, deep=True):
    """eval_case_inner with a wall-clock guard: a state whose calculations take longer than the budget is counted, not judged"""
    try:
        return eval_case_inner(ctx, exe, case, status_of, deep)
    except Slow:
        return dict(problems=[("setup", "time budget of one harness process exceeded (slow kinetics of the state)")],
                    sig=[], judged=False, d1_ne_d2=False, followups=0, copies=0, notes=["timeout"], timeout=True)


def eval_case_inner(ctx, exe, case, status_of, deep=True):
    """run one generated state through the real library. Returns dict(problems=[(class, text)], stats…).
    problem classes: 'setup' (not judged), 'read-error', 'not-fixed', 'followup', 'modify', 'bincopy', 'sercopy',
    'icopy', 'model' (first/second dump differ on a key the model calls restored)"""
    res = dict(problems=[], sig=[], judged=False, d1_ne_d2=False, followups=0, copies=0, notes=[])
    dbp = hx(db_path(case["db"]))
    adds = case.get("adds") or ""

    def fresh(name, ops):
        ops += [f"new {name}", f"load {name} {dbp}"]
        if adds:
            ops.append(f"run {name} {hx(adds + 'END' + chr(10))}")

    # ---- stage 1: original instance A: build the state, dump it
    ops = []
    fresh("A", ops)
    i_setup = len(ops)
    ops.append(f"run A {hx(case['setup'] + DUMP_ALL)}")
    ops += ["dumpstr A", "rawall A", "rawall17 A"]
    out, rc, err = run_ops(ctx, exe, ops)
    if rc != 0 or len(out) < len(ops):
        res["problems"].append(("setup", f"harness stopped rc={rc} {err}"))
        return res
    src, errs, _ = parse_run(out[i_setup])
    if src != 0:
        res["notes"].append("setup input ends with errors: " + errs[:200])
        res["problems"].append(("setup", errs[:300]))
        return res
    d1 = unhx(out[i_setup + 1].split()[1])
    rawA = unhx(out[i_setup + 2].split()[1])
    ents1 = raw_entities(d1)
    if not ents1:
        res["problems"].append(("setup", "empty dump"))
        return res
    res["judged"] = True
    res["entities"] = sorted(k[0] for k in ents1)
    t17 = unhx(out[i_setup + 3].split()[1])       # the same dump with exact (17-digit) doubles
    base_ops = list(ops[:-1])
    # components tied to a pure phase / kinetic reactant: their amounts are re-derived from it whenever input is read
    tied = {(k, p.rsplit("/", 1)[0]) for k, f in ents1.items() if k[0] in ("EXCHANGE_RAW", "SURFACE_RAW")
            for p in f if p.endswith("/phase_name") or p.endswith("/rate_name")}
    # ---- stage 2 (one process): restored B, second cycle C, exact copies D (StorageBin) and E (Serializer) taken BEFORE any
    #      follow-up, B17 = restored from the same dump with exact 17-digit doubles, M = restored + SOLUTION_MODIFY
    ops = list(base_ops)
    idx = {}
    fresh("B", ops)
    idx["readB"] = len(ops)
    ops.append(f"run B {hx(d1 + DUMP_ALL)}")
    idx["d2"] = len(ops)
    ops.append("dumpstr B")
    out, rc, err = run_ops(ctx, exe, ops)
    if rc != 0 or len(out) < len(ops):
        res["problems"].append(("read-error", f"process died while reading the dump back: rc={rc} {err}"))
        return res
    rcB, errB, warnB = parse_run(out[idx["readB"]])
    d2 = unhx(out[idx["d2"]].split()[1])
    if rcB != 0:
        bad_num = [(k, p, v) for k, f in ents1.items() for p, v in f.items() if re.search(r"(^|\s)-?(nan|inf)(\s|$)", v)]
        if bad_num:
            # the calculation that produced the state ended without an error but left a non-finite number in it; the dump prints it as
            # "nan"/"-nan"/"inf", which no RAW reader accepts
            res["sig"].append(("non-finite-value-in-saved-state", f"{bad_num[0][0]} {bad_num[0][1]} = {bad_num[0][2]}: {errB.strip()[:160]}"))
        else:
            res["problems"].append(("read-error", f"{rcB} errors reading the dump into a fresh instance: {errB[:400]}"))
        return res
    fresh("C", ops)
    idx["readC"] = len(ops)
    ops.append(f"run C {hx(d2 + DUMP_ALL)}")
    idx["d3"] = len(ops)
    ops.append("dumpstr C")
    insts = ["A", "B"]
    if deep:
        fresh("D", ops)
        fresh("E", ops)
        idx["copies"] = len(ops)
        ops += ["bincopy A D", "rawall D", "sercopy A E 0 12", "rawall E", "serstream A 0 12", "serstream E 0 12"]
        insts.append("D")
        ser_ok = not ({"mix", "rxn"} & set(case["kinds"]))      # MIX and REACTION are not part of the Serializer
        gas = "gas" in case["kinds"]
        if ser_ok:
            insts.append("E")
    fu = case["followups"] if deep else case["followups"][:1]
    name0, text0 = fu[0]
    first_only = []
    if deep:
        fresh("B17", ops)
        idx["read17"] = len(ops)
        ops.append(f"run B17 {hx(t17)}")
        insts.append("B17")
    sol = ents1.get(("SOLUTION_RAW", 1))
    if sol is not None:
        from fractions import Fraction
        tot = {p.split("/", 1)[1]: v for p, v in sol.items() if p.startswith("totals/")}
        head = ["SOLUTION_MODIFY 1", f" -total_h {sol['total_h']}", f" -total_o {sol['total_o']}", f" -cb {sol['cb']}", " -totals"]
        # M: the totals under the names the dump uses (valence states)
        back = head + [f"  {el} {v}" for el, v in tot.items()]
        # M1 / M2: "restoring only element totals, total H, total O and charge": valence states summed into their element, plain
        # element names; H and O are carried by total_h / total_o
        elts = {}
        for el, v in tot.items():
            e = el.split("(")[0]
            if e not in ("H", "O"):
                elts[e] = elts.get(e, Fraction(0)) + Fraction(v)
        plain = head + [f"  {e} {float(x)!r}" for e, x in sorted(elts.items())]
        res["valence_states"] = max([sum(1 for el in tot if el.split("(")[0] == e and "(" in el) for e in elts] or [0])
        # M2 first gets another composition and valence distribution (totals scaled, spread over the valence states differently,
        # H and charge shifted), then the same restoring MODIFY
        pert = ["SOLUTION_MODIFY 1", f" -total_h {float(sol['total_h']) * 1.0005!r}", f" -cb {float(sol['cb']) + 2e-4!r}", " -totals"]
        names = sorted(tot)
        for i, el in enumerate(names):
            if el.split("(")[0] in ("H", "O"):
                continue
            other = names[(i + 1) % len(names)]
            src = other if other.split("(")[0] == el.split("(")[0] else el
            pert.append(f"  {el} {float(tot[src]) * (1.7 if i % 2 else 0.6) + 1e-6!r}")
        fresh("M", ops)
        ops.append(f"run M {hx(d1)}")
        idx["mod"] = len(ops)
        ops.append(f"run M {hx(chr(10).join(back) + chr(10) + 'END' + chr(10))}")
        first_only.append("M")
        if deep:
            fresh("M1", ops)
            ops.append(f"run M1 {hx(d1)}")
            idx["mod1"] = len(ops)
            ops.append(f"run M1 {hx(chr(10).join(plain) + chr(10) + 'END' + chr(10))}")
            fresh("M2", ops)
            ops.append(f"run M2 {hx(d1)}")
            idx["mod2p"] = len(ops)
            ops.append(f"run M2 {hx(chr(10).join(pert) + chr(10) + 'END' + chr(10))}")
            idx["mod2"] = len(ops)
            ops.append(f"run M2 {hx(chr(10).join(plain) + chr(10) + 'END' + chr(10))}")
            fresh("M3", ops)
            ops.append(f"run M3 {hx(d1)}")
            ops.append(f"run M3 {hx(chr(10).join(plain) + chr(10) + 'END' + chr(10))}")
            idx["mod3"] = len(ops)
            ops.append(f"run M3 {hx(chr(10).join(back) + chr(10) + 'END' + chr(10))}")
            first_only += ["M1", "M2", "M3"]
    pos = {}
    for n_fu, (name, text) in enumerate(fu):
        for t in insts + (first_only if n_fu == 0 else []):
            pos[(name, t)] = len(ops)
            ops += [f"run {t} {hx(text)}", f"sel {t}"]
    out, rc, err = run_ops(ctx, exe, ops)
    if rc != 0 or len(out) < len(ops):
        res["problems"].append(("crash", f"process died rc={rc} after {len(out)}/{len(ops)} ops {err}"))
        return res
    rcC, errC, _ = parse_run(out[idx["readC"]])
    d3 = unhx(out[idx["d3"]].split()[1])
    e2 = raw_entities(d2)

    def under_tied(k, p):
        return any(k == tk and p.startswith(tp + "/") for tk, tp in tied)
    if rcC != 0:
        res["problems"].append(("read-error", f"{rcC} errors reading the SECOND dump: {errC[:300]}"))
    elif d3 != d2:
        e3 = raw_entities(d3)
        diff = [(k, p) for k in e2 for p in sorted(set(e2[k]) | set(e3.get(k, {}))) if e2[k].get(p) != e3.get(k, {}).get(p)]
        def ulp_jitter(k, p):
            try:
                u, v = float(e2[k][p]), float(e3[k][p])
            except (KeyError, ValueError):
                return False
            return abs(u - v) <= 1e-14 * max(abs(u), abs(v))
        if diff and all(under_tied(k, p) and "/totals/" in p and ulp_jitter(k, p) for k, p in diff):
            # update_min/kin_exchange multiplies the tied component by (reactant amount × proportion) / (site total) at every read; the
            # quotient is 1 ± 1 ulp for a few cycles, which the 17-digit text shows
            k, p = diff[0]
            res["sig"].append(("tied-exchanger-rederived", f"third dump differs from the second in the last place (rescaled at every read): "
                               f"{k} {p}: {e2[k].get(p)} → {e3[k].get(p)}"))
        else:
            res["problems"].append(("not-fixed", f"dump text still changes in the second cycle: {diff[:5] or 'layout'}"))
    # model correspondence: where first and second dump differ, the model must call the key dropped
    rederived = False
    if d2 != d1:
        res["d1_ne_d2"] = True
        for k, f1 in ents1.items():
            f2 = e2.get(k)
            if f2 is None:
                res["problems"].append(("model", f"entity {k} missing from the second dump"))
                continue
            for p in sorted(set(f1) | set(f2)):
                if f1.get(p) == f2.get(p):
                    continue
                if under_tied(k, p):
                    rederived = True
                    continue        # amounts of a component tied to a phase / kinetic reactant are re-derived from it when read
                st = status_of(KW2TAB[k[0]], p)
                if st == "unmodelled":
                    continue        # proof side unavailable (obligation broken): only the direct oracles are judged
                if f1.get(p) is None and st.endswith("+guarded"):
                    continue        # written only under a condition on its own member: absent first, fresh value afterwards
                st = st.replace("+guarded", "")
                if st != "dropped":
                    res["problems"].append(("model", f"{k} {p}: '{f1.get(p)}' → '{f2.get(p)}' but the model says {st}"))
    # ---- follow-ups: original A vs restored B, exact copies D / E, modified M; every difference is triaged
    T = {}
    for (name, t), p in pos.items():
        r = parse_run(out[p])
        T[(name, t)] = (r, parse_sel(out[p + 1]) if r[0] == 0 else None)
    for key, t in (("mod", "M"), ("mod1", "M1"), ("mod2", "M2"), ("mod3", "M3")):
        if key in idx and parse_run(out[idx[key]])[0] != 0:
            res["problems"].append(("modify", f"SOLUTION_MODIFY restoring totals/H/O/cb fails on {t}: {parse_run(out[idx[key]])[1][:300]}"))
            T.pop((name0, t), None)
        elif key in idx:
            res["modify"] = res.get("modify", 0) + 1
    if "mod2p" in idx and parse_run(out[idx["mod2p"]])[0] != 0:
        T.pop((name0, "M2"), None)        # the perturbation itself was not accepted: variant not applicable
    if deep and parse_run(out[idx["read17"]])[0] != 0:
        res["problems"].append(("read-error", f"errors reading the 17-digit dump: {parse_run(out[idx['read17']])[1][:300]}"))
    # Every instance other than A runs in an equally fresh engine. The links that are judged (all at 1e-7):
    #   B17 vs D   the dump itself: same exact doubles, once through RAW text, once as object copy          → violation "followup"
    #              (a tied component re-derived while reading is attributed to tied-exchanger-rederived)
    #   B   vs B17 the 14 significant digits of the text, nothing else differs                              → raw-text-14-digits
    #   D   vs A   exact copy of every entity in a fresh engine vs the original engine                       → original-engine-warm-start
    #   E   vs D   Serializer copy vs object copy                                                           → violation "sercopy"
    #   M   vs B   restored + SOLUTION_MODIFY of its own totals/H/O/cb vs restored                          → violation "modify"
    for n_fu, (name, text) in enumerate(fu):
        ra, selA = T[(name, "A")]
        if ra[0] != 0:
            res["notes"].append(f"follow-up {name} fails on the original state (not judged)")
            continue
        tab = {t: T[(name, t)] for t in ("B", "B17", "D", "E", "M", "M1", "M2", "M3") if (name, t) in T}
        d_fails = "D" in tab and tab["D"][0][0] != 0
        for t, (rt, _) in tab.items():
            res["followups"] += 1
            if rt[0] != 0 and d_fails:
                # the calculation converges from the original engine's warm state but not in a fresh engine holding exact copies of
                # every entity: the same link (D vs A) as a numerical difference; the other fresh instances fail as D does
                if t == "D":
                    res["sig"].append(("original-engine-warm-start", f"follow-up {name} runs on the original but not on an exact object "
                                       f"copy in a fresh engine: {' '.join(rt[1].split())[:160]}"))
            elif rt[0] != 0:
                res["problems"].append(({"B": "followup", "B17": "followup", "D": "bincopy", "E": "sercopy"}.get(t, "modify"),
                                        f"follow-up {name} runs on the original state but fails on {t}: {rt[1][:300]}"))
        okay = {t: v[1] for t, v in tab.items() if v[0][0] == 0}
        links = []
        if "B17" in okay and "D" in okay:
            d = cells_differ(okay["D"], okay["B17"])
            if d and rederived:
                res["sig"].append(("tied-exchanger-rederived", f"follow-up {name}, object copy vs restored from exact text: {d}"))
                links.append(d)
            elif d:
                res["problems"].append(("followup", f"follow-up {name}: object copy vs instance restored from the (exact, 17-digit) RAW text: {d}"))
                links.append(d)
        if "B" in okay and "B17" in okay:
            d = cells_differ(okay["B17"], okay["B"])
            if d:
                res["sig"].append(("raw-text-14-digits", f"follow-up {name}, restored from 17-digit vs from 14-digit text: {d}"))
                links.append(d)
        if "D" in okay:
            d = cells_differ(selA, okay["D"])
            if d:
                res["sig"].append(("original-engine-warm-start", f"follow-up {name}, original vs exact object copy in a fresh engine: {d}"))
                links.append(d)
        if "E" in okay and "D" in okay:
            d = cells_differ(okay["D"], okay["E"])
            if d:
                res["problems"].append(("sercopy", f"follow-up {name}: Serializer copy vs object copy: {d}"))
        for t, how in (("M", "of its own totals (valence-state names)/H/O/cb"), ("M1", "of its element-summed totals (plain element names)/H/O/cb"),
                       ("M2", "of the element-summed totals/H/O/cb onto a solution of another composition and valence distribution"),
                       ("M3", "of the element-summed totals and then of the valence-state totals of the dump")):
            if t in ("M2", "M3") and "kin" in case["kinds"]:
                continue        # two MODIFYs in a row move the starting guesses far; a rate integration amplifies that beyond any fixed bound
            if t in okay and "B" in okay:
                # M1–M3 start the follow-up from other names / starting guesses than B; an adaptive rate integration (KINETICS) then
                # reproduces its result only to its own error tolerance, not to 1e-7: judged at 1e-5 there
                d = cells_differ(okay["B"], okay[t], 1e-5 if (t != "M" and "kin" in case["kinds"]) else None)
                if d:
                    res["problems"].append(("modify", f"follow-up {name}: restored + SOLUTION_MODIFY {how} vs restored: {d}"))
        if "B" in okay:
            d = cells_differ(selA, okay["B"])
            if d and not links and deep:
                res["notes"].append(f"original vs restored differ just beyond 1e-7 while every link is within it: {d}")
            elif d and not deep:
                res["problems"].append(("followup", f"follow-up {name}: original vs restored: {d}"))
    # ---- text of the exact copies
    if deep:
        nonneg = lambda ents: {k: v for k, v in ents.items() if k[1] >= 0}
        ea = nonneg(raw_entities(rawA))
        i0 = idx["copies"]
        eD = nonneg(raw_entities(unhx(out[i0 + 1].split()[1])))
        res["copies"] += 1
        if eD != ea:
            diff = [(k, p, ea[k].get(p), eD.get(k, {}).get(p)) for k in ea for p in sorted(set(ea[k]) | set(eD.get(k, {})))
                    if ea[k].get(p) != eD.get(k, {}).get(p)][:4]
            res["problems"].append(("bincopy", f"dump_raw of the StorageBin copy differs: {diff or sorted(set(ea) ^ set(eD))}"))
        eE = nonneg(raw_entities(unhx(out[i0 + 3].split()[1])))
        res["copies"] += 1
        # a binary copy of a binary copy is the same stream: Serialize∘Deserialize∘Serialize = Serialize (catches index slips)
        sa_, se_ = out[i0 + 4].split(";"), out[i0 + 5].split(";")
        if sa_ != se_:
            names = ("ints", "doubles", "words")
            part = next((n for n, x, y in zip(names, sa_, se_) if x != y), "length")
            j = names.index(part) if part in names else 0
            xs, ys = sa_[j].split(","), se_[j].split(",")
            at = next((n for n, (x, y) in enumerate(zip(xs, ys)) if x != y), min(len(xs), len(ys)))
            res["problems"].append(("sercopy", f"Serialize(Deserialize(Serialize(state))) differs from Serialize(state): first difference in {part} at index {at - 1}"))
        ser_kinds = {"SOLUTION_RAW", "EXCHANGE_RAW", "GAS_PHASE_RAW", "KINETICS_RAW", "EQUILIBRIUM_PHASES_RAW", "SOLID_SOLUTIONS_RAW",
                     "SURFACE_RAW", "REACTION_TEMPERATURE_RAW", "REACTION_PRESSURE_RAW"}
        miss = [k for k in ea if k[0] in ser_kinds and 0 <= k[1] <= 12 and k not in eE]
        if miss:
            res["problems"].append(("sercopy", f"entities lost by Serialize/Deserialize: {miss}"))
        res["ser_text_diffs"] = sorted({f"{k[0]}:{p.split('/')[-1].split('#')[0]}" for k in eE if k in ea for p in set(eE[k]) | set(ea[k])
                                        if eE[k].get(p) != ea[k].get(p)})
        # ---- stage 3 (own process: the copy constructor can take the process down): Phreeqc(const Phreeqc&) → InternalCopy
        ops4 = []
        fresh("A3", ops4)
        ops4 += [f"run A3 {hx(case['setup'])}", "rawall A3", "icopydiag A3", "icopyraw A3"]
        out, rc, err = run_ops(ctx, exe, ops4)
        good = len(out) == len(ops4) and rc == 0 and len(out[-1].split()) == 2 and out[-1].startswith("raw ")
        if not good:
            diag = next((l for l in out if l.startswith("diag ")), "")
            msg = unhx(diag.split(" msg=")[1]) if " msg=" in diag else ""
            text = f"Phreeqc copy constructor (InternalCopy) fails: rc={rc} {err[-80:].strip()} :: {msg[:160]}"
            if "Species for Pitzer parameter not defined" in msg:
                res["sig"].append(("copy-constructor-pitzer", text))
            else:
                res["problems"].append(("icopy", text))
        else:
            res["copies"] += 1
            e0 = nonneg(raw_entities(unhx(out[-3].split()[1])))
            eF = nonneg(raw_entities(unhx(out[-1].split()[1])))
            if eF != e0:
                diff = [(k, p, e0[k].get(p), eF.get(k, {}).get(p)) for k in e0 for p in sorted(set(e0[k]) | set(eF.get(k, {})))
                        if e0[k].get(p) != eF.get(k, {}).get(p)][:4]
                res["problems"].append(("icopy", f"dump_raw of the copy-constructed engine differs: {diff or sorted(set(e0) ^ set(eF))}"))
    return res


# ---------------------------------------------------------------------------------------------- model side
def model_status(ctx, tables):
    """per table: key -> status from `pmodel raw keys`; returns status_of(table, flat_path)"""
    names = [t["name"] for t in tables]
    out = ctx.pmodel("raw", "\n".join(f"keys {n}" for n in names) + "\n")
    st = {}
    for n, line in zip(names, out):
        st[n] = {}
        for item in line.split()[1:]:
            k, s = item.rsplit(":", 1)
            st[n][k.lower()] = s
    bytab = {t["name"]: t for t in tables}

    def status_of(tab, path):
        """flat path of rawparse (`component[X]/la`, `totals/Ca`, `temp`) → status of the key that owns the value"""
        parts = path.split("/")
        t = bytab[tab]
        for i, part in enumerate(parts):
            key = part.split("[")[0].split("#")[0]
            wk = next((k for k in t["written"] if k["key"].lower() == key.lower() or (key == "_" and k["key"] == "")), None)
            if wk is None:
                return f"unknown-key({tab}.{key})"
            if wk["kind"] == "nested" and i + 1 < len(parts):
                t = bytab[wk["child"]]
                continue
            s = st[t["name"]].get(wk["key"].lower() if wk["key"] else "_", "?")
            return s + ("+guarded" if wk["guard"][0] == "nonempty" else "")
        return "?"
    return status_of


def find_option_correspondence(ctx, exe, tables, n_random):
    """real CParser::find_option on the real vopts vs the Lean model, for written keys, their prefixes / case variants
    and random items; also the vopts vectors themselves vs the translator's extraction"""
    rng = ctx.rng
    qs = []
    for t in tables:
        items = set()
        for k in t["written"]:
            if k["key"]:
                items.add(k["key"])
                items.add(k["key"].upper())
                for j in range(1, len(k["key"])):
                    items.add(k["key"][:j])
        for o in t["vopts"]:
            items.add(o)
            items.add(o + "x")
            items.add(o[:max(1, len(o) // 2)])
        for _ in range(n_random):
            L = rng.randint(1, 6)
            items.add("".join(rng.choice("abcdefghilmnoprstuxy_0123AZ") for _ in range(L)))
        for it in sorted(items):
            for ex in ("0", "1"):
                qs.append((t["name"], it, ex))
    text = "\n".join(f"find {a} {hx(b)} {c}" for a, b, c in qs) + "\n"
    r = ctx.run_harness(exe, text + "\n".join(f"vopts {t['name']}" for t in tables) + "\n")
    impl = r.stdout.splitlines()
    model = ctx.pmodel("raw", text)
    bad = []
    for q, a, b in zip(qs, impl, model):
        if a != b:
            bad.append((q, a, b))
    for t, line in zip(tables, impl[len(qs):]):
        real = [unhx(h) for h in line.split()[1:]]
        if real != t["vopts"]:
            bad.append((("vopts", t["name"]), real, t["vopts"]))
    return len(qs), bad


def merge_correspondence(ctx, exe, n):
    """the real cxxNameDouble::merge_redox vs Model `mergeRedox` on random maps of element / valence-state names"""
    rng = ctx.rng
    elems = ["Fe", "F", "N", "Na", "S", "Si", "C", "Ca", "Cl", "H", "O", "Mn", "X", "Hfo_w", "Am"]

    def name():
        e = rng.choice(elems)
        r = rng.random()
        if r < 0.5:
            return e
        if r < 0.9:
            return f"{e}({rng.choice(['2', '3', '-3', '5', '0', '6', '-2', '4', '-4'])})"
        return rng.choice([e + "(", e + "(2)(3)", "(" + e, e + "2(x)", e.lower() + "(2)"])

    def nd(k):
        d = {}
        for _ in range(k):
            d[name()] = rng.randint(1, 99)
        return ",".join(f"{hx(a)}:{b}" for a, b in sorted(d.items())) or "-"
    qs = [f"merge {nd(rng.randint(0, 7))} {nd(rng.randint(0, 4))}" for _ in range(n)]
    r = ctx.run_harness(exe, "\n".join(qs) + "\n")
    impl = r.stdout.splitlines()
    model = ctx.pmodel("raw", "\n".join(qs) + "\n")
    bad = [(q, a, b) for q, a, b in zip(qs, impl, model) if a != b]
    if len(impl) != len(qs):
        bad.append(("harness answered", len(impl), len(qs)))
    multi = sum(1 for q in qs if len({unhx(i.split(":")[0]).split("(")[0] for i in q.split()[1].split(",") if i != "-" and "28" in i.split(":")[0]})
                < sum(1 for i in q.split()[1].split(",") if i != "-" and "28" in i.split(":")[0]))
    return len(qs), multi, bad


# ---------------------------------------------------------------------------------------------- known departures
# Each key is a departure of the real code from C10 whose cause has been traced (see the rule that attributes a difference to it
# in eval_case); each has a hand-minimised case that is evaluated on every run, so the finding is re-confirmed, not assumed.
SEL_GAS = ("SELECTED_OUTPUT 1\n -reset false\n -pH true\n -totals Na Cl C\n -gases CH4(g) H2O(g) CO2(g)\n")
SEL_EX = ("KNOBS\n -convergence_tolerance 1e-12\nSELECTED_OUTPUT 1\n -reset false\n -pH true\n -totals K Ca\n -molalities KX CaX2\n")
SEL_KIN = ("KNOBS\n -convergence_tolerance 1e-12\nSELECTED_OUTPUT 1\n -reset false\n -pH true\n -totals Na Ca C\n"
           " -kinetic_reactants Calcite MyRate\n")
TIED_SETUP = ("SOLUTION 1\n K 2.4\n Cl 0.4\nEND\nEQUILIBRIUM_PHASES 1\n Calcite 0 1e-5\nEXCHANGE 1\n X Calcite equilibrium_phase 0.05\n"
              " -equilibrate 1\nEND\nUSE solution 1\nUSE equilibrium_phases 1\nUSE exchange 1\nSAVE solution 1\nSAVE equilibrium_phases 1\n"
              "SAVE exchange 1\nEND\n")
MIN_CASES = {
    "original-engine-warm-start": dict(db="phreeqc.dat", adds="", kinds=["gas"], feat=["gas:fixed_volume"], react=True,
        setup="SOLUTION 1\n temp 60\n Na 1\n Cl 1\nEND\nGAS_PHASE 1\n -fixed_volume\n -volume 1\n -temperature 40\n CH4(g) 0.005\n H2O(g) 0.03\n"
              "END\nUSE solution 1\nUSE gas_phase 1\nREACTION 5\n NaCl 1\n 0.0005\nSAVE solution 1\nSAVE gas_phase 1\nEND\n",
        followups=[("use", SEL_GAS + "USE solution 1\nUSE gas_phase 1\nREACTION 9\n HCl 1\n 0.001\nEND\n")]),
    "non-finite-value-in-saved-state": dict(db="phreeqc.dat", adds="", kinds=["gas", "ss"], feat=["gas:fixed_volume", "gas:equilibrate"], react=True,
        setup="SOLUTION 1 water 1\nGAS_PHASE 1\n -fixed_volume\n -equilibrate 1\n CH4(g)\n CO2(g)\nSOLID_SOLUTIONS 1\n -comp1 Aragonite 0\n"
              " -comp2 Strontianite 0.001\n Carb2\nSAVE solution 1\n",
        followups=[("use", "USE solution 1\nEND\n")]),
    "tied-exchanger-rederived": dict(db="phreeqc.dat", adds="", kinds=["exch", "pp"], feat=["exch:phase-related"], react=True,
        setup=TIED_SETUP,
        followups=[("use", SEL_EX + "USE solution 1\nUSE equilibrium_phases 1\nUSE exchange 1\nREACTION 9\n HCl 1\n 0.0005\nEND\n")]),
}
CORPUS = vlib.ROOT / "corpus" / "C10"


# ---------------------------------------------------------------------------------------------- run
def eval_many(ctx, exe, cases, status_of, batch=96, workers=None):
    """evaluate cases in batches (bounded number of live harness processes and of results kept in memory)"""
    import resource
    workers = workers or min(12, vlib.NCPU)
    for i in range(0, len(cases), batch):
        chunk = cases[i:i + batch]
        with concurrent.futures.ThreadPoolExecutor(max_workers=workers) as ex:
            results = list(ex.map(lambda c: eval_case(ctx, exe, c, status_of), chunk))
        for c, r in zip(chunk, results):
            yield c, r
        ctx.cov["peak_rss_mb"] = {"python": resource.getrusage(resource.RUSAGE_SELF).ru_maxrss // 1024,
                                  "largest_child": resource.getrusage(resource.RUSAGE_CHILDREN).ru_maxrss // 1024}


def run(ctx):
    ok = True
    tables, info = None, None
    try:
        info = gen_raw.generate(ctx)
        tables = info["tables"]
        ctx.cov["translator"] = {k: info[k] for k in ("classes", "written_keys", "options", "cases", "sources")}
        ctx.cov["latent_not_demanded"] = info["latent"] + [f"{t['name']}::Deserialize pops {k} {x} only under a condition (empty name)"
                                                           for t in info["serializers"] for k, x in t["conditional_pops"]]
        ctx.cov["shape_notes"] = info["shape_notes"]
        ctx.cov["serializer_sequences"] = {"classes": len(info["serializers"]), "pushes": sum(len(t["ser"]) for t in info["serializers"]),
                                           "asymmetric": [list(d) for d in info["ser_defects"]]}
    except gen_raw.TranslatorError as e:
        ok = False
        ctx.proof_broken.append({"stage": "translator gen_raw.py fails closed", "error": str(e)})
        ctx.log("TRANSLATOR FAILS CLOSED:", e)
    if ok:
        ok = ctx.prove(["PhreeqcVerif.Properties.C10"])
    ctx.build_lib()
    exe = ctx.build_harness("ph_raw")
    evals = 0
    static = (info["defects"] + [(d[0], d[1], "Serialize/Deserialize", d[2]) for d in info["ser_defects"]]) if info else []
    ctx.cov["table_defects"] = [list(d) for d in static]
    status_of = (lambda tab, path: "unmodelled")
    if not ok:
        ctx.lake_build(["pmodel"])          # the model driver of the last good tables still serves the in-process correspondences
    if ctx.pmodel_path().exists():
        nm, multi, bad = merge_correspondence(ctx, exe, ctx.n(600, 20000))
        evals += nm
        ctx.cov["merge_redox_queries"] = {"total": nm, "with_several_valence_states_of_one_element": multi}
        if bad:
            q, a, b = bad[0]
            ctx.violation(f"cxxNameDouble::merge_redox of the built library disagrees with the model: {q} → real {a}, model {b}",
                          {"queries": [list(map(str, x)) for x in bad[:10]]}, found_input=True)
    if tables and ctx.pmodel_path().exists() and ok:
        fl = ctx.pmodel("raw", "failing\n")[0].split()[1:]
        lean_fail = {x.split(":")[0]: set(x.split(":")[1].split(",")) for x in fl}
        py_fail = {}
        for d in info["defects"]:
            py_fail.setdefault(d[0], set()).add(d[1])
        if lean_fail != py_fail:
            raise RuntimeError(f"obligation mirror in gen_raw.py and Lean `failing` disagree: {py_fail} vs {lean_fail}")
        status_of = model_status(ctx, tables)
        nq, bad = find_option_correspondence(ctx, exe, tables, ctx.n(20, 300))
        evals += nq
        ctx.cov["find_option_queries"] = nq
        if bad:
            ctx.violation(f"CParser::find_option / vopts of the built library disagree with the model: {bad[:3]}",
                          {"queries": [list(map(str, b)) for b in bad[:10]]}, found_input=True)
    t_start = time.time()
    # ---- corpus: minimised past failures (repaired defects) are replayed first and must pass completely
    corpus = sorted(CORPUS.glob("*.json")) if CORPUS.exists() else []
    for f in corpus:
        c = json.loads(f.read_text())["case"]
        r = eval_case(ctx, exe, c, status_of)
        evals += 1
        bad = [p for p in r["problems"]] + [(k, t) for k, t in r["sig"] if k not in MIN_CASES] + \
              ([("setup", "corpus case no longer runs")] if not r["judged"] else [])
        if bad:
            ctx.violation(f"corpus case {f.name}: {bad[0][0]}: {bad[0][1]}", {"case": c, "problem": list(bad[0]), "corpus": f.name})
    ctx.cov["corpus_cases"] = len(corpus)
    # ---- generated reaction states on the real code
    n = ctx.n(40, 1000)
    if not ok:
        n = max(n, 400)
    forced = ["iso", "iso", "surf", "gas", "ss", "kin", "exch", "pp", "mix", "temp", "pres", "rxn", "pitzer"]
    cases = [graw.gen_case(ctx.rng, forced[i] if i < len(forced) else None) for i in range(n)]
    feat_hist, ent_hist = {}, {}
    stats = dict(judged=0, setup_failed=0, timeouts=0, d1_ne_d2=0, followups=0, copies=0, modify=0)
    problems, sig_seen, distinct = [], {}, set()
    for c, r in eval_many(ctx, exe, cases, status_of):
        evals += 1
        for f in c["feat"]:
            feat_hist[f] = feat_hist.get(f, 0) + 1
        if not r["judged"]:
            stats["setup_failed"] += 1
            stats["timeouts"] += bool(r.get("timeout"))
            continue
        stats["judged"] += 1
        distinct.add(c["setup"])
        for e in r.get("entities", []):
            ent_hist[e] = ent_hist.get(e, 0) + 1
        stats["d1_ne_d2"] += r["d1_ne_d2"]
        stats["followups"] += r["followups"]
        stats["copies"] += r["copies"]
        stats["modify"] += int(r.get("modify") or 0)
        stats["multi_valence_states"] = stats.get("multi_valence_states", 0) + (r.get("valence_states", 0) >= 2)
        if len(ctx.cov["samples"]) < 2 and not r["problems"] and not r["sig"]:
            ctx.sample({"db": c["db"], "setup": c["setup"][:600], "entities": r["entities"]})
        for key, text in r["sig"]:
            sig_seen.setdefault(key, []).append((c, text))
        for p in r["problems"]:
            if p[0] != "setup":
                problems.append((c, p))
    ctx.cov["input_distribution"] = dict(sorted(feat_hist.items()))
    ctx.cov["entities_dumped"] = ent_hist
    ctx.cov["case_stats"] = stats
    ctx.cov["attributed_differences"] = {k: len({id(c) for c, _ in v}) for k, v in sig_seen.items()}
    # ---- unattributed problems are violations (one per class, shrunk within a time budget)
    seen_classes = set()
    for c, p in problems:
        if p[0] in seen_classes:
            continue
        seen_classes.add(p[0])
        small = shrink_case(ctx, exe, c, p[0], status_of) if time.time() - t_start < ctx.n(100, 900) else c
        r = eval_case(ctx, exe, small, status_of)
        what = next((q for q in r["problems"] if q[0] == p[0]), p)
        if p[0] == "model":
            # Q: model and code disagree on which keys survive; direct oracle = the other problem classes of this case
            if [q for q in r["problems"] if q[0] not in ("model", "setup")]:
                continue            # reported under its own class
            ctx.violation(f"model/code disagreement (text of first and second dump): {what[1]}", {"case": small, "problem": list(what)},
                          found_input=False)
        else:
            ctx.violation(f"{what[0]}: {what[1]}", {"case": small, "problem": list(what)})
    # ---- traced departures: re-confirmed on the hand-minimised case, routed as findings
    for key, mc in MIN_CASES.items():
        r = eval_case(ctx, exe, mc, status_of)
        evals += 1
        hit = [t for k, t in r["sig"] if k == key]
        if hit:
            ctx.finding(key, hit[0][:300], {"case": mc, "problem": [key, hit[0]], "seen_in_generated_cases": len(sig_seen.get(key, []))})
        elif key in sig_seen:
            c, text = sig_seen[key][0]
            ctx.finding(key, text[:300], {"case": c, "problem": [key, text], "note": "not reproduced by the minimal case"})
        other = [p for p in r["problems"] if p[0] != "setup"] + [(k, t) for k, t in r["sig"] if k not in MIN_CASES]
        if other:
            ctx.violation(f"{other[0][0]}: {other[0][1]}", {"case": mc, "problem": list(other[0])})
    for key in sig_seen:
        if key not in MIN_CASES:
            c, text = sig_seen[key][0]
            ctx.violation(f"{key}: {text}", {"case": c, "problem": [key, text]})
    # ---- defects of the regenerated tables (obligation fails): exempted from the theorems, so each must be reported
    for d in static:
        key = f"{d[0]}.{d[2]}.{d[1]}"
        if (ctx.prop, key) in ctx.known:
            ctx.finding(key, "", {"defect": list(d)})
        elif not any(v[1] for v in ctx.violations):
            ctx.violation(f"obligation {d[1]} fails for the regenerated table {d[0]} (key {d[2]}: {d[3]}); no failing input found",
                          {"defect": list(d)}, found_input=False)
        else:
            ctx.log(f"table defect {d} (a failing input is reported above)")
    ctx.cov["evaluations"] = evals
    ctx.cov["distinct_nontrivial"] = len(distinct)
    ctx.cov["rule"] = ("find_option: every written key, all its prefixes, upper-case form, every option, option+x, half options and random "
                       "items, prefix and exact mode, on the real vopts vectors vs pmodel raw. States: seeded inputs defining 1–5 entity "
                       "kinds (histogram in input_distribution) on phreeqc.dat / pitzer.dat / iso.dat, 75 % reacted and SAVEd; per state: dump, "
                       "read into a fresh instance (no errors), dump, read, dump (equal text), follow-ups (USE… / RUN_CELLS, convergence "
                       "tolerance 1e-12) on the original, the restored instance, a StorageBin copy, a Serializer copy and a restored instance "
                       "after a SOLUTION_MODIFY of totals/H/O/cb, all against the original at 1e-7; Serializer stream idempotence; copy "
                       "constructor; differences between first and second dump must be on keys the model calls dropped. Links judged at 1e-7: "
                       "restored-from-exact-17-digit-text vs object copy (the dump itself: violation), 14-digit vs 17-digit restore "
                       "(raw-text-14-digits), object copy in a fresh engine vs original (original-engine-warm-start), Serializer copy vs object "
                       "copy, SOLUTION_MODIFY vs restored. distinct = "
                       "distinct setup inputs that ran without error (judged).")
    if not ok and not ctx.violations:
        ctx.violation("proof obligation / translator of C10 no longer checks and no failing input was found",
                      {"broken": ctx.proof_broken}, found_input=False)


def shrink_case(ctx, exe, case, cls, status_of):
    """drop whole input lines of the setup while the same problem class persists"""
    lines = case["setup"].splitlines()
    t0 = time.time()

    def fails(sub):
        if time.time() - t0 > 120:
            return False
        c = dict(case, setup="\n".join(sub) + "\n")
        try:
            r = eval_case(ctx, exe, c, status_of)
        except Exception:
            return False
        return any(p[0] == cls for p in r["problems"])
    try:
        small = shrink_list(lines, fails, max_iter=25)
    except Exception:
        small = lines
    return dict(case, setup="\n".join(small) + "\n")


def replay(ctx, data):
    ctx.build_lib()
    exe = ctx.build_harness("ph_raw")
    if "case" not in data:
        run(ctx)
        return
    try:
        info = gen_raw.generate(ctx)
        ctx.lake_build(["pmodel"])
        status_of = model_status(ctx, info["tables"])
    except Exception as e:
        print("model side unavailable:", e)
        status_of = (lambda tab, path: "unmodelled")
    r = eval_case(ctx, exe, data["case"], status_of)
    print("replay: problems", r["problems"], "attributed", r["sig"], r.get("notes"))
    bad = [p for p in r["problems"] if p[0] != "setup"]
    if bad:
        ctx.violation(f"replayed case still fails: {bad[0][0]}: {bad[0][1]}", data)
    for key, text in r["sig"]:
        ctx.finding(key, text[:300], data)


MANIFEST = dict(
    technique="Lean 4: decide +kernel over writer/reader tables regenerated from every dump_raw/read_raw/vopts of the current source, lifted by a generic fixed-point theorem about an abstract record print/read model; differential round trips on the real library",
    text=("Round 2: merge_plain_total / merge_valence_total / modify_element_totals (cxxNameDouble::merge_redox, all maps and names; tied "
          "in-process to the real function on random maps); serialize_symmetric (push/pop sequences of Serialize/Deserialize of 20 classes, "
          "263 pushes, regenerated from source) + serializer_round_trip (generic). Theorems (Properties/C10.lean, Lemmas/Raw.lean): find_option selects the FIRST option that starts with the case-folded item "
          "(findOption_first, findOption_shadowed, findOption_none — all items, all lists); over the complete regenerated tables of 20 entity "
          "classes (180 written keys, 208 options, 198 cases): keys_known, no_cross_wiring, state_restored, header_symmetric, required_defined, "
          "guards_ok, fields_distinct, continuation_ok (tables_ok, decide +kernel); exempt_are_defective (a table is only exempted when it "
          "provably fails); cycle_idem / raw_fixed_point: for EVERY system satisfying the structural obligations and every record, "
          "dump∘read∘dump∘read∘dump = dump∘read∘dump; raw_fixed_point_tables instantiates it for every judged class; state_member_restored. "
          "Tie: translator re-run on every check (fails closed on unknown statement shapes; Python mirror of the obligations cross-checked with "
          "the Lean `failing`); real CParser::find_option on the real vopts vs the model; generated states of every entity kind: dump → fresh "
          "instance → dump → fresh instance → dump (no errors, equal text after ≤1 cycle), follow-up calculations at 1e-7, SOLUTION_MODIFY, "
          "StorageBin / Serializer / copy-constructor (InternalCopy) copies; first-vs-second dump differences must be predicted by the model."),
    note=("Trusted: gen_raw.py (regex/brace extraction), rawparse.py, harness/ph_raw.cpp, g++. Assumption (Sys.ValOk): a double printed "
          "with 17 significant digits — the translator demands precision(DBL_DIG + 2) in every dump_raw — is read back bit-exactly "
          "(IEEE-754 decimal round trip); exercised by comparing the normal restore with the harness's own exact 17-digit restore (B vs "
          "B17), not proved. Follow-ups run with convergence_tolerance 1e-12. Departures traced to their cause and routed through "
          "ctx.finding: original-engine-warm-start (exact object copy in a fresh engine differs from the original), "
          "tied-exchanger-rederived (update_min/kin_exchange rescales tied components whenever RAW input is read). Repaired defects are "
          "corpus cases (corpus/C10) that must pass. Partial: the record model is flat per class (a nested block is one field whose norm "
          "is the child's cycle); continuation lines of name/value blocks whose name equals an option (e.g. element La in an exchanger's "
          "totals) are outside the model; Serialize/Deserialize sequences are compared dynamically only (stream idempotence)."),
)
