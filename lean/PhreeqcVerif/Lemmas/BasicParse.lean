import PhreeqcVerif.Model.BasicGrammar
/-! Lemmas for C17: the level-indexed parser of `Model/BasicExpr.lean` returns the denotation of every well-formed
derivation of the expression grammar (`Model/BasicGrammar.lean`). Core Lean only. -/
namespace PhreeqcVerif.Basic
variable {α : Type}

theorem pLvl_six (n l : Nat) (ts : List (Tok α)) (h : 6 ≤ l) : pLvl (n+1) l ts = pFactor n ts := by
  rw [pLvl]; simp [h]

theorem pLvl_five_ok {n : Nat} {ts r : List (Tok α)} {a : Expr α}
    (h : pLvl n 6 ts = .ok (a, r)) (hu : headIs r .up = false) : pLvl (n+1) 5 ts = .ok (a, r) := by
  rw [pLvl]; simp [h, hu]

theorem pLvl_five_up {n : Nat} {ts r r' : List (Tok α)} {a b : Expr α}
    (h : pLvl n 6 ts = .ok (a, r)) (hu : headIs r .up = true) (hb : pLvl n 5 r.tail = .ok (b, r')) :
    pLvl (n+1) 5 ts = .ok (.bin .up a b, r') := by
  rw [pLvl]; simp [h, hu, hb]

theorem pLvl_low_ok {n l : Nat} {ts r : List (Tok α)} {a : Expr α} (hl : l ≤ 4)
    (h : pLvl n (l + 1) ts = .ok (a, r)) : pLvl (n+1) l ts = pLoop n l a r := by
  rw [pLvl]
  have h1 : ¬ (l ≥ 6) := by omega
  have h2 : ¬ (l = 5) := by omega
  simp [h1, h2, h]

theorem pLoop_none {n l : Nat} {acc : Expr α} {ts : List (Tok α)} (h : headOp (opAtLevel l) ts = none) :
    pLoop (n+1) l acc ts = .ok (acc, ts) := by
  rw [pLoop]; simp [h]

theorem pLoop_some {n l : Nat} {acc b : Expr α} {ts r : List (Tok α)} {op : BinOp}
    (h : headOp (opAtLevel l) ts = some op) (hb : pLvl n (l + 1) ts.tail = .ok (b, r)) :
    pLoop (n+1) l acc ts = pLoop n l (.bin op acc b) r := by
  rw [pLoop]; simp [h, hb]

theorem pExpr_succ (n : Nat) (ts : List (Tok α)) : pExpr (n+1) ts = pLvl n 0 ts := by
  rw [pExpr]

theorem opAtLevel_level {l : Nat} {k : K} {op : BinOp} (h : opAtLevel l k = some op) :
    tokOpLevel (.k k : Tok α) = some l ∧ l ≤ 4 := by
  match l with
  | 0 => cases k <;> simp_all [opAtLevel, exprOp, tokOpLevel]
  | 1 => cases k <;> simp_all [opAtLevel, andOp, tokOpLevel]
  | 2 => cases k <;> simp_all [opAtLevel, relOp, tokOpLevel]
  | 3 => cases k <;> simp_all [opAtLevel, sexprOp, tokOpLevel]
  | 4 => cases k <;> simp_all [opAtLevel, termOp, tokOpLevel]
  | n + 5 => simp [opAtLevel] at h

theorem opAtLevel_kOfBin {op : BinOp} {l : Nat} (h : binLevel op = l) (hl : l ≤ 4) :
    opAtLevel l (kOfBin op) = some op := by
  subst h
  cases op <;> first | rfl | (simp [binLevel] at hl)

theorem tokOpLevel_kOfBin (op : BinOp) : tokOpLevel (.k (kOfBin op) : Tok α) = some (binLevel op) := by
  cases op <;> rfl

theorem unFnOfK_kOfUn (f : UnFn) : unFnOfK (kOfUn f) = some f := by cases f <;> rfl
theorem trimFnOfK_kOfTrim (f : TrimFn) : trimFnOfK (kOfTrim f) = some f := by cases f <;> rfl
theorem unFnOfK_kOfTrim (f : TrimFn) : unFnOfK (kOfTrim f) = none := by cases f <;> rfl

/-! ### what follows an expression -/

theorem FollowOk.mono {l m : Nat} {rest : List (Tok α)} (h : FollowOk l rest) (hm : l ≤ m) : FollowOk m rest := by
  cases rest with
  | nil => trivial
  | cons t r => exact ⟨h.1, fun j hj => Nat.lt_of_lt_of_le (h.2 j hj) hm⟩

theorem FollowOk.not_lp {l : Nat} {rest : List (Tok α)} (h : FollowOk l rest) : headIs rest .lp = false := by
  cases rest with
  | nil => rfl
  | cons t r => exact h.1

theorem FollowOk.headOp_none {l : Nat} {rest : List (Tok α)} (h : FollowOk l rest) :
    headOp (opAtLevel l) rest = none := by
  cases rest with
  | nil => rfl
  | cons t r =>
    cases t with
    | k k =>
      cases hk : opAtLevel l k with
      | none => simp [headOp, hk]
      | some op =>
        have := (opAtLevel_level (α := α) hk).1
        exact absurd (h.2 l this) (Nat.lt_irrefl l)
    | _ => rfl

theorem FollowOk.not_up {rest : List (Tok α)} (h : FollowOk 5 rest) : headIs rest .up = false := by
  cases rest with
  | nil => rfl
  | cons t r =>
    cases t with
    | k k =>
      cases k <;> first | rfl | exact absurd (h.2 5 rfl) (Nat.lt_irrefl 5)
    | _ => rfl

theorem followOk_op (op : BinOp) (l : Nat) (r : List (Tok α)) (h : binLevel op < l) :
    FollowOk l ((.k (kOfBin op) : Tok α) :: r) := by
  refine ⟨?_, ?_⟩
  · cases op <;> rfl
  · intro j hj
    rw [tokOpLevel_kOfBin] at hj
    cases hj
    exact h

theorem followOk_rp (l : Nat) (r : List (Tok α)) : FollowOk l ((.k .rp : Tok α) :: r) :=
  ⟨rfl, fun j hj => by simp [tokOpLevel] at hj⟩

theorem followOk_comma (l : Nat) (r : List (Tok α)) : FollowOk l ((.k .comma : Tok α) :: r) :=
  ⟨rfl, fun j hj => by simp [tokOpLevel] at hj⟩

theorem followOk_args (l : Nat) (a : DArgs α) (rest : List (Tok α)) : FollowOk l (a.flat ++ rest) := by
  cases a with
  | nil => simpa [DArgs.flat] using followOk_rp l rest
  | cons d tl => simpa [DArgs.flat] using followOk_comma l (d.flat ++ (tl.flat ++ rest))

theorem followOk_tail {L : Nat} {tl : DTail α} {rest : List (Tok α)} (hw : tl.WF L) (hf : FollowOk L rest) :
    FollowOk (L + 1) (tl.flat ++ rest) := by
  cases tl with
  | nil => simpa [DTail.flat] using hf.mono (Nat.le_succ L)
  | cons op d tl' =>
    have h1 : binLevel op = L := hw.1
    simp only [DTail.flat, List.append_assoc, List.cons_append, List.nil_append]
    exact followOk_op op (L + 1) _ (by omega)

/-! ### from the level where a derivation is recognised down to the level where the parse started -/

theorem descend {ts rest : List (Tok α)} {e : Expr α} :
    ∀ (d k N : Nat), k ≤ 6 → 1 ≤ N → (∀ n, n ≥ N → pLvl n k ts = .ok (e, rest)) →
      ∀ l, l + d = k → FollowOk l rest → ∀ n, n ≥ N + d → pLvl n l ts = .ok (e, rest) := by
  intro d
  induction d with
  | zero =>
    intro k N _ _ h l hl _ n hn
    have : l = k := by omega
    subst this
    exact h n (by omega)
  | succ d ih =>
    intro k N hk hN h l hl hf n hn
    have hnext := ih k N hk hN h (l + 1) (by omega) (hf.mono (Nat.le_succ l))
    obtain ⟨m, rfl⟩ : ∃ m, n = m + 1 := ⟨n - 1, by omega⟩
    have hm := hnext m (by omega)
    by_cases h5 : l = 5
    · subst h5
      exact pLvl_five_ok hm hf.not_up
    · have hl4 : l ≤ 4 := by omega
      rw [pLvl_low_ok hl4 hm]
      obtain ⟨m', rfl⟩ : ∃ m', m = m' + 1 := ⟨m - 1, by omega⟩
      exact pLoop_none hf.headOp_none

/-- a factor that is recognised by `pFactor` is recognised at every level when nothing that continues an
expression follows -/
theorem of_factor {ts rest : List (Tok α)} {e : Expr α} (N : Nat)
    (h : ∀ n, n ≥ N → pFactor n ts = .ok (e, rest)) (l : Nat) (hl : l ≤ 6) (hf : FollowOk l rest) :
    ∀ n, n ≥ N + 1 + (6 - l) → pLvl n l ts = .ok (e, rest) := by
  have h6 : ∀ n, n ≥ N + 1 → pLvl n 6 ts = .ok (e, rest) := by
    intro n hn
    obtain ⟨m, rfl⟩ : ∃ m, n = m + 1 := ⟨n - 1, by omega⟩
    rw [pLvl_six m 6 ts (Nat.le_refl 6)]
    exact h m (by omega)
  exact descend (6 - l) 6 (N + 1) (Nat.le_refl 6) (by omega) h6 l (by omega) hf

theorem pFactor_of_pLvl6 {ts rest : List (Tok α)} {e : Expr α} {N : Nat}
    (h : ∀ n, n ≥ N → pLvl n 6 ts = .ok (e, rest)) : ∀ n, n ≥ N → pFactor n ts = .ok (e, rest) := by
  intro n hn
  have := h (n + 1) (by omega)
  rwa [pLvl_six n 6 ts (Nat.le_refl 6)] at this

/-! ### `pFactor` on each factor form -/

theorem requireK_cons (k : K) (r : List (Tok α)) : requireK k ((.k k : Tok α) :: r) = .ok r := by
  simp [requireK, Tok.isK]

theorem pFactor_num (n : Nat) (x : α) (r : List (Tok α)) : pFactor (n+1) (.num x :: r) = .ok (.num x, r) := by
  rw [pFactor]
theorem pFactor_str (n : Nat) (s : String) (r : List (Tok α)) : pFactor (n+1) (.str s :: r) = .ok (.str s, r) := by
  rw [pFactor]
theorem pFactor_var (n : Nat) (v : String) (r : List (Tok α)) (h : headIs r .lp = false) :
    pFactor (n+1) (.var v :: r) = .ok (.var v .nil, r) := by
  rw [pFactor]; simp [h]
theorem pFactor_eol (n : Nat) (r : List (Tok α)) : pFactor (n+1) (.k .eol_ :: r) = .ok (.eol, r) := by
  rw [pFactor]; simp [unFnOfK, trimFnOfK]
theorem pFactor_eolNotab (n : Nat) (r : List (Tok α)) : pFactor (n+1) (.k .eol_notab_ :: r) = .ok (.eolNotab, r) := by
  rw [pFactor]; simp [unFnOfK, trimFnOfK]
theorem pFactor_noNewline (n : Nat) (r : List (Tok α)) : pFactor (n+1) (.k .no_newline_ :: r) = .ok (.noNewline, r) := by
  rw [pFactor]; simp [unFnOfK, trimFnOfK]

theorem pFactor_paren {n : Nat} {r r1 : List (Tok α)} {e : Expr α}
    (h : pExpr n r = .ok (e, (.k .rp : Tok α) :: r1)) : pFactor (n+1) (.k .lp :: r) = .ok (e, r1) := by
  rw [pFactor]; simp [unFnOfK, trimFnOfK, h, requireK_cons]

theorem pFactor_un {n : Nat} {r r' : List (Tok α)} {e : Expr α} (f : UnFn)
    (h : pFactor n r = .ok (e, r')) : pFactor (n+1) (.k (kOfUn f) :: r) = .ok (.un f e, r') := by
  cases f <;> (simp only [kOfUn]; rw [pFactor] <;> simp [unFnOfK, h])

theorem pFactor_trim {n : Nat} {r r' : List (Tok α)} {e : Expr α} (f : TrimFn)
    (h : pFactor n r = .ok (e, (.k .rp : Tok α) :: r')) :
    pFactor (n+1) (.k (kOfTrim f) :: .k .lp :: r) = .ok (.trimf f e, r') := by
  cases f <;> (simp only [kOfTrim]; rw [pFactor] <;> simp [unFnOfK, trimFnOfK, requireK_cons, h])

theorem pFactor_instr {n : Nat} {r r1 r2 : List (Tok α)} {a b : Expr α}
    (ha : pFactor n r = .ok (a, (.k .comma : Tok α) :: r1))
    (hb : pFactor n r1 = .ok (b, (.k .rp : Tok α) :: r2)) :
    pFactor (n+1) (.k .instr :: .k .lp :: r) = .ok (.instr a b, r2) := by
  rw [pFactor]; simp [unFnOfK, trimFnOfK, requireK_cons, ha, hb]

theorem pFactor_pad {n : Nat} {r r1 r2 : List (Tok α)} {a b : Expr α}
    (ha : pExpr n r = .ok (a, (.k .comma : Tok α) :: r1))
    (hb : pExpr n r1 = .ok (b, (.k .rp : Tok α) :: r2)) :
    pFactor (n+1) (.k .pad :: .k .lp :: r) = .ok (.pad a b, r2) := by
  rw [pFactor]; simp [unFnOfK, trimFnOfK, requireK_cons, ha, hb]

theorem pFactor_mid2 {n : Nat} {r r1 r2 : List (Tok α)} {a b : Expr α}
    (ha : pExpr n r = .ok (a, (.k .comma : Tok α) :: r1))
    (hb : pExpr n r1 = .ok (b, (.k .rp : Tok α) :: r2)) :
    pFactor (n+1) (.k .mid_ :: .k .lp :: r) = .ok (.mid2 a b, r2) := by
  rw [pFactor]; simp [unFnOfK, trimFnOfK, requireK_cons, ha, hb, headIs, Tok.isK]

theorem pFactor_mid3 {n : Nat} {r r1 r2 r3 : List (Tok α)} {a b c : Expr α}
    (ha : pExpr n r = .ok (a, (.k .comma : Tok α) :: r1))
    (hb : pExpr n r1 = .ok (b, (.k .comma : Tok α) :: r2))
    (hc : pExpr n r2 = .ok (c, (.k .rp : Tok α) :: r3)) :
    pFactor (n+1) (.k .mid_ :: .k .lp :: r) = .ok (.mid3 a b c, r3) := by
  rw [pFactor]; simp [unFnOfK, trimFnOfK, requireK_cons, ha, hb, hc, headIs, Tok.isK]

theorem pFactor_fmt {n : Nat} {r r1 r2 r3 : List (Tok α)} {a b c : Expr α} (isE : Bool)
    (ha : pExpr n r = .ok (a, (.k .comma : Tok α) :: r1))
    (hb : pExpr n r1 = .ok (b, (.k .comma : Tok α) :: r2))
    (hc : pExpr n r2 = .ok (c, (.k .rp : Tok α) :: r3)) :
    pFactor (n+1) (.k (if isE then .str_e_ else .str_f_) :: .k .lp :: r) = .ok (.fmt isE a b c, r3) := by
  cases isE <;> (simp only [Bool.false_eq_true, if_false, if_true]; rw [pFactor] <;>
    simp [unFnOfK, trimFnOfK, requireK_cons, ha, hb, hc])

theorem pExpr_of_pLvl0 {ts rest : List (Tok α)} {e : Expr α} {N : Nat}
    (h : ∀ n, n ≥ N → pLvl n 0 ts = .ok (e, rest)) : ∀ n, n ≥ N + 1 → pExpr n ts = .ok (e, rest) := by
  intro n hn
  obtain ⟨m, rfl⟩ : ∃ m, n = m + 1 := ⟨n - 1, by omega⟩
  rw [pExpr_succ]; exact h m (by omega)


/-! ### argument lists -/

theorem pArgsTail_rp (n : Nat) (r : List (Tok α)) : pArgsTail (n+1) ((.k .rp : Tok α) :: r) = .ok (.nil, r) := by
  rw [pArgsTail]; simp [headIs, Tok.isK, requireK]

theorem pArgsTail_comma {n : Nat} {r r1 r2 : List (Tok α)} {e : Expr α} {rest : Args α}
    (h1 : pExpr n r = .ok (e, r1)) (h2 : pArgsTail n r1 = .ok (rest, r2)) :
    pArgsTail (n+1) ((.k .comma : Tok α) :: r) = .ok (.cons e rest, r2) := by
  rw [pArgsTail]; simp [headIs, Tok.isK, h1, h2]

theorem pFactor_varSub {n : Nat} {r r1 r2 : List (Tok α)} {e : Expr α} {rest : Args α} (v : String)
    (h1 : pExpr n r = .ok (e, r1)) (h2 : pArgsTail n r1 = .ok (rest, r2)) :
    pFactor (n+1) (.var v :: .k .lp :: r) = .ok (.var v (.cons e rest), r2) := by
  rw [pFactor]; simp [headIs, Tok.isK, h1, h2]

theorem pFactor_get0 (n : Nat) (r : List (Tok α)) :
    pFactor (n+1) (.k .get :: .k .lp :: .k .rp :: r) = .ok (.get .nil, r) := by
  rw [pFactor]; simp [unFnOfK, trimFnOfK, requireK_cons, headIs, Tok.isK]

theorem pFactor_getS0 (n : Nat) (r : List (Tok α)) :
    pFactor (n+1) (.k .get_ :: .k .lp :: .k .rp :: r) = .ok (.getS .nil, r) := by
  rw [pFactor]; simp [unFnOfK, trimFnOfK, requireK_cons, headIs, Tok.isK]

theorem pFactor_get {n : Nat} {r r1 r2 : List (Tok α)} {e : Expr α} {rest : Args α}
    (hrp : headIs r .rp = false) (h1 : pExpr n r = .ok (e, r1)) (h2 : pArgsTail n r1 = .ok (rest, r2)) :
    pFactor (n+1) (.k .get :: .k .lp :: r) = .ok (.get (.cons e rest), r2) := by
  rw [pFactor]; simp [unFnOfK, trimFnOfK, requireK_cons, hrp, h1, h2]

theorem pFactor_getS {n : Nat} {r r1 r2 : List (Tok α)} {e : Expr α} {rest : Args α}
    (hrp : headIs r .rp = false) (h1 : pExpr n r = .ok (e, r1)) (h2 : pArgsTail n r1 = .ok (rest, r2)) :
    pFactor (n+1) (.k .get_ :: .k .lp :: r) = .ok (.getS (.cons e rest), r2) := by
  rw [pFactor]; simp [unFnOfK, trimFnOfK, requireK_cons, hrp, h1, h2]

/-- the token string of a derivation never starts with a right parenthesis -/
theorem flat_head_not_rp : ∀ (d : Deriv α) (rest : List (Tok α)), headIs (d.flat ++ rest) .rp = false
  | .num _, _ | .str _, _ | .var _, _ | .eol, _ | .eolNotab, _ | .noNewline, _ | .paren _, _
  | .instr _ _, _ | .pad _ _, _ | .mid2 _ _, _ | .mid3 _ _ _, _ | .varSub _ _ _, _ | .get0, _ | .get _ _, _
  | .getS0, _ | .getS _ _, _ => by simp [Deriv.flat, headIs, Tok.isK]
  | .fmt isE _ _ _, _ => by cases isE <;> simp [Deriv.flat, headIs, Tok.isK]
  | .un f _, _ => by cases f <;> simp [Deriv.flat, headIs, Tok.isK, kOfUn]
  | .trimf f _, _ => by cases f <;> simp [Deriv.flat, headIs, Tok.isK, kOfTrim]
  | .up a b, rest => by
    have := flat_head_not_rp a ((.k .up : Tok α) :: (b.flat ++ rest))
    simpa [Deriv.flat] using this
  | .chain _ f r, rest => by
    have := flat_head_not_rp f (r.flat ++ rest)
    simpa [Deriv.flat] using this

/-! ### the parser returns the denotation of every well-formed derivation -/

mutual
theorem roundtrip_deriv (d : Deriv α) (hw : d.WF) (rest : List (Tok α)) (l : Nat) (hl : l ≤ d.level)
    (hf : FollowOk l rest) : ∃ N, ∀ n, n ≥ N → pLvl n l (d.flat ++ rest) = .ok (d.den, rest) := by
  have hl6 : l ≤ 6 := by
    have : d.level ≤ 6 := by cases d <;> simp [Deriv.level] <;> (have := hw.1; omega)
    omega
  match d, hw, hl with
  | .num x, _, _ =>
    exact ⟨_, of_factor 1 (fun n hn => by
      obtain ⟨m, rfl⟩ : ∃ m, n = m + 1 := ⟨n - 1, by omega⟩
      exact pFactor_num m x rest) l hl6 hf⟩
  | .str s, _, _ =>
    exact ⟨_, of_factor 1 (fun n hn => by
      obtain ⟨m, rfl⟩ : ∃ m, n = m + 1 := ⟨n - 1, by omega⟩
      exact pFactor_str m s rest) l hl6 hf⟩
  | .var v, _, _ =>
    exact ⟨_, of_factor 1 (fun n hn => by
      obtain ⟨m, rfl⟩ : ∃ m, n = m + 1 := ⟨n - 1, by omega⟩
      exact pFactor_var m v rest hf.not_lp) l hl6 hf⟩
  | .eol, _, _ =>
    exact ⟨_, of_factor 1 (fun n hn => by
      obtain ⟨m, rfl⟩ : ∃ m, n = m + 1 := ⟨n - 1, by omega⟩
      exact pFactor_eol m rest) l hl6 hf⟩
  | .eolNotab, _, _ =>
    exact ⟨_, of_factor 1 (fun n hn => by
      obtain ⟨m, rfl⟩ : ∃ m, n = m + 1 := ⟨n - 1, by omega⟩
      exact pFactor_eolNotab m rest) l hl6 hf⟩
  | .noNewline, _, _ =>
    exact ⟨_, of_factor 1 (fun n hn => by
      obtain ⟨m, rfl⟩ : ∃ m, n = m + 1 := ⟨n - 1, by omega⟩
      exact pFactor_noNewline m rest) l hl6 hf⟩
  | .paren d1, hw, _ =>
    obtain ⟨N1, h1⟩ := roundtrip_deriv d1 hw ((.k .rp : Tok α) :: rest) 0 (Nat.zero_le _) (followOk_rp 0 rest)
    refine ⟨_, of_factor (N1 + 2) (fun n hn => ?_) l hl6 hf⟩
    obtain ⟨m, rfl⟩ : ∃ m, n = m + 1 := ⟨n - 1, by omega⟩
    have := pExpr_of_pLvl0 h1 m (by omega)
    simpa [Deriv.flat, Deriv.den] using pFactor_paren this
  | .un f d1, hw, _ =>
    obtain ⟨N1, h1⟩ := roundtrip_deriv d1 hw.2 rest 6 (by rw [hw.1]; exact Nat.le_refl 6) (hf.mono hl6)
    refine ⟨_, of_factor (N1 + 1) (fun n hn => ?_) l hl6 hf⟩
    obtain ⟨m, rfl⟩ : ∃ m, n = m + 1 := ⟨n - 1, by omega⟩
    have := pFactor_of_pLvl6 h1 m (by omega)
    simpa [Deriv.flat, Deriv.den] using pFactor_un f this
  | .trimf f d1, hw, _ =>
    obtain ⟨N1, h1⟩ := roundtrip_deriv d1 hw.2 ((.k .rp : Tok α) :: rest) 6 (by rw [hw.1]; exact Nat.le_refl 6)
      (followOk_rp 6 rest)
    refine ⟨_, of_factor (N1 + 1) (fun n hn => ?_) l hl6 hf⟩
    obtain ⟨m, rfl⟩ : ∃ m, n = m + 1 := ⟨n - 1, by omega⟩
    have := pFactor_of_pLvl6 h1 m (by omega)
    simpa [Deriv.flat, Deriv.den] using pFactor_trim f this
  | .instr a b, hw, _ =>
    obtain ⟨Nb, hb⟩ := roundtrip_deriv b hw.2.2.2 ((.k .rp : Tok α) :: rest) 6
      (by rw [hw.2.2.1]; exact Nat.le_refl 6) (followOk_rp 6 rest)
    obtain ⟨Na, ha⟩ := roundtrip_deriv a hw.2.1 ((.k .comma : Tok α) :: (b.flat ++ (.k .rp : Tok α) :: rest)) 6
      (by rw [hw.1]; exact Nat.le_refl 6) (followOk_comma 6 _)
    refine ⟨_, of_factor (Na + Nb + 1) (fun n hn => ?_) l hl6 hf⟩
    obtain ⟨m, rfl⟩ : ∃ m, n = m + 1 := ⟨n - 1, by omega⟩
    have h1 := pFactor_of_pLvl6 ha m (by omega)
    have h2 := pFactor_of_pLvl6 hb m (by omega)
    simpa [Deriv.flat, Deriv.den] using pFactor_instr h1 h2
  | .pad a b, hw, _ =>
    obtain ⟨Nb, hb⟩ := roundtrip_deriv b hw.2 ((.k .rp : Tok α) :: rest) 0 (Nat.zero_le _) (followOk_rp 0 rest)
    obtain ⟨Na, ha⟩ := roundtrip_deriv a hw.1 ((.k .comma : Tok α) :: (b.flat ++ (.k .rp : Tok α) :: rest)) 0
      (Nat.zero_le _) (followOk_comma 0 _)
    refine ⟨_, of_factor (Na + Nb + 2) (fun n hn => ?_) l hl6 hf⟩
    obtain ⟨m, rfl⟩ : ∃ m, n = m + 1 := ⟨n - 1, by omega⟩
    have h1 := pExpr_of_pLvl0 ha m (by omega)
    have h2 := pExpr_of_pLvl0 hb m (by omega)
    simpa [Deriv.flat, Deriv.den] using pFactor_pad h1 h2
  | .mid2 a b, hw, _ =>
    obtain ⟨Nb, hb⟩ := roundtrip_deriv b hw.2 ((.k .rp : Tok α) :: rest) 0 (Nat.zero_le _) (followOk_rp 0 rest)
    obtain ⟨Na, ha⟩ := roundtrip_deriv a hw.1 ((.k .comma : Tok α) :: (b.flat ++ (.k .rp : Tok α) :: rest)) 0
      (Nat.zero_le _) (followOk_comma 0 _)
    refine ⟨_, of_factor (Na + Nb + 2) (fun n hn => ?_) l hl6 hf⟩
    obtain ⟨m, rfl⟩ : ∃ m, n = m + 1 := ⟨n - 1, by omega⟩
    have h1 := pExpr_of_pLvl0 ha m (by omega)
    have h2 := pExpr_of_pLvl0 hb m (by omega)
    simpa [Deriv.flat, Deriv.den] using pFactor_mid2 h1 h2
  | .mid3 a b c, hw, _ =>
    obtain ⟨Nc, hc⟩ := roundtrip_deriv c hw.2.2 ((.k .rp : Tok α) :: rest) 0 (Nat.zero_le _) (followOk_rp 0 rest)
    obtain ⟨Nb, hb⟩ := roundtrip_deriv b hw.2.1 ((.k .comma : Tok α) :: (c.flat ++ (.k .rp : Tok α) :: rest)) 0
      (Nat.zero_le _) (followOk_comma 0 _)
    obtain ⟨Na, ha⟩ := roundtrip_deriv a hw.1
      ((.k .comma : Tok α) :: (b.flat ++ (.k .comma : Tok α) :: (c.flat ++ (.k .rp : Tok α) :: rest))) 0
      (Nat.zero_le _) (followOk_comma 0 _)
    refine ⟨_, of_factor (Na + Nb + Nc + 2) (fun n hn => ?_) l hl6 hf⟩
    obtain ⟨m, rfl⟩ : ∃ m, n = m + 1 := ⟨n - 1, by omega⟩
    have h1 := pExpr_of_pLvl0 ha m (by omega)
    have h2 := pExpr_of_pLvl0 hb m (by omega)
    have h3 := pExpr_of_pLvl0 hc m (by omega)
    simpa [Deriv.flat, Deriv.den] using pFactor_mid3 h1 h2 h3
  | .fmt isE a b c, hw, _ =>
    obtain ⟨Nc, hc⟩ := roundtrip_deriv c hw.2.2 ((.k .rp : Tok α) :: rest) 0 (Nat.zero_le _) (followOk_rp 0 rest)
    obtain ⟨Nb, hb⟩ := roundtrip_deriv b hw.2.1 ((.k .comma : Tok α) :: (c.flat ++ (.k .rp : Tok α) :: rest)) 0
      (Nat.zero_le _) (followOk_comma 0 _)
    obtain ⟨Na, ha⟩ := roundtrip_deriv a hw.1
      ((.k .comma : Tok α) :: (b.flat ++ (.k .comma : Tok α) :: (c.flat ++ (.k .rp : Tok α) :: rest))) 0
      (Nat.zero_le _) (followOk_comma 0 _)
    refine ⟨_, of_factor (Na + Nb + Nc + 2) (fun n hn => ?_) l hl6 hf⟩
    obtain ⟨m, rfl⟩ : ∃ m, n = m + 1 := ⟨n - 1, by omega⟩
    have h1 := pExpr_of_pLvl0 ha m (by omega)
    have h2 := pExpr_of_pLvl0 hb m (by omega)
    have h3 := pExpr_of_pLvl0 hc m (by omega)
    simpa [Deriv.flat, Deriv.den] using pFactor_fmt isE h1 h2 h3
  | .varSub v f m, hw, _ =>
    obtain ⟨Nm, hm⟩ := roundtrip_args m hw.2 rest
    obtain ⟨Nf, hff⟩ := roundtrip_deriv f hw.1 (m.flat ++ rest) 0 (Nat.zero_le _) (followOk_args 0 m rest)
    refine ⟨_, of_factor (Nf + Nm + 2) (fun n hn => ?_) l hl6 hf⟩
    obtain ⟨k, rfl⟩ : ∃ k, n = k + 1 := ⟨n - 1, by omega⟩
    have h1 := pExpr_of_pLvl0 hff k (by omega)
    have h2 := hm k (by omega)
    simpa [Deriv.flat, Deriv.den] using pFactor_varSub v h1 h2
  | .get0, _, _ =>
    exact ⟨_, of_factor 1 (fun n hn => by
      obtain ⟨k, rfl⟩ : ∃ k, n = k + 1 := ⟨n - 1, by omega⟩
      exact pFactor_get0 k rest) l hl6 hf⟩
  | .getS0, _, _ =>
    exact ⟨_, of_factor 1 (fun n hn => by
      obtain ⟨k, rfl⟩ : ∃ k, n = k + 1 := ⟨n - 1, by omega⟩
      exact pFactor_getS0 k rest) l hl6 hf⟩
  | .get f m, hw, _ =>
    obtain ⟨Nm, hm⟩ := roundtrip_args m hw.2 rest
    obtain ⟨Nf, hff⟩ := roundtrip_deriv f hw.1 (m.flat ++ rest) 0 (Nat.zero_le _) (followOk_args 0 m rest)
    refine ⟨_, of_factor (Nf + Nm + 2) (fun n hn => ?_) l hl6 hf⟩
    obtain ⟨k, rfl⟩ : ∃ k, n = k + 1 := ⟨n - 1, by omega⟩
    have h1 := pExpr_of_pLvl0 hff k (by omega)
    have h2 := hm k (by omega)
    simpa [Deriv.flat, Deriv.den] using pFactor_get (flat_head_not_rp f (m.flat ++ rest)) h1 h2
  | .getS f m, hw, _ =>
    obtain ⟨Nm, hm⟩ := roundtrip_args m hw.2 rest
    obtain ⟨Nf, hff⟩ := roundtrip_deriv f hw.1 (m.flat ++ rest) 0 (Nat.zero_le _) (followOk_args 0 m rest)
    refine ⟨_, of_factor (Nf + Nm + 2) (fun n hn => ?_) l hl6 hf⟩
    obtain ⟨k, rfl⟩ : ∃ k, n = k + 1 := ⟨n - 1, by omega⟩
    have h1 := pExpr_of_pLvl0 hff k (by omega)
    have h2 := hm k (by omega)
    simpa [Deriv.flat, Deriv.den] using pFactor_getS (flat_head_not_rp f (m.flat ++ rest)) h1 h2
  | .up a b, hw, hl =>
    have hl5 : l ≤ 5 := hl
    obtain ⟨Nb, hb⟩ := roundtrip_deriv b hw.2.2.2 rest 5 hw.2.2.1 (hf.mono hl5)
    obtain ⟨Na, ha⟩ := roundtrip_deriv a hw.2.1 ((.k .up : Tok α) :: (b.flat ++ rest)) 6
      (by rw [hw.1]; exact Nat.le_refl 6) (followOk_op .up 6 _ (by decide))
    have h5 : ∀ n, n ≥ Na + Nb + 1 → pLvl n 5 ((Deriv.up a b).flat ++ rest) = .ok ((Deriv.up a b).den, rest) := by
      intro n hn
      obtain ⟨m, rfl⟩ : ∃ m, n = m + 1 := ⟨n - 1, by omega⟩
      have h1 := ha m (by omega)
      have h2 := hb m (by omega)
      have := pLvl_five_up (ts := a.flat ++ (.k .up : Tok α) :: (b.flat ++ rest)) h1 rfl (by simpa using h2)
      simpa [Deriv.flat, Deriv.den] using this
    exact ⟨_, descend (5 - l) 5 (Na + Nb + 1) (by omega) (by omega) h5 l (by omega) hf⟩
  | .chain L f r, hw, hl =>
    have hlL : l ≤ L := hl
    have hL4 : L ≤ 4 := hw.1
    obtain ⟨Nr, hr⟩ := roundtrip_tail r L hw.2.2.2 hL4 rest (hf.mono hlL)
    obtain ⟨Nf, hfi⟩ := roundtrip_deriv f hw.2.2.1 (r.flat ++ rest) (L + 1) hw.2.1
      (followOk_tail hw.2.2.2 (hf.mono hlL))
    have hLvl : ∀ n, n ≥ Nf + Nr + 1 → pLvl n L ((Deriv.chain L f r).flat ++ rest) = .ok ((Deriv.chain L f r).den, rest) := by
      intro n hn
      obtain ⟨m, rfl⟩ : ∃ m, n = m + 1 := ⟨n - 1, by omega⟩
      have h1 := hfi m (by omega)
      have : (Deriv.chain L f r).flat ++ rest = f.flat ++ (r.flat ++ rest) := by simp [Deriv.flat]
      rw [this, pLvl_low_ok hL4 h1]
      simpa [Deriv.den] using hr f.den m (by omega)
    exact ⟨_, descend (L - l) L (Nf + Nr + 1) (by omega) (by omega) hLvl l (by omega) hf⟩

theorem roundtrip_tail (t : DTail α) (L : Nat) (hw : t.WF L) (hL : L ≤ 4) (rest : List (Tok α))
    (hf : FollowOk L rest) :
    ∃ N, ∀ (acc : Expr α) n, n ≥ N → pLoop n L acc (t.flat ++ rest) = .ok (t.fold acc, rest) := by
  match t, hw with
  | .nil, _ =>
    refine ⟨1, fun acc n hn => ?_⟩
    obtain ⟨m, rfl⟩ : ∃ m, n = m + 1 := ⟨n - 1, by omega⟩
    simpa [DTail.flat, DTail.fold] using pLoop_none (n := m) (acc := acc) hf.headOp_none
  | .cons op d tl, hw =>
    obtain ⟨Nt, ht⟩ := roundtrip_tail tl L hw.2.2.2 hL rest hf
    obtain ⟨Nd, hd⟩ := roundtrip_deriv d hw.2.2.1 (tl.flat ++ rest) (L + 1) hw.2.1 (followOk_tail hw.2.2.2 hf)
    refine ⟨Nd + Nt + 1, fun acc n hn => ?_⟩
    obtain ⟨m, rfl⟩ : ∃ m, n = m + 1 := ⟨n - 1, by omega⟩
    have h1 := hd m (by omega)
    have hop : headOp (opAtLevel L) ((.k (kOfBin op) : Tok α) :: (d.flat ++ (tl.flat ++ rest))) = some op := by
      simp [headOp, opAtLevel_kOfBin hw.1 hL]
    have := pLoop_some (n := m) (acc := acc) hop (by simpa using h1)
    have e1 : (DTail.cons op d tl).flat ++ rest = (.k (kOfBin op) : Tok α) :: (d.flat ++ (tl.flat ++ rest)) := by
      simp [DTail.flat]
    rw [e1, this]
    simpa [DTail.fold] using ht (.bin op acc d.den) m (by omega)

theorem roundtrip_args (a : DArgs α) (hw : a.WF) (rest : List (Tok α)) :
    ∃ N, ∀ n, n ≥ N → pArgsTail n (a.flat ++ rest) = .ok (a.den, rest) := by
  match a, hw with
  | .nil, _ =>
    refine ⟨1, fun n hn => ?_⟩
    obtain ⟨k, rfl⟩ : ∃ k, n = k + 1 := ⟨n - 1, by omega⟩
    simpa [DArgs.flat, DArgs.den] using pArgsTail_rp k rest
  | .cons d tl, hw =>
    obtain ⟨Nt, ht⟩ := roundtrip_args tl hw.2 rest
    obtain ⟨Nd, hd⟩ := roundtrip_deriv d hw.1 (tl.flat ++ rest) 0 (Nat.zero_le _) (followOk_args 0 tl rest)
    refine ⟨Nd + Nt + 2, fun n hn => ?_⟩
    obtain ⟨k, rfl⟩ : ∃ k, n = k + 1 := ⟨n - 1, by omega⟩
    have h1 := pExpr_of_pLvl0 hd k (by omega)
    have h2 := ht k (by omega)
    simpa [DArgs.flat, DArgs.den] using pArgsTail_comma h1 h2
end

end PhreeqcVerif.Basic
