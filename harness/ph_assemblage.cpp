// C03 harness: runs real PHREEQC inputs with EQUILIBRIUM_PHASES / SOLID_SOLUTIONS / EXCHANGE / SURFACE and dumps, at
// every USER_PUNCH evaluation (BASIC `CALLBACK(0,0,"dump")`, i.e. after model() of that calculation has returned), the
// engine's own heterogeneous unknowns x[i]: PP (moles, f, residual, target si, lk, tokens of rxn_x with their la,
// dissolve_only / precipitate_only / force_equality / add_formula, initial moles), SS_MOLES (component moles, fraction,
// log10 lambda, f, residual, Guggenheim a0/a1, miscibility gap), EXCH and SURFACE (moles, f, residual and the species
// they sum over), plus the row of public read-outs the same calculation produced and the DUMP text of the call.
// stdin ops:  list <dbpath>                        -> phases of the database (name, formula elements, flags)
//             case <id> <dbpath> <hexinput>         -> run; blocks `B id k … E`, `DUMP hex`, `END id`
//             probe <id> <dbpath> <hexinput> <hexprobes>
//                  -> run; at the first block with PP unknowns call the REAL residuals() / check_residuals() / reset()
//                     on crafted (f, moles, delta) triples and print what they did (lines `PR …`); the run is abandoned.
#ifndef CPPUNIT
#define CPPUNIT 1
#endif
#include "IPhreeqc.hpp"
#include "Phreeqc.h"
#include "hx.hpp"
#include "PPassemblage.h"
#include "PPassemblageComp.h"
#include "SSassemblage.h"
#include "SS.h"
#include "SScomp.h"
#include "Exchange.h"
#include "ExchComp.h"
#include "Surface.h"
#include "SurfaceComp.h"
#include "SurfaceCharge.h"
#include "Use.h"
#include <sstream>
#include <set>
#include <cmath>
using hx::hex; using hx::hexd;

// IPhreeqc subclass that counts the messages of the engine (error / warning / log) while a probe is running
class CountIPhreeqc : public IPhreeqc {
public:
  int n_err = 0, n_warn = 0;
  std::vector<std::string> logs, errs, warns;
  bool rec = false;
  virtual void error_msg(const char* s, bool stop = false) { if (rec) { n_err++; errs.push_back(s); } IPhreeqc::error_msg(s, stop); }
  virtual void warning_msg(const char* s) { if (rec) { n_warn++; warns.push_back(s); } IPhreeqc::warning_msg(s); }
  virtual void log_msg(const char* s) { if (rec) logs.push_back(s); IPhreeqc::log_msg(s); }
};

static int g_run = 0;
struct Run {
  CountIPhreeqc* ip = 0;
  std::vector<std::string> blocks;
  bool probing = false;
  std::vector<double> probes;    // triples (f, moles-selector, delta-selector)
  std::string probe_out;
  bool probed = false;
};

class TestIPhreeqc {
public:
  static size_t ntok(CReaction& r) {
    size_t n = 0;
    for (size_t i = 1; i < r.token.size(); i++) { if (r.token[i].s == NULL) break; n++; }
    return n;
  }
  static std::string toks(CReaction& r) {
    std::ostringstream o;
    size_t n = ntok(r);
    o << " " << n;
    for (size_t j = 1; j <= n; j++) o << " " << hex(r.token[j].s->name) << " " << hexd(r.token[j].coef) << " " << hexd(r.token[j].s->la);
    return o.str();
  }
  static std::string block(IPhreeqc* ip) {
    Phreeqc* e = ip->PhreeqcPtr;
    std::ostringstream o;
    cxxPPassemblage* pp = e->use.Get_pp_assemblage_ptr();
    cxxSSassemblage* ssa = e->use.Get_ss_assemblage_ptr();
    cxxExchange* ex = e->use.Get_exchange_ptr();
    cxxSurface* su = e->use.Get_surface_ptr();
    bool hpp = pp != NULL && e->use.Get_pp_assemblage_in() && e->pure_phase_unknown != NULL;
    bool hss = ssa != NULL && e->use.Get_ss_assemblage_in() && e->ss_unknown != NULL;
    bool hex_ = ex != NULL && e->use.Get_exchange_in();
    bool hsu = su != NULL && e->use.Get_surface_in() && e->surface_unknown != NULL;
    o << "G " << e->state << " " << (hpp ? 1 : 0) << " " << (hss ? 1 : 0) << " " << (hex_ ? 1 : 0) << " " << (hsu ? 1 : 0)
      << " " << e->iterations << " " << e->itmax << " " << hexd(e->convergence_tolerance) << " " << hexd(e->ineq_tol)
      << " " << hexd(e->MIN_RELATED_SURFACE) << " " << hexd(e->MIN_TOTAL) << " " << hexd(e->MIN_TOTAL_SS)
      << " " << hexd(e->tk_x) << " " << hexd(e->patm_x) << " " << hexd(e->pp_scale) << " " << hexd(e->mass_water_aq_x)
      << " " << (e->pitzer_model ? 1 : 0) << " " << (e->sit_model ? 1 : 0) << " " << e->count_unknowns
      << " " << (e->use.Get_kinetics_in() ? 1 : 0) << " " << e->reaction_step << " " << e->simulation << " " << g_run << "\n";
    if (e->state < REACTION) return o.str();
    for (int i = 0; i < e->count_unknowns; i++) {
      class unknown* u = e->x[i];
      if (u->type == PP && hpp) {
        cxxPPassemblageComp* c = (cxxPPassemblageComp*)u->pp_assemblage_comp_ptr;
        class phase* p = u->phase;
        double iap = 0;
        size_t n = (p->in != FALSE) ? ntok(p->rxn_x) : 0;
        for (size_t j = 1; j <= n; j++) iap += p->rxn_x.token[j].s->la * p->rxn_x.token[j].coef;
        o << "P " << i << " " << hex(u->description ? u->description : "") << " " << hexd(u->moles) << " " << hexd(u->f)
          << " " << hexd(e->residual[i]) << " " << hexd(u->si) << " " << hexd(c->Get_si_org()) << " " << hexd(p->lk) << " " << hexd(iap)
          << " " << (u->dissolve_only ? 1 : 0) << " " << hex(c->Get_add_formula()) << " " << (c->Get_force_equality() ? 1 : 0)
          << " " << (c->Get_precipitate_only() ? 1 : 0) << " " << hexd(c->Get_initial_moles()) << " " << hexd(u->inert_moles)
          << " " << (p->in != FALSE ? 1 : 0) << " " << hexd(c->Get_moles()) << " " << hexd(c->Get_delta())
          << " " << hexd(p->p_c) << " " << hexd(p->t_c) << " " << hexd(c->Get_si());
        if (p->in != FALSE) o << toks(p->rxn_x); else o << " 0";
        o << " C " << (c->Get_dissolve_only() ? 1 : 0) << " " << (c->Get_precipitate_only() ? 1 : 0) << " " << (c->Get_force_equality() ? 1 : 0);
        o << "\n";
      } else if (u->type == SS_MOLES && hss) {
        cxxSS* s = (cxxSS*)u->ss_ptr;
        cxxSScomp* c = (cxxSScomp*)u->ss_comp_ptr;
        class phase* p = u->phase;
        double iap = 0;
        size_t n = (p->in != FALSE) ? ntok(p->rxn_x) : 0;
        for (size_t j = 1; j <= n; j++) iap += p->rxn_x.token[j].s->la * p->rxn_x.token[j].coef;
        o << "Q " << i << " " << hex(s->Get_name()) << " " << hex(c->Get_name()) << " " << u->ss_comp_number << " " << hexd(u->moles)
          << " " << hexd(c->Get_moles()) << " " << hexd(c->Get_fraction_x()) << " " << hexd(c->Get_log10_fraction_x()) << " "
          << hexd(c->Get_log10_lambda()) << " " << hexd(p->log10_fraction_x) << " " << hexd(p->log10_lambda) << " " << hexd(u->f)
          << " " << hexd(e->residual[i]) << " " << hexd(p->lk) << " " << hexd(iap) << " " << (u->ss_in ? 1 : 0) << " "
          << (p->in != FALSE ? 1 : 0) << " " << hexd(c->Get_initial_moles());
        if (p->in != FALSE) o << toks(p->rxn_x); else o << " 0";
        o << "\n";
      } else if (u->type == EXCH && hex_) {
        class master* m = u->master.size() ? u->master[0] : NULL;
        o << "X " << i << " " << hex(u->description ? u->description : "") << " " << hexd(u->moles) << " " << hexd(u->f) << " "
          << hexd(e->residual[i]) << " " << hex(m ? m->elt->name : "") << " " << hex(u->exch_comp ? u->exch_comp : "")
          << " " << (u->phase_unknown ? 1 : 0) << "\n";
      } else if (u->type == SURFACE && hsu) {
        class master* m = u->master.size() ? u->master[0] : NULL;
        o << "U " << i << " " << hex(u->description ? u->description : "") << " " << hexd(u->moles) << " " << hexd(u->f) << " "
          << hexd(e->residual[i]) << " " << hex(m ? m->elt->name : "") << " " << (u->phase_unknown ? 1 : 0) << "\n";
      }
    }
    if (hss) {
      std::vector<cxxSS*> v = ssa->Vectorize();
      for (size_t j = 0; j < v.size(); j++) {
        cxxSS* s = v[j];
        o << "S " << hex(s->Get_name()) << " " << s->Get_ss_comps().size() << " " << hexd(s->Get_a0()) << " " << hexd(s->Get_a1())
          << " " << (s->Get_miscibility() ? 1 : 0) << " " << hexd(s->Get_xb1()) << " " << hexd(s->Get_xb2()) << " " << (s->Get_ss_in() ? 1 : 0)
          << " " << hexd(s->Get_total_moles()) << " " << hexd(s->Get_tk()) << " " << (int)s->Get_input_case() << " " << hexd(s->Get_ag0())
          << " " << hexd(s->Get_ag1()) << " " << s->Get_p().size();
        for (size_t k = 0; k < s->Get_p().size(); k++) o << " " << hexd(s->Get_p()[k]);
        o << "\n";
      }
    }
    if (hex_ || hsu) {
      for (size_t k = 0; k < e->s_x.size(); k++) {
        class species* s = e->s_x[k];
        if (!((s->type == EX && hex_) || (s->type == SURF && hsu))) continue;
        if (s->type == EX && s->primary != NULL) continue;   // mb_for_species_ex: the exchange master species is not summed
        o << (s->type == EX ? "XS " : "US ") << hex(s->name) << " " << hexd(s->moles) << " " << hexd(s->equiv);
        size_t ne = 0;
        std::ostringstream q;
        for (size_t j = 0; j < s->next_elt.size(); j++) {
          class element* el = s->next_elt[j].elt;
          if (el == NULL) break;
          int mtype = (el->master && el->master->s) ? el->master->s->type : -1;
          if (mtype == EX || mtype == SURF) { q << " " << hex(el->name) << " " << hexd(s->next_elt[j].coef); ne++; }
        }
        o << " " << ne << q.str() << "\n";
      }
    }
    if (hex_) {
      for (size_t i = 0; i < ex->Get_exchange_comps().size(); i++) {
        cxxExchComp& c = ex->Get_exchange_comps()[i];
        o << "XC " << hex(c.Get_formula()) << " " << hex(c.Get_phase_name()) << " " << hexd(c.Get_phase_proportion()) << " "
          << hex(c.Get_rate_name());
        cxxNameDouble nd(c.Get_totals());
        o << " " << nd.size();
        for (cxxNameDouble::iterator it = nd.begin(); it != nd.end(); ++it) o << " " << hex(it->first) << " " << hexd(it->second);
        o << "\n";
      }
    }
    if (hsu) {
      for (size_t i = 0; i < su->Get_surface_comps().size(); i++) {
        cxxSurfaceComp& c = su->Get_surface_comps()[i];
        o << "UC " << hex(c.Get_formula()) << " " << hex(c.Get_phase_name()) << " " << hexd(c.Get_phase_proportion()) << " "
          << hex(c.Get_rate_name()) << " " << hexd(c.Get_moles()) << " " << hex(c.Get_master_element()) << "\n";
      }
    }
    return o.str();
  }

  // crafted calls of the real gate / update functions (the calculation is abandoned afterwards)
  static bool probe(Run* r) {
    CountIPhreeqc* ip = r->ip;
    Phreeqc* e = ip->PhreeqcPtr;
    if (e->state < REACTION || e->pure_phase_unknown == NULL || e->use.Get_pp_assemblage_ptr() == NULL) return false;
    std::vector<int> idx;
    for (int i = 0; i < e->count_unknowns; i++) if (e->x[i]->type == PP && e->x[i]->phase->in != FALSE && e->x[i]->phase->rxn_x.token.size() != 0) idx.push_back(i);
    if (idx.empty()) return false;
    std::ostringstream o;
    size_t np = r->probes.size() / 3, cur = 0;
    size_t rounds = np / idx.size();
    if (rounds > 40) rounds = 40;
    o << "PG " << hexd(e->convergence_tolerance) << " " << hexd(e->ineq_tol) << " " << hexd(e->MIN_RELATED_SURFACE) << " " << e->iterations << " " << idx.size() << " " << rounds << "\n";
    int save_err = e->input_error;
    // everything the probes write is restored afterwards, so the calculation goes on undisturbed
    std::vector<double> sv_m, sv_f, sv_d, sv_xd, sv_r, sv_arr(e->my_array.begin(), e->my_array.end());
    for (int i = 0; i < e->count_unknowns; i++) { sv_m.push_back(e->x[i]->moles); sv_f.push_back(e->x[i]->f); sv_d.push_back(e->delta[i]); sv_xd.push_back(e->x[i]->delta); sv_r.push_back(e->residual[i]); }
    int sv_stop = e->stop_program, sv_rm = e->remove_unstable_phases, sv_it = e->iterations;
    double sv_patm = e->patm_x, sv_last = e->last_patm_x;
    for (size_t rd = 0; rd < rounds; rd++) {
      std::vector<double> fs, ms, ds, resid, rdel, din, mafter, dafter;
      for (size_t k = 0; k < idx.size(); k++, cur++) {
        class unknown* u = e->x[idx[k]];
        cxxPPassemblageComp* c = (cxxPPassemblageComp*)u->pp_assemblage_comp_ptr;
        double f = r->probes[3 * cur], msel = r->probes[3 * cur + 1], dsel = r->probes[3 * cur + 2];
        double ini = c->Get_initial_moles();
        double m;
        int mi = (int)msel;
        switch (mi) {
          case 0: m = 0.0; break;
          case 1: m = 1e-18; break;
          case 2: m = ini; break;
          case 3: m = ini / 2; break;
          case 4: m = ini * 2 + 1e-3; break;
          case 5: m = 1e-3; break;
          default: m = msel - 6.0; break;   // explicit value (>= 0)
        }
        fs.push_back(f); ms.push_back(m); ds.push_back(dsel);
      }
      // --- residuals() and check_residuals() on crafted f / moles (only PP rows are modified; the other rows keep the
      //     converged values of the finished calculation)
      for (size_t k = 0; k < idx.size(); k++) { e->x[idx[k]]->f = fs[k]; e->x[idx[k]]->moles = ms[k]; }
      int it_save = e->iterations;
      if (e->iterations < 1) e->iterations = 1;
      int rr = e->residuals();
      for (size_t k = 0; k < idx.size(); k++) resid.push_back(e->residual[idx[k]]);
      ip->rec = true; ip->n_err = 0; ip->n_warn = 0; ip->logs.clear(); ip->errs.clear(); ip->warns.clear();
      e->remove_unstable_phases = FALSE;
      int stop_save = e->stop_program; e->stop_program = FALSE;
      int cr = e->check_residuals();
      ip->rec = false;
      int nlog = 0;
      for (size_t q = 0; q < ip->logs.size(); q++)
        if (ip->logs[q].find("has not converged") != std::string::npos && ip->logs[q].find("ERROR") == std::string::npos &&
            ip->logs[q].find("WARNING") == std::string::npos) nlog++;
      int rm = e->remove_unstable_phases ? 1 : 0;
      o << "PRD " << rd << " " << (rr == CONVERGED ? 1 : 0) << " " << (cr == ERROR ? 1 : 0) << " " << rm << " " << ip->n_err << " "
        << ip->n_warn << " " << nlog << "\n";
      e->remove_unstable_phases = FALSE; e->stop_program = stop_save;
      e->input_error = save_err;
      // --- ineq() special case (remove unstable phases): delta[i] = moles for present, undersaturated, unrestricted phases
      for (size_t k = 0; k < idx.size(); k++) e->delta[idx[k]] = 12345.0;
      e->remove_unstable_phases = TRUE;
      e->ineq(0);
      for (size_t k = 0; k < idx.size(); k++) rdel.push_back(e->delta[idx[k]]);
      int rm_after = e->remove_unstable_phases ? 1 : 0;
      e->remove_unstable_phases = FALSE;
      // --- reset(): only the PP deltas are non-zero
      for (int i = 0; i < e->count_unknowns; i++) e->delta[i] = 0.0;
      for (size_t k = 0; k < idx.size(); k++) {
        class unknown* u = e->x[idx[k]];
        cxxPPassemblageComp* c = (cxxPPassemblageComp*)u->pp_assemblage_comp_ptr;
        double ini = c->Get_initial_moles(), m = ms[k], d;
        int di = (int)ds[k];
        switch (di) {
          case 0: d = 0.0; break;
          case 1: d = m; break;                       // dissolve everything
          case 2: d = m * 1.5 + 1e-4; break;          // more than is present
          case 3: d = -(ini - m); break;              // precipitate back to the initial amount
          case 4: d = -(ini - m) * 3 - 1e-3; break;   // precipitate more than was dissolved
          case 5: d = m * (1 + 1e-15); break;
          case 6: d = -1e-3; break;
          case 7: d = m / 3; break;
          case 8: d = 2e8; break;
          case 9: d = -2e8; break;
          default: d = ds[k] - 10.0; break;
        }
        e->delta[idx[k]] = d;
        din.push_back(d);
      }
      e->stop_program = FALSE;
      e->reset();
      for (size_t k = 0; k < idx.size(); k++) { mafter.push_back(e->x[idx[k]]->moles); dafter.push_back(e->delta[idx[k]]); }
      for (size_t k = 0; k < idx.size(); k++) {
        class unknown* u = e->x[idx[k]];
        cxxPPassemblageComp* c = (cxxPPassemblageComp*)u->pp_assemblage_comp_ptr;
        o << "PU " << rd << " " << k << " " << hexd(fs[k]) << " " << hexd(ms[k]) << " " << hexd(c->Get_initial_moles()) << " "
          << (u->dissolve_only ? 1 : 0) << " " << (c->Get_add_formula().size() ? 1 : 0) << " " << hexd(resid[k]) << " " << hexd(rdel[k])
          << " " << hexd(din[k]) << " " << hexd(mafter[k]) << " " << hexd(dafter[k]) << " " << rm_after << "\n";
      }
      // --- ineq(1) on the crafted state: the rows it hands to cl1 are observed through cl1's answer (x, residuals of all
      //     rows, back_eq); only for the engine paths the row model covers
      if (rd < 12 && !e->pitzer_model && !e->sit_model && e->use.Get_gas_phase_ptr() == NULL && !e->negative_concentrations) {
        for (int i = 0; i < e->count_unknowns; i++) { e->x[i]->moles = sv_m[i]; e->x[i]->f = sv_f[i]; e->delta[i] = sv_d[i]; e->x[i]->delta = sv_xd[i]; }
        std::copy(sv_arr.begin(), sv_arr.end(), e->my_array.begin());
        for (size_t k = 0; k < idx.size(); k++) { e->x[idx[k]]->f = fs[k]; e->x[idx[k]]->moles = ms[k]; }
        e->residuals();
        e->remove_unstable_phases = FALSE;
        int ret = e->ineq(1);
        int n = e->count_unknowns;
        size_t mr = e->max_row_count;
        o << "PQ " << rd << " " << ret << " " << n << " " << e->iterations << " " << e->aqueous_only << " " << e->equi_delay << " "
          << hexd(e->pp_scale) << " 1 " << hexd(e->MIN_RELATED_SURFACE) << " " << hexd(e->MIN_TOTAL_SS) << " " << (e->mass_water_switch ? 1 : 0)
          << " " << (e->mass_oxygen_unknown ? (int)e->mass_oxygen_unknown->number : 999999) << " "
          << (e->mass_hydrogen_unknown ? (int)e->mass_hydrogen_unknown->number : 999999) << " "
          << ((e->use.Get_exchange_ptr() != NULL && (e->use.Get_exchange_ptr()->Get_related_phases() || e->use.Get_exchange_ptr()->Get_related_rate())) ? 1 : 0)
          << " " << mr << " " << hexd(e->ineq_tol) << "\n";
        for (int i = 0; i < n; i++) {
          class unknown* u = e->x[i];
          double ini = 0, grams = 0; int addf = 0, force = 0, phin = 1, related = 0;
          if (u->type == PP) {
            cxxPPassemblageComp* c = (cxxPPassemblageComp*)u->pp_assemblage_comp_ptr;
            ini = c->Get_initial_moles(); addf = c->Get_add_formula().size() ? 1 : 0; force = c->Get_force_equality() ? 1 : 0;
          }
          if (u->type == PP || u->type == SS_MOLES) phin = (u->phase->in != FALSE) ? 1 : 0;
          if (u->type >= SURFACE_CB && u->type <= SURFACE_CB2) {
            cxxSurfaceCharge* ch = e->use.Get_surface_ptr()->Find_charge(u->surface_charge);
            grams = ch ? ch->Get_grams() : 0;
          }
          if ((u->type == SURFACE || u->type == EXCH) && u->phase_unknown != NULL) related = 1;
          if (u->type >= SURFACE_CB && u->type <= SURFACE_CB2 && i > 0 && e->x[i - 1]->phase_unknown != NULL) related = 1;
          o << "PQU " << rd << " " << i << " " << u->type << " " << hexd(u->moles) << " " << hexd(u->f) << " " << hexd(ini) << " "
            << hexd(grams) << " " << u->iteration << " " << phin << " " << (u->dissolve_only ? 1 : 0) << " " << addf << " " << force
            << " " << (u->ss_in ? 1 : 0) << " " << related << "\n";
          o << "PQM " << rd << " " << i;
          for (int j = 0; j <= n; j++) o << " " << hexd(e->my_array[(size_t)i * (n + 1) + j]);
          o << "\n";
        }
        o << "PQN " << rd; for (int i = 0; i < n; i++) o << " " << hexd(e->normal[i]); o << "\n";
        o << "PQX " << rd; for (int i = 0; i < n; i++) o << " " << hexd(e->delta1[i]); o << "\n";
        o << "PQR " << rd; for (size_t i = 0; i < mr && i < e->res.size(); i++) o << " " << hexd(e->res[i]); o << "\n";
        o << "PQB " << rd; for (size_t i = 0; i < mr && i < e->back_eq.size(); i++) o << " " << e->back_eq[i]; o << "\n";
      }
      e->iterations = it_save;
      e->input_error = save_err;
    for (int i = 0; i < e->count_unknowns; i++) { e->x[i]->moles = sv_m[i]; e->x[i]->f = sv_f[i]; e->delta[i] = sv_d[i]; e->x[i]->delta = sv_xd[i]; e->residual[i] = sv_r[i]; }
    std::copy(sv_arr.begin(), sv_arr.end(), e->my_array.begin());
    e->stop_program = sv_stop; e->remove_unstable_phases = sv_rm; e->iterations = sv_it; e->input_error = save_err;
    e->patm_x = sv_patm; e->last_patm_x = sv_last;
    }
    r->probe_out = o.str();
    return true;
  }

  static void list(IPhreeqc* ip) {
    Phreeqc* e = ip->PhreeqcPtr;
    for (size_t i = 0; i < e->phases.size(); i++) {
      class phase* p = e->phases[i];
      if (p->type != SOLID) continue;
      std::cout << "L " << hex(p->name) << " " << hex(p->formula ? p->formula : "") << " " << hexd(p->logk[0]) << " " << hexd(p->p_c)
                << " " << hexd(p->t_c);
      size_t ne = 0;
      std::ostringstream q;
      for (size_t j = 0; j < p->next_elt.size(); j++) {
        if (p->next_elt[j].elt == NULL) break;
        q << " " << hex(p->next_elt[j].elt->name) << " " << hexd(p->next_elt[j].coef);
        ne++;
      }
      std::cout << " " << ne << q.str();
      size_t n = ntok(p->rxn);
      std::cout << " " << n;
      for (size_t j = 1; j <= n; j++) std::cout << " " << hex(p->rxn.token[j].s ? p->rxn.token[j].s->name : (p->rxn.token[j].name ? p->rxn.token[j].name : ""));
      std::cout << "\n";
    }
    for (size_t i = 0; i < e->master.size(); i++)
      std::cout << "M " << hex(e->master[i]->elt->name) << " " << hex(e->master[i]->s->name) << " " << e->master[i]->type << " "
                << (e->master[i]->primary ? 1 : 0) << "\n";
  }
};

static double cb(double x1, double x2, const char* str, void* cookie) {
  Run* r = (Run*)cookie;
  if (r->probing) {
    if (!r->probed && TestIPhreeqc::probe(r)) { r->probed = true; }
    return 0.0;
  }
  r->blocks.push_back(TestIPhreeqc::block(r->ip));
  return (double)r->blocks.size();
}

static std::string showVar(const VAR& v) {
  switch (v.type) {
    case TT_EMPTY: return "E";
    case TT_ERROR: return "X";
    case TT_LONG: return "D" + hexd((double)v.lVal);
    case TT_DOUBLE: return "D" + hexd(v.dVal);
    case TT_STRING: return "S" + hex(v.sVal ? v.sVal : "");
  }
  return "?";
}

int main() {
  std::string line, curdb;
  CountIPhreeqc* ip = 0;
  Run run;
  while (std::getline(std::cin, line)) {
    std::vector<std::string> w = hx::words(line);
    if (w.empty()) continue;
    bool is_list = w[0] == "list" && w.size() == 2, is_case = w[0] == "case" && w.size() == 4, is_probe = w[0] == "probe" && w.size() == 5;
    if (!(is_list || is_case || is_probe)) { std::cout << "bad-op\n"; continue; }
    const std::string& db = is_list ? w[1] : w[2];
    if (!ip || db != curdb || is_list || is_probe) {
      delete ip; ip = new CountIPhreeqc(); curdb = db;
      ip->SetOutputFileOn(false); ip->SetErrorFileOn(false); ip->SetLogFileOn(false); ip->SetSelectedOutputFileOn(false);
      ip->SetDumpFileOn(false);
      if (ip->LoadDatabase(db.c_str()) != 0) { std::cout << "DBERR " << hex(ip->GetErrorString()) << "\n"; delete ip; ip = 0; curdb = ""; continue; }
    }
    if (is_list) { TestIPhreeqc::list(ip); std::cout << "ENDLIST\n"; std::cout.flush(); continue; }
    run.ip = ip; run.blocks.clear(); run.probing = is_probe; run.probed = false; run.probe_out.clear(); run.probes.clear();
    if (is_probe) {
      std::vector<std::string> pv = hx::words(hx::unhex(w[4]));
      for (size_t i = 0; i < pv.size(); i++) run.probes.push_back(hx::unhexd(pv[i]));
    }
    ip->SetBasicCallback(cb, &run);
    ip->SetErrorStringOn(true);
    ip->SetDumpStringOn(true);
    if (getenv("C03_DEBUG")) ip->SetOutputStringOn(true);
    std::string input = hx::unhex(w[3]);
    if (is_probe) {
      g_run = 0;
      int nerr = ip->RunString(input.c_str());
      (void)nerr;
      std::cout << "PROBE " << w[1] << " probed=" << (run.probed ? 1 : 0) << "\n" << run.probe_out << "END " << w[1] << "\n";
      std::cout.flush();
      delete ip; ip = 0; curdb = "";
      continue;
    }
    // a history: the input is cut at lines "#RUNSPLIT" and every part is a separate RunString call on the same instance
    std::vector<std::string> parts;
    {
      std::istringstream is(input); std::string ln, cur;
      while (std::getline(is, ln)) { if (ln == "#RUNSPLIT") { parts.push_back(cur); cur.clear(); } else { cur += ln; cur += "\n"; } }
      parts.push_back(cur);
    }
    // reactants left by the previous case of the batch must not meet this case's definitions (an exchanger related to a
    // mineral of an earlier case makes tidy_min_exchange stop with "Mineral … related to exchanger … not found")
    ip->RunString("DELETE\n -all\nEND\n");
    int nerr = 0, nr = 0;
    size_t kglob = 0;
    std::ostringstream body;
    std::string warnall;
    for (size_t part = 0; part < parts.size() && nerr == 0; part++) {
      g_run = (int)part;
      run.blocks.clear();
      nerr = ip->RunString(parts[part].c_str());
      { const char* wsz = ip->GetWarningString(); if (wsz) warnall += wsz; }
      ip->SetCurrentSelectedOutputUserNumber(1);
      nr = ip->GetSelectedOutputRowCount();
      int nc = ip->GetSelectedOutputColumnCount();
      std::vector<std::string> heads;
      for (int c = 0; c < nc; c++) { VAR v; VarInit(&v); ip->GetSelectedOutputValue(0, c, &v); heads.push_back(v.type == TT_STRING ? v.sVal : ""); VarClear(&v); }
      for (size_t k = 0; k < run.blocks.size(); k++, kglob++) {
        body << "B " << w[1] << " " << kglob << "\n" << run.blocks[k];
        int row = (int)k + 1;
        if (row < nr) {
          for (int c = 0; c < nc; c++) {
            VAR v; VarInit(&v); ip->GetSelectedOutputValue(row, c, &v);
            body << "R " << hex(heads[c]) << " " << showVar(v) << "\n";
            VarClear(&v);
          }
        } else body << "NOROW\n";
        body << "E\n";
      }
    }
    std::cout << "CASE " << w[1] << " errors=" << nerr << " blocks=" << kglob << " runs=" << parts.size() << "\n" << body.str();
    std::cout << "DUMP " << hex(ip->GetDumpString() ? ip->GetDumpString() : "") << "\n";
    std::cout << "WARN " << hex(warnall.substr(0, 6000)) << "\n";
    if (nerr) std::cout << "ERR " << hex(ip->GetErrorString()) << "\n";
    if (getenv("C03_DEBUG")) { std::string o = ip->GetOutputString(); std::cerr << o << "\n"; }
    std::cout << "END " << w[1] << " rows=" << (nr > 0 ? nr - 1 : 0) << "\n";
    std::cout.flush();
    if (nerr) { delete ip; ip = 0; curdb = ""; }
  }
  delete ip;
  return 0;
}
