// shared helpers: hex transport of strings and doubles, line splitting
#pragma once
#include <string>
#include <vector>
#include <sstream>
#include <cstring>
#include <cstdint>
#include <cstdio>
#include <iostream>
namespace hx {
inline std::string hex(const std::string& s) {
  if (s.empty()) return "-";
  static const char* d = "0123456789abcdef";
  std::string o; o.reserve(s.size()*2);
  for (unsigned char c : s) { o.push_back(d[c>>4]); o.push_back(d[c&15]); }
  return o;
}
inline int hv(char c){ if(c>='0'&&c<='9')return c-'0'; if(c>='a'&&c<='f')return c-'a'+10; if(c>='A'&&c<='F')return c-'A'+10; return -1; }
inline std::string unhex(const std::string& h) {
  if (h == "-") return "";
  std::string o;
  for (size_t i=0;i+1<h.size();i+=2) o.push_back((char)(hv(h[i])*16+hv(h[i+1])));
  return o;
}
inline std::string hexd(double d) { uint64_t u; std::memcpy(&u,&d,8); char b[17]; snprintf(b,17,"%016llx",(unsigned long long)u); return b; }
inline double unhexd(const std::string& h) { uint64_t u=0; for(char c: h) u=u*16+hv(c); double d; std::memcpy(&d,&u,8); return d; }
inline std::vector<std::string> words(const std::string& l){ std::istringstream is(l); std::vector<std::string> w; std::string t; while(is>>t) w.push_back(t); return w; }
}
