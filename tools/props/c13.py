"""C13 — instance registry and C/C++/Fortran bindings behave as one consistent API.

Proof obligations: Properties/C13.lean — wrapper tables regenerated from IPhreeqcLib.cpp / IPhreeqc_interface_F.cpp /
IPhreeqc_interface.F90 / IPhreeqc.h are well-formed and complete, the invalid-instance result of EVERY C function equals the
result transcribed from the doc comments of IPhreeqc.h (decide), padfstring contract, registry theorems (ids increasing and
never reused for every history, dead ids change nothing, double destroy, isolation); Properties/C13Store.lean — the settings
store refines a plain key→value store for every call sequence over any number of instances.
Tie: translator gen_api.py + random and exhaustive call sequences in which every op names the C function it exercises, through
the C API, the C++ object and the …F functions side by side vs `pmodel api`; every accessor of the three bindings over live and
dead ids after real runs."""
import itertools
import os
import shutil
import struct
import subprocess
import tempfile
from concurrent.futures import ThreadPoolExecutor

import gen_api
import vlib
from vlib import shrink_list

SW = ["OutputFile", "OutputString", "ErrorFile", "ErrorString", "Error", "LogFile", "LogString", "DumpFile", "DumpString",
      "SelectedOutputFile", "SelectedOutputString"]
NM = ["Output", "Error", "Log", "Dump", "SelectedOutput"]
COUNTS = ["GetComponentCount", "GetDumpStringLineCount", "GetErrorStringLineCount", "GetLogStringLineCount",
          "GetOutputStringLineCount", "GetSelectedOutputColumnCount", "GetSelectedOutputCount", "GetSelectedOutputRowCount",
          "GetSelectedOutputStringLineCount", "GetWarningStringLineCount"]
STRINGS = ["GetDumpString", "GetErrorString", "GetLogString", "GetOutputString", "GetSelectedOutputString", "GetWarningString"]
LINES = ["GetComponent", "GetDumpStringLine", "GetErrorStringLine", "GetLogStringLine", "GetOutputStringLine",
         "GetSelectedOutputStringLine", "GetWarningStringLine"]
TEXTFN = ["AccumulateLine", "AddError", "AddWarning"]
VOIDS = ["OutputAccumulatedLines", "OutputErrorString", "OutputWarningString"]
CAPS = [0, 1, 7, 13, 48, 80, 300]
LONG_CAPS = [1, 2, 47, 98, 99, 100, 101, 102, 129, 130, 131, 171, 299, 300, 301, 400]
FBUF = 48
VIA = ["c", "f", "p"]


def hexs(s):
    return s.encode().hex() if s else "-"


def gen_seq(rng, n):
    ops = []
    ncreated = 0
    for _ in range(n):
        ids = list(range(-1, ncreated + 2)) + [rng.choice([-5, 100, 2 ** 31 - 1])]
        i = rng.choice(ids) if rng.random() < 0.25 else (rng.randrange(ncreated) if ncreated else 0)
        via = rng.choice(VIA)
        r = rng.random()
        if r < 0.10 or ncreated == 0:
            ops.append(rng.choice(["create", "create", "createcpp", "createf"]))
            ncreated += 1
        elif r < 0.15:
            ops.append(f"{rng.choice(['destroy', 'destroy', 'destroycpp', 'destroyf'])} {i}")
        elif r < 0.28:
            ops.append(f"g4 {via} Set{rng.choice(SW)}On {i} {rng.choice([0, 1, 1, 2, -1])}")
        elif r < 0.40:
            ops.append(f"g1 Get{rng.choice(SW)}On {i}")
        elif r < 0.50:
            v = rng.choice(["NULL", "-", hexs("a.out"), hexs("my file.sel"), hexs("x" * 60), hexs("é.txt"), hexs("y" * 300)])
            ops.append(f"g5 {via} Set{rng.choice(NM)}FileName {i} {v}")
        elif r < 0.62:
            ops.append(f"g2 Get{rng.choice(NM)}FileName {i} {rng.choice(CAPS)}")
        elif r < 0.68:
            ops.append(f"g4 {via} SetCurrentSelectedOutputUserNumber {i} {rng.choice([0, 1, 2, 5, 77, -1, -100])}")
        elif r < 0.72:
            ops.append(f"g1 GetCurrentSelectedOutputUserNumber {i}")
        elif r < 0.76:
            ops.append(f"g1 {rng.choice(COUNTS + ['ClearAccumulatedLines', 'RunAccumulated'])} {i}")
        elif r < 0.80:
            ops.append(f"g2 {rng.choice(STRINGS)} {i} 0")
        elif r < 0.84:
            ops.append(f"g3 {rng.choice(LINES)} {i} {rng.choice([-1, 0, 1, 3])} {rng.choice(CAPS)}")
        elif r < 0.87:
            ops.append(f"g5 {via} {rng.choice(TEXTFN)} {i} {hexs('TITLE ' + 'w' * rng.choice([1, 5, 70]))}")
        elif r < 0.89:
            ops.append(f"g6 {via} {rng.choice(VOIDS)} {i}")
        elif r < 0.91:
            ops.append(rng.choice([f"setcb {rng.choice(['c', 'p', 'f', 'fc'])} {i}", f"nth {i} {rng.choice([-1, 0, 1, 2])}",
                                   f"cell {i} {rng.choice([-1, 0, 1])} {rng.choice([-1, 0, 3])} {rng.choice(LONG_CAPS)}", "version"]))
        elif r < 0.93:
            ops.append(rng.choice([f"g5 {via} LoadDatabase {i} {hexs('/nonexistent/x.dat')}", f"g5 {via} LoadDatabaseString {i} {hexs('XYZ' + chr(10))}",
                                   f"g5 {via} RunString {i} {hexs('TITLE t' + chr(10))}", f"g5 {via} RunFile {i} {hexs('/nonexistent/in.pqi')}",
                                   f"loadbad {via} {i}"]))
        elif r < 0.955:
            ops.append(f"{rng.choice(['loaddb', 'loaddb', 'loadstr', 'loadstrbad'])} {via} {i}")
        elif r < 0.985:
            f = rng.choice(["-", "-", hexs("user.sel"), hexs("other name.sel")])
            ops.append(f"defsel {via} {i} {rng.choice([1, 2, 5, 5, 77])} {f}")
        else:
            ops.append(f"pad {hexs(rng.choice(['', 'abc', 'x' * 47, 'x' * 48, 'x' * 49, 'line with  blanks ', 'q' * 500]))} {rng.choice(CAPS)}")
    return ops


def gen_seq_sel(rng, n):
    """histories about the per-user-number maps: loaded instances, SELECTED_OUTPUT definitions with and without -file,
    redefinitions, file switch on/off per number, user-set names, reloads (which reset the switches but not the names)"""
    ops = ["create", rng.choice(["create", "createcpp"])]
    for i in (0, 1):
        if rng.random() < 0.85:
            ops.append(f"loaddb {rng.choice(VIA)} {i}")
    nums = [1, 2, 5, 77]
    for i in (0, 1):
        # some per-number state before anything else happens
        for k in rng.sample(nums, 2):
            ops += [f"g4 {rng.choice(VIA)} SetCurrentSelectedOutputUserNumber {i} {k}",
                    f"g4 {rng.choice(VIA)} SetSelectedOutput{rng.choice(['File', 'String'])}On {i} 1"]
    for _ in range(n):
        i = rng.choice([0, 0, 1, 1, 2, -1])
        via = rng.choice(VIA)
        r = rng.random()
        if r < 0.22:
            f = rng.choice(["-", "-", hexs("user.sel"), hexs("other name.sel")])
            ops.append(f"defsel {via} {i} {rng.choice(nums)} {f}")
        elif r < 0.40:
            ops.append(f"g4 {via} SetCurrentSelectedOutputUserNumber {i} {rng.choice(nums + [0, 3, -1])}")
        elif r < 0.52:
            ops.append(f"g4 {via} SetSelectedOutput{rng.choice(['File', 'String'])}On {i} {rng.choice([0, 1, 1])}")
        elif r < 0.62:
            ops.append(f"g5 {via} SetSelectedOutputFileName {i} {rng.choice(['NULL', '-', hexs('set by user.sel'), hexs('z' * 70)])}")
        elif r < 0.80:
            ops.append(f"g2 GetSelectedOutputFileName {i} {rng.choice(CAPS)}")
        elif r < 0.88:
            ops.append(f"g1 GetSelectedOutput{rng.choice(['File', 'String'])}On {i}")
        elif r < 0.91:
            ops.append(f"g1 GetCurrentSelectedOutputUserNumber {i}")
        elif r < 0.94:
            ops.append(rng.choice([f"loaddb {via} {i}", f"loadbad {via} {i}", f"loadstr {via} {i}", f"loadstrbad {via} {i}"]))
            if rng.random() < 0.8:
                # read back everything a load may or may not reset: per-number switches and names of several numbers
                for k in rng.sample(nums, 2) + [1]:
                    ops += [f"g4 {rng.choice(VIA)} SetCurrentSelectedOutputUserNumber {i} {k}", f"g1 GetSelectedOutputFileOn {i}",
                            f"g1 GetSelectedOutputStringOn {i}", f"g2 GetSelectedOutputFileName {i} 48"]
        elif r < 0.97:
            ops.append(rng.choice([f"g5 {via} RunString {i} {hexs('TITLE t' + chr(10))}", f"g1 RunAccumulated {i}",
                                   f"g5 {via} AccumulateLine {i} {hexs('TITLE acc')}", f"g1 ClearAccumulatedLines {i}"]))
            if rng.random() < 0.6:
                ops += [f"g1 RunAccumulated {i}", f"g2 GetSelectedOutputFileName {i} 48"]
        else:
            ops.append(rng.choice([f"destroy {i}", "create", f"nth {i} {rng.choice([0, 1, 2])}", f"g1 GetSelectedOutputCount {i}"]))
    return ops


def load_matrix(rng):
    """what a load preserves and what it resets: every combination of the three file switches that LoadDatabase* saves and
    restores around the load (output, error, log) x both loaders x successful and failing load, with random values of all other
    settings; afterwards EVERY setting is read back through the three bindings"""
    seqs = []
    for bits in range(8):
        for op in ("loaddb", "loadbad", "loadstr", "loadstrbad"):
            ops = ["create"]
            for k, name in enumerate(("OutputFile", "ErrorFile", "LogFile")):
                ops.append(f"g4 {rng.choice(VIA)} Set{name}On 0 {(bits >> k) & 1}")
            for name in ("OutputString", "ErrorString", "Error", "LogString", "DumpFile", "DumpString"):
                ops.append(f"g4 {rng.choice(VIA)} Set{name}On 0 {rng.choice([0, 1])}")
            n = rng.choice([2, 5, 77])
            ops += [f"g4 c SetCurrentSelectedOutputUserNumber 0 {n}", f"g4 {rng.choice(VIA)} SetSelectedOutputFileOn 0 1",
                    f"g4 {rng.choice(VIA)} SetSelectedOutputStringOn 0 {rng.choice([0, 1])}",
                    f"g5 {rng.choice(VIA)} SetSelectedOutputFileName 0 {hexs('kept.sel')}", f"g5 {rng.choice(VIA)} SetLogFileName 0 {hexs('my.log')}",
                    f"g5 c AccumulateLine 0 {hexs('TITLE acc')}", f"{op} {rng.choice(VIA)} 0"]
            ops += [f"g1 Get{k}On 0" for k in SW] + ["g1 GetCurrentSelectedOutputUserNumber 0"] + [f"g2 Get{k}FileName 0 48" for k in NM]
            ops += [f"g4 c SetCurrentSelectedOutputUserNumber 0 {n}", "g1 GetSelectedOutputFileOn 0", "g1 GetSelectedOutputStringOn 0",
                    "g2 GetSelectedOutputFileName 0 48", "g1 RunAccumulated 0"]
            seqs.append(ops)
    return seqs


def unhexd(h):
    return struct.unpack(">d", bytes.fromhex(h))[0]


def cell_relations(line, cap=FBUF):
    parts = line.split(" | ")
    if line.endswith(":OVERRUN"):
        return "Value2 / ValueF wrote beyond the caller's buffer"
    c = parts[0].split()[1:]
    cpp = parts[1].split()[1:]
    v2 = parts[2].split()[1:]
    f = parts[3].split()[1:]
    rc = int(c[0])
    if cpp[0] == "-77":          # id not live: every binding answers IPQ_BADINSTANCE
        if rc != -6 or int(v2[0]) != -6 or int(f[0]) != -6:
            return f"id not live: result codes C {rc}, Value2 {v2[0]}, ValueF {f[0]} (expected IPQ_BADINSTANCE = -6 from all)"
        return None
    if c != cpp:
        return f"C {c} vs C++ {cpp}"
    var = c[1]
    # documented contract (C05): a failing accessor returns its error code and an error-typed VAR carrying it
    if rc != 0 and var != f"X{rc}":
        return f"result code {rc} but VAR is {var}, not the error-typed VAR"
    if rc == 0 and var[0] == "X":
        return f"result code 0 with an error-typed VAR {var}"
    if int(v2[0]) != rc or int(f[0]) != rc:
        return f"result codes differ: C {rc}, Value2 {v2[0]}, ValueF {f[0]}"
    for name, w in (("Value2", v2), ("ValueF", f)):
        vt, d = int(w[1]), unhexd(w[2])
        if var[0] == "E" and vt != 0:
            return f"{name}: empty cell reported type {vt}"
        if var[0] == "X" and vt != 1:
            return f"{name}: error cell reported type {vt}"
        if var[0] == "L" and (vt != 3 or d != float(int(var[1:]))):
            return f"{name}: long cell {var} reported type {vt} value {d}"
        if var[0] == "D" and (vt != 3 or w[2] != var[1:]):
            return f"{name}: double cell {var} reported {w[2]}"
        if var[0] == "S":
            if vt != 4:
                return f"{name}: string cell reported type {vt}"
            sval = b"" if var[1:] == "-" else bytes.fromhex(var[1:])
            if name == "Value2":
                got = b"" if w[3] == "-" else bytes.fromhex(w[3])
                if got != sval[:cap]:
                    return f"Value2 string (caller buffer {cap}) is not the first {min(cap, len(sval))} characters of the {len(sval)}-character value"
            else:
                buf, ln = w[3].split(":")[:2]
                fb = b"" if buf == "-" else bytes.fromhex(buf)
                if int(ln) != len(sval):
                    return f"ValueF reports length {ln} for a string cell of {len(sval)} characters (buffer {cap})"
                if fb != sval[:cap] + b" " * max(0, cap - len(sval)):
                    return f"ValueF buffer ({cap} characters) is not the truncated / blank-padded {len(sval)}-character value"
        if var[0] in "LD" and name == "ValueF" and d == d and abs(d) != float("inf"):
            # numbers also come back as text: "%ld" / "%23.15e", padded like any string, true length reported
            text = (str(int(var[1:])) if var[0] == "L" else "%23.15e" % d).encode()
            buf, ln = w[3].split(":")[:2]
            fb = b"" if buf == "-" else bytes.fromhex(buf)
            if int(ln) != len(text) or fb != text[:cap] + b" " * max(0, cap - len(text)):
                return f"ValueF text of the number {var} is not {text!r} truncated / padded to {cap}"
    return None


def relations(op, line):
    """C / C++ / Fortran agreement on one output line of ph_api; returns error text or None"""
    parts = line.split(" | ")
    if len(parts) == 1:
        return "Fortran glue wrote beyond the buffer" if line.endswith(":OVERRUN") else None
    if op.startswith("cell"):
        w = op.split()
        return cell_relations(line, int(w[4]) if len(w) > 4 else FBUF)
    c = parts[0].split()
    cpp = parts[1].split()[1:]
    f = parts[2].split()[1:]
    if c[0] == "I":
        live = cpp[0] != "-77"
        cv = int(c[1])
        if live and cpp[0] != c[1]:
            return f"C returned {c[1]}, C++ method {cpp[0]}"
        # the one documented difference: the Fortran row count leaves out the heading row
        expf = cv - 1 if (op.split()[1] == "GetSelectedOutputRowCount" and cv > 0) else cv
        if int(f[0]) != expf:
            return f"C returned {c[1]}, Fortran glue {f[0]} (expected {expf})"
    elif c[0] == "S":
        cs = b"" if c[1] == "-" else bytes.fromhex(c[1])
        if cpp[0] != "dead" and cpp[0] != c[1]:
            return "C string differs from C++ string"
        if f[0] == "-":
            return None
        w = f[0].split(":")
        if len(w) > 2:
            return "Fortran glue wrote beyond the buffer"
        fb = b"" if w[0] == "-" else bytes.fromhex(w[0])
        cap = len(fb)
        if int(w[1]) != len(cs):
            return f"Fortran reported length {w[1]}, string length {len(cs)}"
        if fb != cs[:cap] + b" " * max(0, cap - len(cs)):
            return "Fortran buffer is not the (truncated) blank-padded string"
    return None


class Runner:
    """runs op lists in a scratch directory (runs with file switches on create files named after the defaults)"""

    def __init__(self, ctx, exe):
        self.ctx = ctx
        self.dir = tempfile.mkdtemp(prefix="c13_")
        # private copy of the harness: a concurrent check may recompile the shared binary in place
        with vlib.Lock("harness-ph_apilib"):
            self.exe = shutil.copy2(exe, os.path.join(self.dir, "ph_api"))
        self.env = dict(os.environ, PH_DB=str(vlib.REPO / "database" / "phreeqc.dat"))

    def close(self):
        shutil.rmtree(self.dir, ignore_errors=True)

    def harness(self, text, timeout=120):
        d = tempfile.mkdtemp(dir=self.dir)
        try:
            return subprocess.run([str(self.exe)], input=text, text=True, capture_output=True, timeout=timeout, env=self.env, cwd=d)
        finally:
            shutil.rmtree(d, ignore_errors=True)

    def case(self, ops):
        text = "\n".join(ops) + "\n"
        r = self.harness(text)
        if r.returncode != 0:
            return ("crash", r.returncode, r.stderr[-300:])
        impl = r.stdout.splitlines()
        model = self.ctx.pmodel("api", text)
        if len(impl) != len(model):
            return ("len", len(impl), len(model))
        for k, (a, b) in enumerate(zip(impl, model)):
            if a.startswith("bad-op") or b.startswith("bad-op"):
                return ("bad-op", k, ops[k], a, b)
            first = a.split(" | ")[0]
            if b != "N" and not (first == b or (ops[k].startswith("cell") and first.startswith(b + " "))):
                return ("diff", k, ops[k], a, b)
            rel = relations(ops[k], a)
            if rel:
                return ("binding", k, ops[k], a, rel)
        return None


RUN_INPUT = """SOLUTION 1
 pH 7
 Na 1
 Cl 1
SOLUTION 2
 pH 8
 Ca 2
 Cl 4
SELECTED_OUTPUT 1
 -totals Na Ca
 -molalities Na+ Cl-
USER_PUNCH 1
 -headings s i missing a_heading_that_is_longer_than_the_fortran_buffer_of_48_characters
 10 PUNCH "txt", SIM_NO, , "a string value that is longer than the fortran buffer of 48 characters"
SELECTED_OUTPUT 3
 -reset false
 -pH
SELECTED_OUTPUT 2
 -reset false
USER_PUNCH 2
 -headings h99_xxxxxxxxxxxxxxxxxxxxxxxxxxxxxxxxxxxxxxxxxxxxxxxxxxxxxxxxxxxxxxxxxxxxxxxxxxxxxxxxxxxxxxxxxxxxxxx h100_xxxxxxxxxxxxxxxxxxxxxxxxxxxxxxxxxxxxxxxxxxxxxxxxxxxxxxxxxxxxxxxxxxxxxxxxxxxxxxxxxxxxxxxxxxxxxxx h101_xxxxxxxxxxxxxxxxxxxxxxxxxxxxxxxxxxxxxxxxxxxxxxxxxxxxxxxxxxxxxxxxxxxxxxxxxxxxxxxxxxxxxxxxxxxxxxxx h130_xxxxxxxxxxxxxxxxxxxxxxxxxxxxxxxxxxxxxxxxxxxxxxxxxxxxxxxxxxxxxxxxxxxxxxxxxxxxxxxxxxxxxxxxxxxxxxxxxxxxxxxxxxxxxxxxxxxxxxxxxxxxx h170_xxxxxxxxxxxxxxxxxxxxxxxxxxxxxxxxxxxxxxxxxxxxxxxxxxxxxxxxxxxxxxxxxxxxxxxxxxxxxxxxxxxxxxxxxxxxxxxxxxxxxxxxxxxxxxxxxxxxxxxxxxxxxxxxxxxxxxxxxxxxxxxxxxxxxxxxxxxxxxxxxxxxx h300_xxxxxxxxxxxxxxxxxxxxxxxxxxxxxxxxxxxxxxxxxxxxxxxxxxxxxxxxxxxxxxxxxxxxxxxxxxxxxxxxxxxxxxxxxxxxxxxxxxxxxxxxxxxxxxxxxxxxxxxxxxxxxxxxxxxxxxxxxxxxxxxxxxxxxxxxxxxxxxxxxxxxxxxxxxxxxxxxxxxxxxxxxxxxxxxxxxxxxxxxxxxxxxxxxxxxxxxxxxxxxxxxxxxxxxxxxxxxxxxxxxxxxxxxxxxxxxxxxxxxxxxxxxxxxxxxxxxxxxxxxxxxxxxxxxxxxxx
 10 PUNCH "v99 yyyyyyyyyyyyyyyyyyyyyyyyyyyyyyyyyyyyyyyyyyyyyyyyyyyyyyyyyyyyyyyyyyyyyyyyyyyyyyyyyyyyyyyyyyyyyyy", "v100 yyyyyyyyyyyyyyyyyyyyyyyyyyyyyyyyyyyyyyyyyyyyyyyyyyyyyyyyyyyyyyyyyyyyyyyyyyyyyyyyyyyyyyyyyyyyyyy", "v101 yyyyyyyyyyyyyyyyyyyyyyyyyyyyyyyyyyyyyyyyyyyyyyyyyyyyyyyyyyyyyyyyyyyyyyyyyyyyyyyyyyyyyyyyyyyyyyyy", "v130 yyyyyyyyyyyyyyyyyyyyyyyyyyyyyyyyyyyyyyyyyyyyyyyyyyyyyyyyyyyyyyyyyyyyyyyyyyyyyyyyyyyyyyyyyyyyyyyyyyyyyyyyyyyyyyyyyyyyyyyyyyyyy", "v170 yyyyyyyyyyyyyyyyyyyyyyyyyyyyyyyyyyyyyyyyyyyyyyyyyyyyyyyyyyyyyyyyyyyyyyyyyyyyyyyyyyyyyyyyyyyyyyyyyyyyyyyyyyyyyyyyyyyyyyyyyyyyyyyyyyyyyyyyyyyyyyyyyyyyyyyyyyyyyyyyyyyyy", "v300 yyyyyyyyyyyyyyyyyyyyyyyyyyyyyyyyyyyyyyyyyyyyyyyyyyyyyyyyyyyyyyyyyyyyyyyyyyyyyyyyyyyyyyyyyyyyyyyyyyyyyyyyyyyyyyyyyyyyyyyyyyyyyyyyyyyyyyyyyyyyyyyyyyyyyyyyyyyyyyyyyyyyyyyyyyyyyyyyyyyyyyyyyyyyyyyyyyyyyyyyyyyyyyyyyyyyyyyyyyyyyyyyyyyyyyyyyyyyyyyyyyyyyyyyyyyyyyyyyyyyyyyyyyyyyyyyyyyyyyyyyyyyyyyyyyyyyyy"
USER_PRINT
 10 PRINT "callback", CALLBACK(2, 3, "abc")
DUMP
 -solution 1
KNOBS
 -logfile true
END
USE solution 1
REACTION 1
 NaCl 1
 0.1 0.2
END
SOLUTION 3
 pH 7
 Na 1
 Cl 1
EQUILIBRIUM_PHASES 3
 Fluorite 0 0
END
"""


def scenario(live_ids):
    """after real runs on two instances: every accessor of the three bindings, over live and dead ids, index ranges that
    include -1 and beyond the end (1-based shift of every indexed Fortran accessor), buffers shorter than the strings"""
    ops = ["create", "createcpp", "createf", "destroy 1"]
    for i in live_ids:
        ops += [f"loaddb c {i}", f"g4 c SetOutputStringOn {i} 1", f"g4 f SetDumpStringOn {i} 1", f"g4 p SetLogStringOn {i} 1",
                f"g4 c SetSelectedOutputStringOn {i} 1", f"setcb {'c' if i == 0 else 'f'} {i}",
                f"g5 c AccumulateLine {i} {hexs('TITLE accumulated')}", f"g5 f AddWarning {i} {hexs('a warning added by hand')}",
                f"runsel c {i} {hexs(RUN_INPUT)} 1 3 2"]
    probes = []
    for i in live_ids + [1, 99, -1, -6]:
        for cur in ((1, 3, 2, 0) if i in live_ids else (1,)):
            if i in live_ids:
                probes.append(f"g4 c SetCurrentSelectedOutputUserNumber {i} {cur}")
            probes += [f"g1 {n} {i}" for n in COUNTS]
            probes += [f"g1 Get{k}On {i}" for k in SW] + [f"g1 GetCurrentSelectedOutputUserNumber {i}"]
            probes += [f"g2 Get{k}FileName {i} {cap}" for k in NM for cap in (5, 48)]
            probes += [f"g2 {n} {i} 0" for n in STRINGS]
            for n in LINES:
                for k in range(-1, 7):
                    probes.append(f"g3 {n} {i} {k} {(5, 48, 300)[k % 3]}")
            probes += [f"nth {i} {k}" for k in range(-1, 4)]
            for r in range(-1, 6):
                for c in range(-2, 14):
                    probes.append(f"cell {i} {r} {c}")
            if cur == 2 or i not in live_ids:
                # headings and punched strings of 99 ... 300 characters through caller buffers shorter and longer than the value
                # (and than the 100-character scratch buffers of the glue)
                for r in (0, 1, 3):
                    for c in range(0, 6):
                        for cap in LONG_CAPS:
                            probes.append(f"cell {i} {r} {c} {cap}")
            probes += [f"g6 {v} {n} {i}" for n in VOIDS for v in VIA]
    probes += ["version"]
    return ops, probes


def run_scenario(ctx, runner):
    ops, probes = scenario([0, 2])
    r = runner.harness("\n".join(ops + probes) + "\n", timeout=300)
    if r.returncode != 0:
        return 0, ("crash", r.returncode, r.stderr[-300:]), ops
    out = r.stdout.splitlines()
    model = ctx.pmodel("api", "\n".join(ops + probes) + "\n")
    if len(out) != len(ops) + len(probes) or len(model) != len(out):
        return 0, ("len", len(out), len(model), len(ops) + len(probes)), ops
    n = 0
    seen = {"nonempty_strings": 0, "truncated": 0, "dead_probes": 0, "live_probes": 0}
    for k, (op, ln, md) in enumerate(zip(ops + probes, out, model)):
        if k < len(ops):
            if op.startswith("runsel") and ln != "I 0":
                return n, ("setup", op[:40], ln, "the scenario's run reported errors"), ops
            continue
        n += 1
        if ln.startswith("bad-op") or md.startswith("bad-op"):
            return n, ("bad-op", op, ln, md), ops
        first = ln.split(" | ")[0]
        if md != "N":
            seen["dead_probes" if " | cpp -77" in ln or " | cpp dead" in ln else "live_probes"] += 1
            if not (first == md or (op.startswith("cell") and first.startswith(md + " "))):
                return n, ("model", op, ln, md), ops
        e = relations(op, ln)
        if e:
            return n, ("binding", op, ln, e), ops
        if ln.startswith("S ") and " | f " in ln and ln.split(" | f ")[1] != "-":
            w = ln.split(" | f ")[1].split(":")
            cs = ln.split()[1]
            if cs != "-":
                seen["nonempty_strings"] += 1
                if len(bytes.fromhex(cs)) > (len(w[0]) // 2 if w[0] != "-" else 0):
                    seen["truncated"] += 1
    ctx.cov["scenario"] = seen
    longcells = sum(1 for op, ln in zip(ops + probes, out) if op.startswith("cell") and len(op.split()) > 4 and " S" in ln.split(" | ")[0]
                    and len(ln.split(" | ")[0].split()[2]) > 2 * 100)
    seen["string_cells_of_100_or_more_characters_probed"] = longcells
    if seen["nonempty_strings"] < 50 or seen["truncated"] < 10 or seen["dead_probes"] < 100 or longcells < 100:
        return n, ("vacuous", seen, "", "the accessor scenario no longer reaches non-empty / truncated strings or dead ids"), ops
    return n, None, ops


ALPHABET = ["create", "createcpp", "destroy 0", "destroyf 1", "g4 c SetOutputFileOn 0 1", "g1 GetOutputFileOn 0", "g1 GetOutputFileOn 1",
            "g5 f SetOutputFileName 1 " + hexs("q"), "g2 GetOutputFileName 1 48", "g4 p SetCurrentSelectedOutputUserNumber 0 -1",
            "g4 c SetCurrentSelectedOutputUserNumber 0 2", "g1 GetCurrentSelectedOutputUserNumber 0", "g2 GetSelectedOutputFileName 0 48",
            "g4 f SetSelectedOutputFileOn 0 1", "g1 GetSelectedOutputFileOn 0", "loadbad c 0"]


def run(ctx):
    translator_ok = True
    try:
        info = gen_api.generate(ctx)
    except Exception as e:          # last resort: the translator is written not to raise on unfamiliar code
        info = {"error": f"{type(e).__name__}: {e}"[:500]}
        translator_ok = False
        ctx.proof_broken.append({"stage": "translator", "error": info["error"]})
        ctx.log("PROOF BROKEN: translator failed:", info["error"][:200])
    ctx.cov["translator"] = info
    if info.get("facts_not_extracted"):
        # not a failure: these functions are judged by the behavioural tie only (every function is called through the three
        # bindings on live and dead ids); recorded so that the reader sees what the static obligations did not cover
        ctx.log("facts the translator could not bring into a normal form (left to the binding differential):", info["facts_not_extracted"][:6])
        ctx.notes.append("static facts not extracted, covered by the behavioural tie only: " + "; ".join(info["facts_not_extracted"][:20]))
    ok = ctx.prove(["PhreeqcVerif.Properties.C13", "PhreeqcVerif.Properties.C13Store"]) and translator_ok
    ctx.build_lib()
    exe = ctx.build_harness("ph_api")
    runner = Runner(ctx, exe)
    try:
        explore(ctx, runner, ok)
    finally:
        runner.close()
    if not ok and not ctx.violations:
        ctx.violation("proof obligation of C13 no longer checks and no failing input was found",
                      {"broken": ctx.proof_broken}, found_input=False)


def explore(ctx, runner, ok):
    nseq = ctx.n(3000, 20000)
    if not ok:
        nseq = max(nseq, 5000)
    hist = {}
    import json
    corpus = []
    for f in sorted((vlib.ROOT / "corpus" / "C13").glob("*.json")):      # minimised past disagreements, always replayed first
        try:
            corpus.append(json.loads(f.read_text())["ops"])
        except Exception:
            pass
    ctx.cov["corpus_cases"] = len(corpus)
    matrix = load_matrix(ctx.rng)
    ctx.cov["load_matrix_sequences"] = len(matrix)
    seqs = corpus + matrix + [(gen_seq_sel if k % 4 == 3 else gen_seq)(ctx.rng, ctx.rng.randint(2, 40)) for k in range(nseq)]
    if ctx.tier == "thorough" or not ok:
        # exhaustive: all sequences of length <= 4 over the alphabet
        for L in range(1, 5):
            for t in itertools.product(ALPHABET, repeat=L):
                seqs.append(list(t))
        ctx.cov["exhaustive_alphabet"] = ALPHABET
    else:
        for L in range(1, 4):
            for t in itertools.product(ALPHABET, repeat=L):
                seqs.append(list(t))
        ctx.cov["exhaustive_alphabet_length_le_3"] = ALPHABET
    for ops in seqs:
        for o in ops:
            w = o.split()
            key = w[0] + (":" + (w[2] if w[0] in ("g4", "g5", "g6") else w[1]) if w[0][0] == "g" else "")
            hist[key] = hist.get(key, 0) + 1
    ctx.sample({"ops": seqs[0][:10]})
    ctx.sample({"ops": seqs[1][:10]})
    evals = 0
    distinct = set()
    ex = ThreadPoolExecutor(12)
    try:
        # submitted in slices so that a failure does not leave tens of thousands of queued cases behind
        for lo in range(0, len(seqs), 2000):
            part = seqs[lo:lo + 2000]
            failed = None
            for ops, res in zip(part, ex.map(runner.case, part)):
                evals += 1
                distinct.add(tuple(ops))
                if res is not None and failed is None:
                    failed = ops
            if failed is not None:
                small = shrink_list(failed, lambda sub: runner.case(sub) is not None)
                res = runner.case(small)
                ctx.violation(f"C API / C++ / Fortran / model disagree: {res}", {"ops": small, "result": res})
                break
    finally:
        ex.shutdown(wait=True, cancel_futures=True)
    ncell, bad, ops = run_scenario(ctx, runner)
    if bad:
        ctx.violation(f"bindings disagree on an accessor (or differ from the documented invalid-instance result): {bad}",
                      {"scenario_ops": ops[:8], "result": bad})
    ctx.cov["evaluations"] = evals + ncell
    ctx.cov["distinct_nontrivial"] = len(distinct)
    ctx.cov["accessor_relations_checked"] = ncell
    ctx.cov["op_histogram"] = dict(sorted(hist.items()))
    ctx.cov["functions_exercised"] = len([k for k in hist if k[0] == "g"])
    ctx.cov["rule"] = ("seeded random sequences (2-40 ops) in which every op names the C function it goes through: create/destroy by the "
                       "three bindings, every Set*/Get* pair (setters through one binding chosen at random, getters through all three), "
                       "LoadDatabase (real and failing), SELECTED_OUTPUT definitions with and without -file, text/line/count "
                       "accessors, Output*, callbacks, padfstring; ids never issued / negative / destroyed, NULL and empty names, "
                       "names longer than the Fortran buffer, buffer lengths 0..300; C result compared with pmodel api (dead ids: "
                       "documented invalid-instance result of every function), bindings compared with each other; distinct = distinct "
                       "op lists. Then the accessor scenario: after real runs on two instances every accessor x 4 user numbers x "
                       "index -1..6 x three buffer sizes, every (row, col) in -1..5 x -2..13, on 2 live and 4 dead ids.")


def replay(ctx, data):
    ctx.build_lib()
    exe = ctx.build_harness("ph_api")
    runner = Runner(ctx, exe)
    try:
        if "ops" in data:
            res = runner.case(data["ops"])
            print("replay:", res)
            if res is not None:
                ctx.violation("replayed sequence still disagrees", data)
        else:
            ncell, bad, ops = run_scenario(ctx, runner)
            print("replay (accessor scenario):", bad)
            if bad:
                ctx.violation("replayed accessor scenario still disagrees", data)
    finally:
        runner.close()


MANIFEST = dict(
    technique='Lean 4: decide over wrapper/declaration/documentation tables regenerated from the C and Fortran glue sources and IPhreeqc.h, registry theorems, refinement of the settings store; op-sequence correspondence through the three bindings',
    text='Theorems (Properties/C13.lean, C13Store.lean): all 77 C functions of IPhreeqcLib.cpp and all 69 glue functions of IPhreeqc_interface_F.cpp (= the declarations of IPhreeqc.h / IPhreeqc_interface_F.h, completeness proved) have the documented forwarding shape (method, argument order, bool conversion, result-code translation, 1-based shifts, padding, guarded heading-row subtraction); for EVERY C function the invalid-instance branch equals the result transcribed by hand from the doc comments of IPhreeqc.h, and that transcription agrees with a mechanical reading of each doc block (wrappers_match_documentation, documentation_table_matches_header); the functions shifted by the glue are exactly those documented as one-based; bind(C) names/arity of the .F90 module match; padfstring contract; ids strictly increasing and never reused for every history; dead/negative/unissued ids change nothing; double destroy; per-instance isolation; the settings model refines a plain store (call_refines, calls_refine, capi_refines) with set/get, independence, rejection and default laws; results depend on the id only through the rendered default names (render theorems, shared with C06). Tie: translator re-run every check + random (quick) and exhaustive length<=4 (thorough) call sequences through C API, C++ object and F functions vs pmodel api; accessor scenario over live and dead ids after real runs.',
    note='Trusted: gen_api.py regex extraction (fails closed on unrecognised functions), harness/ph_api.cpp. No Fortran compiler: the .F90 module is checked textually; the F functions are called from C++. Where IPhreeqc.h is silent about invalid ids the table records the behaviour as built (marked silent*). Run* effects on the settings are modelled only for inputs consisting of one SELECTED_OUTPUT block.',
)
