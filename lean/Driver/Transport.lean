import PhreeqcVerif.Model.Util
import PhreeqcVerif.Model.NumOps
import PhreeqcVerif.Model.Transport
/-! `pmodel transport`: line protocol of the C11 model.

    setup <flow -1|0|1> <bf> <bl> <corr 0|1> <diffc> <timest> <n> <L1..Ln> <D1..Dn>     rationals as `num/den`
        → `PLAN nmix=<k> pre=<sub-mixes before the shift> maxmix=<rat>` and one `W <i> <l> <s> <r>` per cell (exact rationals)
    force <k>            recompute the weights for `k` sub-mixes (used only when 1.5·maxmix is an integer up to rounding)
    col <name> <first> <last> <cell1> … <celln>     one extensive quantity (doubles as 16 hex digits)
    run <shifts>         → `S <step> <name> <cells…>` for every step and quantity (Float execution of `transportStepWith`)
    advect <shifts>      → the same for the ADVECTION keyword
    stag <exch> <th_m> <th_im> <stagkin_time> <e1> … <en>   stagnant layer; e_i = `-` or `<water_m hex>:<water_im hex>`
        → `SW <i> <mSelf> <mFromIm> <imSelf> <imFromM>` (hex doubles; f = exp(…) evaluated in Float as the code does)
    stagw <e1> … <en>    explicit MIX-defined pairs; e_i = `-` or `mSelf,mFromIm,imSelf,imFromM` (rationals) → `SWN <count>`
    scol <name> <first> <last> <cell…> ; <immobile cell…>      quantity in a column with stagnant layer
    srun <shifts>        → `S <step> <name> <mobile cells>` and `I <step> <name> <immobile cells>`
    reset                forget the quantities
    mark <id>            → `M <id>` -/
namespace Driver.Transport
open PhreeqcVerif PhreeqcVerif.Util PhreeqcVerif.Transport

def parseRat (s : String) : Option Rat :=
  match s.splitOn "/" with
  | [a] => a.toInt?.map fun n => (n : Rat)
  | [a, b] => match a.toInt?, b.toNat? with
    | some n, some d => if d = 0 then none else some (mkRat n d)
    | _, _ => none
  | _ => none

def showRat (q : Rat) : String := s!"{q.num}/{q.den}"

def allSome {β : Type} : List (Option β) → Option (List β)
  | [] => some []
  | none :: _ => none
  | some x :: xs => (allSome xs).map (x :: ·)

def parseSetup (ws : List String) : Option Setup :=
  match ws with
  | fl :: bf :: bl :: corr :: dc :: ts :: n :: rest =>
    match fl.toInt?, bf.toNat?, bl.toNat?, corr.toNat?, parseRat dc, parseRat ts, n.toNat? with
    | some fl, some bf, some bl, some corr, some dc, some ts, some n =>
      if rest.length ≠ 2 * n then none else
      match allSome ((rest.take n).map parseRat), allSome ((rest.drop n).map parseRat) with
      | some ls, some ds =>
        some { cells := (ls.zip ds).map fun (l, d) => { len := l, disp := d }
               flow := if fl = 0 then Flow.none else if fl > 0 then Flow.forward else Flow.back
               bconFirst := bf, bconLast := bl, correctDisp := corr ≠ 0, diffc := dc, timest := ts }
      | _, _ => none
    | _, _, _, _, _, _, _ => none
  | _ => none

def wFloat (w : W Rat) : W Float := { l := floatOfRat w.l, s := floatOfRat w.s, r := floatOfRat w.r }

structure St where
  setup : Option Setup := none
  nmix : Nat := 0
  weights : List (W Rat) := []
  comps : Array (String × Col Float) := #[]
  stagw : List (Option (StagW Float)) := []
  scomps : Array (String × SCol Float) := #[]

def showCells (c : Col Float) : String := String.intercalate " " (c.cells.map hexOfFloat)

def planLines (s : Setup) (nmix : Nat) (ws : List (W Rat)) (mx : Rat) : List String :=
  s!"PLAN nmix={nmix} pre={preMixes s nmix} maxmix={showRat mx}" ::
    (ws.zipIdx.map fun (w, i) => s!"W {i + 1} {showRat w.l} {showRat w.s} {showRat w.r}")

def step (st : St) (line : String) : St × List String :=
  match words line with
  | "setup" :: rest =>
    match parseSetup rest with
    | some s => let p := initMix s
                ({ st with setup := some s, nmix := p.nmix, weights := p.weights }, planLines s p.nmix p.weights p.maxmix)
    | none => (st, ["bad-setup"])
  | ["force", k] =>
    match st.setup, k.toNat? with
    | some s, some k => let r := rawMix s
                        let ws := weightsWith r.1 k
                        ({ st with nmix := k, weights := ws }, planLines s k ws r.2)
    | _, _ => (st, ["bad-op"])
  | "col" :: name :: f :: l :: cells =>
    match floatOfHex f, floatOfHex l, allSome (cells.map floatOfHex) with
    | some f, some l, some cs => ({ st with comps := st.comps.push (name, { first := f, cells := cs, last := l }) }, [])
    | _, _, _ => (st, ["bad-col"])
  | ["reset"] => ({ st with comps := #[], scomps := #[] }, [])
  | "stag" :: ex :: tm :: ti :: sk :: entries =>
    match parseRat ex, parseRat tm, parseRat ti, parseRat sk with
    | some ex, some tm, some ti, some sk =>
      let exF := floatOfRat ex
      let tmF := floatOfRat tm
      let tiF := floatOfRat ti
      let skF := floatOfRat sk
      -- b = th_m / (th_m + th_im); f = exp(-exch_f * stagkin_time / (b * th_im))
      let b := tmF / (tmF + tiF)
      let f := Float.exp ((-exF) * skF / (b * tiF))
      let sw : List (Option (StagW Float)) := entries.map fun e =>
        match e.splitOn ":" with
        | [a, c] => match floatOfHex a, floatOfHex c with
          | some wm, some wim => some (stagWeights f tmF tiF wm wim)
          | _, _ => none
        | _ => none
      let out := sw.zipIdx.filterMap fun (w, i) => w.map fun w =>
        s!"SW {i + 1} {hexOfFloat w.mSelf} {hexOfFloat w.mFromIm} {hexOfFloat w.imSelf} {hexOfFloat w.imFromM}"
      ({ st with stagw := sw }, out)
    | _, _, _, _ => (st, ["bad-stag"])
  | "stagw" :: entries =>
    -- explicit MIX-defined mobile/immobile pairs: entry `-` or `mSelf,mFromIm,imSelf,imFromM` (rationals)
    let sw : List (Option (StagW Float)) := entries.map fun e =>
      match (e.splitOn ",").map parseRat with
      | [some a, some b, some c, some d] =>
        some { mSelf := floatOfRat a, mFromIm := floatOfRat b, imSelf := floatOfRat c, imFromM := floatOfRat d }
      | _ => none
    ({ st with stagw := sw }, [s!"SWN {(sw.filter Option.isSome).length}"])
  | "scol" :: name :: f :: l :: rest =>
    match rest.splitOn ";" |>.map (fun xs => allSome (xs.map floatOfHex)), floatOfHex f, floatOfHex l with
    | [some cs, some is], some f, some l =>
      ({ st with scomps := st.scomps.push (name, { mob := { first := f, cells := cs, last := l }, imm := is }) }, [])
    | _, _, _ => (st, ["bad-scol"])
  | ["srun", k] =>
    match st.setup, k.toNat? with
    | some s, some k =>
      let ws := st.weights.map wFloat
      let stepF : SCol Float → SCol Float := transportStagStepWith ws st.stagw st.nmix (preMixes s st.nmix) s.flow
      let out := st.scomps.toList.flatMap fun (name, c) =>
        (runWithS stepF k c).zipIdx.flatMap fun (c', t) =>
          [s!"S {t + 1} {name} {showCells c'.mob}", s!"I {t + 1} {name} {String.intercalate " " (c'.imm.map hexOfFloat)}"]
      (st, out)
    | _, _ => (st, ["bad-op"])
  | ["mark", i] => (st, [s!"M {i}"])
  | ["run", k] =>
    match st.setup, k.toNat? with
    | some s, some k =>
      let ws := st.weights.map wFloat
      let stepF : Col Float → Col Float := transportStepWith ws st.nmix (preMixes s st.nmix) s.flow
      let out := st.comps.toList.flatMap fun (name, c) =>
        (runWith stepF k c).zipIdx.map fun (c', t) => s!"S {t + 1} {name} {showCells c'}"
      (st, out)
    | _, _ => (st, ["bad-op"])
  | ["advect", k] =>
    match k.toNat? with
    | some k =>
      let out := st.comps.toList.flatMap fun (name, c) =>
        (advectionRun k c).zipIdx.map fun (c', t) => s!"S {t + 1} {name} {showCells c'}"
      (st, out)
    | none => (st, ["bad-op"])
  | [] => (st, [])
  | _ => (st, ["bad-op"])

def run : IO Unit := do
  let lines ← readLines (← IO.getStdin)
  let out ← IO.getStdout
  let mut st : St := {}
  for l in lines do
    let (st', o) := step st l
    st := st'
    for s in o do out.putStrLn s

end Driver.Transport
