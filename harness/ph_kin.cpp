// C12 harness: runs KINETICS inputs on the real library and reports selected-output cells as bit patterns;
// records every RATES evaluation through the BASIC CALLBACK (stage trace of rk_kinetics / CVODE);
// calls cxxKinetics::Current_step directly.
//
// ops (one per line):
//   db <hexpath>                          load database (kept for following runs; a fresh instance per `run`)
//   run <hexinput>                        fresh instance, LoadDatabase, RunString; prints
//                                           R <nerr> <nrows> <ncols> <ntrace> <nwarn_restart>
//                                           H <hexheading>...      (one line)
//                                           V <cell>...            (one line per data row; cell = D<hex64> | L<int> | S<hex> | E)
//                                           T <hex64 x1> <hex64 x2> <hextag> <hex64 cvode_last_good_time> <reaction_step>  (one per CALLBACK call, only when `trace 1`)
//                                           E <hex of first 400 chars of the error string>  (when nerr != 0)
//   trace 0|1                             switch trace printing
//   curstep <incr 0|1> <reaction_step> <count> <equal 0|1> <n> <hex64 step>*n
//                                         prints C <hex64>
#include "friend.hpp"
#include "hx.hpp"
#include "cxxKinetics.h"
#include <vector>
#include <string>

// second access shim of this translation unit (Phreeqc.h and IPhreeqc.hpp also befriend `TestSelectedOutput`)
class TestSelectedOutput {
public:
  static int reaction_step(IPhreeqc* p) { return p->PhreeqcPtr->reaction_step; }
  static double last_good_time(IPhreeqc* p) { return p->PhreeqcPtr->cvode_last_good_time; }
};

struct Ev { double x1, x2; std::string tag; double aux; int rstep; };
static std::vector<Ev> g_trace;
static bool g_trace_on = false;
static const size_t TRACE_MAX = 60000;   // a longer trace is truncated (the run is then counted, not compared)

static double cb(double x1, double x2, const char* str, void* cookie) {
  // aux = engine's cvode_last_good_time at the moment of the rate evaluation (0 outside CVODE)
  double aux = cookie ? TestSelectedOutput::last_good_time((IPhreeqc*)cookie) : 0.0;
  int rstep = cookie ? TestSelectedOutput::reaction_step((IPhreeqc*)cookie) : 0;
  if (g_trace.size() < TRACE_MAX) g_trace.push_back(Ev{x1, x2, str ? str : "", aux, rstep});
  return 0.0;
}

static std::string showVar(const VAR& v) {
  switch (v.type) {
    case TT_EMPTY: return "E";
    case TT_ERROR: return "X" + std::to_string((int)v.vresult);
    case TT_LONG: return "L" + std::to_string(v.lVal);
    case TT_DOUBLE: return "D" + hx::hexd(v.dVal);
    case TT_STRING: return "S" + hx::hex(v.sVal ? v.sVal : "");
  }
  return "?";
}

int main() {
  std::string db;
  std::string line;
  while (std::getline(std::cin, line)) {
    auto w = hx::words(line);
    if (w.empty()) continue;
    if (w[0] == "db" && w.size() == 2) {
      db = hx::unhex(w[1]);
      std::cout << "OK\n";
    } else if (w[0] == "trace" && w.size() == 2) {
      g_trace_on = (w[1] == "1");
      std::cout << "OK\n";
    } else if (w[0] == "run" && w.size() == 2) {
      g_trace.clear();
      IPhreeqc* p = new IPhreeqc();
      int nerr = p->LoadDatabase(db.c_str());
      if (nerr == 0) {
        p->SetBasicCallback(cb, p);   // after LoadDatabase (which re-initialises the engine and forgets the callback)
        p->SetSelectedOutputStringOn(false);
        p->SetOutputStringOn(false);
        p->SetErrorStringOn(true);
        nerr = p->RunString(hx::unhex(w[1]).c_str());
      }
      int nr = p->GetSelectedOutputRowCount();
      int nc = p->GetSelectedOutputColumnCount();
      // count CVODE restarts that reported "FAIL 2" or similar warnings (informational)
      int nwarn = p->GetWarningStringLineCount();
      std::cout << "R " << nerr << " " << nr << " " << nc << " " << g_trace.size() << " " << nwarn << "\n";
      std::cout << "H";
      for (int c = 0; c < nc; c++) {
        VAR v; VarInit(&v);
        p->GetSelectedOutputValue(0, c, &v);
        std::cout << " " << (v.type == TT_STRING ? hx::hex(v.sVal ? v.sVal : "") : std::string("-"));
        VarClear(&v);
      }
      std::cout << "\n";
      for (int r = 1; r < nr; r++) {
        std::cout << "V";
        for (int c = 0; c < nc; c++) {
          VAR v; VarInit(&v);
          p->GetSelectedOutputValue(r, c, &v);
          std::cout << " " << showVar(v);
          VarClear(&v);
        }
        std::cout << "\n";
      }
      if (g_trace_on) {
        for (const Ev& e : g_trace)
          std::cout << "T " << hx::hexd(e.x1) << " " << hx::hexd(e.x2) << " " << hx::hex(e.tag) << " " << hx::hexd(e.aux) << " " << e.rstep << "\n";
      }
      if (nerr != 0) {
        std::string es = p->GetErrorString();
        if (es.size() > 400) es.resize(400);
        std::cout << "E " << hx::hex(es) << "\n";
      }
      std::cout << "." << std::endl;
      delete p;
    } else if (w[0] == "curstep" && w.size() >= 6) {
      bool incr = w[1] == "1";
      int rs = std::stoi(w[2]);
      int count = std::stoi(w[3]);
      bool eq = w[4] == "1";
      size_t n = (size_t)std::stoul(w[5]);
      if (w.size() != 6 + n) { std::cout << "bad-op\n"; continue; }
      cxxKinetics k;
      k.Get_steps().clear();
      for (size_t i = 0; i < n; i++) k.Get_steps().push_back(hx::unhexd(w[6 + i]));
      k.Set_count(count);
      k.Set_equalIncrements(eq);
      double v = k.Current_step(incr, rs);
      std::cout << "C " << hx::hexd(v) << "\n";
    } else {
      std::cout << "bad-op\n";
    }
  }
  return 0;
}
