"""Seeded generator of reaction states for C10: PHREEQC inputs that define, equilibrate, react and SAVE every kind of
numbered entity (solutions with isotopes / species gammas, exchangers, surfaces of every electrostatic model, gas
phases at fixed pressure / fixed volume, pure phases, solid solutions, kinetics, mix, reaction, temperature, pressure),
plus a follow-up calculation that uses the saved entities.  All randomness comes from the `rng` passed in."""

ELEMS = [("Na", 0.1, 50), ("K", 0.05, 5), ("Ca", 0.1, 10), ("Mg", 0.1, 10), ("Cl", 0.1, 60), ("S(6)", 0.1, 10),
         ("C(4)", 0.2, 8), ("Si", 0.01, 0.5), ("Sr", 0.001, 0.1), ("Ba", 0.0001, 0.001)]


def num(rng, lo, hi, digits=4):
    import math
    x = math.exp(rng.uniform(math.log(lo), math.log(hi)))
    return float(f"{x:.{digits}g}")


def solution(rng, n, db, feat):
    lines = [f"SOLUTION {n} {rng.choice(['', 'water ' + str(n), 'a  b'])}".rstrip()]
    lines.append(f" temp {rng.choice([25, 25, 10, 40, 60])}")
    lines.append(f" pH {rng.choice([5.5, 6.5, 7, 7.8, 8.5])}" + (" charge" if rng.random() < 0.3 else ""))
    if rng.random() < 0.4:
        lines.append(f" pe {rng.choice([4, 8, 12, 0])}")
    if rng.random() < 0.25 and db != "pitzer.dat":
        lines.append(f" pressure {rng.choice([1, 5, 20, 50])}")
        feat.add("sol:pressure")
    if rng.random() < 0.3:
        lines.append(f" water {rng.choice([0.5, 1, 2])}")
        feat.add("sol:water")
    if rng.random() < 0.3:
        lines.append(f" density {rng.choice([1.0, 1.01, 1.02])}")
    pool = [e for e in ELEMS if not (db == "pitzer.dat" and e[0] in ("Si",)) and not (db == "iso.dat" and e[0] in ("Sr", "Ba", "Si"))]
    k = rng.randint(2, 6)
    chosen = rng.sample(pool, k)
    names = set()
    for nm, lo, hi in chosen:
        nm2 = nm
        if db == "iso.dat":
            nm2 = {"C(4)": "C", "S(6)": "S"}.get(nm, nm)
        names.add(nm2)
        lines.append(f" {nm2} {num(rng, lo, hi)}")
    if not ({"Cl", "S(6)", "S", "C(4)", "C"} & names):
        lines.append(f" Cl {num(rng, 0.5, 20)}")
        names.add("Cl")
    if not ({"Na", "K", "Ca", "Mg"} & names):
        lines.append(f" Na {num(rng, 0.5, 20)}")
        names.add("Na")
    if db == "phreeqc.dat" and rng.random() < 0.35:
        # analysed waters that report several valence states of one element (redox disequilibrium of an initial solution)
        feat.add("sol:valence-states")
        for a, b in rng.sample([("Fe(2)", "Fe(3)"), ("N(5)", "N(-3)"), ("S(6)", "S(-2)"), ("Mn(2)", "Mn(3)"), ("N(5)", "N(3)")], rng.randint(1, 2)):
            if a == "S(6)" and any(l.strip().startswith("S(6)") for l in lines):
                lines.append(f" S(-2) {num(rng, 0.001, 0.1)}")
                continue
            if any(l.strip().startswith(a.split("(")[0] + "(") for l in lines):
                continue
            lines.append(f" {a} {num(rng, 0.01, 0.5)}")
            lines.append(f" {b} {num(rng, 0.001, 0.2)}")
        if not any(l.strip().startswith("pe ") for l in lines):
            lines.append(f" pe {rng.choice([3, 6, 9])}")
    if db == "iso.dat":
        feat.add("sol:isotopes")
        if "C" in names:
            lines.append(f" -isotope 13C {rng.choice([-10, -25, 0.5])}" + (f" {rng.choice([0.5, 1])}" if rng.random() < 0.5 else ""))
        lines.append(f" -isotope 18O {rng.choice([-5, -10.5])}" + (f" {rng.choice([0.1, 0.2])}" if rng.random() < 0.5 else ""))
        if rng.random() < 0.5:
            lines.append(f" -isotope 2H {rng.choice([-40, -80])}")
    return lines, names


def exchange(rng, feat, have):
    lines = ["EXCHANGE 1"]
    r = rng.random()
    if r < 0.6 or "pp" not in have and "kin" not in have:
        lines.append(f" X {num(rng, 0.001, 0.5)}")
    elif "pp" in have and r < 0.8:
        lines.append(f" X Calcite equilibrium_phase {num(rng, 0.01, 0.5)}")
        feat.add("exch:phase-related")
    elif "kin" in have:
        lines.append(f" X Calcite kinetic_reactant {num(rng, 0.01, 0.5)}")
        feat.add("exch:rate-related")
    else:
        lines.append(f" X {num(rng, 0.001, 0.5)}")
    lines.append(" -equilibrate 1")
    if rng.random() < 0.3:
        lines.append(" -pitzer_exchange_gammas " + rng.choice(["true", "false"]))
    return lines


def surface(rng, feat, have):
    model = rng.choice(["ddl", "ddl", "no_edl", "diffuse", "donnan", "donnan_debye", "cd_music", "density"])
    feat.add("surf:" + model)
    lines = ["SURFACE 1"]
    sw, ss = num(rng, 1e-4, 5e-3), num(rng, 1e-5, 2e-4)
    area, grams = rng.choice([600, 100, 60]), num(rng, 0.05, 2)
    if model == "density":
        lines.append(" -sites_units density")
        lines.append(f" Hfo_w {rng.choice([1.0, 2.3, 0.5])} {area} {grams}")
        lines.append(f" Hfo_s {rng.choice([0.05, 0.1])}")
    else:
        lines.append(f" Hfo_w {sw} {area} {grams}")
        if rng.random() < 0.7:
            lines.append(f" Hfo_s {ss}")
    lines.append(" -equilibrate 1")
    if model == "no_edl":
        lines.append(" -no_edl")
    elif model == "diffuse":
        lines.append(f" -diffuse_layer {rng.choice([1e-8, 1e-9])}")
        if rng.random() < 0.5:
            lines.append(" -only_counter_ions")
            feat.add("surf:only_counter_ions")
    elif model == "donnan":
        lines.append(f" -donnan {rng.choice([1e-8, 5e-9])}")
        if rng.random() < 0.4:
            lines.append(f" -donnan {rng.choice([1e-8, 5e-9])} viscosity {rng.choice([0.5, 1])}")
    elif model == "donnan_debye":
        lines.append(f" -donnan debye_lengths {rng.choice([1, 2])} limit_ddl {rng.choice([0.8, 0.9])}")
    elif model == "cd_music":
        lines.append(" -cd_music")
        lines.append(f" -capacitances {rng.choice([1.0, 0.9])} {rng.choice([5, 0.2])}")
    return lines


def gas_phase(rng, feat, db="phreeqc.dat"):
    fixed_p = rng.random() < 0.5
    feat.add("gas:fixed_pressure" if fixed_p else "gas:fixed_volume")
    lines = ["GAS_PHASE 1", " -fixed_pressure" if fixed_p else " -fixed_volume"]
    if fixed_p:
        lines.append(f" -pressure {rng.choice([1, 1.5, 2])}")
    lines.append(f" -volume {rng.choice([1, 0.5, 2])}")
    lines.append(f" -temperature {rng.choice([25, 25, 40])}")
    pool = ["CO2(g)", "H2O(g)"] if db == "pitzer.dat" else ["CO2(g)", "O2(g)", "N2(g)", "CH4(g)", "H2O(g)"]
    gases = rng.sample(pool, rng.randint(1, min(3, len(pool))))
    if not fixed_p and rng.random() < 0.4:
        lines.append(" -equilibrate 1")
        feat.add("gas:equilibrate")
        for g in gases:
            lines.append(f" {g}")
    else:
        for g in gases:
            lines.append(f" {g} {num(rng, 0.001, 0.8)}")
    return lines


def pure_phases(rng, feat, names):
    lines = ["EQUILIBRIUM_PHASES 1"]
    cands = [("Calcite", 0.0), ("Gypsum", 0.0), ("Quartz", 0.0), ("Dolomite", 0.0), ("CO2(g)", -2.0), ("Halite", 0.0)]
    for ph, si in rng.sample(cands, rng.randint(1, 3)):
        amount = rng.choice([0, 0.01, 1, 10])
        s = f" {ph} {si if rng.random() < 0.7 else rng.choice([-0.5, 0.2, -1.5])} {amount}"
        r = rng.random()
        if r < 0.12:
            s += " dissolve_only"
            feat.add("pp:dissolve_only")
        elif r < 0.24:
            s += " precipitate_only"
            feat.add("pp:precipitate_only")
        lines.append(s)
    if rng.random() < 0.2:
        lines.append(f" Calcite 0 {rng.choice(['CaCO3', 'Ca(OH)2'])} {rng.choice([0.1, 1])}") if not any("Calcite" in l for l in lines) else None
        feat.add("pp:add_formula")
    lines[:] = [l for l in lines if l]
    if rng.random() < 0.15 and len(lines) > 1:
        lines.insert(1, f" Fix_x; {lines.pop(1).strip()}") if False else None
    return [l for l in lines if l]


def solid_solutions(rng, feat):
    lines = ["SOLID_SOLUTIONS 1"]
    if rng.random() < 0.5:
        feat.add("ss:ideal")
        lines += [" Sulf", f" -comp Anhydrite {num(rng, 0.01, 1.5)}", f" -comp Celestite {num(rng, 0.001, 0.05)}"]
        if rng.random() < 0.5:
            lines.append(f" -comp Barite {num(rng, 0.001, 0.05)}")
    else:
        feat.add("ss:nonideal")
        lines += [" Ca(x)Sr(1-x)CO3", f" -comp1 Aragonite {rng.choice([0, 0.01])}", f" -comp2 Strontianite {rng.choice([0, 0.001])}",
                  f" -Gugg_nondim {rng.choice([3.43, 2.5])} {rng.choice([-1.82, 0.5])}"]
    if rng.random() < 0.3:
        feat.add("ss:two")
        lines += [" Carb2", f" -comp Calcite {num(rng, 0.01, 0.1)}", f" -comp Rhodochrosite {num(rng, 0.001, 0.01)}"]
    return lines


def kinetics(rng, feat):
    lines = ["KINETICS 1"]
    for nm in rng.sample(["Calcite", "Quartz", "MyRate"], rng.randint(1, 2)):
        lines.append(f" {nm}")
        if nm == "Calcite":
            lines += [f"  -tol {rng.choice(['1e-8', '1e-9'])}", f"  -m0 {num(rng, 0.01, 1)}", f"  -m {num(rng, 0.005, 0.9)}",
                      f"  -parms {rng.choice([1.67e5, 5e4])} {rng.choice([0.6, 0.67])}"]
        elif nm == "Quartz":
            lines += [f"  -m0 {num(rng, 1, 100)}", f"  -parms {rng.choice([0.146, 1.0])} {rng.choice([0.1, 1.5])}"]
        else:
            feat.add("kin:user-rate")
            lines += ["  -formula NaCl 1 H2O 0.1", f"  -m0 {num(rng, 0.01, 1)}", f"  -parms {num(rng, 1e-7, 1e-5)} 2 3 4 5 6 7", f"  -tol 1e-8"]
    st = rng.random()
    if st < 0.4:
        lines.append(f" -steps {rng.choice([100, 3600])} {rng.choice([200, 7200])} {rng.choice([50, 86400])}")
    elif st < 0.7:
        lines.append(f" -steps {rng.choice([1000, 86400])} in {rng.choice([2, 3])} steps")
        feat.add("kin:equal-increments")
    else:
        lines.append(" -steps " + " ".join(str(rng.choice([10, 100, 500, 1000])) for _ in range(rng.randint(6, 9))))
        feat.add("kin:many-steps")
    if rng.random() < 0.3:
        lines.append(" -cvode true")
        feat.add("kin:cvode")
        if rng.random() < 0.5:
            lines += [f" -cvode_steps {rng.choice([50, 200])}", f" -cvode_order {rng.choice([3, 5])}"]
    if rng.random() < 0.3:
        lines += [f" -runge_kutta {rng.choice([1, 2, 3, 6])}", f" -step_divide {rng.choice([1, 10, 0.01])}", f" -bad_step_max {rng.choice([200, 500])}"]
    return lines


RATE_ADDS = """RATES
 MyRate
 -start
 10 rate = PARM(1) * (1 + TOT("Na"))
 20 SAVE rate * TIME
 -end
"""


def steps_list(rng, vals, feat, tag):
    if rng.random() < 0.4:
        feat.add(tag + ":in-steps")
        return f"{rng.choice(vals)} {rng.choice(vals)} in {rng.choice([2, 3, 4])} steps" if tag != "rxn" else f"{rng.choice(vals)} in {rng.choice([2, 3])} steps"
    n = rng.choice([1, 2, 3, 7, 8])
    if n >= 7:
        feat.add(tag + ":long-list")
    return " ".join(str(rng.choice(vals)) for _ in range(n))


def gen_case(rng, force=None):
    """one case: dict(db, adds, setup, followups=[...], feat=set, kinds=[...])"""
    feat = set()
    r = rng.random()
    db = "phreeqc.dat"
    if force == "iso" or (force is None and r < 0.12):
        db = "iso.dat"
    elif force == "pitzer" or (force is None and r < 0.22):
        db = "pitzer.dat"
        feat.add("sol:pitzer-gammas")
    kinds_all = ["exch", "surf", "gas", "pp", "ss", "kin", "mix", "rxn", "temp", "pres"]
    if db == "iso.dat":
        kinds_all = ["gas", "rxn", "temp", "mix"]
    if db == "pitzer.dat":
        kinds_all = ["exch", "gas", "pp", "mix", "rxn", "temp", "pres"]
    k = rng.randint(1, min(5, len(kinds_all)))
    kinds = set(rng.sample(kinds_all, k)) if force not in kinds_all else {force} | set(rng.sample(kinds_all, rng.randint(0, 2)))
    have = set(kinds)
    adds = RATE_ADDS if "kin" in kinds else ""
    setup = []
    s1, names1 = solution(rng, 1, db, feat)
    setup += s1
    if "mix" in kinds or rng.random() < 0.3:
        s2, _ = solution(rng, 2, db, feat)
        setup += s2
        have.add("sol2")
    setup.append("END")
    defs = []
    if "pp" in kinds:
        defs += pure_phases(rng, feat, names1) if db != "pitzer.dat" else ["EQUILIBRIUM_PHASES 1", f" Calcite 0 {rng.choice([0, 1])}", f" Gypsum 0 {rng.choice([0, 1])}"]
    if "kin" in kinds:
        defs += kinetics(rng, feat)
    if "exch" in kinds:
        defs += exchange(rng, feat, have)
    if "surf" in kinds:
        defs += surface(rng, feat, have)
    if "gas" in kinds:
        defs += gas_phase(rng, feat, db)
    if "ss" in kinds:
        defs += solid_solutions(rng, feat)
    if "mix" in kinds:
        defs += ["MIX 1", f" 1 {rng.choice([0.5, 0.25, 1.0])}", f" 2 {rng.choice([0.5, 0.75, 0.1])}"]
    if "rxn" in kinds:
        defs += ["REACTION 1", f" {rng.choice(['NaCl 1', 'NaCl 1 CaCl2 0.5', 'HCl 1', 'CO2 1 H2O 2'] + (['O2 1', 'FeCl2 1', 'CH2O 1', 'NH3 1 O2 0.5'] if db == 'phreeqc.dat' else []))}",
                 f" {steps_list(rng, [0.001, 0.002, 0.005, 0.0001], feat, 'rxn')} {rng.choice(['', 'mmol', 'moles'])}".rstrip()]
    if "temp" in kinds:
        defs += ["REACTION_TEMPERATURE 1", " " + steps_list(rng, [25, 30, 45, 60], feat, "temp")]
    if "pres" in kinds:
        defs += ["REACTION_PRESSURE 1", " " + steps_list(rng, [1, 5, 10, 20], feat, "pres")]
    setup += defs
    uses = {"exch": "exchange", "surf": "surface", "gas": "gas_phase", "pp": "equilibrium_phases", "ss": "solid_solutions",
            "kin": "kinetics", "rxn": "reaction", "temp": "reaction_temperature", "pres": "reaction_pressure"}
    react = rng.random() < 0.75
    if react:
        feat.add("state:after-reaction")
        setup.append("END")
        setup.append("USE solution 1")
        for kd in kinds:
            if kd in uses and kd not in ("rxn", "temp", "pres"):
                setup.append(f"USE {uses[kd]} 1")
        if "rxn" not in kinds and rng.random() < 0.5:
            setup += ["REACTION 5", " NaCl 1", " 0.0005"]
        setup.append("SAVE solution 1")
        for kd in kinds:
            if kd in ("exch", "surf", "gas", "pp", "ss"):
                setup.append(f"SAVE {uses[kd]} 1")
    else:
        feat.add("state:as-defined")
        setup.append("SAVE solution 1") if False else None
    setup = [l for l in setup if l]
    setup.append("END")
    # follow-up calculations on the saved state
    # the comparison is at 1e-7: keep the solver's own convergence noise well below that
    sel = ["KNOBS", " -convergence_tolerance 1e-12", "SELECTED_OUTPUT 1", " -reset false", " -pH true", " -temperature true", " -water true", " -ionic_strength true",
           " -totals Na K Ca Mg Cl S C Si Sr Ba" if db != "pitzer.dat" else " -totals Na K Ca Mg Cl S C Sr Ba"]
    if "pp" in kinds:
        sel.append(" -equilibrium_phases Calcite Gypsum Quartz Dolomite CO2(g) Halite" if db != "pitzer.dat" else " -equilibrium_phases Calcite Gypsum")
    if "gas" in kinds:
        sel.append(" -gases CO2(g) O2(g) N2(g) CH4(g) H2O(g)" if db != "pitzer.dat" else " -gases CO2(g) H2O(g)")
    if "kin" in kinds:
        sel.append(" -kinetic_reactants Calcite Quartz MyRate")
    if "ss" in kinds:
        sel.append(" -solid_solutions Anhydrite Celestite Barite Aragonite Strontianite Calcite Rhodochrosite")
    if "exch" in kinds:
        sel.append(" -molalities NaX CaX2 KX MgX2")
    if "surf" in kinds:
        sel.append(" -molalities Hfo_wOH Hfo_wOH2+ Hfo_wO- Hfo_sOH")
    f1 = list(sel)
    f1.append("USE mix 1" if "mix" in kinds and rng.random() < 0.6 else "USE solution 1")
    for kd in kinds:
        if kd in uses:
            f1.append(f"USE {uses[kd]} 1")
    if "rxn" not in kinds:
        f1 += ["REACTION 9", f" {rng.choice(['NaCl 1', 'HCl 1', 'NaOH 1'])}", f" {rng.choice([0.001, 0.0005])}"]
    f1.append("END")
    followups = [("use", f1)]
    if rng.random() < 0.5 and "mix" not in kinds:
        f2 = list(sel) + ["RUN_CELLS", " -cells 1"] + ([" -time_step 100"] if "kin" in kinds else []) + ["END"]
        followups.append(("run_cells", f2))
        feat.add("followup:run_cells")
    for kd in kinds:
        feat.add("kind:" + kd)
    feat.add("db:" + db)
    return dict(db=db, adds=adds, setup="\n".join(setup) + "\n", followups=[(n, "\n".join(f) + "\n") for n, f in followups],
                feat=sorted(feat), kinds=sorted(kinds), react=react)
