/-!
# `CParser::find_option` (src/phreeqcpp/common/Parser.cxx)

The C++ lower-cases the item, then walks the option vector from the front and returns the index of the FIRST entry
that (exact = false) *starts with* the item — `list[i].find(token) == 0` — or (exact = true) *equals* it.
`-1`/`FT_ERROR` is `none` here. `get_option` calls it with `exact = false` on the first token of a line that starts
with `-<letter>` (after dropping the dash) and with `exact = true` on the first token of every other line.
-/
namespace PhreeqcVerif.Raw

/-- `std::transform(..., tolower)` on an ASCII token -/
def lower (s : String) : List Char := s.toList.map Char.toLower

/-- first index `≥ i` whose option satisfies `p` -/
def findFrom (p : String → Bool) : List String → Nat → Option Nat
  | [], _ => none
  | o :: os, i => if p o then some i else findFrom p os (i + 1)

/-- `find_option(item, &n, list, false)`: case-folded PREFIX match, first hit wins -/
def findOption (item : String) (list : List String) : Option Nat :=
  findFrom (fun o => (lower item).isPrefixOf o.toList) list 0

/-- `find_option(item, &n, list, true)`: case-folded exact match, first hit wins -/
def findOptionExact (item : String) (list : List String) : Option Nat :=
  findFrom (fun o => lower item == o.toList) list 0

/-- what `get_option` does with the first token of a line: `-x…` → prefix lookup of the rest; anything else → exact lookup
(`none` = OPT_ERROR for an option line, OPT_DEFAULT for a data line) -/
def isOptionToken (tok : String) : Bool :=
  match tok.toList with
  | '-' :: c :: _ => c.isAlpha
  | _ => false

def lineOption (tok : String) (list : List String) : Option Nat :=
  if isOptionToken tok then findOption (String.ofList (tok.toList.drop 1)) list else findOptionExact tok list

end PhreeqcVerif.Raw
