import PhreeqcVerif.Model.NameDouble
/-! Model of the bookkeeping of one reaction step (step.cpp, mainsubs.cpp `saver`, System.cxx, Reaction.cxx):

* `contribs c` / `inventory c`: every (element, moles) contribution of a cell — solution(s) with mixing fractions,
  exchangers, surfaces and their diffuse layers, gas phase, pure phases (alternative formula when given), solid
  solutions, kinetic reactants; H, O and the net charge (key "Charge") included.  `sysTotalize` is the engine's own
  `cxxSystem::totalize`, which leaves out diffuse layers, kinetic reactants and alternative-formula phases and uses the
  charge of the surface *components*.
* `stepAmount`: the step-selection logic of `add_reaction` (cumulative/incremental × list/equal increments × units),
  `kinStep` the same for `cxxKinetics::Current_step`.
* `assemble`: the totals `step()` accumulates (`total_h_x`, `total_o_x`, `cb_x`, master totals) by `add_solution`/`add_mix`,
  `add_reaction`, `add_kinetics`, `add_exchange`, `add_surface`, `add_gas_phase`, `add_pp_assemblage`,
  `add_ss_assemblage`, in that order, including the small transfers out of pure phases / solid solutions.
* `partition`: what `saver()` writes back from a solver output.
All arithmetic is exact (`Rat`); the C code computes the same expressions in doubles. -/
namespace PhreeqcVerif.Inventory
open PhreeqcVerif.NameDouble

/-- element list of a phase or formula (as produced by the formula parser; names may repeat) -/
abbrev Formula := List (String × Rat)

structure Solution where
  totalH : Rat
  totalO : Rat
  cb : Rat
  massWater : Rat := 1
  totals : ND := []          -- keyed by redox-state names ("C(4)")

structure ExchComp where
  totals : ND
  cb : Rat

structure Exchange where
  newDef : Bool := false
  comps : List ExchComp

structure SurfComp where
  totals : ND
  cb : Rat

structure SurfCharge where
  cb : Rat
  dl : ND := []              -- diffuse_layer_totals

inductive SurfType where
  | unknown | noEdl | ddl | cdMusic | ccm
  deriving DecidableEq, Repr

structure Surface where
  typ : SurfType
  hasDL : Bool               -- dl_type != NO_DL
  newDef : Bool := false
  comps : List SurfComp
  charges : List SurfCharge

/-- gas component, pure phase (formula = the alternative formula when one is given) or solid-solution component -/
structure Amount where
  formula : Formula
  moles : Rat
  precipOnly : Bool := false
  /-- pure phase with an alternative formula (ignored by `cxxPPassemblageComp::totalize`) -/
  alt : Bool := false

structure KinComp where
  m : Rat
  parts : List (Formula × Rat)     -- `-formula`: (element list of the name, coefficient)

structure Reaction where
  reactants : List (Formula × Rat)
  steps : List Rat
  equal : Bool
  count : Nat
  unitFactor : Rat := 1

structure Cell where
  sols : List (Rat × Solution)     -- one solution = [(1, s)]; MIX = (fraction, solution) in map order
  exch : Option Exchange := none
  surf : Option Surface := none
  gas : List Amount := []
  pp : List Amount := []
  ss : List Amount := []
  kin : List KinComp := []

/-! ### inventory -/

def isHO (b : String) : Bool := b == "H" || b == "O"

def solContribs (ext : Rat) (s : Solution) : List (String × Rat) :=
  [("H", s.totalH * ext), ("O", s.totalO * ext), ("Charge", s.cb * ext)] ++
    s.totals.filterMap fun p => if isHO (baseName p.1) then none else some (baseName p.1, p.2 * ext)

def amountContribs (a : Amount) : List (String × Rat) := a.formula.map fun p => (p.1, p.2 * a.moles)

def exchCompContribs (newDef : Bool) (c : ExchComp) : List (String × Rat) :=
  c.totals ++ (if newDef then [] else [("Charge", c.cb)])

def exchContribs (x : Exchange) : List (String × Rat) := x.comps.flatMap (exchCompContribs x.newDef)

def surfContribs (s : Surface) : List (String × Rat) :=
  s.comps.flatMap (fun c => c.totals ++ (if s.typ = SurfType.noEdl then [("Charge", c.cb)] else [])) ++
  (if s.typ = SurfType.noEdl ∨ s.typ = SurfType.unknown then [] else
    s.charges.flatMap fun ch => [("Charge", ch.cb)] ++ (if s.hasDL && !s.newDef then ch.dl else []))

def kinCompContribs (k : KinComp) : List (String × Rat) :=
  k.parts.flatMap fun fc => fc.1.map fun p => (p.1, p.2 * (fc.2 * k.m))

def optContribs {α} (f : α → List (String × Rat)) : Option α → List (String × Rat)
  | none => []
  | some a => f a

/-- all contributions of a cell, reactant by reactant -/
def contribs (c : Cell) : List (String × Rat) :=
  c.sols.flatMap (fun fs => solContribs fs.1 fs.2) ++ optContribs exchContribs c.exch ++ optContribs surfContribs c.surf ++
  c.gas.flatMap amountContribs ++ c.pp.flatMap amountContribs ++ c.ss.flatMap amountContribs ++
  c.kin.flatMap kinCompContribs

/-- element → moles of the whole cell ("Charge" = net charge) -/
def inventory (c : Cell) : ND := ofList (contribs c)

/-- `cxxSystem::totalize` for a system with one solution: no diffuse layers, no kinetic reactants, no
alternative-formula phases; the surface charge is that of the components whatever the surface type; solution totals
keep their redox-state keys. -/
def sysTotalize (c : Cell) : ND :=
  ofList (
    c.sols.flatMap (fun fs => [("O", fs.2.totalO), ("H", fs.2.totalH), ("Charge", fs.2.cb)] ++ fs.2.totals) ++
    optContribs (fun x => x.comps.flatMap fun k => k.totals ++ [("Charge", k.cb)]) c.exch ++
    (c.pp.filter (fun a => !a.alt)).flatMap amountContribs ++ c.gas.flatMap amountContribs ++
    c.ss.flatMap amountContribs ++
    optContribs (fun s => s.comps.flatMap fun k => k.totals ++ [("Charge", k.cb)]) c.surf)

/-! ### step amounts -/

def Reaction.reactionSteps (r : Reaction) : Nat := if r.equal then r.count else r.steps.length

/-- `step_x` of `add_reaction` for step number `n ≥ 1` (before multiplication by `step_fraction`) -/
def stepAmount (incremental : Bool) (r : Reaction) (n : Nat) : Rat :=
  let raw : Rat :=
    if r.steps.length = 0 then 0
    else if !incremental then
      if !r.equal then
        (if n > r.steps.length then r.steps.getD (r.steps.length - 1) 0 else r.steps.getD (n - 1) 0)
      else
        (if n > r.reactionSteps then r.steps.getD 0 0 else r.steps.getD 0 0 * (n : Rat) / (r.reactionSteps : Rat))
    else
      if !r.equal then
        (if n > r.reactionSteps then r.steps.getD (r.reactionSteps - 1) 0 else r.steps.getD (n - 1) 0)
      else
        (if n > r.reactionSteps then 0 else r.steps.getD 0 0 / (r.reactionSteps : Rat))
  raw * r.unitFactor

/-- factor of the units text: first character m/u/n → 1e-3/1e-6/1e-9 -/
def unitFactorOf (units : String) : Rat :=
  match units.toList with
  | 'm' :: _ => 1 / 1000
  | 'u' :: _ => 1 / 1000000
  | 'n' :: _ => 1 / 1000000000
  | _ => 1

/-- `cxxKinetics::Current_step(incremental, n)`: the time span handed to the integrator at step `n` -/
def kinStep (incremental : Bool) (steps : List Rat) (equal : Bool) (count : Nat) (n : Nat) : Rat :=
  if steps.length = 0 then 1
  else if !equal then
    (if n > steps.length then steps.getD (steps.length - 1) 0 else steps.getD (n - 1) 0)
  else if !incremental then
    (if n > count then steps.getD 0 0 else (n : Rat) * steps.getD 0 0 / (count : Rat))
  else
    (if n > count then 0 else steps.getD 0 0 / (count : Rat))

/-- element list of the reaction per mole of reaction progress (`reaction_calc`: Σ coef · formula) -/
def reactionElts (r : Reaction) : List (String × Rat) :=
  r.reactants.flatMap fun fc => fc.1.map fun p => (p.1, p.2 * fc.2)

/-- what step `n` of the reaction adds: `coef * step_x * step_fraction` per element -/
def reactionContribs (incremental : Bool) (r : Reaction) (n : Nat) (fraction : Rat) : List (String × Rat) :=
  (reactionElts r).map fun p => (p.1, p.2 * stepAmount incremental r n * fraction)

/-! ### assembling the system handed to the solver -/

structure Totals where
  h : Rat := 0
  o : Rat := 0
  cb : Rat := 0
  masters : ND := []

/-- `if (master->s == s_hplus) total_h_x += v; else if (master->s == s_h2o) total_o_x += v; else master->total += v`
(the contribution "Charge" goes to `cb_x`) -/
def Totals.addElt (t : Totals) (k : String) (v : Rat) : Totals :=
  if k = "H" then { t with h := t.h + v }
  else if k = "O" then { t with o := t.o + v }
  else if k = "Charge" then { t with cb := t.cb + v }
  else { t with masters := add t.masters k v }

def Totals.addList (t : Totals) (l : List (String × Rat)) : Totals := l.foldl (fun a p => a.addElt p.1 p.2) t

def Totals.asList (t : Totals) : List (String × Rat) := [("H", t.h), ("O", t.o), ("Charge", t.cb)] ++ t.masters

def Totals.get (t : Totals) (e : String) : Rat := NameDouble.get t.asList e

def MIN_TOTAL : Rat := 1 / 10 ^ 25
def MIN_TOTAL_SS : Rat := MIN_TOTAL / 100

/-- amount of a phase moved into the totals so that its elements exist in solution (`add_pp_assemblage`,
`add_ss_assemblage`): the largest `(1e-10 - total)/coef` over its elements (other than H, O) whose total is below
`minTotal`, capped by the moles present; 0 for an absent phase -/
def amountToAdd (minTotal : Rat) (t : Totals) (a : Amount) : Rat :=
  if a.moles > 0 then
    let need := a.formula.foldl (fun acc p =>
      if isHO p.1 then acc
      else if NameDouble.get t.masters p.1 > minTotal then acc
      else
        let x := (-(NameDouble.get t.masters p.1) + 1 / 10 ^ 10) / p.2
        if acc < x then x else acc) (0 : Rat)
    if a.moles < need then a.moles else need
  else 0

/-- one phase of `add_pp_assemblage` / `add_ss_assemblage` -/
def transferOne (minTotal : Rat) (t : Totals) (a : Amount) : Totals × Amount :=
  if a.precipOnly then (t, a) else
  let d := amountToAdd minTotal t a
  if d > 0 then (t.addList (a.formula.map fun p => (p.1, p.2 * d)), { a with moles := a.moles - d }) else (t, a)

def transferAll (minTotal : Rat) : Totals → List Amount → Totals × List Amount
  | t, [] => (t, [])
  | t, a :: rest =>
    let r1 := transferOne minTotal t a
    let r2 := transferAll minTotal r1.1 rest
    (r2.1, r1.2 :: r2.2)

/-- `check_pp_assemblage`: every element of the assemblage (other than H, O) already has a total above MIN_TOTAL -/
def ppAllPresent (t : Totals) (pp : List Amount) : Bool :=
  pp.all fun a => a.formula.all fun p => isHO p.1 || decide (NameDouble.get t.masters p.1 > MIN_TOTAL)

structure Assembled where
  totals : Totals
  pp : List Amount
  ss : List Amount

/-- the part of `step()` up to `solution_check`: `kinTotals` is `kinetics_ptr->totals` (the increment computed by the
integrator for this step), `r`/`n`/`fraction` the irreversible reaction of this step -/
def assemble (c : Cell) (r : Option Reaction) (incremental : Bool) (n : Nat) (fraction : Rat) (kinTotals : ND) : Assembled :=
  let t0 : Totals := {}
  let t1 := t0.addList (c.sols.flatMap fun fs => solContribs fs.1 fs.2)
  let t2 := t1.addList (optContribs (fun r => reactionContribs incremental r n fraction) r)
  let t3 := t2.addList kinTotals
  let t4 := t3.addList (optContribs exchContribs c.exch)
  let t5 := t4.addList (optContribs surfContribs c.surf)
  let t6 := t5.addList (c.gas.flatMap amountContribs)
  let p := if ppAllPresent t6 c.pp then (t6, c.pp) else transferAll MIN_TOTAL t6 c.pp
  let s := transferAll MIN_TOTAL_SS p.1 c.ss
  { totals := s.1, pp := p.2, ss := s.2 }

def absR (x : Rat) : Rat := if x < 0 then -x else x

/-- `solution_check`: a master total within ±MIN_TOTAL is set to 0; a total below −MIN_TOTAL makes `step()` return
MASS_BALANCE (second component).  H, O and the charge are kept outside `masters` and are not touched. -/
def solutionCheck (t : Totals) : Totals × Bool :=
  ({ t with masters := t.masters.map fun p => if absR p.2 ≤ MIN_TOTAL then (p.1, 0) else p },
   t.masters.any fun p => decide (p.2 < -MIN_TOTAL))

/-- `step()` up to and including `solution_check` -/
def assembleChecked (c : Cell) (r : Option Reaction) (incremental : Bool) (n : Nat) (fraction : Rat) (kinTotals : ND) :
    Assembled × Bool :=
  let a := assemble c r incremental n fraction kinTotals
  ({ a with totals := (solutionCheck a.totals).1 }, (solutionCheck a.totals).2)

/-! ### writing the solver's result back -/

/-- what the solver leaves behind, as `saver()` reads it: `total_h_x`, `total_o_x`, `cb_x` and master totals of the
aqueous phase after `sum_species`, element sums of the species of each exchanger / surface component, of each diffuse
layer, moles of gas components, pure phases and solid-solution components -/
structure SolverOut where
  sol : Solution
  exch : List ExchComp
  surfComps : List SurfComp
  surfCharges : List SurfCharge
  gas : List Rat
  pp : List Rat
  ss : List Rat

def setMoles : List Amount → List Rat → List Amount
  | a :: as, m :: ms => { a with moles := m } :: setMoles as ms
  | as, _ => as

/-- the cell `saver()` stores (kinetic reactants are handled by the integrator: `kin` is passed through) -/
def partition (c : Cell) (a : Assembled) (o : SolverOut) (kinAfter : List KinComp) : Cell :=
  { sols := [(1, o.sol)]
    exch := c.exch.map (fun _ => ({ newDef := false, comps := o.exch } : Exchange))
    surf := c.surf.map (fun s => ({ typ := s.typ, hasDL := s.hasDL, newDef := false, comps := o.surfComps,
                                    charges := (if s.typ = SurfType.noEdl then [] else o.surfCharges) } : Surface))
    gas := setMoles c.gas o.gas
    pp := setMoles a.pp o.pp
    ss := setMoles a.ss o.ss
    kin := kinAfter }

/-- residual of the mole-balance / MH / MH2O / CB row of element `e`: what the solver's parts hold minus the assembled
total (phases contribute through the change of their moles) -/
def residual (c : Cell) (a : Assembled) (o : SolverOut) (e : String) : Rat :=
  NameDouble.get (contribs (partition c a o [])) e - (a.totals.get e + NameDouble.get (a.pp.flatMap amountContribs) e +
    NameDouble.get (a.ss.flatMap amountContribs) e)

/-- the convergence gate on the balance rows, per element with its own tolerance -/
def Gate (c : Cell) (a : Assembled) (o : SolverOut) (tol : String → Rat) : Prop :=
  ∀ e, absR (residual c a o e) ≤ tol e

end PhreeqcVerif.Inventory
