/-! `pmodel linereader`: line-protocol driver (stub — replaced by the owner of this model). -/
namespace Driver.LineReader

def run : IO Unit := IO.eprintln "pmodel linereader: not implemented"

end Driver.LineReader
