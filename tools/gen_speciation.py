"""Translator for C01: constants and code shapes of the speciation path → Lean (`Gen/SpeciationSrc.lean`).

Read from /repo on every run:
  global_structures.h : R_KJ_DEG_MOL, JOULES_PER_CALORIE, PASCAL_PER_ATM, REF_PRES_PASCAL, MAX_ADD_EQUATIONS, MAX_LM, MAX_M
  prep.cpp k_calc     : the whole computation (terms, operators, order of evaluation; the reference temperature that appears twice
                        in the van 't Hoff term, the factor of the volume term, the `delta_p > 0` switch)
  read.cpp read_delta_h_only : `/= 1000.` for non-kilo units, `*= JOULES_PER_CALORIE` for calories (in this order)
  read.cpp read_named_logk   : ln_alpha1000 scales `T_A1 .. < T_A6` (the sixth term is not scaled) by `1000. * LOG_10`
  utilities.cpp calc_alk     : which master of a reaction token is looked up first (`secondary`, then `primary`)
  utilities.cpp under        : the cut-offs (-40, MAX_LM → MAX_M)
  structures.cpp trxn_combine: `equal(coef, 0.0, 1e-5)` (both occurrences must agree)
  tidy.cpp select_log_k_expression / add_other_logk : "analytic terms win"
  Phreeqc.cpp init    : convergence_tolerance, MIN_TOTAL
Facts are read from a NORMAL FORM of each function (see `normal_form`): statement tree of tools/gen_store.py, reference aliases
substituted, file-local helpers inlined one level (statement calls and single-`return` expression helpers), file-level and
local named numeric constants (`static const`, `const`, `constexpr`, `#define`) replaced by their literals, NULL guards that only
error/return/continue/break dropped, once-initialised pure locals replaced by their initialiser, every expression re-printed
fully parenthesised from a precedence/associativity parse, parameters p0.. and locals v0.. named by position / first use.
Spelling, names, redundant parentheses and such guards do not change the result; a coefficient, a term, an operator or the order
of evaluation does.
`Properties/C01.lean` proves (`source_constants`, `kCalc_source`, `dhToKJ_source`, `alk_lookup_order`) that the models use exactly
these; when the source changes, or its shape is no longer recognised (`recognised = false`), that obligation breaks (protocol P)."""
import re
from fractions import Fraction

import vlib

OUT = "SpeciationSrc"


# ------------------------------------------------------------------------------------------------ normal form of a function
# Facts are read from a NORMAL FORM of the function, not from its spelling (approach of tools/gen_store.py, whose statement-tree
# parser is reused): comments/preprocessor stripped; body parsed into a statement tree; reference aliases substituted; calls of
# file-local helpers replaced by their bodies (statement level) or by their returned expression (expression level), one level;
# `static const` / `const` / `constexpr` / `#define` numeric constants of the same file and `const` locals replaced by their
# literals; guards `if (p == NULL) return/continue/break/error…;` dropped (they do not change what is computed for valid
# pointers); every expression parsed (C precedence and associativity) and printed fully parenthesised, so redundant
# parentheses and white space do not matter while the ORDER OF EVALUATION does; parameters and locals renamed p0,p1…/v0,v1…
# in order of declaration. Only a change of a coefficient, a term, an operator or the evaluation order changes the result.
import gen_store as GS

TYPEWORDS = {"LDBLE", "double", "float", "int", "long", "size_t", "bool", "char", "unsigned", "short"}
NUMRX = re.compile(r"^(?:\d+\.?\d*(?:[eE][+-]?\d+)?|\.\d+(?:[eE][+-]?\d+)?)[fFlLuU]*$")
ETOK = re.compile(r'"(?:[^"\\]|\\.)*"|\'(?:[^\'\\]|\\.)*\'|(?:\d+\.?\d*|\.\d+)(?:[eE][+-]?\d+)?[fFlLuU]*|[A-Za-z_]\w*|->|\+\+|--|<=|>=|==|!=|&&|\|\||[-+*/]=|::|\S')
BINPREC = [("||",), ("&&",), ("==", "!="), ("<", ">", "<=", ">="), ("+", "-"), ("*", "/", "%")]
ASSIGN = ("=", "+=", "-=", "*=", "/=")


class _P:
    """precedence-climbing parser of a C expression → tuple AST"""
    def __init__(self, text):
        self.t = ETOK.findall(text)
        self.i = 0

    def peek(self):
        return self.t[self.i] if self.i < len(self.t) else None

    def take(self, x=None):
        tok = self.peek()
        if tok is None or (x is not None and tok != x):
            raise ValueError(f"expected {x}, got {tok}")
        self.i += 1
        return tok

    def expr(self):
        lhs = self.binary(0)
        if self.peek() in ASSIGN:
            op = self.take()
            return ("asg", op, lhs, self.expr())
        if self.peek() == "?":
            raise ValueError("ternary")
        return lhs

    def binary(self, lvl):
        if lvl == len(BINPREC):
            return self.unary()
        lhs = self.binary(lvl + 1)
        while self.peek() in BINPREC[lvl]:
            op = self.take()
            lhs = ("bin", op, lhs, self.binary(lvl + 1))
        return lhs

    def unary(self):
        tok = self.peek()
        if tok in ("-", "+", "!", "*", "&", "++", "--"):
            self.take()
            return ("un", tok, self.unary())
        if tok == "(":
            # cast: ( type-words [*] ) operand
            j = self.i + 1
            words = []
            while j < len(self.t) and (self.t[j] in TYPEWORDS or self.t[j] in ("*", "const", "class", "struct")):
                words.append(self.t[j])
                j += 1
            if words and j < len(self.t) and self.t[j] == ")" and any(w in TYPEWORDS for w in words):
                self.i = j + 1
                return ("cast", " ".join(words), self.unary())
        return self.postfix()

    def postfix(self):
        tok = self.take()
        if tok == "(":
            e = self.expr()
            self.take(")")
        elif NUMRX.match(tok):
            e = ("num", tok)
        elif tok[0] in "\"'":
            e = ("lit", tok)
        elif re.match(r"[A-Za-z_]\w*$", tok):
            e = ("id", tok)
        else:
            raise ValueError(f"unexpected token {tok}")
        while True:
            tok = self.peek()
            if tok == "[":
                self.take()
                ix = self.expr()
                self.take("]")
                e = ("idx", e, ix)
            elif tok == "(":
                self.take()
                args = []
                if self.peek() != ")":
                    args.append(self.expr())
                    while self.peek() == ",":
                        self.take()
                        args.append(self.expr())
                self.take(")")
                e = ("call", e, args)
            elif tok in ("->", "."):
                self.take()
                e = ("mem", tok, e, self.take())
            elif tok in ("++", "--"):
                self.take()
                e = ("post", tok, e)
            else:
                return e


def _show(e):
    k = e[0]
    if k in ("num", "lit", "id"):
        return e[1]
    if k == "bin":
        return f"({_show(e[2])}{e[1]}{_show(e[3])})"
    if k == "asg":
        return f"{_show(e[2])}{e[1]}{_show(e[3])}"
    if k == "un":
        return f"({e[1]}{_show(e[2])})"
    if k == "cast":
        return f"(({e[1].replace('LDBLE', 'double')}){_show(e[2])})"
    if k == "idx":
        return f"{_show(e[1])}[{_show(e[2])}]"
    if k == "call":
        return f"{_show(e[1])}({','.join(_show(a) for a in e[2])})"
    if k == "mem":
        return f"{_show(e[2])}{e[1]}{e[3]}"
    if k == "post":
        return f"({_show(e[2])}{e[1]})"
    raise ValueError(k)


def _map_expr(e, f):
    """bottom-up rewrite"""
    k = e[0]
    if k in ("num", "lit", "id"):
        return f(e)
    if k in ("bin", "asg"):
        return f((k, e[1], _map_expr(e[2], f), _map_expr(e[3], f)))
    if k in ("un", "cast", "post"):
        return f((k, e[1], _map_expr(e[2], f)))
    if k == "idx":
        return f((k, _map_expr(e[1], f), _map_expr(e[2], f)))
    if k == "call":
        return f((k, _map_expr(e[1], f), [_map_expr(a, f) for a in e[2]]))
    if k == "mem":
        return f((k, e[1], _map_expr(e[2], f), e[3]))
    return e


DECLRX = re.compile(r"^((?:(?:const|static|unsigned|constexpr|class|struct) )*(?:LDBLE|double|float|int|long|size_t|bool|char|short|\w+ ?\*)"
                    r"(?: ?\*)*) ?(\w+)(?:=(.*))?$")


def _parse_text(text):
    """canonical statement / condition text → ('decl', type, name, ast|None) | ('ret', ast|None) | ('kw', text) | ('e', ast) | ('raw', text)"""
    try:
        if text in ("break", "continue"):
            return ("kw", text)
        m = re.match(r"^return\b ?(.*)$", text)
        if m:
            return ("ret", _P(m.group(1)).expr() if m.group(1) else None)
        m = DECLRX.match(text)
        if m and m.group(2) not in TYPEWORDS and "(" not in m.group(1):
            if m.group(3) is None and "," in text:
                return ("raw", text)
            init = m.group(3)
            if init is not None and "," in init and GS.scan(init, 0, ",") < len(init):
                return ("raw", text)
            return ("decl", m.group(1), m.group(2), _P(init).expr() if init is not None else None)
        p = _P(text)
        e = p.expr()
        if p.peek() is not None:
            return ("raw", text)
        return ("e", e)
    except (ValueError, IndexError):
        return ("raw", text)


def _unparse(node):
    k = node[0]
    if k == "decl":
        return f"{node[1]} {node[2]}" + (f"={_show(node[3])}" if node[3] is not None else "")
    if k == "ret":
        return "return" + (f" {_show(node[1])}" if node[1] is not None else "")
    if k == "e":
        return _show(node[1])
    return node[1]


def _file_numeric_constants(raw):
    """numeric constants defined in the file itself: static const / const / constexpr scalars and #define NAME literal"""
    tab = {}
    for m in re.finditer(r"(?m)^[ \t]*(?:static\s+)?(?:const|constexpr)\s+(?:static\s+)?(?:LDBLE|double|float|int|long|size_t)\s+"
                         r"(\w+)\s*=\s*([-+]?(?:\d+\.?\d*|\.\d+)(?:[eE][+-]?\d+)?)[fFlL]?\s*;", raw):
        tab[m.group(1)] = m.group(2)
    for m in re.finditer(r"(?m)^[ \t]*#\s*define\s+(\w+)\s+\(?([-+]?(?:\d+\.?\d*|\.\d+)(?:[eE][+-]?\d+)?)\)?[ \t]*(?:/\*.*)?$", raw):
        tab[m.group(1)] = m.group(2)
    return tab


NULLTEST = re.compile(r"^(?:\(?([\w.>\-\[\]]+)\)?==(?:NULL|nullptr|0)|(?:NULL|nullptr)==\(?([\w.>\-\[\]]+)\)?|!\(?([\w.>\-\[\]]+)\)?)$")
ERRSTMT = re.compile(r"^(?:return\b.*|continue|break|input_error\+\+|\+\+input_error|parse_error\+\+|error_string=.*|error_msg\(.*\)|"
                     r"warning_msg\(.*\)|malloc_error\(\)|assert\(.*\))$")


def _drop_null_guards(node):
    if node is None:
        return None
    k = node[0]
    if k == "block":
        out = []
        for n in node[1]:
            if n[0] == "if" and n[3] is None and NULLTEST.match(n[1].replace(" ", "")):
                body = GS.stmts(n[2])
                if body and all(b[0] == "simple" and ERRSTMT.match(b[1]) for b in body) and \
                        any(re.match(r"^(return\b|continue$|break$)", b[1]) for b in body):
                    continue
            out.append(_drop_null_guards(n))
        return ("block", out)
    if k == "if":
        return ("if", node[1], _drop_null_guards(node[2]), _drop_null_guards(node[3]))
    if k == "loop":
        return ("loop", node[1], node[2], _drop_null_guards(node[3]))
    if k == "switch":
        return ("switch", node[1], _drop_null_guards(node[2]))
    return node


def _single_return_helper(src, name):
    """(params, ast) of a file-local non-member function whose body is `return expr;` (after guard dropping)"""
    for m in re.finditer(r"(?<![\w:.>])" + re.escape(name) + r"\s*\(", src):
        j = GS.scan(src, m.end(), ")")
        k = GS.skip_ws(src, j + 1)
        if k < len(src) and src[k] == "{":
            if re.search(r"::\s*$", src[max(0, m.start() - 200):m.start()]):
                return None
            body, _ = GS.parse_stmt(src, k, name)
            st = GS.stmts(_drop_null_guards(body))
            if len(st) == 1 and st[0][0] == "simple":
                r = _parse_text(st[0][1])
                if r[0] == "ret" and r[1] is not None:
                    params = [re.findall(r"\w+", q)[-1] for q in GS.split_args(src[m.end():j], angles=True)]
                    return params, r[1]
            return None
    return None


def normal_form(raw, name):
    """canonical text of what function `name` of file text `raw` does (see the comment above); None when not found"""
    src = GS.strip_comments(raw)
    try:
        params_txt, body = GS.function_def(src, name)
    except GS.TranslatorError:
        return None
    body = _drop_null_guards(GS.inline_helpers(GS.resolve_aliases(body), src, name))
    consts = _file_numeric_constants(raw)
    params = [re.findall(r"\w+", q)[-1] for q in GS.split_args(params_txt, angles=True) if re.findall(r"\w+", q) and q.strip() != "void"]
    ren = {p: f"p{i}" for i, p in enumerate(params)}
    nloc = [0]
    local_const = {}
    inits = {}

    def rewrite(e):
        if e[0] == "id":
            if e[1] in ren:
                return ("id", ren[e[1]])
            if e[1] in local_const:
                return local_const[e[1]]
            if e[1] in consts and e[1] not in ren:
                return _num(consts[e[1]])
        if e[0] == "call" and e[1][0] == "id":
            h = _single_return_helper(src, e[1][1])
            if h and len(h[0]) == len(e[2]):
                table = dict(zip(h[0], e[2]))
                return _map_expr(h[1], lambda x: table.get(x[1], _num(consts[x[1]]) if x[1] in consts else x) if x[0] == "id" else x)
        return e

    def text(t):
        node = _parse_text(t)
        if node[0] == "decl":
            init = _map_expr(node[3], rewrite) if node[3] is not None else None
            if "const" in node[1].split() and init is not None and init[0] == "num":
                local_const[node[2]] = init           # `const LDBLE x = 298.15;` → substituted, declaration dropped
                return None
            ren[node[2]] = f"L{nloc[0]}_"
            nloc[0] += 1
            ty = " ".join("double" if w == "LDBLE" else w for w in node[1].split() if w not in ("const", "static"))
            if init is not None and _pure(init):
                inits[ren[node[2]]] = init
            return _unparse(("decl", ty, ren[node[2]], init))
        if node[0] == "ret":
            return _unparse(("ret", _map_expr(node[1], rewrite) if node[1] is not None else None))
        if node[0] == "e":
            return _unparse(("e", _map_expr(node[1], rewrite)))
        if node[0] == "raw":
            # multi-declarations etc.: rename word-wise
            m = re.match(r"^((?:LDBLE|double|float|int|long|size_t|bool|char|class \w+ ?\*|struct \w+ ?\*) ?)(.*)$", t)
            if m and "(" not in m.group(2).split("=")[0]:
                for item in GS.split_args(m.group(2)):
                    nm = re.match(r"^\*?(\w+)", item.strip())
                    if nm and nm.group(1) not in ren:
                        ren[nm.group(1)] = f"L{nloc[0]}_"
                        nloc[0] += 1
            rx = re.compile(r"(?<![\w.>])(" + "|".join(map(re.escape, ren)) + r")\b") if ren else None
            return rx.sub(lambda mm: ren[mm.group(1)], t) if rx else t
        return t

    def walk(n):
        if n is None:
            return None
        k = n[0]
        if k == "block":
            out = []
            for x in n[1]:
                y = walk(x)
                if y is not None:
                    out.append(y)
            return ("block", out)
        if k == "if":
            return ("if", text(n[1]), walk(n[2]), walk(n[3]))
        if k == "loop":
            hdr = ";".join((text(h) or "") if h else "" for h in _split_top(n[2], ";")) if n[1] == "for" else text(n[2])
            return ("loop", n[1], hdr, walk(n[3]))
        if k == "switch":
            return ("switch", text(n[1]), walk(n[2]))
        if k == "simple":
            t = text(n[1])
            return None if t is None else ("simple", t)
        return n

    out = GS.ser(walk(body))
    # locals that are initialised once by a pure expression and never written again are replaced by that expression
    # (`LDBLE me = tempk * R; … / (LOG_10 * me)` and `… / (LOG_10 * (tempk * R))` are the same computation)
    changed = True
    while changed:
        changed = False
        for nm, init in list(inits.items()):
            uses = len(re.findall(re.escape(nm), out))
            if re.search(r"(?:&|\+\+|--)\(?" + re.escape(nm) + r"\b|" + re.escape(nm) + r"\)?(?:\+\+|--|[-+*/]?=(?!=))", out.replace(f" {nm}=", " #=", 1)):
                del inits[nm]
                continue
            decl = re.search(r"(?:[\w ]+?[ *]+)" + re.escape(nm) + r"=[^;]*;", out)
            if not decl:
                del inits[nm]
                continue
            out = out[:decl.start()] + out[decl.end():]
            out = out.replace(nm, _show(init))
            del inits[nm]
            changed = True
    # rename the remaining locals by order of first use
    order = []
    for m in re.finditer(r"L\d+_", out):
        if m.group(0) not in order:
            order.append(m.group(0))
    for i, nm in enumerate(order):
        out = out.replace(nm, f"v{i}")
    return out


PURE_CALLS = {"log10", "log", "exp", "sqrt", "pow", "fabs"}


def _pure(e):
    ok = [True]

    def f(x):
        if x[0] == "call" and not (x[1][0] == "id" and x[1][1] in PURE_CALLS):
            ok[0] = False
        if x[0] in ("asg", "post") or (x[0] == "un" and x[1] in ("++", "--", "&", "*")) or x[0] == "lit":
            ok[0] = False
        return x
    _map_expr(e, f)
    return ok[0]


def _num(txt):
    """numeric literal → AST (a negative literal is a negation of a positive one)"""
    txt = txt.strip()
    if txt.startswith("-"):
        return ("un", "-", ("num", txt[1:]))
    return ("num", txt.lstrip("+"))


def _split_top(s, sep):
    out, i = [], 0
    while i <= len(s):
        j = GS.scan(s, i, sep)
        out.append(s[i:j])
        i = j + 1
    return out


def _tmpl(template):
    """shape template → regex: ⟦x⟧ = a numeric literal (captured), ⟪a|b⟫ = one of the alternatives (captured)"""
    out = re.escape(template)
    out = re.sub(r"⟦\w*⟧", r"([0-9.]+(?:[eE][+-]?[0-9]+)?)", out)
    out = re.sub(r"⟪([^⟫]*)⟫", lambda m: "(" + m.group(1).replace(r"\|", "|") + ")", out)
    return out


def extract():
    src = vlib.REPO / "src" / "phreeqcpp"
    gs = (src / "global_structures.h").read_text()
    out, where, bad = {}, [], []

    def define(name):
        m = re.search(r"^#define\s+%s\s+([0-9.eE+-]+)" % name, gs, re.M)
        if not m:
            bad.append(name)
            out[name] = Fraction(0)
            return
        out[name] = Fraction(m.group(1))
        where.append(f"global_structures.h:{gs[:m.start()].count(chr(10)) + 1} {name}")

    for n in ("R_KJ_DEG_MOL", "JOULES_PER_CALORIE", "PASCAL_PER_ATM", "REF_PRES_PASCAL", "MAX_ADD_EQUATIONS", "MAX_LM", "MAX_M"):
        define(n)
    # ---- k_calc (normal form: locals inlined, constants resolved, NULL guards dropped, canonical parentheses)
    prep = (src / "prep.cpp").read_text()
    nf = normal_form(prep, "k_calc") or ""
    shape = _tmpl("{double v0=(((((((p0[logK_T0]-((p0[delta_h]*(⟦a⟧-p1))/((LOG_10*(p1*R_KJ_DEG_MOL))*⟦b⟧)))+p0[T_A1])+(p0[T_A2]*p1))"
                  "+(p0[T_A3]/p1))+(p0[T_A4]*log10(p1)))+(p0[T_A5]/(p1*p1)))+((p0[T_A6]*p1)*p1));if(((p2-REF_PRES_PASCAL)>0))"
                  "{v0-=(((p0[delta_v]*⟦c⟧)*(p2-REF_PRES_PASCAL))/(LOG_10*(p1*R_KJ_DEG_MOL)));}return v0;}")
    m = re.fullmatch(shape, nf)
    if not m or Fraction(m.group(1)) != Fraction(m.group(2)):
        bad.append("k_calc")
        out["KCALC_TREF"], out["KCALC_VFACTOR"] = Fraction(0), Fraction(0)
    else:
        out["KCALC_TREF"], out["KCALC_VFACTOR"] = Fraction(m.group(1)), Fraction(m.group(3))
        where.append("prep.cpp k_calc")
    # ---- delta_h units
    read = (src / "read.cpp").read_text()
    nf = normal_form(read, "read_delta_h_only") or ""
    V = r"(?:v\d+|p\d+)"
    m = re.search(r'if\(\(strstr\((%s),"k"\)!=\1\)\)\{(%s)=FALSE;\(\*p1\)/=([0-9.]+(?:[eE][+-]?[0-9]+)?);\}'
                  r'if\(\(strstr\(\1,"c"\)!=NULL\)\)\{\(\*p1\)\*=JOULES_PER_CALORIE;(%s)=FALSE;\}' % (V, V, V), nf)
    if not m:
        bad.append("read_delta_h_only")
        out["DH_KILO"] = Fraction(0)
    else:
        out["DH_KILO"] = Fraction(m.group(3))
        where.append("read.cpp read_delta_h_only")
    # ---- ln_alpha1000
    nf = normal_form(read, "read_named_logk") or ""
    m = re.search(r"for\((%s)=T_A1;\(\1(<=?)T_A6\);\(\1\+\+\)\)\{(%s)->log_k\[\1\]/=\(([0-9.]+)\*LOG_10\);\}" % (V, V), nf)
    if not m:
        bad.append("ln_alpha1000")
        out["LN_ALPHA_DIV"], out["LN_ALPHA_SIXTH"] = Fraction(0), False
    else:
        out["LN_ALPHA_DIV"], out["LN_ALPHA_SIXTH"] = Fraction(m.group(4)), m.group(2) == "<="
        where.append("read.cpp read_named_logk ln_alpha1000")
    # ---- calc_alk lookup order
    util = (src / "utilities.cpp").read_text()
    nf = normal_form(util, "calc_alk") or ""
    m = re.fullmatch(_tmpl("{v0=0.0;class rxn_token* v1=(&p0.token[1]);while((v1->s!=NULL)){v2=v1->s->⟪secondary|primary⟫;if((v2==NULL))"
                           "{v2=v1->s->⟪secondary|primary⟫;}v0+=(v1->coef*v2->alk);(v1++);}return v0;}"), nf)
    if not m or m.group(1) == m.group(2):
        bad.append("calc_alk")
        out["ALK_SECONDARY_FIRST"] = False
    else:
        out["ALK_SECONDARY_FIRST"] = m.group(1) == "secondary"
        where.append("utilities.cpp calc_alk")
    # ---- under
    nf = normal_form(util, "under") or ""
    m = re.fullmatch(_tmpl("{if((p0<(-⟦m⟧))){return 0.0;}if((p0>MAX_LM)){return MAX_M;}return pow(((double)10.0),p0);}"), nf)
    if not m:
        bad.append("under")
        out["UNDER_MIN"] = Fraction(0)
    else:
        out["UNDER_MIN"] = -Fraction(m.group(1))
        where.append("utilities.cpp under")
    # ---- trxn_combine
    st = (src / "structures.cpp").read_text()
    nf = normal_form(st, "trxn_combine") or ""
    occ = re.findall(r"trxn\.token\[(%s)\]\.coef\+=trxn\.token\[%s\]\.coef;if\(equal\(trxn\.token\[\1\]\.coef,0\.0,"
                     r"([0-9.]+(?:[eE][+-]?[0-9]+)?)\)\)\{\(\1--\);\}" % (V, V), nf)
    if len(occ) != 2 or len(set(o[1] for o in occ)) != 1:
        bad.append("trxn_combine")
        out["COMBINE_TOL"] = Fraction(0)
    else:
        out["COMBINE_TOL"] = Fraction(occ[0][1])
        where.append("structures.cpp trxn_combine")
    # ---- select_log_k_expression / add_other_logk: "analytic terms win"
    tidy = (src / "tidy.cpp").read_text()
    f1, f2 = normal_form(tidy, "select_log_k_expression") or "", normal_form(tidy, "add_other_logk") or ""
    ok1 = re.fullmatch(_tmpl("{v0=false;for(v1=T_A1;(v1<=T_A6);(v1++)){if((p0[v1]!=0.0)){v0=true;break;}}if(v0){p1[logK_T0]=0.0;"
                             "p1[delta_h]=0.0;for(v1=T_A1;(v1<=T_A6);(v1++)){p1[v1]=p0[v1];}}else{p1[logK_T0]=p0[logK_T0];"
                             "p1[delta_h]=p0[delta_h];for(v1=T_A1;(v1<=T_A6);(v1++)){p1[v1]=0.0;}}for(v1=delta_v;"
                             "(v1<MAX_LOG_K_INDICES);(v1++)){p1[v1]=p0[v1];}return OK;}"), f1)
    ok2 = re.search(r"(%s)=false;for\((%s)=T_A1;\(\2<=T_A6\);\(\2\+\+\)\)\{if\(\((%s)->log_k\[\2\]!=0\.0\)\)\{\1=true;break;\}\}"
                    r"if\(\1\)\{for\(\2=T_A1;\(\2<=T_A6\);\(\2\+\+\)\)\{p0\[\2\]\+=\(\3->log_k\[\2\]\*(%s)\);\}\}"
                    r"else\{p0\[logK_T0\]\+=\(\3->log_k\[logK_T0\]\*\4\);p0\[delta_h\]\+=\(\3->log_k\[delta_h\]\*\4\);\}"
                    r"for\(\2=delta_v;\(\2<MAX_LOG_K_INDICES\);\(\2\+\+\)\)\{p0\[\2\]\+=\(\3->log_k\[\2\]\*\4\);\}" % (V, V, V, V), f2)
    out["SELECT_SHAPE"] = bool(ok1 and ok2)
    if not (ok1 and ok2):
        bad.append("select_log_k_expression/add_other_logk")
    else:
        where.append("tidy.cpp select_log_k_expression, add_other_logk")
    # ---- defaults
    ph = (src / "Phreeqc.cpp").read_text()
    m1 = re.search(r"^\s*convergence_tolerance\s*=\s*([0-9.eE+-]+);", ph, re.M)
    m2 = re.search(r"^\s*MIN_TOTAL\s*=\s*([0-9.eE+-]+);", ph, re.M)
    out["CONV_TOL"] = Fraction(m1.group(1)) if m1 else Fraction(0)
    out["MIN_TOTAL"] = Fraction(m2.group(1)) if m2 else Fraction(0)
    if not (m1 and m2):
        bad.append("defaults")
    else:
        where.append("Phreeqc.cpp init convergence_tolerance, MIN_TOTAL")
    return out, where, bad


def lean_val(v):
    if isinstance(v, bool):
        return "Bool", "true" if v else "false"
    if v >= 0:
        return "Rat", f"({v.numerator} / {v.denominator} : Rat)"
    return "Rat", f"(-{-v.numerator} / {v.denominator} : Rat)"


def generate(ctx=None):
    out, where, bad = extract()
    lines = ["/-! GENERATED by tools/gen_speciation.py from /repo/src/phreeqcpp — do not edit.",
             "Sources: " + "; ".join(where) + (" | NOT RECOGNISED: " + ", ".join(bad) if bad else "") + " -/",
             f"namespace PhreeqcVerif.Gen.{OUT}", ""]
    for k in sorted(out):
        t, v = lean_val(out[k])
        lines.append(f"def {k} : {t} := {v}")
    lines += ["/-- every code shape the translator looks for was found -/",
              f"def recognised : Bool := {'false' if bad else 'true'}", "", f"end PhreeqcVerif.Gen.{OUT}", ""]
    text = "\n".join(lines)
    p = vlib.LEAN / "PhreeqcVerif" / "Gen" / f"{OUT}.lean"
    if not p.exists() or p.read_text() != text:
        p.write_text(text)
    if ctx is not None:
        ctx.cov["translator_speciation"] = {"recognised": not bad, "not_recognised": bad, "sources": where}
    return out, bad


if __name__ == "__main__":
    o, b = generate()
    for k in sorted(o):
        print(k, o[k])
    print("not recognised:", b)
