"""C11 — transport only moves dissolved mass: conservation, exact shifts, bounded mixing.

Proof obligations: Properties/C11.lean (for every column set-up and any number of shifts / sub-mixes: weights of
`init_mix` are convex, max/min principle, closed equal-length diffusion conserves the inventory, the advective shift
is an exact copy of the upstream neighbour).
Tie (re-checked on every run against the library built from /repo's working tree):
  * mixing factors and nmix read mid-run from `Dispersion_mix_map` through the BASIC callback and compared with
    `pmodel transport` (exact rationals of the decimal inputs, rounded to double, 1e-13 relative);
  * end to end: per cell, per shift element moles, total H, total O, charge balance punched by USER_PUNCH vs the
    model's `transportRun` on the engine's own step-0 column (1e-9 relative to the column scale);
  * the property's direct oracles on the real outputs (closed inventory, exact shift, range), also for
    multicomponent diffusion / implicit / stagnant zones / reactive solids, which have no model.
"""
import concurrent.futures
import struct
from fractions import Fraction

from gens import transport as gt

DB = None
TOL = 1e-9
MIXTOL = 1e-13


def unhexd(h):
    return struct.unpack(">d", bytes.fromhex(h))[0]


def hexd(x):
    return struct.pack(">d", x).hex()


def rs(fr):
    return "%d/%d" % (fr.numerator, fr.denominator)


# ----------------------------------------------------------------------------------------------- reader mirror
def expand(lst, n):
    """the reader repeats the last value of a short list"""
    v = [Fraction(x) for x in lst]
    return (v + [v[-1]] * n)[:n]


def reader_setup(case):
    """what read_transport hands to init_mix (mirrors the documented reader rules)"""
    n = case["n"]
    flow = {"forward": 1, "back": -1, "diffusion_only": 0}[case["flow"]]
    bf, bl = case["bc"]
    if flow != 0:
        bf = 3 if bf == 2 else bf
        bl = 3 if bl == 2 else bl
    return dict(n=n, flow=flow, bf=bf, bl=bl, corr=1 if case["correct_disp"] else 0,
                diffc=Fraction(case["diffc"]), timest=Fraction(case["timest"]),
                L=expand(case["lengths"], n), D=expand(case["disps"], n))


def setup_line(su):
    return "setup %d %d %d %d %s %s %d %s %s" % (su["flow"], su["bf"], su["bl"], su["corr"], rs(su["diffc"]), rs(su["timest"]),
                                                su["n"], " ".join(rs(x) for x in su["L"]), " ".join(rs(x) for x in su["D"]))


def parse_plan(lines):
    """PLAN/W lines of pmodel → dict"""
    plan = None
    for l in lines:
        w = l.split()
        if w[0] == "PLAN":
            kv = dict(x.split("=", 1) for x in w[1:])
            plan = {"nmix": int(kv["nmix"]), "pre": int(kv["pre"]), "maxmix": Fraction(kv["maxmix"]), "W": []}
        elif w[0] == "W":
            plan["W"].append(tuple(Fraction(x) for x in w[2:5]))
    return plan


# ----------------------------------------------------------------------------------------------- harness output
def parse_case_output(lines):
    r = {"sel": {}, "warn": "", "err": "", "mix": None, "setup": None, "cb": []}
    for l in lines:
        if l.startswith("CASE "):
            w = l.split()
            r["id"] = w[1]
            r["ret"] = int(w[2].split("=")[1])
            r["nmix_after"] = int(w[3].split("=")[1])
        elif l.startswith("SETUP "):
            w = l.split()
            if w[1] == "none":
                continue
            su = {}
            i = 1
            while i < len(w) and "=" in w[i]:
                k, v = w[i].split("=")
                su[k] = v
                i += 1
            rest = w[i:]
            di = rest.index("D")
            su["L"] = [unhexd(x) for x in rest[1:di]]
            su["D"] = [unhexd(x) for x in rest[di + 1:]]
            for k in ("timest", "diffc", "diffc_tr"):
                su[k] = unhexd(su[k])
            r["setup"] = su
        elif l.startswith("MIX "):
            if l.strip() == "MIX none":
                continue
            parts = l.split(" | ")
            head = dict(x.split("=") for x in parts[0].split()[1:])
            mix = {"step": int(head["step"]), "nmix": int(head["nmix"]), "cells": {}}
            for p in parts[1:]:
                w = p.split()
                mix["cells"][int(w[0])] = {int(x.split("=")[0]): unhexd(x.split("=")[1]) for x in w[1:]}
            r["mix"] = mix
        elif l.startswith("SMIX "):
            if l.strip() == "SMIX none":
                continue
            parts = l.split(" | ")
            head = dict(x.split("=") for x in parts[0].split()[1:])
            sm = {"stag": int(head["stag"]), "exch": unhexd(head["exch"]), "thm": unhexd(head["thm"]), "thim": unhexd(head["thim"]),
                  "cells": {}}
            for p in parts[1:]:
                w = p.split()
                sm["cells"][int(w[0])] = {int(x.split("=")[0]): unhexd(x.split("=")[1]) for x in w[1:]}
            r["smix"] = sm
        elif l.startswith("CB"):
            r["cb"] = []
            for x in l.split()[1:]:
                y = x.split(",")
                r["cb"].append(tuple(int(v) for v in y[:4]) + tuple(unhexd(v) for v in y[4:]))
        elif l.startswith("SEL "):
            parts = l.split(" | ")
            nu = int(parts[0].split()[1])
            rows = []
            for p in parts[1:]:
                row = []
                for c in p.split():
                    if c[0] == "D":
                        row.append(unhexd(c[1:]))
                    elif c[0] == "L":
                        row.append(int(c[1:]))
                    elif c[0] == "S":
                        row.append(bytes.fromhex(c[1:]).decode("latin1") if c[1:] != "-" else "")
                    else:
                        row.append(None)
                rows.append(row)
            r["sel"][nu] = rows
        elif l.startswith("FINAL "):
            w = l.split()
            d = {"s": {}, "x": {}, "p": {}}
            for it in w[2:]:
                kind, rest = it.split(":", 1)
                name, hv = rest.rsplit("=", 1)
                d[kind][name] = d[kind].get(name, 0.0) + unhexd(hv)
            r.setdefault("final", {})[int(w[1])] = d
        elif l.startswith("WARN "):
            h = l.split()[1] if len(l.split()) > 1 else "-"
            r["warn"] = bytes.fromhex(h).decode("latin1") if h != "-" else ""
        elif l.startswith("ERR "):
            h = l.split()[1] if len(l.split()) > 1 else "-"
            r["err"] = bytes.fromhex(h).decode("latin1") if h != "-" else ""
    return r


def run_batch(ctx, exe, cases, timeout=900):
    """cases: list of (id, input text) → {id: parsed output}"""
    text = "db %s\n" % DB + "".join("case %s %s\n" % (i, t.encode().hex()) for i, t in cases)
    import subprocess
    try:
        r = ctx.run_harness(exe, text, timeout=timeout)
    except subprocess.TimeoutExpired:
        # a run that does not finish in time is outside "completes without error": counted, not judged
        return {str(i): {"timeout": True} for i, _ in cases}
    out = {}
    cur = []
    for l in r.stdout.splitlines():
        if l == "END":
            p = parse_case_output(cur)
            if "id" in p:
                out[p["id"]] = p
            cur = []
        else:
            cur.append(l)
    for i, _ in cases:
        if str(i) not in out:
            out[str(i)] = {"crash": True, "rc": r.returncode, "stderr": r.stderr[-500:]}
    return out


def run_parallel(ctx, exe, cases, chunk=4, timeout=900):
    chunks = [cases[i:i + chunk] for i in range(0, len(cases), chunk)]
    out = {}
    with concurrent.futures.ThreadPoolExecutor(max_workers=16) as ex:
        for res in ex.map(lambda c: run_batch(ctx, exe, c, timeout), chunks):
            out.update(res)
    return out


# ----------------------------------------------------------------------------------------------- tables
def table(res):
    """selected output rows of user 1 as dicts, grouped by step and cell. TRANSPORT punches its own step-0 rows
    (state 8); ADVECTION (state 7) does not, there the initial-solution rows (state 1) are step 0."""
    rows = res["sel"].get(1, [])
    if not rows:
        return [], {}
    heads = rows[0]
    recs = [dict(zip(heads, r)) for r in rows[1:]]
    # exact engine totals recorded by the callback, one per punched row (the punched TOTMOLE/TOT values carry the
    # speciation's mass-balance residual; they are kept as p_<name> and cross-checked at 1e-6)
    cb = res.get("cb", [])
    if len(cb) == len(recs) and all(len(c) == 22 for c in cb):
        names = ["water", "H", "O", "cb"] + ["m_" + e for e in gt.ELEMENTS]
        for d, c in zip(recs, cb):
            if int(d["cell"]) != c[0]:
                continue
            for k, nm in enumerate(names):
                d["p_" + nm] = d.get(nm)
                d[nm] = c[4 + k]
            for k, e in enumerate(gt.ELEMENTS):
                d["a_" + e] = c[15 + k]
            d["exact"] = True
    by = {}
    adv = any(d.get("state") == 7.0 for d in recs)
    for d in recs:
        if d.get("state") in (7.0, 8.0):
            by.setdefault(int(d["step"]), {}).setdefault(int(d["cell"]), []).append(d)
        elif adv and d.get("state") == 1.0:
            by.setdefault(0, {}).setdefault(int(d["cell"]), []).append(d)
    return heads, by


QUANT = ["H", "O", "cb"] + ["m_" + e for e in gt.ELEMENTS]


def scale_of(q, step0):
    """comparison scale of a quantity: its largest magnitude in the step-0 column; cb is compared on the scale of the
    total equivalents of charge"""
    if q == "cb":
        z = dict(gt.CATIONS + gt.ANIONS)
        return max(sum(abs(d[-1]["m_" + e]) * z[e] for e in gt.ELEMENTS) for d in step0.values()) or 1.0
    return max(abs(d[-1][q]) for d in step0.values())


# ----------------------------------------------------------------------------------------------- oracles (real outputs only)
def oracle_range(case, by, n, cells=None):
    """single diffusion coefficient: every element concentration stays in the range of the initial column + boundaries"""
    step0 = by.get(0, {})
    if not step0:
        return None
    bad = []
    for e in gt.ELEMENTS:
        vals = [d[-1]["c_" + e] for d in step0.values()]
        lo, hi = min(vals), max(vals)
        slack = 1e-9 * max(abs(hi), abs(lo)) + 1e-30
        for t, cellsd in by.items():
            for c, ds in cellsd.items():
                for d in ds:
                    v = d["c_" + e]
                    if v < lo - slack or v > hi + slack:
                        bad.append((e, t, c, v, lo, hi))
    return bad


def oracle_shift(by, n, flow, shifts, quants):
    """pure advection: cell i after a shift holds the previous solution of its upstream neighbour"""
    bad = []
    for t in range(1, shifts + 1):
        if t not in by or (t - 1) not in by:
            continue
        for i in range(1, n + 1):
            up = i - 1 if flow > 0 else i + 1
            if i not in by[t]:
                continue
            src = by[t - 1].get(up) or by[0].get(up)      # boundary solutions are punched at step 0 (and do not change)
            if src is None:
                continue
            for q in quants:
                a, b = by[t][i][-1][q], src[-1][q]
                sc = max(abs(a), abs(b))
                if q == "cb":
                    sc = max(sc, 1e-3 * abs(src[-1]["m_Cl"]) + 1e-3 * abs(src[-1]["m_Na"]), 1e-12)
                if abs(a - b) > TOL * sc:
                    bad.append((q, t, i, a, b))
    return bad


# ----------------------------------------------------------------------------------------------- one modelled case
def judge_modelled(ctx, case, res, plan, model_lines, hist):
    """compare a plain (non-MCD, non-stagnant, no solids) TRANSPORT case with the model; returns list of problems
    [(kind, detail)] where kind is 'tie-mix', 'tie-run', 'oracle-…'"""
    probs = []
    su = reader_setup(case)
    n = su["n"]
    es = res["setup"]
    # (0) the reader handed to init_mix what the mirror says
    if es is None:
        return [("tie-setup", "no SETUP line")]
    mism = []
    if int(es["cells"]) != n or int(es["ishift"]) != su["flow"] or int(es["bf"]) != su["bf"] or int(es["bl"]) != su["bl"] \
            or int(es["corr"]) != su["corr"]:
        mism.append("flags %s" % {k: es[k] for k in ("cells", "ishift", "bf", "bl", "corr")})
    if [float(x) for x in su["L"]] != es["L"] or [float(x) for x in su["D"]] != es["D"]:
        mism.append("lengths/dispersivities")
    if float(su["diffc"]) != es["diffc_tr"] or float(su["timest"]) != es["timest"]:
        mism.append("diffc/timest")
    if mism:
        probs.append(("tie-setup", "; ".join(mism)))
    # (1) nmix and mixing factors
    code_nmix = res["nmix_after"]
    if res["mix"] is not None and res["mix"]["nmix"] != code_nmix:
        probs.append(("tie-mix", "nmix mid-run %d vs after %d" % (res["mix"]["nmix"], code_nmix)))
    if plan["nmix"] != code_nmix:
        probs.append(("tie-mix", "nmix: model %d code %d (1.5*maxmix = %s)" % (plan["nmix"], code_nmix, float(plan["maxmix"] * 3 / 2))))
    if code_nmix > 0 and res["mix"] is not None:
        hist["mix_maps_compared"] += 1
        cm = res["mix"]["cells"]
        if sorted(cm) != list(range(1, n + 1)):
            probs.append(("tie-mix", "mix map keys %s" % sorted(cm)))
        else:
            for i in range(1, n + 1):
                wl, wsf, wr = plan["W"][i - 1]
                exp = {i - 1: float(wl), i: float(wsf), i + 1: float(wr)}
                got = cm[i]
                if sorted(got) != sorted(exp):
                    probs.append(("tie-mix", "cell %d keys %s" % (i, sorted(got))))
                    continue
                for k in exp:
                    hist["factors_compared"] += 1
                    if abs(got[k] - exp[k]) > MIXTOL * max(abs(exp[k]), abs(got[k])):
                        probs.append(("tie-mix", "cell %d factor of %d: model %r code %r" % (i, k, exp[k], got[k])))
    elif code_nmix > 0 and res["mix"] is None:
        probs.append(("tie-mix", "mixing map not observed although nmix=%d" % code_nmix))
    # (2) end to end
    heads, by = table(res)
    step0 = by.get(0, {})
    pred = {}
    for l in model_lines:
        w = l.split()
        if w and w[0] == "S":
            pred[(int(w[1]), w[2])] = [unhexd(x) for x in w[3:]]
    shifts = case["shifts"]
    # model vs code: the model has no speciation, the engine re-speciates every cell in every sub-mix and stores the
    # species sums (residual ~1e-13 relative each); allow that noise to accumulate beyond 30 speciations
    # (measured: up to ~4e-12 of the column scale per speciation; the engine itself only promises its
    # convergence_tolerance 1e-8 per speciation). Structural errors are orders of magnitude larger, and the mixing
    # factors themselves are compared at 1e-13; the property's own 1e-9 is applied by the direct oracles.
    tol_run = TOL * max(1.0, shifts * (code_nmix + 1) / 30.0)
    if code_nmix == 0 and su["flow"] == 0:
        if any(t >= 1 for t in by):
            probs.append(("tie-run", "rows punched although nothing moves"))
    else:
        for t in range(1, shifts + 1):
            if t not in by or any(i not in by[t] for i in range(1, n + 1)):
                probs.append(("tie-run", "step %d: rows missing" % t))
                break
            for q in QUANT:
                sc = scale_of(q, step0)
                if sc == 0:
                    sc = 1e-300
                exp = pred.get((t, q))
                if exp is None:
                    probs.append(("tie-run", "model gave no prediction for step %d %s" % (t, q)))
                    break
                for i in range(1, n + 1):
                    got = by[t][i][-1][q]
                    hist["cell_values_compared"] += 1
                    if abs(got - exp[i - 1]) > tol_run * sc:
                        probs.append(("tie-run", "step %d cell %d %s: model %r code %r (scale %r)" % (t, i, q, exp[i - 1], got, sc)))
    return probs


_PHASE_FORMULA = {}


def phase_elements(name):
    """element counts of a pure phase, read from the database text (first formula after the phase name in PHASES)"""
    import re
    if name not in _PHASE_FORMULA:
        txt = open(DB, encoding="latin1").read()
        ph = txt[txt.index("\nPHASES"):]
        m = re.search(r"^%s\s*\n\s*(\S+)\s*=" % re.escape(name), ph, re.M)
        counts = {}
        for el, k in re.findall(r"([A-Z][a-z]?)(\d*\.?\d*)", m.group(1)):
            counts[el] = counts.get(el, 0.0) + (float(k) if k else 1.0)
        _PHASE_FORMULA[name] = counts
    return _PHASE_FORMULA[name]


def oracle_final_state(case, res, by, hist):
    """reactive solids: the per-cell inventory punched at the last step through the BASIC functions (TOTMOLE, SYS, EQUI)
    equals the inventory of the entities the engine has stored after the run (solution totals + exchanger totals +
    pure-phase moles x formula read from the database) — ties the observation used by the conservation oracles to
    the stored state, read independently"""
    fin = res.get("final")
    if not fin or not by:
        return []
    last = max(by)
    if last < 1:
        return []
    bad = []
    fs = inv_funcs(case)
    for i in range(1, case["n"] + 1):
        if i not in by[last] or i not in fin:
            continue
        st = fin[i]
        for name, f in fs.items():
            el = name[4:]
            stored = sum(v for k, v in st["s"].items() if k == el or k.startswith(el + "("))
            stored += st["x"].get(el, 0.0)
            for ph, mol in st["p"].items():
                stored += mol * phase_elements(ph).get(el, 0.0)
            got = f(by[last][i][-1])
            hist["final_state_values_compared"] += 1
            if abs(got - stored) > 1e-9 * max(abs(got), abs(stored), 1e-12):
                bad.append((name, i, got, stored))
    return bad


def inv_funcs(case):
    """inventory quantities of a cell row: dissolved (+ solids when present)"""
    fs = {}
    if case.get("solids") == "exchange":
        for e in gt.ELEMENTS:
            fs["inv_" + e] = (lambda d, e=e: d["m_" + e] + d["x_" + e])
    elif case.get("solids") == "calcite":
        for e in gt.ELEMENTS:
            fs["inv_" + e] = (lambda d, e=e: d["m_" + e] + (d["s_calcite"] if e == "Ca" else 0.0))
        fs["inv_C"] = lambda d: d["m_C"] + d["s_calcite"]
    else:
        for q in QUANT:
            fs[q] = (lambda d, q=q: d[q])
    return fs


def col_inventory(by, t, cells, f):
    return sum(f(by[t][c][-1]) for c in cells)


def charge_scale(by, cells):
    z = dict(gt.CATIONS + gt.ANIONS)
    return max(sum(abs(by[0][c][-1]["m_" + e]) * z[e] for e in gt.ELEMENTS) for c in cells if c in by[0]) or 1.0


RESIDUAL_PER_SPECIATION = 5e-12   # band of the known finding `speciation-residual-accumulates` (measured 4e-13..2e-12)
BAND = {"stretches_over_1e-9_within_band": 0, "max_drift": 0.0, "max_drift_per_speciation": 0.0, "max_speciations": 0,
        "by_speciations": {}}


GUARD_HITS = []   # filled by oracle_inventory: stretches whose balance closes only with the engine-declared MCD additions


def oracle_inventory(case, by, cells, shifts, flux=None, kstep=1, hist=None, start=0):
    """conservation: flux=None → closed column, inventory constant; flux=(inflow cell, outflow cell) → per step
    inventory(t) = inventory(t−1) + dissolved(inflow solution) − dissolved(outflow cell at t−1).
    Every stretch is judged against the property's 1e-9. Entries: (name, t, expected, got, relative drift, K) with
    K = speciations per cell between the two compared states (kstep = nmix + 1 per transport step)."""
    bad = []
    fs = inv_funcs(case)
    if start not in by or any(c not in by[start] for c in cells) or 0 not in by:
        return None
    for name, f in fs.items():
        inv0 = col_inventory(by, start, cells, f)
        # scale: the inventory, the largest cell value, and what the boundary solutions can bring in
        q0 = name if name in QUANT else "m_" + name[4:]
        sc = charge_scale(by, list(by[0])) * len(cells) if name == "cb" else \
            max(abs(inv0), max(abs(f(by[start][c][-1])) for c in cells), max(abs(d[-1].get(q0, 0.0) or 0.0) for d in by[0].values()))
        prev = inv0
        el = name.split("_", 1)[1] if "_" in name else None

        def added(t):
            """moles of this element the explicit-MCD guard has added up to the end of step t (engine's own bookkeeping)"""
            if el not in gt.ELEMENTS or t not in by:
                return 0.0
            return max([d.get("a_" + el, 0.0) or 0.0 for ds in by[t].values() for d in ds] + [0.0])
        for t in range(start + 1, shifts + 1):
            if t not in by or any(c not in by[t] for c in cells):
                return None
            inv = col_inventory(by, t, cells, f)
            exp = prev
            k = (t - start) * kstep
            tref = start
            if flux is not None:
                cin, cout = flux
                q = name if name in QUANT else "m_" + name[4:]
                exp = prev + by[0][cin][-1][q] - by[t - 1][cout][-1][q]
                k = kstep
                tref = t - 1
            addc = added(t) - added(tref) if case.get("mcd") and not case.get("implicit") else 0.0
            resid = inv - exp - addc
            if abs(resid) > TOL * max(sc, 1e-300):
                # same guard, unbooked part: multi_D zeroes a negative total and books the refill in moles_added (and warns)
                # only `if (temp < -1e-12)`; a negative total of at most 1e-12 mol is zeroed silently. Fingerprint: explicit
                # multi_d, mass only ever appears (resid > 0), at most 1e-12 mol per cell and mixrun of the stretch, and a
                # cell of the column holds (next to) nothing of that element afterwards.
                mixruns = max(kstep - 1, 1) * (1 if flux is not None else (t - start))
                # (with an exchanger the zeroed solution total is refilled by the re-equilibration, so the fingerprint is a
                # cell whose dissolved total of the element is within reach of the silent threshold: <= 1e-11 mol)
                zeroed = el in gt.ELEMENTS and any(abs(by[t][c][-1].get("m_" + el, 1.0)) <= 1e-11 for c in cells)
                if case.get("mcd") and not case.get("implicit") and zeroed and 0 < resid <= 1e-12 * len(cells) * mixruns:
                    GUARD_HITS.append((name, t, exp, inv, addc, "unbooked<=1e-12 mol per cell and mixrun: %.3e" % resid))
                    if hist is not None:
                        hist["mcd_guard_unbooked_below_1e-12_mol"] += 1
                    if flux is not None:
                        prev = inv
                    continue
                bad.append((name, t, exp + addc, inv, resid / max(sc, 1e-300), k))
                break
            if addc and abs(inv - exp) > TOL * max(sc, 1e-300):
                # the balance closes only with the moles the engine says it added for negative concentrations
                GUARD_HITS.append((name, t, exp, inv, addc))
            if flux is not None:
                prev = inv
    return bad


RESIDUAL_ABS_PER_CELL_SPECIATION = 1e-16   # mol: absolute floor of the residual a speciation leaves (dilute elements)


def classify_conservation(bad, kind, ncells=1):
    """(kind, detail): a drift above 1e-9 that stays within (speciations per cell between the two states) x
    max(5e-12 relative, cells x 1e-16 mol absolute) is the known finding `speciation-residual-accumulates` (the engine
    stores the species sums of every speciation; for dilute elements the residual is an absolute floor); anything
    beyond that band is a violation. Entries: (name, t, expected, got, relative drift, K)."""
    parts = []
    for x in bad:
        if abs(x[4]) <= x[5] * RESIDUAL_PER_SPECIATION:
            parts.append("relative")
        elif abs(x[3] - x[2]) <= x[5] * ncells * RESIDUAL_ABS_PER_CELL_SPECIATION:
            parts.append("absolute")
        else:
            parts.append(None)
    if all(parts):
        for x, part in zip(bad, parts):
            BAND["stretches_over_1e-9_within_band"] += 1
            BAND["in_" + part + "_part"] = BAND.get("in_" + part + "_part", 0) + 1
            BAND["max_drift"] = max(BAND["max_drift"], abs(x[4]))
            BAND["max_drift_per_speciation"] = max(BAND["max_drift_per_speciation"], abs(x[4]) / x[5])
            BAND["max_abs_drift_per_cell_speciation_mol"] = max(BAND.get("max_abs_drift_per_cell_speciation_mol", 0.0),
                                                                abs(x[3] - x[2]) / (x[5] * ncells))
            BAND["max_speciations"] = max(BAND["max_speciations"], x[5])
            b = "<=300" if x[5] <= 300 else "301-600" if x[5] <= 600 else "601-1200" if x[5] <= 1200 else ">1200"
            BAND["by_speciations"][b] = BAND["by_speciations"].get(b, 0) + 1
        return ("finding:speciation-residual-accumulates", bad[:3])
    return (kind, bad[:3])


def oracle_weights(res):
    """`weights_convex` evaluated on the implementation: every entry of the Dispersion_mix_map read mid-run lies in
    [0,1] and the three entries of a cell sum to 1. A weight outside [0,1] is a concrete witness that the sub-mix is
    not a convex combination (bounded mixing can fail)."""
    bad = []
    mix = res.get("mix")
    if not mix:
        return bad
    for i, w in sorted(mix["cells"].items()):
        vals = list(w.values())
        if any(not (v == v) for v in vals):
            bad.append((i, w, "nan"))
        elif any(v < -1e-12 or v > 1 + 1e-12 for v in vals) or abs(sum(vals) - 1.0) > 1e-12:
            bad.append((i, w, "outside [0,1] or sum != 1"))
    return bad


def symmetric_plan(plan):
    """model weights: m1[i] == m[i+1] for all interior faces"""
    W = plan["W"]
    return all(W[i][2] == W[i + 1][0] for i in range(len(W) - 1))


def direct_oracles(case, res, hist, code_nmix, plan=None):
    """the property statement evaluated on the implementation's own output; returns list of (kind, detail)"""
    out = []
    del GUARD_HITS[:]
    heads, by = table(res)
    n = case["n"]
    shifts = case["shifts"]
    allq = QUANT + ["water"] + ["c_" + e for e in gt.ELEMENTS]
    if case["kind"] == "advection":
        if not case.get("solids"):
            bad = oracle_shift(by, n, 1, shifts, allq)
            hist["oracle_shift"] += 1
            if bad:
                out.append(("oracle-shift", bad[:3]))
        else:
            # reactive solids: inventory incl. solids changes by what the inflow solution brings and the last cell loses
            bad = oracle_inventory(case, by, list(range(1, n + 1)), shifts, (0, n), 1, hist, start=1)
            if bad is not None:
                hist["oracle_flux_balance_advection_solids"] += 1
                if bad:
                    out.append(classify_conservation(bad, "oracle-flux-balance", n))
            bad = oracle_final_state(case, res, by, hist)
            if bad:
                out.append(("oracle-final-state", bad[:3]))
        return out
    su = reader_setup(case)
    plain = not case.get("mcd") and not case.get("stag") and not case.get("solids")
    if code_nmix == 0 and su["flow"] == 0 and not case.get("stag"):
        return out                                     # nothing moves, nothing is punched
    mobile = list(range(1, n + 1))
    cells = mobile + [c for c in by.get(0, {}) if c > n + 1]
    # (0) the code's own mixing map is convex (single-coefficient branch; the map is only used when nmix > 0)
    if not case.get("mcd") and code_nmix > 0 and res.get("mix"):
        hist["oracle_weights"] += 1
        bad = oracle_weights(res)
        if bad:
            out.append(("oracle-weights", bad[:3]))
    # (1) range: single diffusion coefficient, no reactive solids
    if not case.get("mcd") and not case.get("solids"):
        bad = oracle_range(case, by, n)
        if bad is not None:
            hist["oracle_range"] += 1
            if bad:
                out.append(("oracle-range", bad[:3]))
    equal = len(set(su["L"])) == 1
    nodiff = su["diffc"] * su["timest"] == 0
    # (2) closed diffusion-only column: inventory constant
    if su["flow"] == 0 and su["bf"] == 2 and su["bl"] == 2 and (equal or case.get("mcd")):
        bad = oracle_inventory(case, by, cells, shifts, None, code_nmix + 1, hist)
        if bad is not None:
            hist["oracle_closed_inventory"] += 1
            if bad:
                # known departure: diffuse_implicit's negative-mole guard (min_mol = max(min_dif_M*kgw, 1e-13)) lets the
                # inventory drift slightly and creates ~1e-13 mol per cell of absent elements; only that small drift
                # of implicit runs is routed to the finding key, anything larger is a violation
                # (the guard acts per cell, element and sub-step: absolute size ~1e-13 mol each)
                small = all(abs(x[3] - x[2]) <= max(1e-6 * abs(x[2]), 2e-13 * len(cells) * x[1] * max(code_nmix, 1)) for x in bad)
                if case.get("implicit") and small:
                    out.append(("finding:implicit-mcd-closed-inventory-drift", bad[:3]))
                else:
                    out.append(classify_conservation(bad, "oracle-inventory", len(cells)))
    # (2b) constant-concentration boundary, diffusion only, one sub-mix per step: the inventory changes exactly by the
    #      exchange with the boundary solutions, computed from the code's own mixing map (constant_boundary_mix_balance):
    #      inv(t) = inv(t-1) + m[1]*(c0 - c1(t-1)) + m1[n]*(c_{n+1} - c_n(t-1))
    if plain and su["flow"] == 0 and code_nmix == 1 and (su["bf"] == 1 or su["bl"] == 1) and equal and res.get("mix"):
        cm = res["mix"]["cells"]
        if sorted(cm) == mobile and all(abs(cm[i][i + 1] - cm[i + 1][i]) <= 1e-13 * abs(cm[i][i + 1]) for i in range(1, n)) \
                and all(c in by.get(0, {}) for c in mobile):
            a, b = cm[1][0], cm[n][n + 1]
            bad = []
            for q in QUANT:
                x0 = by[0][0][-1][q] if 0 in by[0] else 0.0
                xl = by[0][n + 1][-1][q] if (n + 1) in by[0] else 0.0
                sc = scale_of(q, by[0]) * (n if q == "cb" else 1) or 1e-300
                sc = max(sc, abs(sum(by[0][c][-1][q] for c in mobile)))
                for t in range(1, shifts + 1):
                    if t not in by or any(c not in by[t] for c in mobile) or any(c not in by[t - 1] for c in mobile):
                        break
                    prev = sum(by[t - 1][c][-1][q] for c in mobile)
                    exp = prev + a * (x0 - by[t - 1][1][-1][q]) + b * (xl - by[t - 1][n][-1][q])
                    inv = sum(by[t][c][-1][q] for c in mobile)
                    if abs(inv - exp) > TOL * sc:
                        bad.append((q, t, exp, inv, (inv - exp) / sc, 2))
                        break
            hist["oracle_constant_boundary_balance"] += 1
            if bad:
                out.append(classify_conservation(bad, "oracle-boundary-balance", n))
    # (3) pure advection: exact shift
    if plain and su["flow"] != 0 and code_nmix == 0:
        bad = oracle_shift(by, n, su["flow"], shifts, allq)
        hist["oracle_shift"] += 1
        if bad:
            out.append(("oracle-shift", bad[:3]))
    # (4) flow with flux boundaries: inventory(t) = inventory(t-1) + inflow - outflow ("moved, never created or lost")
    if su["flow"] != 0 and su["bf"] == 3 and su["bl"] == 3 and (equal or (nodiff and not case.get("mcd"))) and not case.get("implicit"):
        flux = (0, n) if su["flow"] > 0 else (n + 1, 1)
        if flux[0] in by.get(0, {}):
            bad = oracle_inventory(case, by, cells, shifts, flux, code_nmix + 1, hist)
            if bad is not None:
                ds = set(su["D"])
                mixed_zero = 0 in ds and len(ds) > 1
                hist["oracle_flux_balance" + ("_mixed_zero_disp" if mixed_zero else "")] += 1
                if bad:
                    out.append(classify_conservation(bad, "oracle-flux-balance", len(cells)))
    if case.get("solids"):
        bad = oracle_final_state(case, res, by, hist)
        if bad:
            out.append(("oracle-final-state", bad[:3]))
    if GUARD_HITS:
        # announced departure: the explicit multicomponent-diffusion step overshot, a concentration went negative and the
        # engine refilled it ("Negative concentration in MCD: added … moles"); the inventory grows by exactly the moles
        # it declares (read from its moles_added table); the balance net of them has been judged at 1e-9 above
        hist["mcd_guard_explained_stretches"] += len(GUARD_HITS)
        out.append(("finding:mcd-negative-concentration-guard-adds-mass", list(GUARD_HITS[:3])))
    return out


# ----------------------------------------------------------------------------------------------- driver
def model_plans(ctx, cases):
    """one pmodel call: plan (nmix, weights) of every TRANSPORT case"""
    text = []
    for i, c in enumerate(cases):
        text.append("mark %d" % i)
        if c["kind"] == "transport":
            text.append(setup_line(reader_setup(c)))
    lines = ctx.pmodel("transport", "\n".join(text) + "\n")
    plans, cur, idx = {}, [], None
    for l in lines + ["M end"]:
        if l.startswith("M "):
            if idx is not None:
                plans[idx] = parse_plan(cur) if cur else None
            idx = l.split()[1]
            idx = int(idx) if idx != "end" else None
            cur = []
        else:
            cur.append(l)
    return plans


def model_runs(ctx, items):
    """items: list of (key, case, res, nmix_force or None) → {key: lines}"""
    text = []
    for key, case, res, force in items:
        text.append("mark %s" % key)
        heads, by = table(res)
        step0 = by.get(0, {})
        n = case["n"]
        if case["kind"] == "transport":
            text.append(setup_line(reader_setup(case)))
            if force is not None:
                text.append("force %d" % force)
        text.append("reset")
        ok = all(i in step0 for i in range(1, n + 1))
        if not ok:
            continue
        for q in QUANT:
            f = step0[0][-1][q] if 0 in step0 else 0.0
            la = step0[n + 1][-1][q] if (n + 1) in step0 else 0.0
            text.append("col %s %s %s %s" % (q, hexd(f), hexd(la), " ".join(hexd(step0[i][-1][q]) for i in range(1, n + 1))))
        text.append(("run %d" if case["kind"] == "transport" else "advect %d") % case["shifts"])
    lines = ctx.pmodel("transport", "\n".join(text) + "\n", timeout=1800)
    out, cur, idx = {}, [], None
    for l in lines + ["M end"]:
        if l.startswith("M "):
            if idx is not None:
                out[idx] = cur
            idx = l.split()[1]
            idx = None if idx == "end" else idx
            cur = []
        else:
            cur.append(l)
    return out


def gen_cases(ctx, count, budget):
    """generate `count` plain cases whose cost (cells·shifts·(nmix+1) speciations) fits the budget"""
    cases = []
    tries = 0
    while len(cases) < count and tries < count * 6:
        tries += 1
        batch = [gt.column(ctx.rng, tier_fast=(ctx.tier != "thorough")) for _ in range(count - len(cases))]
        plans = model_plans(ctx, batch)
        for i, c in enumerate(batch):
            if c["kind"] == "advection":
                cases.append((c, None))
                continue
            p = plans.get(i)
            if p is None:
                continue
            # every speciation leaves its mass-balance residual (~1e-13 relative, sum_species) in the stored totals;
            # runs are kept below 1200 speciations per cell so that this noise stays well under the property's 1e-9
            kmax = 600 if (c["flow"] == "diffusion_only" and c["bc"] == [2, 2]) else 1200
            if c["n"] * c["shifts"] * (p["nmix"] + 1) <= budget and c["shifts"] * (p["nmix"] + 1) <= kmax:
                cases.append((c, p))
    return cases[:count]


def near_integer(plan):
    x = plan["maxmix"] * 3 / 2
    k = round(x)
    return abs(x - k) <= Fraction(1, 10 ** 12) * max(1, k)


def check_cases(ctx, exe, cases, hist, stop_on_first=True):
    """run plain cases through code and model; returns list of (case, kinds, detail) for problems"""
    inputs = [(str(i), gt.render(c)) for i, (c, _) in enumerate(cases)]
    results = run_parallel(ctx, exe, inputs)
    items = []
    skipped = {}
    for i, (c, p) in enumerate(cases):
        res = results[str(i)]
        if res.get("timeout"):
            hist["runs_timed_out"] += 1
            if len(ctx.notes) < 3:
                ctx.notes.append({"timed_out_case": {k: c[k] for k in c if k != "sols"}})
            continue
        if res.get("crash"):
            skipped[i] = ("crash", res)
            continue
        if res["ret"] != 0:
            hist["runs_with_errors"] += 1
            skipped[i] = ("error", res["err"][:300])
            continue
        force = None
        if p is not None and p["nmix"] != res["nmix_after"] and near_integer(p):
            force = res["nmix_after"]
            hist["nmix_rounding_boundary"] += 1
        items.append((str(i), c, res, force))
    mlines = model_runs(ctx, items) if items else {}
    problems = []
    for key, c, res, force in items:
        i = int(key)
        p = cases[i][1]
        lines = mlines.get(key, [])
        probs = []
        plan = None
        if c["kind"] == "transport":
            plan = parse_plan(lines) if force is None else parse_plan(lines[lines.index([l for l in lines if l.startswith("PLAN")][-1]):])
            probs += judge_modelled(ctx, c, res, plan, lines, hist)
        else:
            probs += judge_advection(c, res, lines, hist)
        probs += direct_oracles(c, res, hist, res["nmix_after"], plan if c["kind"] == "transport" else None)
        note_hist(c, res, hist)
        if probs:
            problems.append((c, probs, res))
    for i, (why, what) in skipped.items():
        if why == "crash":
            problems.append((cases[i][0], [("crash", str(what)[:300])], None))
    return problems


def judge_advection(case, res, model_lines, hist):
    """ADVECTION keyword vs `advectionRun` (shift only)"""
    probs = []
    heads, by = table(res)
    step0 = by.get(0, {})
    n = case["n"]
    pred = {}
    for l in model_lines:
        w = l.split()
        if w and w[0] == "S":
            pred[(int(w[1]), w[2])] = [unhexd(x) for x in w[3:]]
    for t in range(1, case["shifts"] + 1):
        if t not in by or any(i not in by[t] for i in range(1, n + 1)):
            probs.append(("tie-run", "advection step %d: rows missing" % t))
            break
        for q in QUANT:
            sc = scale_of(q, step0) or 1e-300
            exp = pred.get((t, q))
            if exp is None:
                probs.append(("tie-run", "model gave no prediction for step %d %s" % (t, q)))
                break
            for i in range(1, n + 1):
                got = by[t][i][-1][q]
                hist["cell_values_compared"] += 1
                if abs(got - exp[i - 1]) > TOL * sc:
                    probs.append(("tie-run", "advection step %d cell %d %s: model %r code %r" % (t, i, q, exp[i - 1], got)))
    return probs


def note_hist(c, res, hist):
    hist["cases"] += 1
    if c.get("gen") == "stress":
        hist["gen_end_cell_stress"] += 1
    if c["kind"] == "advection":
        hist["kind_advection"] += 1
        return
    hist["flow_" + c["flow"]] += 1
    hist["bc_%d%d" % tuple(c["bc"])] += 1
    hist["cells_%s" % ("1" if c["n"] == 1 else "2-5" if c["n"] <= 5 else "6-15" if c["n"] <= 15 else "16-40")] += 1
    k = res["nmix_after"]
    if k == 0 and c["flow"] == "diffusion_only":
        hist["nmix_0_noflow"] += 1
    hist["nmix_%s" % ("0" if k == 0 else "1" if k == 1 else "2-5" if k <= 5 else "6-50" if k <= 50 else ">50")] += 1
    su = reader_setup(c)
    hist["lengths_%s" % ("equal" if len(set(su["L"])) == 1 else "unequal")] += 1
    ds = set(su["D"])
    hist["disp_%s" % ("zero" if ds == {0} else "mixed-zero" if 0 in ds else "equal" if len(ds) == 1 else "unequal")] += 1
    if c["correct_disp"]:
        hist["correct_disp"] += 1


class Hist(dict):
    def __missing__(self, k):
        return 0


def stag_modelled(c):
    """stagnant layer in the exchange-factor form, single diffusion coefficient, no solids: inside the model"""
    st = c.get("stag")
    return bool(st and st.get("n") == 1 and ("exch" in st or "mix" in st) and not c.get("mcd") and not c.get("implicit")
                and not c.get("solids"))


def stag_model_text(case, res):
    """pmodel lines for a stagnant case: set-up, exchange fractions from the engine's own step-0 water masses, the
    step-0 column (mobile + immobile) of every quantity, run"""
    heads, by = table(res)
    step0 = by.get(0, {})
    n = case["n"]
    if any(i not in step0 for i in range(1, n + 1)):
        return None
    nmix = res["nmix_after"]
    st = case["stag"]
    su = reader_setup(case)
    stagkin = su["timest"] if nmix < 2 else su["timest"] / nmix
    ents = []
    for i in range(1, n + 1):
        k = i + 1 + n
        ents.append("%s:%s" % (hexd(step0[i][-1]["water"]), hexd(step0[k][-1]["water"])) if k in step0 else "-")
    if "exch" in st:
        sline = "stag %s %s %s %s %s" % (rs(Fraction(st["exch"])), rs(Fraction(st["thm"])), rs(Fraction(st["thim"])), rs(stagkin), " ".join(ents))
    else:
        sline = "stagw " + " ".join(",".join(rs(Fraction(x)) for x in st["mix"][str(i)]) if str(i) in st["mix"] else "-"
                                    for i in range(1, n + 1))
    text = [setup_line(su), "force %d" % nmix, "reset", sline]
    for q in QUANT:
        f = step0[0][-1][q] if 0 in step0 else 0.0
        la = step0[n + 1][-1][q] if (n + 1) in step0 else 0.0
        mob = " ".join(hexd(step0[i][-1][q]) for i in range(1, n + 1))
        imm = " ".join(hexd(step0[i + 1 + n][-1][q]) if (i + 1 + n) in step0 else hexd(0.0) for i in range(1, n + 1))
        text.append("scol %s %s %s %s ; %s" % (q, hexd(f), hexd(la), mob, imm))
    text.append("srun %d" % case["shifts"])
    return text


def judge_stagnant(case, res, lines, hist):
    """stagnant layer: (a) Rxn_mix_map read mid-run vs stagWeights, (b) every mobile and immobile cell x step x quantity
    vs transportStagStepWith"""
    probs = []
    n = case["n"]
    heads, by = table(res)
    step0 = by.get(0, {})
    code_nmix = res["nmix_after"]
    plan = parse_plan([l for l in lines if l.split()[0] in ("PLAN", "W")][-(n + 1):]) if code_nmix else None
    # dispersive part: same comparison as for plain columns
    if code_nmix > 0 and res.get("mix") and plan and len(plan["W"]) == n:
        cm = res["mix"]["cells"]
        for i in range(1, n + 1):
            exp = dict(zip((i - 1, i, i + 1), (float(x) for x in plan["W"][i - 1])))
            for k in exp:
                hist["factors_compared"] += 1
                if k not in cm.get(i, {}) or abs(cm[i][k] - exp[k]) > MIXTOL * max(abs(exp[k]), abs(cm[i][k])):
                    probs.append(("tie-mix", "stagnant case, cell %d factor of %d: model %r code %r" % (i, k, exp[k], cm.get(i, {}).get(k))))
    sw = {}
    for l in lines:
        w = l.split()
        if w and w[0] == "SW":
            sw[int(w[1])] = [unhexd(x) for x in w[2:6]]
    if "mix" in case["stag"]:
        sw = {int(i): [float(Fraction(x)) for x in v] for i, v in case["stag"]["mix"].items()}
    sm = res.get("smix")
    moved = code_nmix > 0 or case["flow"] != "diffusion_only"
    if sm is None:
        if moved:
            probs.append(("tie-stag", "exchange map not observed"))
    else:
        for i, (a, b, c, d) in sorted(sw.items()):
            k = i + 1 + n
            exp = {i: {i: a, k: b}, k: {i: d, k: c}}
            for cell in (i, k):
                got = sm["cells"].get(cell)
                if got is None or sorted(got) != sorted(exp[cell]):
                    probs.append(("tie-stag", "Rxn_mix_map[%d] = %r, model %r" % (cell, got, exp[cell])))
                    continue
                for kk in got:
                    hist["stag_fractions_compared"] += 1
                    if abs(got[kk] - exp[cell][kk]) > MIXTOL * max(abs(got[kk]), abs(exp[cell][kk])):
                        probs.append(("tie-stag", "Rxn_mix_map[%d][%d]: model %r code %r" % (cell, kk, exp[cell][kk], got[kk])))
        # (negative keys are the engine's scratch copies of a MIX used in the defining simulation)
        extra = {c for c in sm["cells"] if c >= 0} - {c for i in sw for c in (i, i + 1 + n)}
        if extra:
            probs.append(("tie-stag", "unexpected Rxn_mix_map entries %s" % sorted(extra)))
    if not moved:
        return probs
    pred = {}
    for l in lines:
        w = l.split()
        if w and w[0] in ("S", "I"):
            pred[(w[0], int(w[1]), w[2])] = [unhexd(x) for x in w[3:]]
    shifts = case["shifts"]
    tol_run = TOL * max(1.0, shifts * (code_nmix + 1) / 30.0)
    for t in range(1, shifts + 1):
        if t not in by or any(i not in by[t] for i in range(1, n + 1)):
            probs.append(("tie-run", "stagnant case, step %d: rows missing" % t))
            break
        for q in QUANT:
            sc = scale_of(q, step0) or 1e-300
            pm, pi = pred.get(("S", t, q)), pred.get(("I", t, q))
            if pm is None or pi is None:
                probs.append(("tie-run", "model gave no prediction for step %d %s" % (t, q)))
                break
            for i in range(1, n + 1):
                hist["cell_values_compared"] += 1
                got = by[t][i][-1][q]
                if abs(got - pm[i - 1]) > tol_run * sc:
                    probs.append(("tie-run", "stagnant case, step %d mobile cell %d %s: model %r code %r" % (t, i, q, pm[i - 1], got)))
                k = i + 1 + n
                if k in step0:
                    if k not in by[t]:
                        probs.append(("tie-run", "stagnant case, step %d: immobile cell %d not punched" % (t, k)))
                        continue
                    hist["cell_values_compared"] += 1
                    got = by[t][k][-1][q]
                    if abs(got - pi[i - 1]) > tol_run * sc:
                        probs.append(("tie-run", "stagnant case, step %d immobile cell %d %s: model %r code %r" % (t, k, q, pi[i - 1], got)))
    return probs[:12]


def is_variant(c):
    return bool(c.get("mcd") or c.get("stag") or c.get("solids") or c.get("implicit"))


def check_variants(ctx, exe, cases, hist):
    """multicomponent diffusion / implicit / stagnant zones / reactive solids: no model, the property's oracles on
    the real outputs only"""
    inputs = [(str(i), gt.render(c)) for i, c in enumerate(cases)]
    results = run_parallel(ctx, exe, inputs, chunk=1, timeout=300)
    problems = []
    judged = []
    for i, c in enumerate(cases):
        res = results[str(i)]
        if res.get("timeout"):
            hist["variant_runs_timed_out"] += 1
            if len(ctx.notes) < 3:
                ctx.notes.append({"timed_out_variant": {k: c[k] for k in c if k != "sols"}})
            continue
        if res.get("crash"):
            problems.append((c, [("crash", str(res)[:300])], None))
            continue
        hist["variant_" + c.get("variant", "?")] += 1
        if res["ret"] != 0:
            hist["variant_runs_with_errors"] += 1
            continue
        if "added in total to the system" in res["warn"]:
            hist["variant_mcd_negative_conc_balancing"] += 1
        hist["variant_judged"] += 1
        probs = direct_oracles(c, res, hist, res["nmix_after"], None)
        judged.append([c, probs, res])
    # stagnant layer (exchange-factor form): inside the model
    todo = [(i, j) for i, j in enumerate(judged) if stag_modelled(j[0])]
    text = []
    for i, (c, probs, res) in todo:
        t = stag_model_text(c, res)
        text.append("mark %d" % i)
        if t:
            text += t
    if todo:
        lines = ctx.pmodel("transport", "\n".join(text) + "\n", timeout=1800)
        cur, idx, out = [], None, {}
        for l in lines + ["M end"]:
            if l.startswith("M "):
                if idx is not None:
                    out[idx] = cur
                idx = l.split()[1]
                cur = []
            else:
                cur.append(l)
        for i, (c, probs, res) in todo:
            hist["stagnant_modelled"] += 1
            judged[i][1] = probs + judge_stagnant(c, res, out.get(str(i), []), hist)
    for c, probs, res in judged:
        if probs:
            problems.append((c, probs, res))
    return problems


def shrink_case(ctx, exe, c, kinds):
    """smaller case with the same kind of problem: fewer shifts, then fewer solutes"""
    def fails(cc):
        h = Hist()
        if is_variant(cc):
            pr = check_variants(ctx, exe, [cc], h)
        else:
            pr = check_cases(ctx, exe, [(cc, model_plans(ctx, [cc]).get(0))], h)
        return any(k in kinds for _, ps, _ in pr for k, _ in ps)
    cur = c
    for sh in range(1, c["shifts"]):
        cc = dict(cur, shifts=sh)
        if fails(cc):
            cur = cc
            break
    return cur


def _scaled(dec, f):
    """decimal string of Fraction(dec) * f (f a Fraction with power-of-ten denominator times small ints)"""
    v = Fraction(dec) * f
    return gt._fracdec(v) if (v * 10 ** 30).denominator == 1 else "%.6e" % float(v)


def targeted_search(ctx, exe, case, limit_cells=3):
    """failing-input search used when the code's mixing map is not convex or differs from the model (protocol Q):
    keep the offending column set-up, vary the time step so that few sub-mixes are made, find the cell(s) whose self
    weight in the *code's* map is smallest, and give that cell a solution at one end of the concentration range and
    all other cells and the boundary solutions the other end (maximal contrast). Run the real engine, evaluate the
    property's range oracle on its output. Returns (case, bad) of the first input on which the oracle fails."""
    if case.get("kind") != "transport" or is_variant(case):
        return None
    lo = {"water": "1", "pH": "7", "el": {"Na": "0.01", "Cl": "0.01"}}
    hi = {"water": "1", "pH": "7", "el": {"Na": "10", "Cl": "10"}}
    n = case["n"]
    factors = [Fraction(1), Fraction(7, 10), Fraction(1, 2), Fraction(7, 20), Fraction(1, 4), Fraction(3, 20),
               Fraction(1, 10), Fraction(1, 20), Fraction(2), Fraction(3, 100), Fraction(1, 100)]
    probes = []
    for f in factors:
        c = dict(case, shifts=1, timest=_scaled(case["timest"], f))
        probes.append(c)
    res1 = run_parallel(ctx, exe, [(str(i), gt.render(c)) for i, c in enumerate(probes)], chunk=1)
    cands = []
    for i, c in enumerate(probes):
        r = res1[str(i)]
        if r.get("crash") or r.get("ret") != 0 or not r.get("mix"):
            continue
        cm = r["mix"]["cells"]
        order = sorted(cm, key=lambda k: cm[k].get(k, 1.0))        # smallest self weight first
        for cell in order[:limit_cells]:
            for inner, outer in ((lo, hi), (hi, lo)):
                sols = {str(k): outer for k in range(0, n + 2)}
                sols[str(cell)] = inner
                cands.append((cm[cell].get(cell, 1.0), r["mix"]["nmix"], dict(c, sols=sols)))
    cands.sort(key=lambda x: (x[0], x[1]))
    cands = cands[:48]
    if not cands:
        return None
    res2 = run_parallel(ctx, exe, [(str(i), gt.render(c[2])) for i, c in enumerate(cands)], chunk=1)
    for i, (_, _, c) in enumerate(cands):
        r = res2[str(i)]
        if r.get("crash") or r.get("ret") != 0:
            continue
        heads, by = table(r)
        bad = oracle_range(c, by, n)
        if bad:
            return c, bad
    return None


def has_oracle_failure(p):
    return any(k.startswith("oracle") or k == "crash" for k, _ in p[1])


def report(ctx, exe, problems, limit=3, explored=0):
    """violation protocol (DESIGN §3): a case on which the property's direct oracle fails on the implementation's own
    output is a failing input; a broken correspondence (model ≠ code) without any oracle failure in the whole
    exploration is reported as `no-failing-input-found`; known findings go through ctx.finding."""
    for c, probs, res in problems:
        for k in sorted({k for k, _ in probs if k.startswith("finding:")}):
            key = k.split(":", 1)[1]
            d = [d for kk, d in probs if kk == k][0]
            ctx.finding(key, "column inventory drifts (name, step, expected, got, relative drift[, speciations per cell]): %s"
                        % (str(d)[:300]), {"case": c, "input": gt.render(c)})
    orc = [p for p in problems if has_oracle_failure(p)]
    tie = [p for p in problems if not has_oracle_failure(p) and any(k.startswith("tie") for k, _ in p[1])]
    # protocol Q / non-convex map: targeted failing-input search on the offending configurations
    found = None
    if exe is not None:
        suspects = [p for p in orc if any(k == "oracle-weights" for k, _ in p[1]) and
                    not any(k.startswith("oracle") and k != "oracle-weights" for k, _ in p[1])]
        suspects += [p for p in tie if any(k == "tie-mix" for k, _ in p[1])]
        for c, probs, res in suspects[:6]:
            try:
                found = targeted_search(ctx, exe, c)
            except Exception as e:          # the search must never mask the original report
                ctx.notes.append("targeted search failed: %r" % (e,))
                found = None
            if found:
                c2, bad = found
                why = [(k, str(d)[:300]) for k, d in probs if k in ("oracle-weights", "tie-mix")][:3]
                ctx.violation("C11 oracle-range (targeted search after %s): element concentration leaves the range of the "
                              "initial column and boundary solutions: %s" % (",".join(sorted({k for k, _ in why})), str(bad[:2])[:300]),
                              {"case": c2, "input": gt.render(c2), "problems": [("oracle-range", str(bad[:3])[:400])] + why,
                               "origin_case": c})
                break
    if found:
        return
    for c, probs, res in orc[:limit]:
        rest = [(k, d) for k, d in probs if not k.startswith("finding:")]
        kinds = sorted({k for k, _ in rest})
        c2 = c
        if exe is not None:
            try:
                c2 = shrink_case(ctx, exe, c, {k for k in kinds if k.startswith("oracle")})
            except Exception:
                c2 = c
        ctx.violation("C11 %s: %s" % (",".join(kinds), str(rest[0][1])[:300]),
                      {"case": c2, "input": gt.render(c2), "problems": [(k, str(d)[:400]) for k, d in rest[:6]]})
    if tie and not orc:
        c, probs, res = tie[0]
        rest = [(k, d) for k, d in probs if k.startswith("tie")]
        ctx.violation("C11 correspondence broken (model of init_mix/transport ≠ code) on %d case(s); the property's direct "
                      "oracles held on all %d explored cases and the targeted contrast search found no range violation. First: %s"
                      % (len(tie), explored, str(rest[0][1])[:300]),
                      {"case": c, "input": gt.render(c), "problems": [(k, str(d)[:400]) for k, d in rest[:6]],
                       "correspondence": "tools/props/c11.py judge_modelled vs pmodel transport"}, found_input=False)


RULE = ("columns from tools/gens/transport.py: 1-40 cells, one/equal/unequal/short length lists, zero/equal/unequal/"
        "some-zero/short dispersivity lists, D in {0, 0.3e-9, 1e-9, random 1e-11..1e-6}, time step in {0,1,3600,86400,random}, "
        "1-30 shifts, forward/back/diffusion_only, all 9 boundary pairs, correct_disp on/off, random conservative tracer "
        "solutions (Na K Li Ca Mg Cl Br; balanced or slightly unbalanced; water 1 kg or random), optional boundary solutions; "
        "ADVECTION keyword cases; 20 % end-cell stress set-ups (short first/last cell, constant boundary at one end only, "
        "larger end-cell dispersivity, largest mixing factor near the stability limit, strong contrast at that end). "
        "Every plain case: reader mirror vs engine set-up, nmix + every Dispersion_mix_map entry "
        "vs model, every cell/step/quantity vs transportRun, direct oracles (incl. convexity of the code's own mixing map); "
        "on a non-convex map or a broken nmix/weight tie a targeted contrast search looks for a range violation. Variants (multi_d, implicit, stagnant, exchange, "
        "calcite): direct oracles only. Every conservation stretch is judged at 1e-9; a drift above it but within (speciations per cell "
        "between the two states) x max(5e-12 relative, cells x 1e-16 mol) is the known finding speciation-residual-accumulates (counts in speciation_residual_band). "
        "Generated plain runs are limited to 1200 (closed diffusion-only: 600) speciations per cell (shifts x (nmix+1)): the engine stores the "
        "species sums of every speciation, ~1e-13 relative residual each. distinct_nontrivial = cases in which at least one sub-mix or shift changed the column.")


def run(ctx):
    global DB
    import vlib
    DB = str(vlib.REPO / "database" / "phreeqc.dat")
    ok = ctx.prove(["PhreeqcVerif.Properties.C11"])
    ctx.build_lib()
    exe = ctx.build_harness("ph_transport")
    hist = Hist()
    nplain = ctx.n(2000, 25000)
    nvar = ctx.n(500, 6000)
    budget = ctx.n(4000, 20000)
    if not ok:
        nplain, nvar, budget = 3000, 600, 8000
    problems = []
    done = 0
    chunk = 500
    # corpus: minimised past findings, always replayed first and judged like every other case
    corpus = gt.corpus()
    cplain = [c for c in corpus if not is_variant(c)]
    cplans = model_plans(ctx, cplain)
    problems += check_cases(ctx, exe, [(c, cplans.get(i)) for i, c in enumerate(cplain)], hist)
    problems += check_variants(ctx, exe, [c for c in corpus if is_variant(c)], hist)
    # a corpus case may reproduce only the known finding it was recorded for; every other corpus case is a regression
    # input of a repaired defect and must pass strictly (a finding route there is a violation)
    strict = []
    for c, probs, res in problems:
        probs = [(("oracle-corpus-regression (%s)" % k.split(":", 1)[1], d)
                  if k.startswith("finding:") and k.split(":", 1)[1] != c.get("expect") else (k, d)) for k, d in probs]
        strict.append((c, probs, res))
    problems = strict
    hist["corpus_cases"] = len(corpus)
    while done < nplain and not any(has_oracle_failure(p) for p in problems):
        cases = gen_cases(ctx, min(chunk, nplain - done), budget)
        if not cases:
            break
        done += len(cases)
        problems += check_cases(ctx, exe, cases, hist)
        if done <= chunk and cases:
            ctx.sample({"plain_case_input": gt.render(cases[0][0])[:1200]})
        ctx.log("plain cases checked: %d, problems: %d" % (done, len(problems)))
    # variants derived from fresh plain columns (cheap ones)
    vdone = 0
    while vdone < nvar and not any(has_oracle_failure(p) for p in problems):
        base = gen_cases(ctx, min(chunk, nvar - vdone), budget // 4)
        vs = [gt.variant(ctx.rng, c) for c, _ in base if c["kind"] == "transport"]
        if not vs:
            break
        vdone += len(vs)
        problems += check_variants(ctx, exe, vs, hist)
        if vdone <= chunk:
            ctx.sample({"variant_case_input": gt.render(vs[0])[:1200]})
        ctx.log("variant cases checked: %d, problems: %d" % (vdone, len(problems)))
    report(ctx, exe, problems, explored=done + vdone + len(corpus))
    ctx.cov["evaluations"] = hist["cases"] + hist["variant_judged"]
    ctx.cov["distinct_nontrivial"] = hist["cases"] - hist["nmix_0_noflow"] + hist["variant_judged"]
    ctx.cov["traces_validated_against_impl"] = hist["cases"]
    ctx.cov["histogram"] = dict(sorted(hist.items()))
    ctx.cov["rule"] = RULE
    ctx.cov["speciation_residual_band"] = dict(BAND, band="drift <= speciations per cell x max(%g relative, cells x %g mol absolute)"
                                                % (RESIDUAL_PER_SPECIATION, RESIDUAL_ABS_PER_CELL_SPECIATION))
    ctx.cov["tolerances"] = {"mixing factors (relative)": MIXTOL, "cell values / inventories (relative to column scale)": TOL}
    if not ok and not ctx.violations:
        ctx.violation("proof obligation of C11 no longer checks and no failing input was found",
                      {"broken": ctx.proof_broken}, found_input=False)


def replay(ctx, data):
    global DB
    import vlib
    DB = str(vlib.REPO / "database" / "phreeqc.dat")
    if "broken" in data:
        print("replay names broken obligations:", data["broken"])
        return run(ctx)
    ctx.build_lib()
    exe = ctx.build_harness("ph_transport")
    c = data["case"]
    hist = Hist()
    if is_variant(c):
        problems = check_variants(ctx, exe, [c], hist)
    else:
        problems = check_cases(ctx, exe, [(c, model_plans(ctx, [c]).get(0))], hist)
    for c, probs, res in problems:
        print("REPLAY problems:", [(k, str(d)[:300]) for k, d in probs[:6]])
    report(ctx, None, [(c, probs, None) for c, probs, _ in problems], explored=1)
    if not problems:
        print("REPLAY: no problem reproduced")


MANIFEST = dict(
    technique="Lean 4 theorems on a Rat model of init_mix / sub-mix / shift (induction over cells, sub-mixes, shifts); "
              "mid-run correspondence of Dispersion_mix_map and nmix through the BASIC callback; end-to-end differential "
              "run against transportRun; direct conservation / exact-shift / range oracles on real outputs",
    text="Theorems (Properties/C11.lean, all column set-ups, any number of shifts and sub-mixes): weights_convex (weights of "
         "init_mix non-negative, sum 1, self > 1/3), bounded_mixing (max/min principle), closed_inventory_constant "
         "(diffusion only, closed ends, equal lengths), advective_shift_exact_forward/back, pure_advection_nmix_zero/"
         "pure_advection_step, advection_keyword_exact, flux_inventory_balance(_back) (flow, flux boundaries, equal lengths, "
         "any dispersivities: inventory changes by inflow - outflow), stale_dav_regression(_inventory) (witness of the "
         "repaired stale-dav defect). Correspondence on every run: reader set-up mirror (bitwise), nmix and every mixing "
         "factor read mid-run from Dispersion_mix_map (model exact over the rationals of the decimal inputs, compared as "
         "doubles at 1e-13 relative), every cell x step x quantity (element moles, total H, total O, charge balance) vs "
         "transportRun at 1e-9 of the column scale; stagnant layers: Rxn_mix_map read mid-run vs stagWeights (water masses from the "
         "engine's own step-0 rows, explicit MIX fractions from the input text) and every mobile + immobile cell vs "
         "transportStagStepWith; reactive solids: punched inventories tied to the stored entities after the run (FINAL lines, "
         "phase formula from the database text); corpus of past findings replayed first. Obligations over generated data "
         "only: the conservation / flux-balance / range oracles for multi_d / implicit / stagnant / reactive solids.",
    note="Trusted: Lean kernel; g++ harness with friend access and SetBasicCallback; Python reader mirror (short lists "
         "repeated, closed->flux with flow) and tolerance logic; phreeqc.dat speciation is not modelled (only the linear "
         "transport of totals; 'speciation conserves the input totals' is observed, not proved). Partial: no model of "
         "multi_D / diffuse_implicit / heat transport / more than one stagnant layer (oracles only, runs with ERROR are counted not judged); "
         "double rounding of floor(1.5*maxmix) at exact integers is accepted either way (counted as nmix_rounding_boundary); "
         "range oracle is evaluated on concentrations with a 1e-9 slack. Known finding implicit-mcd-closed-inventory-drift: "
         "implicit multicomponent diffusion drifts ~1e-13 mol per cell/element/sub-step (only that small drift is excused).",
)
