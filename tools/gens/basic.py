"""Seeded generator of BASIC programs for C17 (all randomness from the `rng` passed in).

`gen_program(rng, size)` builds a syntactically valid program from the documented grammar: the seven expression
levels in every combination (with minimal and with redundant parentheses), numeric edge values and literal
spellings, string functions, variables and arrays (DIM and implicit), IF/THEN/ELSE (statement and line-number
forms, nested), FOR/NEXT/STEP with computed bounds, WHILE/WEND, forward GOTO, ON..GOTO/GOSUB, GOSUB/RETURN with an
acyclic call graph of any depth, DATA/READ/RESTORE, PUT/GET, PUNCH/PRINT/SAVE. All loops are bounded by
construction. `mutate(rng, lines)` applies one malformed-program mutation.

Excluded on purpose: PEEK/POKE (known finding basic-peek-poke), chemistry functions, editor commands, and the
characters the PHREEQC line reader owns (';' '#' '\\')."""
import struct

# identifiers that are BASIC tokens must not be used as variable names: filled by set_keywords()
KEYWORDS = set()
# first words that the PHREEQC keyword reader would take for a data-block keyword when a line number is dropped
PHREEQC_WORDS = {"end", "print", "save", "use", "title", "mix", "run", "dump", "copy", "delete", "include$", "rates",
                 "reaction", "solution", "surface", "gas", "exchange", "kinetics", "transport", "advection",
                 "knobs", "phases", "pitzer", "sit", "incremental_reactions", "selected_output", "user_print",
                 "user_punch", "user_graph", "calculate_values", "database", "dump", "run_cells", "reaction_temperature",
                 "reaction_pressure", "equilibrium_phases", "solid_solutions", "inverse_modeling", "isotopes"}

NUM_VARS = ["a", "b", "c", "d", "e", "x", "y", "z", "u", "w", "x1", "y_2", "cnt", "acc", "total_1", "res",
            "averyveryverylongvariablename", "averyveryverylongvarianother"]
STR_VARS = ["s$", "p$", "q$", "nm$", "buf$", "word_1$"]
NUM_ARRS = [("arr", 1), ("vec", 1), ("grid", 2), ("cube3", 3)]
STR_ARRS = [("w$", 1), ("tbl$", 2)]
LOOP_VARS = ["i", "j", "k", "n", "ii", "jj"]

STR_ALPHABET = "abcdefghijklmnopqrstuvwxyzABCDEFGHIJKLMNOPQRSTUVWXYZ0123456789 _.,:+-*/()<>=!?%&@[]{}|~^"


def set_keywords(words):
    KEYWORDS.clear()
    KEYWORDS.update(w.lower() for w in words)
    for lst in (NUM_VARS, STR_VARS, LOOP_VARS):
        for v in lst:
            assert v.lower()[:20] not in KEYWORDS, v
    for lst in (NUM_ARRS, STR_ARRS):
        for v, _ in lst:
            assert v.lower() not in KEYWORDS, v


def kw(rng, word):
    """random letter case of a keyword"""
    r = rng.random()
    if r < 0.6:
        return word.upper()
    if r < 0.85:
        return word.lower()
    return "".join(c.upper() if rng.random() < 0.5 else c.lower() for c in word)


def num_literal(rng):
    r = rng.random()
    if r < 0.35:
        return str(rng.randint(0, 12))
    if r < 0.5:
        return rng.choice(["0", "1", "2", "3", "10", "100", "7", "255", "256", "1000000", "123456789012"])
    if r < 0.7:
        v = round(rng.uniform(0, 20), rng.randint(1, 6))
        return repr(v)
    if r < 0.8:
        return rng.choice([".5", "5.", "0.25", "1E2", "1e+2", "1.5e3", "2.5E-3", "1e-14", "1e10", "0.1", "0.3",
                           "1e15", "4.9e-324", "1.7976931348623157e308", "2.2250738585072014e-308",
                           "9007199254740993", "0.30000000000000004", "1e22", "1e23", "123.456e-7", "00012", "1.e1",
                           "0x10", "0XfF", "0x.8", "0x1.8p3", "0x1p-2", "0x7fffffff"])
    if r < 0.9:
        v = 10 ** rng.uniform(-8, 8)
        return repr(v)
    if r < 0.95:
        return rng.choice(["1e300", "1e-300", "1e-400", "3.141592653589793", "2.718281828459045", "1e18", "1e19", "1e400"])
    v = struct.unpack(">d", struct.pack(">Q", rng.getrandbits(62) | (rng.getrandbits(1) << 62)))[0]
    if v != v or v in (float("inf"), float("-inf")):
        return "1.25"
    return repr(abs(v))


def str_literal(rng):
    n = rng.choice([0, 1, 1, 2, 3, 3, 5, 8, 13, 30, 300]) if rng.random() < 0.97 else 1500
    body = "".join(rng.choice(STR_ALPHABET) for _ in range(n))
    if rng.random() < 0.15:
        body = rng.choice(["  lead", "trail  ", "  both  ", "12.5", "3+4", " 7 ", "1e3", "abc", "ABC", "abd", "ab"])
    return ('"' + body + '"') if rng.random() < 0.8 else ("'" + body + "'")


class Gen:
    def __init__(self, rng, rich=True):
        self.rng = rng
        self.dims = {}            # array name -> list of upper bounds (inclusive)
        self.num_vars = list(NUM_VARS)
        self.str_vars = list(STR_VARS)
        self.loop_stack = []      # loop variables currently in use (not to be assigned)
        self.hist = {}
        self.rich = rich
        self.used_strvar = False   # the string expression under construction reads a string variable / GET$

    def note(self, k):
        self.hist[k] = self.hist.get(k, 0) + 1

    # ------------------------------------------------------------------ expressions
    def small_int(self):
        return str(self.rng.randint(0, 5))

    def subscript(self, bound):
        r = self.rng.random()
        if r < 0.6:
            return str(self.rng.randint(0, bound))
        if r < 0.8 and self.loop_stack:
            v = self.rng.choice(self.loop_stack)
            return f"FLOOR(ABS({v})) MOD {bound + 1}" if self.rng.random() < 0.5 else f"FLOOR(ABS({v}) + {self.rng.randint(0, 3)}) MOD {bound + 1}"
        if r < 0.9:
            return f"{self.rng.randint(0, bound)} + 0.4"           # rounds to the integer
        return f"{self.rng.randint(0, bound)}.0"

    def arr_ref(self, name):
        bounds = self.dims.get(name)
        if bounds is None:               # implicit: 11 cells per subscript
            nd = dict(NUM_ARRS + STR_ARRS)[name]
            bounds = [10] * nd
            self.dims[name] = bounds
            self.note("implicit-dim")
        return name + "(" + ", ".join(self.subscript(b) for b in bounds) + ")"

    def num_atom(self):
        r = self.rng.random()
        if r < 0.45:
            return num_literal(self.rng)
        if r < 0.75:
            pool = self.num_vars + self.loop_stack * 3
            return self.rng.choice(pool)
        if r < 0.9:
            return self.arr_ref(self.rng.choice(NUM_ARRS)[0])
        return f"{kw(self.rng, 'GET')}({self.small_int()}" + (f", {self.small_int()}" if self.rng.random() < 0.5 else "") + ")"

    def num_expr(self, depth=3, safe=False):
        """numeric expression; `safe` keeps values moderate (used for loop bounds / subscripts)"""
        rng = self.rng
        if depth <= 0 or rng.random() < 0.22:
            return self.num_atom()
        r = rng.random()
        if r < 0.5:                                   # binary operator chain, all precedence levels
            ops = ["+", "-", "*", "/", "^", "MOD", "<", ">", "<=", ">=", "=", "<>", "AND", "OR", "XOR"]
            weights = [10, 10, 9, 7, 5, 4, 3, 3, 2, 2, 3, 2, 3, 3, 2]
            n = rng.choice([1, 1, 2, 2, 3, 4])
            parts = [self.num_operand(depth - 1)]
            for _ in range(n):
                op = rng.choices(ops, weights)[0]
                self.note("op:" + op)
                opt = kw(rng, op) if op.isalpha() else op
                parts.append(opt)
                if op == "^":
                    if rng.random() < 0.12:                      # negative base, integer exponent of either sign/parity
                        parts[-2] = rng.choice(["(-2)", "(-1.5)", "(-ABS(" + parts[-2] + ") - 1)", "(0 - 3)", "(-0.5)"])
                        parts.append(rng.choice(["(-3)", "(-1)", "-1", "(-2)", "3", "(-5)", "-3", "(0 - 1)", "(-4)"]))
                        self.note("neg-base-int-power")
                    elif rng.random() < 0.15:                      # fractional power of a non-negative base
                        parts[-2] = "ABS(" + parts[-2] + ")"
                        parts.append(rng.choice(["0.5", "(1/3)", "1.5", "-0.5"]))
                    elif rng.random() < 0.85:
                        parts.append(rng.choice(["2", "3", "-1", "0", self.small_int(), "2 ^ 2", "-2", "(1 + 1)"]))
                    else:
                        parts.append("FLOOR(" + self.num_operand(depth - 1) + ") MOD 4")
                elif op == "MOD" and rng.random() < 0.85:        # x MOD 0 is NaN: keep the modulus away from zero
                    parts.append(rng.choice(["2", "3", "7", "0.3", "2.5", "-4", "(ABS(" + self.num_atom() + ") + 1)"]))
                else:
                    parts.append(self.num_operand(depth - 1))
            if rng.random() < 0.12:                  # no blanks around symbolic operators
                return "".join(p if not p.isalpha() else " " + p + " " for p in parts)
            sep = " "
            return sep.join(parts)
        if r < 0.62:                                  # unary
            op = rng.choice(["-", "-", "+", kw(rng, "NOT") + " "])
            self.note("unary")
            return op + self.num_operand(depth - 1)
        if r < 0.85:                                  # numeric functions
            f = rng.choice(["SQR", "SQRT", "ABS", "SGN", "FLOOR", "CEIL", "LOG10", "LOG", "EXP", "SIN", "COS", "TAN",
                            "ARCTAN"])
            self.note("fn:" + f)
            arg = self.num_expr(depth - 1)
            if f in ("LOG", "LOG10", "SQRT") and rng.random() < 0.85:
                arg = f"ABS({arg})" + (" + 1" if f != "SQRT" and rng.random() < 0.7 else "")
            if f == "EXP":
                arg = f"({arg}) / 1e3" if rng.random() < 0.5 else self.small_int()
            if rng.random() < 0.12:                   # function applied to a bare factor
                return f"{kw(rng, f)} {self.num_atom()}"
            return f"{kw(rng, f)}({arg})"
        if r < 0.95:                                  # string -> number
            c = rng.random()
            if c < 0.25:
                self.note("fn:LEN")
                return f"{kw(rng, 'LEN')}({self.str_expr(depth - 1)})"
            if c < 0.4:
                self.note("fn:ASC")
                return f"{kw(rng, 'ASC')}({self.str_expr(depth - 1)})"
            if c < 0.6:
                self.note("fn:INSTR")
                return f"{kw(rng, 'INSTR')}({self.str_factor(depth - 1)}, {self.str_factor(depth - 1)})"
            if c < 0.75:
                self.note("fn:VAL")
                arg = rng.choice(['"12.5"', '"3+4*2"', '" 7 "', '"1e3"', '""', '"2^3"', "STR$(" + self.num_atom() + ")", "'1' + '2'", '"1" + CHR$(46) + "5"', '"VAL(\'3\') + 1"'])
                return kw(rng, "VAL") + "(" + arg + ")"
            self.note("strcmp")
            return f"({self.str_expr(depth - 1)} {rng.choice(['=', '<>', '<', '>', '<=', '>='])} {self.str_expr(depth - 1)})"
        return "(" + self.num_expr(depth - 1) + ")"

    def num_operand(self, depth):
        e = self.num_expr(depth)
        # parenthesise compound operands most of the time; leaving them bare exercises precedence
        if any(ch in e for ch in " +-*/^<>=") and self.rng.random() < 0.55:
            return "(" + e + ")"
        return e

    def str_factor(self, depth=2):
        """a string *factor* (what TRIM/INSTR accept)"""
        rng = self.rng
        r = rng.random()
        if depth <= 0 or r < 0.35:
            if rng.random() < 0.6:
                return str_literal(rng)
            self.used_strvar = True
            return rng.choice(self.str_vars)
        if r < 0.45:
            self.used_strvar = True
            return self.arr_ref(rng.choice(STR_ARRS)[0])
        if r < 0.55:
            self.note("fn:CHR$")
            return f"{kw(rng, 'CHR$')}({rng.choice([65, 97, 48, 32, 126, 33, 90, 200, 255, 0, 256 + 66, rng.randint(32, 126)])})"
        if r < 0.65:
            self.note("fn:STR$")
            return f"{kw(rng, 'STR$')}({self.num_expr(depth - 1)})"
        if r < 0.70:
            f = rng.choice(["STR_F$", "STR_E$"])
            self.note("fn:" + f)
            return (f"{kw(rng, f)}({self.num_expr(depth - 1)}, {rng.choice(['0', '8', '12', '20', '-10', '5', '30'])}, "
                    f"{rng.choice(['0', '1', '2', '4', '6', '12', '-1', '17'])})")
        if r < 0.78:
            self.note("fn:MID$")
            args = [self.str_expr(depth - 1), rng.choice(["1", "2", "3", "0", "5", "40", "-1", self.small_int()])]
            if rng.random() < 0.6:
                args.append(rng.choice(["1", "2", "0", "10", "-1", self.small_int()]))
            return f"{kw(rng, 'MID$')}({', '.join(args)})"
        if r < 0.88:
            f = rng.choice(["TRIM", "LTRIM", "RTRIM"])
            self.note("fn:" + f)
            return f"{kw(rng, f)}({self.str_factor(depth - 1)})"
        if r < 0.94:
            self.note("fn:PAD")
            return f"{kw(rng, rng.choice(['PAD', 'PAD$']))}({self.str_expr(depth - 1)}, {rng.choice(['0', '3', '8', '20', '-2', self.small_int()])})"
        if r < 0.97:
            self.used_strvar = True
            return f"{kw(rng, 'GET$')}({self.small_int()})"
        if r < 0.98:
            self.note("fn:EOL$")
            return kw(rng, rng.choice(["EOL$", "EOL$", "EOL_NOTAB$"]))
        if r < 0.985:
            self.note("fn:NO_NEWLINE$")
            return kw(rng, "NO_NEWLINE$")
        return "(" + self.str_expr(depth - 1) + ")"

    def str_expr(self, depth=2):
        rng = self.rng
        n = rng.choice([1, 1, 1, 2, 2, 3])
        parts = [self.str_factor(depth) for _ in range(n)]
        if n > 1:
            self.note("concat")
        return " + ".join(parts)

    def bounded_str(self, depth):
        """string expression for a store (assignment, PUT$): when it reads stored strings its length is capped, so that
        loops cannot double a string without bound (memory exhaustion is not what this property is about)"""
        self.used_strvar = False
        e = self.str_expr(depth)
        if self.used_strvar:
            e = f"{kw(self.rng, 'MID$')}({e}, 1, {self.rng.choice([40, 200, 400])})"
        return e

    def cond(self, depth=2):
        rng = self.rng
        r = rng.random()
        if r < 0.5:
            return f"{self.num_expr(depth)} {rng.choice(['<', '>', '<=', '>=', '=', '<>'])} {self.num_expr(depth)}"
        if r < 0.65:
            return f"{self.str_expr(1)} {rng.choice(['=', '<>', '<', '>'])} {self.str_expr(1)}"
        if r < 0.8:
            return f"({self.cond(depth - 1)}) {kw(rng, rng.choice(['AND', 'OR']))} ({self.cond(depth - 1)})" if depth > 0 else "1"
        if r < 0.9:
            return rng.choice(["0", "1", "-1", "0.5", "2 - 2"])
        return self.num_expr(depth)

    # ------------------------------------------------------------------ simple statements
    def assign(self):
        rng = self.rng
        r = rng.random()
        let = kw(rng, "LET") + " " if rng.random() < 0.15 else ""
        if r < 0.45:
            v = rng.choice(self.num_vars)
            return f"{let}{v} = {self.num_expr(3)}"
        if r < 0.6:
            a = rng.choice(NUM_ARRS)[0]
            return f"{let}{self.arr_ref(a)} = {self.num_expr(2)}"
        if r < 0.85:
            v = rng.choice(self.str_vars)
            return f"{let}{v} = {self.bounded_str(2)}"
        a = rng.choice(STR_ARRS)[0]
        return f"{let}{self.arr_ref(a)} = {self.bounded_str(1)}"

    def array_block(self):
        """element-to-element traffic inside ONE array (numeric or string, DIMmed or implicitly dimensioned, one or more
        dimensions): distinct fill values, assignments whose right-hand side reads other elements of the same array
        (the element read last differs from the target most of the time), then all touched elements are PUNCHed.
        `findvar` re-points the per-variable cell pointer at every reference: the target of LET / READ / FOR must
        survive that."""
        rng = self.rng
        is_str = rng.random() < 0.5
        name = rng.choice(STR_ARRS if is_str else NUM_ARRS)[0]
        self.note("array-block:" + ("string" if is_str else "numeric"))
        self.arr_ref(name)                                   # registers the bounds (DIM or implicit)
        bounds = self.dims[name]

        def cell():
            return name + "(" + ", ".join(str(rng.randint(0, b)) for b in bounds) + ")"
        cells = []
        while len(cells) < 4:
            c = cell()
            if c not in cells:
                cells.append(c)
            elif all(b == 0 for b in bounds) or len(cells) >= 1 and rng.random() < 0.05:
                break
        if len(cells) < 2:
            return [self.simple()]
        lines = []
        fill = []
        for i, c in enumerate(cells):
            fill.append(f"{c} = " + (f'"{chr(97 + i)}{rng.randint(0, 99)}"' if is_str else f"{(i + 1) * rng.choice([1, 2.5, -3, 10])}"))
        lines.append(" : ".join(fill))
        for _ in range(rng.randint(1, 4)):
            tgt = rng.choice(cells)
            others = [c for c in cells if c != tgt]
            k = rng.choice([1, 2, 2, 3])
            reads = [rng.choice(cells) for _ in range(k - 1)] + [rng.choice(others) if rng.random() < 0.8 else tgt]
            if is_str:
                parts = reads[:]
                if rng.random() < 0.4:
                    parts.insert(rng.randrange(len(parts)), str_literal(rng) if rng.random() < 0.5 else '"-"')
                rhs = " + ".join(parts)
                if len(parts) > 2 or rng.random() < 0.3:
                    rhs = f"MID$({rhs}, 1, 60)"
            else:
                rhs = reads[0]
                for rd in reads[1:]:
                    rhs += rng.choice([" + ", " - ", " * 0.5 + ", " / 4 + "]) + rd
                if rng.random() < 0.3:
                    rhs = rng.choice(["2 * ", "1 + ", "-"]) + "(" + rhs + ")"
            let = kw(rng, "LET") + " " if rng.random() < 0.15 else ""
            self.note("array-elem-assign")
            lines.append(f"{let}{tgt} = {rhs}")
        if not is_str and rng.random() < 0.3:                 # loop variable = array element, body reads a sibling element
            lv, sib = cells[0], cells[1]
            self.note("FOR-array-element")
            nxt = kw(rng, "NEXT") + (" " + lv if rng.random() < 0.6 else "")
            body = f"{kw(rng, 'PUNCH')} {sib}, {lv}" if rng.random() < 0.7 else f"{kw(rng, 'PUNCH')} {lv}, {sib}"
            lines.append(f"{kw(rng, 'FOR')} {lv} = {rng.choice(['1', '0', sib + ' * 0'])} {kw(rng, 'TO')} {rng.choice(['2', '3', '1.5'])} : {body} : {nxt}")
        lines.append(kw(rng, "PUNCH") + " " + ", ".join(cells))
        return lines

    def output(self):
        rng = self.rng
        r = rng.random()
        if r < 0.55:
            items = [self.num_expr(3) if rng.random() < 0.75 else self.str_expr(2) for _ in range(rng.choice([1, 1, 2, 3, 4]))]
            self.note("PUNCH")
            return kw(rng, "PUNCH") + " " + ", ".join(items)
        if r < 0.8:
            items = [self.num_expr(2) if rng.random() < 0.6 else self.str_expr(2) for _ in range(rng.choice([1, 2, 3]))]
            self.note("PRINT")
            return kw(rng, "PRINT") + " " + ", ".join(items) + ("," if rng.random() < 0.1 else "")
        self.note("SAVE")
        return kw(rng, "SAVE") + " " + self.num_expr(3)

    def simple(self):
        rng = self.rng
        r = rng.random()
        if r < 0.4:
            return self.assign()
        if r < 0.75:
            return self.output()
        if r < 0.83:
            self.note("PUT")
            if rng.random() < 0.7:
                return f"{kw(rng, 'PUT')}({self.num_expr(2)}, {self.small_int()}" + (f", {self.small_int()}" if rng.random() < 0.5 else "") + ")"
            return f"{kw(rng, 'PUT$')}({self.bounded_str(1)}, {self.small_int()})"
        if r < 0.88:
            return kw(rng, "REM") + " " + "".join(rng.choice(STR_ALPHABET + "\"'") for _ in range(rng.randint(0, 20)))
        if r < 0.96:
            self.note("IF-stmt")
            s = f"{kw(rng, 'IF')} {self.cond(2)} {kw(rng, 'THEN')} {self.simple_noif()}"
            if rng.random() < 0.6:
                s += f" {kw(rng, 'ELSE')} {self.simple_noif()}"
            return s
        self.note("IF-nested")
        return (f"{kw(rng, 'IF')} {self.cond(1)} {kw(rng, 'THEN')} {kw(rng, 'IF')} {self.cond(1)} {kw(rng, 'THEN')} "
                f"{self.simple_noif()} {kw(rng, 'ELSE')} {self.simple_noif()} {kw(rng, 'ELSE')} {self.simple_noif()}")

    def simple_noif(self):
        return self.assign() if self.rng.random() < 0.4 else self.output()


def gen_program(rng, size=20, rich=True, max_depth=3):
    """returns (lines, info): lines = list of 'N text' strings"""
    g = Gen(rng, rich)
    main, subs, data_lines = [], [], []
    lines = []            # (text) in order; numbering assigned at the end
    labels = {}           # symbolic label -> index in `body`
    body = []             # entries: str statement-line text, may contain @L<k>@ label references
    nlabel = [0]

    def new_label():
        nlabel[0] += 1
        return f"@L{nlabel[0]}@"

    # --- declarations
    if rng.random() < 0.7:
        decl = []
        for name, nd in NUM_ARRS + STR_ARRS:
            if rng.random() < 0.5:
                b = [rng.randint(0, 6) if nd > 1 else rng.randint(0, 20) for _ in range(nd)]
                g.dims[name] = b
                decl.append(name + "(" + ", ".join(str(x) if rng.random() < 0.8 else f"{x - 1} + 1" for x in b) + ")")
        if decl:
            g.note("DIM")
            body.append(kw(rng, "DIM") + " " + ", ".join(decl))
    # --- most programs start from non-zero variables (zero is the default and makes many results trivial)
    if rng.random() < 0.8:
        init = [f"{v} = {rng.choice(['', '-'])}{num_literal(rng)}" for v in NUM_VARS if rng.random() < 0.7]
        for k in range(0, len(init), 6):
            body.append(" : ".join(init[k:k + 6]))
        body.append(" : ".join(f"PUT({num_literal(rng)}, {a}" + (f", {b})" if b is not None else ")")
                               for a, b in [(rng.randint(0, 5), rng.choice([None, rng.randint(0, 5)])) for _ in range(4)]))
        body.append(" : ".join(f"{v} = {str_literal(rng)}" for v in STR_VARS if rng.random() < 0.6) or "REM no strings")
    # --- data pool
    n_data = rng.choice([0, 0, 3, 6, 12])
    data_items = []
    for _ in range(n_data):
        if rng.random() < 0.6:
            c = rng.random()
            data_items.append(("n", num_literal(rng) if c < 0.6 else f"{rng.randint(1, 9)} * {rng.randint(1, 9)} + 0.5" if c < 0.8
                               else f"{g.arr_ref('arr')} + {g.arr_ref('arr')} * 2"))      # evaluated when it is READ
        else:
            data_items.append(("s", str_literal(rng) if rng.random() < 0.8 else f"{g.arr_ref('w$')} + {g.arr_ref('w$')}"))
    data_pos = [0]
    per_chunk = rng.choice([1, 2, 3, 6])
    chunk_labels = [new_label() for _ in range(0, len(data_items), per_chunk)]
    n_subs = rng.choice([0, 0, 1, 2, 3, 5]) if size > 6 else 0
    sub_labels = [new_label() for _ in range(n_subs)]

    def block(n, depth, allowed_subs):
        """n statement lines"""
        out = []
        while n > 0:
            r = rng.random()
            if r < 0.5 or depth > max_depth:
                k = rng.choice([1, 1, 1, 2, 3])
                out.append(" : ".join(g.simple() for _ in range(k)) if rng.random() < 0.9
                           else ":".join(g.simple() for _ in range(k)))
                n -= 1
            elif r < 0.56 and n >= 3:                         # traffic between the elements of one array
                ab = g.array_block()
                out += ab
                n -= len(ab)
            elif r < 0.66:                                    # FOR loop
                v = next((x for x in LOOP_VARS if x not in g.loop_stack), None) if len(g.loop_stack) < 4 else None
                if v is None:
                    continue
                start = rng.choice(["1", "0", "-2", "3", "0.5", g.small_int(), f"{g.small_int()} - 1"])
                cnt = rng.randint(0, 5)
                stp = rng.choice([None, None, "1", "2", "0.5", "-1", "-0.25", "3", "1e-1"])
                sv = 1.0 if stp is None else float(stp)
                computed = rng.random() < 0.5
                try:
                    s0 = float(eval(start))
                except Exception:
                    s0 = 0.0
                endv = s0 + sv * cnt + (sv / 2 if rng.random() < 0.3 else 0)
                if rng.random() < 0.1:
                    endv = s0 - sv                               # zero-trip loop
                end = repr(endv)
                if computed:
                    end = f"{start} + {repr(endv - s0)}"
                    g.note("FOR-computed")
                head = f"{kw(rng, 'FOR')} {v} = {start} {kw(rng, 'TO')} {end}" + (f" {kw(rng, 'STEP')} {stp}" if stp else "")
                g.note("FOR")
                g.loop_stack.append(v)
                if rng.random() < 0.3 or n < 3:              # one-line loop
                    inner = " : ".join(g.simple_noif() for _ in range(rng.choice([1, 2])))
                    out.append(f"{head} : {inner} : {kw(rng, 'NEXT')}" + (f" {v}" if rng.random() < 0.7 else ""))
                    n -= 1
                else:
                    m = rng.randint(1, min(4, n - 2))
                    out.append(head)
                    out += block(m, depth + 1, allowed_subs)
                    out.append(kw(rng, "NEXT") + (f" {v}" if rng.random() < 0.7 else ""))
                    n -= m + 2
                g.loop_stack.pop()
            elif r < 0.75 and n >= 3:                         # WHILE loop with a private counter
                c = rng.choice(["wc1", "wc2", "wc3"]) + str(depth)
                lim = rng.randint(0, 4)
                g.note("WHILE")
                out.append(f"{c} = 0")
                m = rng.randint(1, min(3, n - 2))
                wform = rng.random()
                if wform < 0.8:
                    out.append(f"{kw(rng, 'WHILE')} {c} < {lim}")
                    out.append(f"{c} = {c} + 1 : " + g.simple_noif())
                    out += block(m - 1, depth + 1, allowed_subs) if m > 1 else []
                    out.append(kw(rng, "WEND"))
                else:                                         # bare WHILE … WEND <until-condition>
                    out.append(kw(rng, "WHILE"))
                    out.append(f"{c} = {c} + 1 : " + g.simple_noif())
                    out.append(f"{kw(rng, 'WEND')} {c} >= {lim}")
                n -= m + 3
            elif r < 0.83 and n >= 3:                         # IF … THEN line (forward jump)
                lab = new_label()
                g.note("IF-goto")
                m = rng.randint(1, min(3, n - 1))
                if rng.random() < 0.5:
                    out.append(f"{kw(rng, 'IF')} {g.cond(2)} {kw(rng, 'THEN')} {lab}")
                else:
                    lab2 = new_label()
                    out.append(f"{kw(rng, 'IF')} {g.cond(2)} {kw(rng, 'THEN')} {lab} {kw(rng, 'ELSE')} {lab2}")
                    out.append(lab2 + "=" + g.simple_noif())
                    n -= 1
                out += block(m, depth + 1, allowed_subs)
                out.append(lab + "=" + g.simple())
                n -= m + 2
            elif r < 0.88 and n >= 4:                         # ON … GOTO
                labs = [new_label() for _ in range(rng.randint(1, 3))]
                g.note("ON-GOTO")
                sel = rng.choice([str(rng.randint(0, len(labs) + 1)), g.num_expr(1) + " MOD 3"]) if rng.random() < 0.8 else "2.4"
                out.append(f"{kw(rng, 'ON')} {sel} {kw(rng, 'GOTO')} " + ", ".join(labs))
                out.append(g.simple())
                for lb in labs:
                    out.append(lb + "=" + g.simple_noif())
                n -= 2 + len(labs)
            elif r < 0.94 and allowed_subs:                   # GOSUB
                g.note("GOSUB")
                if rng.random() < 0.75:
                    out.append(f"{kw(rng, 'GOSUB')} {rng.choice(allowed_subs)}" + (" : " + g.simple_noif() if rng.random() < 0.4 else ""))
                else:
                    g.note("ON-GOSUB")
                    ls = [rng.choice(allowed_subs) for _ in range(rng.randint(1, 3))]
                    sel = rng.randint(1, len(ls)) if rng.random() < 0.85 else rng.choice([0, len(ls) + 1])
                    out.append(f"{kw(rng, 'ON')} {sel} {kw(rng, 'GOSUB')} " + ", ".join(ls))
                n -= 1
            elif r < 0.98 and depth == 0 and data_pos[0] < len(data_items):  # READ
                k = rng.randint(1, min(3, len(data_items) - data_pos[0]))
                targets = []
                for kind, _ in data_items[data_pos[0]:data_pos[0] + k]:
                    if kind == "n":
                        targets.append(rng.choice(g.num_vars) if rng.random() < 0.6 else g.arr_ref("arr"))
                    else:
                        targets.append(rng.choice(g.str_vars) if rng.random() < 0.6 else g.arr_ref("w$"))
                data_pos[0] += k
                g.note("READ")
                out.append(kw(rng, "READ") + " " + ", ".join(targets))
                if rng.random() < 0.12:
                    g.note("RESTORE")
                    out.append(kw(rng, "RESTORE"))
                    data_pos[0] = 0
                    n -= 1
                elif rng.random() < 0.12 and chunk_labels:
                    g.note("RESTORE-line")
                    c = rng.randrange(len(chunk_labels))
                    out.append(kw(rng, "RESTORE") + " " + chunk_labels[c])
                    data_pos[0] = c * per_chunk
                    n -= 1
                n -= 1
            else:
                out.append(g.simple())
                n -= 1
        return out

    # data reads must run in program order to stay within the pool: READs only in the main body (not in loops)
    saved_items = data_items
    body += block(max(1, size), 0, sub_labels)
    if rng.random() < 0.9:
        body.append(kw(rng, "SAVE") + " " + g.num_expr(2))
    body.append(kw(rng, "END"))
    # subroutines: sub k may call only subs with a larger index (acyclic → any nesting depth, always returns)
    for k, lab in enumerate(sub_labels):
        sub = block(rng.randint(1, 4), 1, sub_labels[k + 1:])
        sub[0] = lab + "=" + sub[0] if not sub[0].startswith("@L") else sub[0]
        if sub[0].startswith("@L") and not sub[0].startswith(lab):
            sub.insert(0, lab + "=" + kw(rng, "REM") + " sub")
        sub.append(kw(rng, "RETURN"))
        body += sub
    data_items = saved_items
    # DATA lines anywhere (they are skipped when executed)
    if data_items:
        per = per_chunk
        chunks = [data_items[i:i + per] for i in range(0, len(data_items), per)]
        positions = sorted(rng.randint(0, len(body)) for _ in chunks)
        for off, (pos, ch, lab) in enumerate(zip(positions, chunks, chunk_labels)):
            g.note("DATA")
            items = [t for _, t in ch]
            if len(items) > 1 and rng.random() < 0.25:          # two DATA statements on one line
                k = rng.randint(1, len(items) - 1)
                text = kw(rng, "DATA") + " " + ", ".join(items[:k]) + " : " + kw(rng, "DATA") + " " + ", ".join(items[k:])
            else:
                text = kw(rng, "DATA") + " " + ", ".join(items)
            if rng.random() < 0.15:
                text = kw(rng, "REM") + " data follows" if False else text
            body.insert(pos + off, lab + "=" + text)
    # loops containing READ are avoided above only by construction of `block` at depth 0; READs nested in loops may
    # run out of data → that is a legitimate "Out of Data" error on both sides.
    # --- numbering
    step = rng.choice([10, 10, 10, 5, 1, 100])
    num = rng.choice([10, 1, 100, 5])
    out_lines, labmap = [], {}
    texts = []
    for t in body:
        t = t.replace("@DATA@", "")
        lab = None
        if t.startswith("@L"):
            lab, t = t.split("=", 1)
        if lab:
            labmap[lab] = num
        texts.append((num, t))
        num += step
    final = []
    import re
    for n_, t in texts:
        t = re.sub(r"@L\d+@", lambda m: str(labmap.get(m.group(0), 99999)), t)
        sp = " " * rng.choice([1, 1, 1, 2, 0]) if not t[:1].isdigit() else " "
        final.append(f"{n_}{sp or ' '}{t}")
    return final, g.hist


def gen_jump_family(rng, k):
    """k small programs of ONE shape: same line numbers, same jump targets, same variable names, different constants and
    bodies. Run as USER_PUNCH 1..k of one simulation they must not see each other's lines, variables, loop stack or
    DATA pointer (the engine has a single interpreter that is pointed at one program after the other)."""
    shape = rng.choice(["if-goto", "gosub", "on-goto", "restore", "for-gosub", "while-goto"])
    step = rng.choice([10, 10, 5, 100])
    L = [step * (i + 1) for i in range(12)]
    progs = []
    for _ in range(k):
        c0, c1, n = rng.randint(-5, 50), rng.choice([1, 2, 0.5, -3, 10]), rng.randint(1, 5)
        extra = rng.choice(["q = s * 2", "arr(1) = s : s = arr(1)", 'w$ = STR$(i)', "q = q + 1", "REM"])
        if shape == "if-goto":
            t = [f"{L[0]} s = {c0} : i = 0", f"{L[1]} i = i + 1 : s = s + i * {c1}", f"{L[2]} {extra}",
                 f"{L[3]} IF i < {n} THEN GOTO {L[1]}", f"{L[4]} PUNCH s, i"]
        elif shape == "gosub":
            t = [f"{L[0]} s = {c0} : GOSUB {L[5]} : PUNCH s", f"{L[1]} GOSUB {L[5]} : PUNCH s, {n}", f"{L[2]} END",
                 f"{L[5]} s = s * {c1} + {n} : {extra}", f"{L[6]} RETURN"]
        elif shape == "on-goto":
            t = [f"{L[0]} s = {c0} : ON {rng.randint(1, 3)} GOTO {L[2]}, {L[3]}, {L[4]}", f"{L[1]} PUNCH -1",
                 f"{L[2]} s = s + {c1}", f"{L[3]} s = s * 2 : {extra}", f"{L[4]} PUNCH s, {n}"]
        elif shape == "restore":
            t = [f"{L[0]} RESTORE {L[3]} : READ s : PUNCH s", f"{L[1]} READ i : PUNCH i * {c1}", f"{L[2]} DATA {c0}",
                 f"{L[3]} DATA {n}, {c0 + 1}", f"{L[4]} RESTORE {L[2]} : READ q : PUNCH q"]
        elif shape == "for-gosub":
            t = [f"{L[0]} s = {c0}", f"{L[1]} FOR i = 1 TO {n} : GOSUB {L[6]} : NEXT i", f"{L[2]} PUNCH s, i : END",
                 f"{L[6]} s = s + i * {c1} : {extra} : RETURN"]
        else:
            t = [f"{L[0]} s = {c0} : i = 0", f"{L[1]} WHILE i < {n}", f"{L[2]} i = i + 1 : IF i = 2 THEN GOTO {L[4]}",
                 f"{L[3]} s = s + {c1}", f"{L[4]} WEND", f"{L[5]} PUNCH s, i"]
        progs.append("\n".join(t))
    return progs


# ---------------------------------------------------------------------- malformed mutants
MUTATIONS = ["drop-token", "dup-token", "swap-keyword", "unbalance-paren", "unbalance-quote", "drop-line", "bad-goto",
             "type-mix", "bad-subscript", "redim", "drop-lineno", "stray-char", "next-wo-for", "wend-wo-while",
             "return-wo-gosub", "out-of-data", "missing-then", "extra-junk", "trim-expr", "string-for", "stop"]


def tokens_of(text):
    import re
    return re.findall(r'"[^"]*"|\'[^\']*\'|[A-Za-z_][A-Za-z_0-9$]*|\d+\.?\d*(?:[eE][+-]?\d+)?|\.\d+|<=|>=|<>|\S', text)


def mutate(rng, lines):
    """one mutation; returns (new_lines, kind). The result is usually, not always, malformed."""
    lines = list(lines)
    kind = rng.choice(MUTATIONS)
    idx = rng.randrange(len(lines))
    num, _, text = lines[idx].partition(" ")
    toks = tokens_of(text)

    def put(t):
        lines[idx] = num + " " + t

    if kind == "drop-token" and len(toks) > 1:
        k = rng.randrange(len(toks))
        put(" ".join(toks[:k] + toks[k + 1:]))
    elif kind == "dup-token" and toks:
        k = rng.randrange(len(toks))
        put(" ".join(toks[:k] + [toks[k]] + toks[k:]))
    elif kind == "swap-keyword" and toks:
        put(" ".join(rng.choice(["THEN", "TO", "NEXT", "WEND", "ELSE", "STEP", ")", ",", "RETURN", "DATA", "DIM", "="])
                     if i == rng.randrange(len(toks)) else t for i, t in enumerate(toks)))
    elif kind == "unbalance-paren":
        put(text + rng.choice([" )", " (", " ]", "("]))
    elif kind == "unbalance-quote":
        put(text + rng.choice([' "abc', " 'x", '"']))
    elif kind == "drop-line" and len(lines) > 1:
        del lines[idx]
    elif kind == "bad-goto":
        lines.insert(idx, f"{num} GOTO 99998")
    elif kind == "type-mix":
        put(rng.choice(['PUNCH "a" + 1', 'x = "s"', 's$ = 3', 'PUNCH 2 * "b"', 'PUNCH -"c"', 'IF "a" THEN PUNCH 1', 'PUNCH 1 < "a"',
                        'PUNCH NOT "x"', 'PUNCH LEN(5)', 'PUNCH STR$("a")', 'PUNCH "a" AND 1', 'SAVE "s"', 'PUNCH CHR$("A")',
                        'PUNCH MID$(5, 1)', 'PUNCH 2 ^ "a"', 'PUNCH (-8) ^ 0.5', 'PUNCH INSTR(1, "a")']))
    elif kind == "bad-subscript":
        put(rng.choice(["PUNCH arr(-1)", "arr(9999) = 1", "PUNCH grid(1)", "PUNCH arr(1, 2)", "DIM zz(-2)", "DIM z5(1,1,1,1,1)",
                        "PUNCH q9(1,2,3,4,5)", "PUNCH arr", "arr = 3", "PUNCH a(1)"]))
    elif kind == "redim":
        put("DIM rr(3) : DIM rr(4)")
    elif kind == "drop-lineno":
        first = (tokens_of(text) or ["x"])[0].lower()
        if first in PHREEQC_WORDS or not first[0].isalpha():
            put(text + " :")                       # keep it a BASIC-level mutation
        else:
            lines[idx] = text
    elif kind == "stray-char":
        k = rng.randrange(len(text) + 1)
        put(text[:k] + rng.choice(["@", "!", "$", "&", "~", "..", "`", "|", "{", "%"]) + text[k:])
    elif kind == "next-wo-for":
        put("NEXT" + rng.choice(["", " i", " zz"]))
    elif kind == "wend-wo-while":
        put("WEND")
    elif kind == "return-wo-gosub":
        put("RETURN")
    elif kind == "out-of-data":
        put("READ a, b, c, d, e, x, y, z, a, b, c, d, e, x, y, z")
    elif kind == "missing-then":
        put(rng.choice(["IF 1 PUNCH 1", "IF THEN PUNCH 1", "FOR i = 1 3", "FOR = 1 TO 3", "FOR i 1 TO 3", "WHILE 0", "FOR i = 5 TO 1",
                        "ON 1 100", "ON GOTO 10", "GOSUB", "GOTO", "RESTORE 99997", "LET = 4", "DIM", "DIM a", "ERASE 5", "PUT(1)",
                        "PUT 1, 2", "PUNCH GET(1", "PUNCH MID$(\"a\")", "PUNCH PAD(\"a\")", "INPUT x"]))
    elif kind == "extra-junk":
        put(text + rng.choice([" 5", " x", " THEN", " )", " ,", " TO 3", ' "s"', " ELSE"]))
    elif kind == "trim-expr":
        put(rng.choice(['PUNCH TRIM("a" + "b")', 'PUNCH LTRIM(s$ + "x")', 'PUNCH INSTR("a" + "b", "b")', 'PUNCH TRIM "a"', 'PUNCH LEN "ab" + 1',
                        'PUNCH SQRT 4 + 5', 'PUNCH ABS(-2)(3)', 'PUNCH 1 +', 'PUNCH * 2', 'PUNCH (1, 2)', 'PUNCH 3 4', 'x = = 1', 'PUNCH 1 < > 2']))
    elif kind == "string-for":
        put(rng.choice(["FOR s$ = 1 TO 2", 'FOR i = "a" TO 2', "FOR i = 1 TO 2 STEP \"x\"", "NEXT s$"]))
    elif kind == "stop":
        put("STOP")
    else:
        put(text + " @")
        kind += "/fallback"
    return lines, kind
