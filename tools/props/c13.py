"""C13 — instance registry and C/C++/Fortran bindings behave as one consistent API.

Proof obligations: Properties/C13.lean — wrapper tables regenerated from IPhreeqcLib.cpp / IPhreeqc_interface_F.cpp /
IPhreeqc_interface.F90 are well-formed (decide), padfstring contract, registry theorems (ids increasing and never
reused for every history, dead ids change nothing, double destroy, isolation), settings-store theorems.
Tie: translator gen_api.py + random and exhaustive create/destroy/set/get sequences through the C API, the C++ object
and the …F functions side by side vs `pmodel api`; cell-by-cell agreement of the three bindings after real runs."""
import itertools
import struct

import gen_api
import vlib
from vlib import shrink_list

SWS = ["outfile", "outstr", "errfile", "errstr", "erron", "logfile", "logstr", "dumpfile", "dumpstr", "selfile", "selstr"]
NMS = ["out", "err", "log", "dump", "sel"]
FBUF = 48


def hexs(s):
    return s.encode().hex() if s else "-"


def gen_seq(rng, n):
    ops = []
    ncreated = 0
    for _ in range(n):
        ids = list(range(-1, ncreated + 2)) + [rng.choice([-5, 100, 2 ** 31 - 1])]
        i = rng.choice(ids) if rng.random() < 0.25 else (rng.randrange(ncreated) if ncreated else 0)
        r = rng.random()
        if r < 0.12 or ncreated == 0:
            ops.append(rng.choice(["create", "create", "createcpp", "createf"]))
            ncreated += 1
        elif r < 0.18:
            ops.append(f"{rng.choice(['destroy', 'destroy', 'destroycpp'])} {i}")
        elif r < 0.35:
            ops.append(f"setsw {rng.choice(SWS)} {i} {rng.choice([0, 1, 1, 2, -1])}")
        elif r < 0.55:
            ops.append(f"getsw {rng.choice(SWS)} {i}")
        elif r < 0.68:
            v = rng.choice(["NULL", "-", hexs("a.out"), hexs("my file.sel"), hexs("x" * 60), hexs("é.txt")])
            ops.append(f"setname {rng.choice(NMS)} {i} {v}")
        elif r < 0.85:
            ops.append(f"getname {rng.choice(NMS)} {i}")
        elif r < 0.93:
            ops.append(f"setcur {i} {rng.choice([0, 1, 2, 5, 77, -1, -100])}")
        else:
            ops.append(f"getcur {i}")
    return ops


def relations(line):
    """C / C++ / Fortran agreement on one output line of ph_api; returns error text or None"""
    parts = line.split(" | ")
    if len(parts) == 1:
        return None
    c = parts[0].split()
    cpp = parts[1].split()[1:]
    f = parts[2].split()[1:]
    if c[0] == "I":
        live = cpp[0] != "-77"
        if live and cpp[0] != c[1]:
            return f"C returned {c[1]}, C++ method {cpp[0]}"
        if f[0] != c[1]:
            return f"C returned {c[1]}, Fortran glue {f[0]}"
        if not live and c[1] != "-6":
            return f"dead id returned {c[1]} instead of IPQ_BADINSTANCE"
    elif c[0] == "S":
        cs = b"" if c[1] == "-" else bytes.fromhex(c[1])
        if cpp[0] != "dead" and cpp[0] != c[1]:
            return "C string differs from C++ string"
        buf, ln = f[0].split(":")
        fb = bytes.fromhex(buf)
        cap = len(fb)
        if int(ln) != len(cs):
            return f"Fortran reported length {ln}, string length {len(cs)}"
        exp = cs[:cap] + b" " * max(0, cap - len(cs))
        if fb != exp:
            return "Fortran buffer is not the blank-padded string"
    return None


def seq_case(ctx, exe, ops):
    text = "\n".join(ops) + "\n"
    r = ctx.run_harness(exe, text)
    if r.returncode != 0:
        return ("crash", r.returncode, r.stderr[-300:])
    impl = r.stdout.splitlines()
    model = ctx.pmodel("api", text)
    if len(impl) != len(model):
        return ("len", len(impl), len(model))
    for k, (a, b) in enumerate(zip(impl, model)):
        if a.split(" | ")[0] != b:
            return ("diff", k, a, b)
        rel = relations(a)
        if rel:
            return ("binding", k, a, rel)
    return None


RUN_INPUT = """SOLUTION 1
 pH 7
 Na 1
 Cl 1
SOLUTION 2
 pH 8
 Ca 2
 Cl 4
SELECTED_OUTPUT 1
 -totals Na Ca
 -molalities Na+ Cl-
USER_PUNCH 1
 -headings s i missing
 10 PUNCH "txt", SIM_NO
SELECTED_OUTPUT 3
 -reset false
 -pH
END
USE solution 1
REACTION 1
 NaCl 1
 0.1 0.2
END
"""


def unhexd(h):
    return struct.unpack(">d", bytes.fromhex(h))[0]


def cell_relations(line, row, col):
    parts = line.split(" | ")
    c = parts[0].split()[1:]
    cpp = parts[1].split()[1:]
    v2 = parts[2].split()[1:]
    f = parts[3].split()[1:]
    if cpp[0] != "-77" and c != cpp:
        return f"C {c} vs C++ {cpp}"
    rc, var = int(c[0]), c[1]
    # documented contract (C05): a failing accessor returns its error code and an error-typed VAR carrying it
    if rc != 0 and var != f"X{rc}":
        return f"result code {rc} but VAR is {var}, not the error-typed VAR"
    if rc == 0 and var[0] == "X":
        return f"result code 0 with an error-typed VAR {var}"
    if int(v2[0]) != rc or int(f[0]) != rc:
        return f"result codes differ: C {rc}, Value2 {v2[0]}, ValueF {f[0]}"
    for name, w in (("Value2", v2), ("ValueF", f)):
        vt, d = int(w[1]), unhexd(w[2])
        if var[0] == "E" and vt != 0:
            return f"{name}: empty cell reported type {vt}"
        if var[0] == "X" and vt != 1:
            return f"{name}: error cell reported type {vt}"
        if var[0] == "L" and (vt != 3 or d != float(int(var[1:]))):
            return f"{name}: long cell {var} reported type {vt} value {d}"
        if var[0] == "D" and (vt != 3 or w[2] != var[1:]):
            return f"{name}: double cell {var} reported {w[2]}"
        if var[0] == "S":
            if vt != 4:
                return f"{name}: string cell reported type {vt}"
            sval = b"" if var[1:] == "-" else bytes.fromhex(var[1:])
            if name == "Value2":
                got = b"" if w[3] == "-" else bytes.fromhex(w[3])
                if got != sval[:FBUF]:
                    return "Value2 string differs"
            else:
                buf, ln = w[3].split(":")
                if int(ln) != len(sval) or bytes.fromhex(buf) != sval[:FBUF] + b" " * max(0, FBUF - len(sval)):
                    return "ValueF string is not the blank-padded value / wrong length"
    return None


def run_cells(ctx, exe):
    """after a real run: every (row, col) incl. out-of-range through the C API, the C++ object, Value2 and ValueF"""
    db = hexs(str(vlib.REPO / "database" / "phreeqc.dat"))
    ops = ["create", "createcpp", f"load 1 {db}", "setsw outstr 1 1", "setcur 1 1", "setsw selstr 1 1", f"run 1 {hexs(RUN_INPUT)}"]
    checks = []
    for cur in (1, 3, 2, 0):
        ops.append(f"setcur 1 {cur}")
        checks.append(("skip",))
        ops.append("counts 1")
        checks.append(("counts", cur))
        for r in range(-1, 6):
            for c in range(-2, 13):
                ops.append(f"cell 1 {r} {c}")
                checks.append(("cell", r, c))
        for n in range(-1, 6):
            for k in ("sel", "out", "comp"):
                ops.append(f"line 1 {k} {n}")
                checks.append(("line", k, n))
    # ids that are not live (never issued, negative, destroyed): every binding must give the invalid-instance result, and
    # the Fortran glue must pass it on unchanged (no index shift / heading-row subtraction applied to an error code)
    ops.append("destroy 0")
    checks.append(("skip",))
    for dead in (0, 99, -1, -6):
        ops.append(f"counts {dead}")
        checks.append(("deadcounts", dead))
    r = ctx.run_harness(exe, "\n".join(ops) + "\n", timeout=120)
    if r.returncode != 0:
        return 0, ("crash", r.stderr[-300:]), ops
    out = r.stdout.splitlines()[7 - 0:]
    # first 7 ops each print one line
    out = r.stdout.splitlines()
    res = out[7:]
    n = 0
    for chk, ln in zip(checks, res):
        n += 1
        if chk[0] == "skip":
            continue
        if chk[0] == "cell":
            e = cell_relations(ln, chk[1], chk[2])
            if e:
                return n, ("cell", chk, ln, e), ops
        elif chk[0] == "line":
            e = relations(ln)
            if e:
                return n, ("line", chk, ln, e), ops
        elif chk[0] == "deadcounts":
            t = ln.split()
            vals = {t[i]: (int(t[i + 1]), int(t[i + 2]), int(t[i + 3])) for i in range(1, len(t), 4)}
            for k, (c, cpp, f) in vals.items():
                if f != c or (k in ("rows", "cols", "errlines", "comps", "selcount") and c != -6):
                    return n, ("deadcounts", chk, ln, f"{k}: id {chk[1]} is not live: C {c} F {f} (expected both IPQ_BADINSTANCE = -6 "
                                                      f"or, for string accessors, equal)"), ops
        else:
            t = ln.split()
            vals = {t[i]: (int(t[i + 1]), int(t[i + 2]), int(t[i + 3])) for i in range(1, len(t), 4)}
            for k, (c, cpp, f) in vals.items():
                expf = c - 1 if (k == "rows" and c > 0) else c
                if c != cpp or f != expf:
                    return n, ("counts", chk, ln, f"{k}: C {c} C++ {cpp} F {f} (expected F {expf})"), ops
    return n, None, ops


def run(ctx):
    info = gen_api.generate(ctx)
    ctx.cov["translator"] = info
    ok = ctx.prove(["PhreeqcVerif.Properties.C13", "PhreeqcVerif.Properties.C13Store"])
    ctx.build_lib()
    exe = ctx.build_harness("ph_api")
    nseq = ctx.n(300, 20000)
    if not ok:
        nseq = max(nseq, 5000)
    evals = 0
    distinct = set()
    hist = {}
    seqs = [gen_seq(ctx.rng, ctx.rng.randint(2, 40)) for _ in range(nseq)]
    if ctx.tier == "thorough" or not ok:
        # exhaustive: all sequences of length <= 4 over a 12-op alphabet
        alpha = ["create", "createcpp", "destroy 0", "destroy 1", "setsw outfile 0 1", "getsw outfile 0", "getsw outfile 1",
                 "setname out 1 " + hexs("q"), "getname out 1", "setcur 0 -1", "getcur 0", "getname sel 0"]
        for L in range(1, 5):
            for t in itertools.product(alpha, repeat=L):
                seqs.append(list(t))
        ctx.cov["exhaustive_alphabet"] = alpha
    for ops in seqs:
        evals += 1
        for o in ops:
            hist[o.split()[0]] = hist.get(o.split()[0], 0) + 1
        distinct.add(tuple(ops))
        res = seq_case(ctx, exe, ops)
        if evals <= 2:
            ctx.sample({"ops": ops[:10]})
        if res is not None:
            small = shrink_list(ops, lambda sub: seq_case(ctx, exe, sub) is not None)
            res = seq_case(ctx, exe, small)
            ctx.violation(f"C API / C++ / Fortran / model disagree: {res}", {"ops": small, "result": res})
            break
    ncell, bad, ops = run_cells(ctx, exe)
    if bad:
        ctx.violation(f"bindings disagree on a selected-output accessor: {bad}", {"cell_ops": ops[:8], "result": bad})
    ctx.cov["evaluations"] = evals + ncell
    ctx.cov["distinct_nontrivial"] = len(distinct)
    ctx.cov["accessor_relations_checked"] = ncell
    ctx.cov["op_histogram"] = hist
    ctx.cov["rule"] = ("seeded random sequences of create (C / C++ constructor / Fortran glue) / destroy / set / get over several "
                       "instances incl. never-issued, negative, destroyed and double-destroyed ids, NULL and empty names, negative "
                       "user numbers: every op through the C API, getters also through the C++ object and the …F functions; C "
                       "result compared with pmodel api; distinct = distinct op lists. Then after a real run every (row, col) in "
                       "-1..5 x -2..12 for four user numbers through GetSelectedOutputValue/C++/Value2/ValueF, counts and lines.")
    if not ok and not ctx.violations:
        ctx.violation("proof obligation of C13 no longer checks and no failing input was found",
                      {"broken": ctx.proof_broken}, found_input=False)


def replay(ctx, data):
    ctx.build_lib()
    exe = ctx.build_harness("ph_api")
    if "ops" in data:
        res = seq_case(ctx, exe, data["ops"])
        print("replay:", res)
        if res is not None:
            ctx.violation("replayed sequence still disagrees", data)
    else:
        run(ctx)


MANIFEST = dict(
    technique='Lean 4: decide over wrapper tables regenerated from the C/Fortran glue sources, registry and settings-store theorems; op-sequence correspondence through the three bindings',
    text='Theorems (Properties/C13.lean, C13Store.lean): all 73 C wrappers and 68 Fortran glue functions regenerated from the current source have the documented forwarding shape (method, argument order, bool conversion, result-code translation, invalid-instance result, 1-based shifts, padding, heading-row subtraction); bind(C) names/arity of the .F90 module match; padfstring contract; ids strictly increasing and never reused for every history; dead/negative/unissued ids change nothing; double destroy; per-instance isolation; set/get store laws and defaults. Tie: translator re-run every check + random (quick) and exhaustive length<=4 (thorough) call sequences through C API, C++ object and F functions vs pmodel api; cell-by-cell accessor agreement after a real run.',
    note='Trusted: gen_api.py regex extraction (fails closed on unrecognised functions; callback setters are outside the table), harness/ph_api.cpp. No Fortran compiler: the .F90 module is checked textually; the F functions are called from C++.',
)
