import PhreeqcVerif.Model.Speciation
import Mathlib.Tactic.Ring
import Mathlib.Tactic.Linarith
import Mathlib.Algebra.Order.Field.Rat
/-! Helper lemmas of `Properties/C01.lean`: linear algebra of token lists (`evalBody`, `coefOf`, `normalise` …) and of the
substitution `rewriteToMasters`, over `ratOps f` for an arbitrary (uninterpreted) `f : TransFns Rat`. -/
namespace PhreeqcVerif.Speciation
open PhreeqcVerif PhreeqcVerif.Thermo

section
variable (f : TransFns Rat)

theorem evalBody_nil (v : String → Rat) : letI := ratOps f; evalBody v [] = 0 := by
  simp only [evalBody, NumOps.lit, NumOps.ofRat, id]

theorem evalBody_cons (v : String → Rat) (n : String) (c : Rat) (t : List (String × Rat)) :
    letI := ratOps f; evalBody v ((n, c) :: t) = c * v n + evalBody v t := by
  simp only [evalBody]

theorem evalBody_append (v : String → Rat) (a b : List (String × Rat)) :
    letI := ratOps f; evalBody v (a ++ b) = evalBody v a + evalBody v b := by
  induction a with
  | nil => simp only [List.nil_append, evalBody, NumOps.lit, NumOps.ofRat, id]; grind
  | cons p t ih => obtain ⟨n, c⟩ := p; simp only [List.cons_append, evalBody, ih]; grind

theorem evalBody_scaleBody (v : String → Rat) (c : Rat) (b : List (String × Rat)) :
    letI := ratOps f; evalBody v (scaleBody c b) = c * evalBody v b := by
  induction b with
  | nil => simp only [scaleBody, List.map_nil, evalBody, NumOps.lit, NumOps.ofRat, id]; grind
  | cons p t ih =>
    obtain ⟨n, x⟩ := p
    simp only [scaleBody, List.map_cons, evalBody] at ih ⊢
    rw [ih]; grind

theorem evalBody_removeName (v : String → Rat) (n : String) (b : List (String × Rat)) :
    letI := ratOps f; evalBody v (removeName n b) + coefOf n b * v n = evalBody v b := by
  induction b with
  | nil => simp only [removeName, List.filter_nil, evalBody, coefOf, NumOps.lit, NumOps.ofRat, id]; grind
  | cons p t ih =>
    obtain ⟨m, x⟩ := p
    simp only [removeName] at ih
    by_cases h : m = n
    · subst h
      simp only [removeName, List.filter_cons, coefOf, beq_self_eq_true, Bool.not_true, Bool.false_eq_true,
        if_false, if_true, evalBody]
      grind
    · have h' : (m == n) = false := by simpa using h
      simp only [removeName, List.filter_cons, coefOf, h', Bool.not_false, if_true, Bool.false_eq_true, if_false,
        evalBody]
      grind

theorem evalBody_addTerm (v : String → Rat) (n : String) (c : Rat) (b : List (String × Rat)) :
    letI := ratOps f; evalBody v (addTerm n c b) = evalBody v b + c * v n := by
  induction b with
  | nil => simp only [addTerm, evalBody, NumOps.lit, NumOps.ofRat, id]; grind
  | cons p t ih =>
    obtain ⟨m, x⟩ := p
    by_cases h : m = n
    · subst h
      simp only [addTerm, beq_self_eq_true, if_true, evalBody]
      grind
    · have h' : (m == n) = false := by simpa using h
      simp only [addTerm, h', Bool.false_eq_true, if_false, evalBody, ih]
      grind

theorem evalBody_mergeInto (v : String → Rat) (acc b : List (String × Rat)) :
    letI := ratOps f; evalBody v (mergeInto acc b) = evalBody v acc + evalBody v b := by
  induction b generalizing acc with
  | nil => simp only [mergeInto, evalBody, NumOps.lit, NumOps.ofRat, id]; grind
  | cons p t ih =>
    obtain ⟨m, x⟩ := p
    simp only [mergeInto, ih, evalBody_addTerm, evalBody]
    grind

theorem evalBody_filterDrop (v : String → Rat) (drop : Rat → Bool) (hdrop : ∀ c, drop c = true → c = 0)
    (b : List (String × Rat)) :
    letI := ratOps f; evalBody v (b.filter fun p => !(drop p.2)) = evalBody v b := by
  induction b with
  | nil => simp only [List.filter_nil]
  | cons p t ih =>
    obtain ⟨m, x⟩ := p
    cases h : drop x with
    | true =>
      have := hdrop x h
      subst this
      simp only [List.filter_cons, h, Bool.not_true, Bool.false_eq_true, if_false, evalBody, ih]
      grind
    | false =>
      simp only [List.filter_cons, h, Bool.not_false, if_true, evalBody, ih]

theorem evalBody_normalise (v : String → Rat) (drop : Rat → Bool) (hdrop : ∀ c, drop c = true → c = 0)
    (b : List (String × Rat)) :
    letI := ratOps f; evalBody v (normalise drop b) = evalBody v b := by
  simp only [normalise, evalBody_filterDrop f v drop hdrop, evalBody_mergeInto, evalBody, NumOps.lit, NumOps.ofRat, id]
  grind

theorem substOne_head (n : String) (d e : Eqn Rat) : letI := ratOps f; (substOne n d e).head = e.head := rfl

theorem residual_substOne (la : String → Rat) (K : LogK Rat → Rat)
    (hK : letI := ratOps f; ∀ (p q : LogK Rat) (c : Rat), K (p.addScaled c q) = K p + c * K q)
    (n : String) (d e : Eqn Rat) (hd : d.head = n) :
    letI := ratOps f
    residual la K (substOne n d e) = residual la K e + coefOf n e.body * residual la K d := by
  have h1 := evalBody_removeName f la n e.body
  simp only [residual, substOne, hK, evalBody_append, evalBody_scaleBody, hd] at h1 ⊢
  grind

theorem residual_pivot (la : String → Rat) (K : LogK Rat → Rat)
    (hK : letI := ratOps f; ∀ (p q : LogK Rat) (c : Rat), K (p.addScaled c q) = K p + c * K q)
    (p : String) (pm pm0 : Eqn Rat) :
    letI := ratOps f
    (pivot p pm pm0).head = pm.head ∧
    residual la K (pivot p pm pm0)
      = residual la K pm - (coefOf p pm.body / coefOf p pm0.body) * residual la K pm0 := by
  refine ⟨rfl, ?_⟩
  simp only [residual, pivot, hK, evalBody_append, evalBody_scaleBody, evalBody, NumOps.lit, NumOps.ofRat, id]
  grind

theorem firstOut_none (inUse : String → Bool) (b : List (String × Rat)) :
    firstOut inUse b = none → ∀ p ∈ b, inUse p.1 = true := by
  induction b with
  | nil => intro _ p hp; cases hp
  | cons q t ih =>
    obtain ⟨m, x⟩ := q
    intro h p hp
    simp only [firstOut] at h
    cases hm : inUse m with
    | true =>
      simp only [hm, if_true] at h
      rcases List.mem_cons.mp hp with rfl | hp
      · exact hm
      · exact ih h p hp
    | false => simp [hm] at h

theorem rewrite_firstOut (drop : Rat → Bool) (inUse : String → Bool) (defs : String → Option (Eqn Rat))
    (fuel : Nat) (e e' : Eqn Rat) :
    letI := ratOps f
    rewriteToMasters drop inUse defs fuel e = some e' → firstOut inUse e'.body = none := by
  induction fuel generalizing e with
  | zero =>
    intro h
    unfold rewriteToMasters at h
    split at h
    · cases h; assumption
    · cases h
  | succ n ih =>
    intro h
    unfold rewriteToMasters at h
    cases hfo : firstOut inUse e.body with
    | none => simp only [hfo] at h; cases h; exact hfo
    | some nm =>
      simp only [hfo] at h
      cases hd : defs nm with
      | none => simp only [hd] at h; cases h
      | some d => simp only [hd] at h; exact ih _ h

theorem rewrite_residual (drop : Rat → Bool) (inUse : String → Bool) (defs : String → Option (Eqn Rat))
    (la : String → Rat) (K : LogK Rat → Rat)
    (hK : letI := ratOps f; ∀ (p q : LogK Rat) (c : Rat), K (p.addScaled c q) = K p + c * K q)
    (hdrop : ∀ c, drop c = true → c = 0)
    (hdefs : letI := ratOps f; ∀ n d, defs n = some d → d.head = n ∧ residual la K d = 0)
    (fuel : Nat) (e e' : Eqn Rat) :
    letI := ratOps f
    rewriteToMasters drop inUse defs fuel e = some e' →
      e'.head = e.head ∧ residual la K e' = residual la K e := by
  induction fuel generalizing e with
  | zero =>
    intro h
    unfold rewriteToMasters at h
    split at h
    · cases h; exact ⟨rfl, rfl⟩
    · cases h
  | succ n ih =>
    intro h
    unfold rewriteToMasters at h
    cases hfo : firstOut inUse e.body with
    | none => simp only [hfo] at h; cases h; exact ⟨rfl, rfl⟩
    | some nm =>
      simp only [hfo] at h
      cases hd : defs nm with
      | none => simp only [hd] at h; cases h
      | some d =>
        simp only [hd] at h
        obtain ⟨h1, h2⟩ := ih _ h
        obtain ⟨hh, hr⟩ := hdefs nm d hd
        refine ⟨h1, ?_⟩
        rw [h2]
        have h3 := residual_substOne f la K hK nm d e hh
        simp only [residual, evalBody_normalise f la drop hdrop] at h3 hr ⊢
        rw [h3, hr]; grind

end
end PhreeqcVerif.Speciation
