import PhreeqcVerif.Lemmas.BasicParse
import PhreeqcVerif.Model.BasicExec
import PhreeqcVerif.Lemmas.BasicFor
/-! C17 — BASIC programs compute standard arithmetic, string and control-flow semantics.

Theorems about the reference evaluator `Model/Basic*.lean` (the executable model of `PBasic.cpp` that
`pmodel basic` runs against the real engine), for ALL expressions / programs / states, and facts over the token
tables regenerated from the source on every run (`Gen/BasicTokens.lean`). -/
namespace PhreeqcVerif.C17
open PhreeqcVerif.Basic PhreeqcVerif.Gen

/-! ## generated token tables -/

/-- the documented keywords denote the documented tokens in the table extracted from `PBasic.cpp` -/
theorem keywords_documented :
    (["and", "or", "xor", "not", "mod", "if", "then", "else", "for", "to", "step", "next", "while", "wend", "goto",
      "gosub", "return", "on", "data", "read", "restore", "dim", "put", "get", "punch", "save", "print", "end", "rem",
      "let", "stop", "erase", "put$", "get$"].map lookupKw)
    = (["tokand", "tokor", "tokxor", "toknot", "tokmod", "tokif", "tokthen", "tokelse", "tokfor", "tokto", "tokstep",
        "toknext", "tokwhile", "tokwend", "tokgoto", "tokgosub", "tokreturn", "tokon", "tokdata", "tokread", "tokrestore",
        "tokdim", "tokput", "tokget", "tokpunch", "toksave", "tokprint", "tokend", "tokrem",
        "toklet", "tokstop", "tokerase", "tokput_", "tokget_"].map some) := by
  decide

/-- documented numeric and string functions -/
theorem functions_documented :
    (["abs", "sqr", "sqrt", "exp", "log", "log10", "sin", "cos", "tan", "arctan", "sgn", "floor", "ceil",
      "chr$", "str$", "mid$", "len", "asc", "val", "instr", "ltrim", "rtrim", "trim", "pad", "pad$", "eol$"].map lookupKw)
    = (["tokabs", "toksqr", "toksqrt", "tokexp", "toklog", "toklog10", "toksin", "tokcos", "toktan", "tokarctan", "toksgn",
        "tokfloor", "tokceil", "tokchr_", "tokstr_", "tokmid_", "toklen", "tokasc", "tokval", "tokinstr", "tokltrim",
        "tokrtrim", "toktrim", "tokpad", "tokpad_", "tokeol_"].map some) := by
  decide

def enumIndex (t : String) : Option Nat :=
  let i := BasicTokens.tokEnum.findIdx (· == t)
  if i < BasicTokens.tokEnum.length then some i else none

/-- `relexpr` tests `(1L << (tokne + 1)) - (1L << tokeq)`: the enumerators from `tokeq` to `tokne` are exactly the
six relational operators (and all below 32, so the `long` mask can hold them) -/
theorem rel_mask_is_the_six_relations :
    BasicTokens.relRange = ("tokeq", "tokne") ∧
    (BasicTokens.tokEnum.drop 14).take 6 = ["tokeq", "toklt", "tokgt", "tokle", "tokge", "tokne"] ∧
    enumIndex "tokeq" = some 14 ∧ enumIndex "tokne" = some 19 := by
  decide +kernel

/-- the operator masks of `term`, `sexpr`, `expr` name exactly the operators of their level, every masked
enumerator is below 32 (the code tests `kind < 32` before shifting), and AND/OR/XOR/MOD/NOT precede 32 too -/
theorem loop_masks :
    BasicTokens.mask_term = ["toktimes", "tokdiv", "tokmod"] ∧
    BasicTokens.mask_sexpr = ["tokplus", "tokminus"] ∧
    BasicTokens.mask_expr = ["tokor", "tokxor"] ∧
    (["toktimes", "tokdiv", "tokmod", "tokplus", "tokminus", "tokor", "tokxor", "tokand", "toksemi", "tokcomma"].all
      fun t => match enumIndex t with
        | some i => i < 32
        | none => false) = true := by
  decide +kernel

/-! ## expressions: precedence and associativity -/

/-- **Round trip.** For every well-formed derivation `d` of the documented expression grammar
(`Model/BasicGrammar.lean`: seven levels, all fifteen binary operators, prefix operators and functions,
subscripted variables, `GET`/`GET$` argument lists, the parenthesised-argument string functions incl. `MID$`,
`PAD`, `STR_F$`, `STR_E$`; redundant parentheses allowed) the parser of the model — `expr` down to `factor`, the
code's seven functions — returns exactly the tree `d` denotes (`Deriv.den`: a chain at one level is the *left* fold
of its operators, `^` nests to the *right*, prefix operators bind tighter than any binary operator), consuming
exactly the tokens of `d`, whenever what follows cannot continue an expression. `Deriv` has a constructor for every
constructor of `Expr`, so this covers every expression form of the model. `∃ N` is the nesting budget (fuel) of the
parser; the drivers run it with `parseFuel`. -/
theorem parse_print_roundtrip {α : Type} (d : Deriv α) (hw : d.WF) (rest : List (Tok α))
    (hf : FollowOk 0 rest) :
    ∃ N, ∀ n, n ≥ N → pExpr n (d.flat ++ rest) = .ok (d.den, rest) := by
  obtain ⟨N, h⟩ := roundtrip_deriv d hw rest 0 (Nat.zero_le _) hf
  exact ⟨N + 1, pExpr_of_pLvl0 h⟩

/-- the same at every grammar level (e.g. level 5: what `upexpr` returns) -/
theorem parse_level_roundtrip {α : Type} (d : Deriv α) (hw : d.WF) (rest : List (Tok α)) (l : Nat)
    (hl : l ≤ d.level) (hf : FollowOk l rest) :
    ∃ N, ∀ n, n ≥ N → pLvl n l (d.flat ++ rest) = .ok (d.den, rest) :=
  roundtrip_deriv d hw rest l hl hf

/-- argument lists (subscripts, GET): `(, expr)* )` is read left to right into the argument list, whatever follows -/
theorem parse_args_roundtrip {α : Type} (a : DArgs α) (hw : a.WF) (rest : List (Tok α)) :
    ∃ N, ∀ n, n ≥ N → pArgsTail n (a.flat ++ rest) = .ok (a.den, rest) :=
  roundtrip_args a hw rest

/-- non-vacuity with subscripts and GET: `a(1, i + 1) * GET(2) ^ 2` -/
example :
    parseExpr (α := Nat)
      [.var "a", .k .lp, .num 1, .k .comma, .var "i", .k .plus, .num 1, .k .rp, .k .times,
       .k .get, .k .lp, .num 2, .k .rp, .k .up, .num 2]
    = .ok (.bin .times (.var "a" (.cons (.num 1) (.cons (.bin .plus (.var "i" .nil) (.num 1)) .nil)))
            (.bin .up (.get (.cons (.num 2) .nil)) (.num 2)), []) := by
  rfl

/-- non-vacuity: `- 2 ^ 2 ^ 3 * 4 - 5 - 6 < 7 AND 1 OR 0`: unary minus inside `^`, `^` to the right,
`-` to the left, relation above AND above OR — parsed with the fuel the drivers use -/
example :
    parseExpr (α := Nat)
      [.k .minus, .num 2, .k .up, .num 2, .k .up, .num 3, .k .times, .num 4, .k .minus, .num 5, .k .minus, .num 6,
       .k .lt, .num 7, .k .and_, .num 1, .k .or_, .num 0]
    = .ok (.bin .or_
            (.bin .and_
              (.bin .lt
                (.bin .minus
                  (.bin .minus
                    (.bin .times (.bin .up (.un .neg (.num 2)) (.bin .up (.num 2) (.num 3))) (.num 4))
                    (.num 5))
                  (.num 6))
                (.num 7))
              (.num 1))
            (.num 0), []) := by
  rfl

/-- the same string as a derivation: it is well formed and denotes that tree -/
example :
    let d : Deriv Nat :=
      .chain 0 (.chain 1 (.chain 2 (.chain 3 (.chain 4 (.up (.un .neg (.num 2)) (.up (.num 2) (.num 3)))
        (.cons .times (.num 4) .nil)) (.cons .minus (.num 5) (.cons .minus (.num 6) .nil)))
        (.cons .lt (.num 7) .nil)) (.cons .and_ (.num 1) .nil)) (.cons .or_ (.num 0) .nil)
    d.WF ∧ d.flat.length = 18 := by
  simp [Deriv.WF, DTail.WF, Deriv.level, binLevel, Deriv.flat, DTail.flat]

/-- **Compositionality.** The value of a binary expression is `applyBin` of the values of its operands, evaluated
left to right with the state threaded through (no short circuit, no dependence on context) -/
theorem eval_compositional {α : Type} [BNum α] (hook : Hook α) (op : BinOp) (a b : Expr α) (s : St α) :
    eval hook (.bin op a b) s =
      (match eval hook a s with
       | .error e => .error e
       | .ok (va, s1) =>
         match eval hook b s1 with
         | .error e => .error e
         | .ok (vb, s2) => applyBin op va vb s2) := by
  rw [eval]; rfl

theorem eval_compositional_un {α : Type} [BNum α] (hook : Hook α) (f : UnFn) (a : Expr α) (s : St α) :
    eval hook (.un f a) s =
      (match eval hook a s with
       | .error e => .error e
       | .ok (v, s1) => applyUn hook f v s1) := by
  rw [eval]; rfl

/-! ## execution: values or a typed error, never stuck -/

/-- a run that ends (values or error) within `n` steps ends the same way with any larger budget -/
theorem run_fuel_mono {α : Type} [BNum α] (hook : Hook α) :
    ∀ (n : Nat) (c : Cfg α), (∀ s, runLoop hook n c ≠ .fuel s) → ∀ k, runLoop hook (n + k) c = runLoop hook n c := by
  intro n
  induction n with
  | zero => intro c h; exact absurd rfl (h c.st)
  | succ n ih =>
    intro c h k
    have e : n + 1 + k = (n + k) + 1 := by omega
    rw [e]
    simp only [runLoop] at h ⊢
    cases hs : step hook c with
    | cont c' =>
      simp only [hs] at h ⊢
      exact ih c' h k
    | done s => rfl
    | err e s => rfl

/-- **Totality.** For every program text, host precision flag and budget the reference evaluation *is* one of:
finished with the state holding the PUNCH/PRINT/SAVE values, a typed BASIC error, or budget exhausted; and the
answer does not depend on the budget once the run ends (no other way to be stuck exists) -/
theorem exec_total {α : Type} [BNum α] (hook : Hook α) (c : Cfg α) (n m : Nat)
    (hn : ∀ s, runLoop hook n c ≠ .fuel s) (hm : ∀ s, runLoop hook m c ≠ .fuel s) :
    runLoop hook n c = runLoop hook m c ∧
    ((∃ s, runLoop hook n c = .done s) ∨ (∃ e s, runLoop hook n c = .err e s)) := by
  constructor
  · rcases Nat.le_total n m with h | h
    · obtain ⟨k, rfl⟩ := Nat.exists_eq_add_of_le h
      exact (run_fuel_mono hook n c hn k).symm
    · obtain ⟨k, rfl⟩ := Nat.exists_eq_add_of_le h
      exact run_fuel_mono hook m c hm k
  · cases h : runLoop hook n c with
    | done s => exact Or.inl ⟨s, rfl⟩
    | err e s => exact Or.inr ⟨e, s, rfl⟩
    | fuel s => exact absurd h (hn s)

/-! ## hosts -/

/-- **Hosts agree.** Every host observes a projection of one and the same run: RATES and CALCULATE_VALUES deliver
the same; a BASIC error of the run is an error under every host; when USER_PUNCH delivers its cells USER_PRINT
delivers its text, and RATES delivers the last SAVE value exactly when there is one (and it is a number) -/
theorem hosts_agree {α : Type} [BNum α] (o : Outcome α) :
    hostOut .rates o = hostOut .calculateValues o ∧
    (∀ e s, o = .err e s → ∀ h, hostOut h o = .basicError) ∧
    (∀ cells, hostOut .userPunch o = .punched cells →
      ∃ s, o = .done s ∧ cells = s.punch.toList ∧
        (∃ text, hostOut .userPrint o = .printed text) ∧
        (∀ x, hostOut .rates o = .saved x ↔ (s.save = some x ∧ BNum.isNaN x = false))) := by
  refine ⟨?_, ?_, ?_⟩
  · cases o <;> rfl
  · intro e s h hst; subst h; cases hst <;> rfl
  · intro cells h
    cases o with
    | fuel s => simp [hostOut] at h
    | err e s => simp [hostOut] at h
    | done s =>
      simp only [hostOut, HostOut.punched.injEq] at h
      refine ⟨s, rfl, h.symm, ⟨_, rfl⟩, ?_⟩
      intro x
      simp only [hostOut]
      cases hsv : s.save with
      | none => simp
      | some y =>
        cases hy : BNum.isNaN y with
        | true =>
          simp only [hy, if_true]
          constructor
          · intro h'; cases h'
          · intro h'
            have : y = x := Option.some.inj h'.1
            subst this
            rw [hy] at h'
            exact absurd h'.2 (by simp)
        | false =>
          simp only [hy]
          constructor
          · intro h'
            have : y = x := by simpa using h'
            subst this
            exact ⟨rfl, hy⟩
          · intro h'
            have : y = x := Option.some.inj h'.1
            subst this
            simp

/-! ## GOSUB / RETURN -/

theorem popTo_gosub {α : Type} (inner outer : List (Loop α)) (g : Loop α) (hg : g.kind = .gosub)
    (hin : ∀ l ∈ inner, l.kind ≠ .gosub) :
    popTo (fun l => l.kind == .gosub) (fun _ => false) (inner ++ g :: outer) = some (g, outer) := by
  induction inner with
  | nil => simp [popTo, hg]
  | cons l ls ih =>
    have hl : l.kind ≠ .gosub := hin l (List.mem_cons_self ..)
    have : (l.kind == LoopKind.gosub) = false := by simpa using hl
    simp only [List.cons_append, popTo, this]
    exact ih (fun x hx => hin x (List.mem_cons_of_mem _ hx))

/-- **GOSUB/RETURN stack, any nesting depth.** GOSUB records the place behind itself on top of the stack and jumps;
RETURN — whatever FOR/WHILE frames the subroutine left open (`inner`, any number) and however many callers are
waiting below (`outer`, any depth) — resumes right behind the *innermost pending* GOSUB (its line, the tokens after
its line number up to the end of that statement), discards exactly the frames above it and leaves the callers'
frames untouched -/
theorem gosub_return_stack {α : Type} [BNum α] (hook : Hook α) (s : St α) (line : Option Nat)
    (t : List (Tok α)) (inner outer : List (Loop α)) (g : Loop α) (hg : g.kind = .gosub)
    (hin : ∀ l ∈ inner, l.kind ≠ .gosub) (hs : s.loops = inner ++ g :: outer) :
    execStmt hook s line (.k .return_) t
      = .ok { st := { s with loops := outer }, line := g.homeline, t := skipToEos g.hometok } ∧
    (∀ (s' : St α) (line' : Option Nat) (t' : List (Tok α)),
      execStmt hook s' line' (.k .gosub) t'
        = cmdGoto hook { s' with loops := { kind := .gosub, homeline := line', hometok := t',
                                            max := BNum.zero, step := BNum.zero } :: s'.loops } t') := by
  constructor
  · simp only [execStmt, hs, popTo_gosub inner outer g hg hin]
  · intro s' line' t'; rfl

/-- RETURN with no pending GOSUB is the BASIC error "RETURN without GOSUB" (never a jump) -/
theorem return_without_gosub {α : Type} [BNum α] (hook : Hook α) (s : St α) (line : Option Nat)
    (t : List (Tok α)) (h : ∀ l ∈ s.loops, l.kind ≠ .gosub) :
    execStmt hook s line (.k .return_) t = .error .returnWoGosub := by
  have : popTo (fun l : Loop α => l.kind == .gosub) (fun _ => false) s.loops = none := by
    generalize s.loops = ls at h
    induction ls with
    | nil => rfl
    | cons l ls ih =>
      have hl : (l.kind == LoopKind.gosub) = false := by simpa using h l (List.mem_cons_self ..)
      simp only [popTo, hl]
      exact ih (fun x hx => h x (List.mem_cons_of_mem _ hx))
  simp only [execStmt, this]

/-! ## DATA / READ -/

/-- the forward scan stops at the *first* token (in program order) where the predicate holds -/
theorem scanToks_first {α σ : Type} (f : σ → Tok α → List (Tok α) → σ × Bool) :
    ∀ (ts : List (Tok α)) (st : σ) (r : List (Tok α)), scanToks f st ts = .inr r →
      ∃ pre tk st', ts = pre ++ tk :: r ∧ (f st' tk r).2 = true ∧
        (∀ pre1 tk1 suf, pre = pre1 ++ tk1 :: suf → ∃ st1, (f st1 tk1 (suf ++ tk :: r)).2 = false) := by
  intro ts
  induction ts with
  | nil => intro st r h; simp [scanToks] at h
  | cons t ts ih =>
    intro st r h
    simp only [scanToks] at h
    by_cases hstop : (f st t ts).2 = true
    · simp only [hstop, if_true] at h
      have : ts = r := by simpa using h
      subst this
      exact ⟨[], t, st, rfl, hstop, by intro pre1 tk1 suf h; simp at h⟩
    · have hstop' : (f st t ts).2 = false := by simpa using hstop
      simp only [hstop'] at h
      obtain ⟨pre, tk, st', hts, hf, hno⟩ := ih (f st t ts).1 r (by simpa using h)
      refine ⟨t :: pre, tk, st', by simp [hts], hf, ?_⟩
      intro pre1 tk1 suf hp
      cases pre1 with
      | nil =>
        simp only [List.nil_append, List.cons.injEq] at hp
        obtain ⟨h1, h2⟩ := hp
        subst h1; subst h2
        exact ⟨st, by rw [← hts]; exact hstop'⟩
      | cons p ps =>
        simp only [List.cons_append, List.cons.injEq] at hp
        exact hno ps tk1 suf hp.2

/-- **READ takes the DATA items in program order.** The position of the next item (`dataPos`, what `cmdread` uses):
directly behind a comma that follows the item read last (the next item of the same DATA statement, left to right);
otherwise the first `DATA` token followed by an item, searching forward from the current position through the
rest of that line and then the following lines in line-number order; none left is the error "Out of Data" -/
theorem read_data_order {α : Type} [BNum α] (s : St α) (i : Nat) (hdl : s.dataline = some i) :
    (headIs s.datatok .comma = true → dataPos s = .ok (some i, s.datatok.drop 1)) ∧
    (headIs s.datatok .comma = false →
      (∀ p, dataPos s = .ok p ↔ scanStream dataStep () (streamFrom s (some i) s.datatok) = some p) ∧
      (scanStream dataStep () (streamFrom s (some i) s.datatok) = none → dataPos s = .error .outOfData)) ∧
    (∀ r, scanToks dataStep () s.datatok = .inr r →
      ∃ pre tk, s.datatok = pre ++ tk :: r ∧ tk.isK .data = true ∧ isEos r = false ∧
        dataPos s = (if headIs s.datatok .comma then .ok (some i, s.datatok.drop 1) else .ok (some i, r))) := by
  refine ⟨?_, ?_, ?_⟩
  · intro h; simp [dataPos, hdl, h]
  · intro h
    constructor
    · intro p
      simp only [dataPos, hdl, h]
      cases scanStream dataStep () (streamFrom s (some i) s.datatok) with
      | none => simp
      | some q => simp
    · intro hn; simp [dataPos, hdl, h, hn]
  · intro r hr
    obtain ⟨pre, tk, st', hts, hf, _⟩ := scanToks_first dataStep s.datatok () r hr
    have hd : tk.isK .data = true ∧ isEos r = false := by
      simpa [dataStep] using hf
    refine ⟨pre, tk, hts, hd.1, hd.2, ?_⟩
    by_cases hc : headIs s.datatok .comma = true
    · simp [dataPos, hdl, hc]
    · have hc' : headIs s.datatok .comma = false := by simpa using hc
      simp [dataPos, hdl, hc', streamFrom, scanStream, hr]

/-! ## FOR / NEXT in exact arithmetic -/

section ForLoop
variable (F : RatFns)

/-- **FOR iterations, positive step.** In exact arithmetic (`ratNum F`: `Rat` with arbitrary uninterpreted libm
functions) a loop `FOR v = a TO b STEP s` with `s > 0` whose body leaves `v` alone runs exactly `n` times, where
`n` is the unique number with `a + (n-1)·s ≤ b < a + n·s` (i.e. `n = ⌊(b − a)/s⌋ + 1`), or not at all when
`a > b`; the body sees `a, a+s, …, a+(n−1)s` and the variable is left at `a + n·s`, the first value past the
limit (`a` itself when the loop is skipped). `forLoop` iterates `forSkips` / `nextContinues`, the two decision
functions `execStmt` itself calls for FOR and NEXT (`next_uses_nextContinues`). -/
theorem for_iterations (a b s : Rat) (hs : 0 < s) :
    (b < a → ∀ fuel, @forLoop Rat (ratNum F) a b s fuel = ([], a)) ∧
    (∀ n : Nat, 1 ≤ n → a + ((n : Rat) - 1) * s ≤ b → b < a + (n : Rat) * s → ∀ fuel, n ≤ fuel →
      @forLoop Rat (ratNum F) a b s fuel
        = ((List.range n).map (fun (i : Nat) => a + (i : Rat) * s), a + (n : Rat) * s)) :=
  for_iterations_pos F a b s hs

/-- **FOR iterations, negative step** (`s < 0`, counting down to `b`): the mirror image -/
theorem for_iterations_down (a b s : Rat) (hs : s < 0) :
    (a < b → ∀ fuel, @forLoop Rat (ratNum F) a b s fuel = ([], a)) ∧
    (∀ n : Nat, 1 ≤ n → b ≤ a + ((n : Rat) - 1) * s → a + (n : Rat) * s < b → ∀ fuel, n ≤ fuel →
      @forLoop Rat (ratNum F) a b s fuel
        = ((List.range n).map (fun (i : Nat) => a + (i : Rat) * s), a + (n : Rat) * s)) :=
  for_iterations_neg F a b s hs

/-- the count in closed form: `n = ⌊(b − a)/s⌋ + 1` satisfies the two inequalities that determine it -/
theorem for_count_closed_form (a b s : Rat) (hs : 0 < s) (hab : a ≤ b) :
    let n : Nat := ((b - a) / s).floor.toNat + 1
    1 ≤ n ∧ a + ((n : Rat) - 1) * s ≤ b ∧ b < a + (n : Rat) * s := by
  intro n
  have hq : 0 ≤ (b - a) / s := div_nonneg (by linarith) (le_of_lt hs)
  have hfl : 0 ≤ ((b - a) / s).floor := Rat.le_floor_iff.mpr (by simpa using hq)
  have hcast : ((((b - a) / s).floor.toNat : Nat) : Rat) = ((((b - a) / s).floor : Int) : Rat) := by
    have : ((((b - a) / s).floor.toNat : Nat) : Int) = ((b - a) / s).floor := Int.toNat_of_nonneg hfl
    exact_mod_cast this
  have h1 : ((((b - a) / s).floor : Int) : Rat) ≤ (b - a) / s := Rat.floor_le _
  have h2 : (b - a) / s < ((((b - a) / s).floor : Int) : Rat) + 1 := by
    have := Rat.lt_floor_add_one ((b - a) / s)
    push_cast at this
    exact this
  refine ⟨Nat.succ_le_succ (Nat.zero_le _), ?_, ?_⟩
  · have : ((n : Nat) : Rat) - 1 = ((((b - a) / s).floor : Int) : Rat) := by
      simp only [n]; push_cast; rw [hcast]; ring
    rw [this]
    have := (le_div_iff₀ hs).mp h1
    linarith
  · have : ((n : Nat) : Rat) = ((((b - a) / s).floor : Int) : Rat) + 1 := by
      simp only [n]; push_cast; rw [hcast]
    rw [this]
    have := (div_lt_iff₀ hs).mp h2
    linarith

/-- non-vacuity: `FOR i = 1 TO 2.2 STEP 0.5` runs three times (1, 1.5, 2) and leaves `i = 2.5` -/
example : @forLoop Rat (ratNum F) (1 : Rat) (22 / 10) (1 / 2) 10 = ([1, 3 / 2, 2], 5 / 2) := by
  have := (for_iterations F 1 (22 / 10) (1 / 2) (by norm_num)).2 3 (by norm_num) (by norm_num) (by norm_num) 10 (by norm_num)
  rw [this]
  norm_num [List.range_succ]

end ForLoop

/-- the NEXT statement of the machine decides with `nextContinues` on the incremented variable: for a FOR frame on
top of the stack whose variable is `l.var` the variable becomes `v + step`; the machine goes back to the frame's
home position when `nextContinues` holds and otherwise drops the frame and goes on behind NEXT -/
theorem next_uses_nextContinues {α : Type} [BNum α] (hook : Hook α) (s : St α) (line : Option Nat)
    (l : Loop α) (rest : List (Loop α)) (hk : l.kind = .for_) (hs : s.loops = l :: rest) :
    let nv := BNum.add (s.getVar l.var).numVal l.step
    let s2 := s.setVar l.var ((s.getVar l.var).setNum nv)
    execStmt hook s line (.k .next) [] =
      (if nextContinues nv l.max l.step then
        .ok { st := { s2 with loops := l :: rest }, line := l.homeline, t := l.hometok }
       else .ok { st := { s2 with loops := rest }, line := line, t := [] }) := by
  simp [execStmt, isEos, hs, popTo, hk]

end PhreeqcVerif.C17
