"""Seeded generators for C19 (gas phases): direct calc_PR op lists, synthetic databases, real GAS_PHASE /
EQUILIBRIUM_PHASES inputs.  All randomness comes from the `rng` passed in."""
import struct


def hd(x):
    return struct.pack(">d", float(x)).hex()


def ud(h):
    return struct.unpack(">d", bytes.fromhex(h))[0]


def hs(s):
    return s.encode().hex() if s else "-"


def uhs(h):
    return "" if h == "-" else bytes.fromhex(h).decode(errors="replace")


# ------------------------------------------------------------------------------------------------ direct calc_PR
def pr_ops(rng, names, n, hist):
    """op lines `pr <iterations> <P> <TK> <Vm> <n> {name moles}`: pressure-given and volume-given mode,
    1..5 gases, mole numbers incl. exact zeros, 0.01..1000 atm, 0..200 C (plus a few points outside)"""
    ops = []
    for _ in range(n):
        r = rng.random()
        k = 1 if r < 0.25 else 2 if r < 0.55 else 3 if r < 0.8 else rng.randint(4, max(4, min(5, len(names))))
        k = min(k, len(names))
        ns = rng.sample(names, k)
        if rng.random() < 0.3 and "H2O(g)" in names and "H2O(g)" not in ns:
            ns[rng.randrange(k)] = "H2O(g)"
        tk = rng.uniform(273.15, 473.15) if rng.random() < 0.9 else rng.choice([273.15, 298.15, 473.15, 260.0, 600.0])
        mode = "P" if rng.random() < 0.5 else "V"
        if mode == "P":
            p = 10 ** rng.uniform(-2, 3) if rng.random() < 0.9 else rng.choice([0.0, 1e-12, 1.0, 1000.0, 5000.0])
            vm = 0.0
        else:
            p = 0.0
            u = rng.random()
            vm = 10 ** rng.uniform(-1.7, 0) if u < 0.5 else 10 ** rng.uniform(0, 3.4) if u < 0.9 else rng.choice([0.016, 0.03, 0.729, 1.0, 1.01, 1e4])
        it = rng.choice([0, 1, 1, 3, 60])
        moles = []
        for _g in ns:
            u = rng.random()
            moles.append(0.0 if u < 0.08 else 1.0 if u < 0.15 else 10 ** rng.uniform(-8, 3))
        if k > 1 and all(m == 0 for m in moles) and rng.random() < 0.8:
            moles[0] = 1.0
        hist["mode_" + mode] = hist.get("mode_" + mode, 0) + 1
        hist[f"n_gases_{k}"] = hist.get(f"n_gases_{k}", 0) + 1
        hist["with_zero_moles"] = hist.get("with_zero_moles", 0) + (1 if any(m == 0 for m in moles) else 0)
        hist["with_H2O"] = hist.get("with_H2O", 0) + (1 if "H2O(g)" in ns else 0)
        ops.append(f"pr {it} {hd(p)} {hd(tk)} {hd(vm)} {k} " + " ".join(f"{hs(g)} {hd(m)}" for g, m in zip(ns, moles)))
    return ops


def prn_ops(rng, names, n, hist):
    """op lines `prn <iterations> <volume> <TK> <n> {name moles}` for the no-argument calc_PR() of gases.cpp"""
    ops = []
    for _ in range(n):
        k = min(rng.choice([1, 1, 2, 2, 3, 4]), len(names))
        ns = rng.sample(names, k)
        if rng.random() < 0.3 and "H2O(g)" in names and "H2O(g)" not in ns:
            ns[rng.randrange(k)] = "H2O(g)"
        tk = rng.uniform(273.15, 473.15)
        vol = rng.choice([1.0, 0.1, 10.0, 10 ** rng.uniform(-2, 2)])
        u = rng.random()
        vm = 10 ** rng.uniform(-1.7, 0) if u < 0.55 else 10 ** rng.uniform(0, 3.4)
        fr = [rng.random() if rng.random() > 0.1 else 0.0 for _ in ns]
        if sum(fr) == 0:
            fr[0] = 1.0
        moles = [f / sum(fr) * vol / vm for f in fr]
        if rng.random() < 0.02:
            moles = [0.0] * k
        it = rng.choice([0, 1, 3, 60])
        hist["numerical_path_ops"] = hist.get("numerical_path_ops", 0) + 1
        ops.append(f"prn {it} {hd(vol)} {hd(tk)} {k} " + " ".join(f"{hs(g)} {hd(m)}" for g, m in zip(ns, moles)))
    return ops


EXTRA_GASES = [  # names that only the hard-coded table of calc_gas_binary_parameter knows
    ("Ethane(g)", 305.4, 48.2, 0.099), ("Propane(g)", 369.8, 41.9, 0.152), ("Methane(g)", 190.6, 45.4, 0.008),
    ("Xenon(g)", 289.7, 57.6, 0.008)]


def synthetic_db(rng, text):
    """variant of a database text: GAS_BINARY_PARAMETERS block removed / replaced by random values; extra gases
    whose names appear only in the hard-coded table"""
    lines = text.splitlines()
    out, skip = [], False
    for ln in lines:
        if ln.strip().upper().startswith("GAS_BINARY_PARAMETERS"):
            skip = True
            continue
        if skip:
            w = ln.split()
            if len(w) >= 3 and w[0].endswith("(g)"):
                continue
            skip = False
        out.append(ln)
    mode = rng.choice(["none", "random", "partial"])
    block = ["PHASES"]
    for (n, tc, pc, om) in EXTRA_GASES:
        block += [n, "\tCH4 = CH4", "\t-log_k -2.8", f"\t-T_c {tc}; -P_c {pc}; -Omega {om}"]
    if mode != "none":
        block.append("GAS_BINARY_PARAMETERS")
        pool = ["H2O(g)", "CO2(g)", "CH4(g)", "N2(g)", "H2S(g)", "O2(g)", "Ethane(g)", "Propane(g)", "Xenon(g)", "NH3(g)", "Mtg(g)"]
        for _ in range(rng.randint(1, 10) if mode == "random" else 2):
            a, b = rng.sample(pool, 2)
            block.append(f"{a} {b} {rng.choice([0.0, 0.1, 0.19, 0.49, -0.05, round(rng.uniform(-0.2, 0.6), 3)])}")
    # before the first END (read_database stops there); phreeqc.dat has none, so append
    idx = next((i for i, ln in enumerate(out) if ln.strip().upper() == "END"), len(out))
    out[idx:idx] = block
    return "\n".join(out) + "\n", mode


# ------------------------------------------------------------------------------------------------ real runs
BIG_SETS = [["CO2(g)", "H2O(g)", "NH3(g)", "H2S(g)"], ["CO2(g)", "CH4(g)", "N2(g)", "H2S(g)", "H2O(g)", "NH3(g)"],
            ["H2O(g)", "NH3(g)", "H2S(g)"], ["Mtg(g)", "Ntg(g)", "H2Sg(g)", "CO2(g)", "H2O(g)"], ["N2(g)", "O2(g)", "CO2(g)", "H2O(g)", "NH3(g)"],
            ["Hdg(g)", "Mtg(g)", "Ntg(g)", "Oxg(g)", "H2Sg(g)", "CO2(g)"]]
PR_SETS = [
    ["CO2(g)"], ["CO2(g)", "H2O(g)"], ["CH4(g)"], ["CH4(g)", "H2O(g)"], ["N2(g)", "O2(g)", "CO2(g)"],
    ["CO2(g)", "Mtg(g)", "Ntg(g)", "H2O(g)"], ["CO2(g)", "H2S(g)"], ["H2Sg(g)", "CO2(g)", "H2O(g)"],
    ["N2(g)"], ["O2(g)"], ["NH3(g)", "N2(g)"], ["CO2(g)", "N2(g)", "H2O(g)"], ["Mtg(g)", "CO2(g)"],
    ["Ntg(g)", "Oxg(g)"], ["Hdg(g)", "Mtg(g)"], ["H2O(g)"], ["CO2(g)", "CH4(g)", "N2(g)", "H2S(g)", "H2O(g)"],
]
PITZER_SETS = [["CO2(g)"], ["CO2(g)", "H2O(g)"], ["Mtg(g)", "CO2(g)"], ["Ntg(g)", "Oxg(g)"], ["H2Sg(g)", "CO2(g)", "H2O(g)"],
               ["Mtg(g)", "H2O(g)"]]
IDEAL_SETS = [["CO2(g)"], ["CO2(g)", "N2(g)"], ["CO2(g)", "O2(g)", "N2(g)"], ["CH4(g)"], ["CO2(g)", "H2O(g)"],
              ["NH3(g)", "N2(g)"], ["H2S(g)", "CO2(g)"]]


def solution_block(rng, tc, pres, db):
    lines = ["SOLUTION 1", f" temp {tc:.4f}", f" pH {rng.uniform(4, 9):.3f}", " units mol/kgw"]
    if pres is not None:
        lines.append(f" pressure {pres:.6g}")
    cmax = 0.5 if db == "wateq4f.dat" else 2.0 if db == "phreeqc.dat" else 4.0
    c = rng.choice([0.0, 0.001, 0.01, 0.1, round(rng.uniform(0, cmax), 4)])
    if c > 0:
        lines += [f" Na {c}", f" Cl {c} charge"]
    if rng.random() < 0.3:
        lines.append(f" Ca {rng.choice([0.001, 0.01])}")
    if rng.random() < 0.4:
        lines.append(f" C(4) {rng.choice([0.0001, 0.001, 0.01])}")
    w = rng.choice([1.0, 1.0, 0.5, 2.0, 0.1])
    if w != 1.0:
        lines.append(f" -water {w}")
    return lines


def punch_block(gases, extra=()):
    heads = ["step", "sim", "gas_p", "gas_vm", "tk", "pres"]
    items = ["STEP_NO", "SIM_NO", "GAS_P", "GAS_VM", "TK", "PRESSURE"]
    for i, g in enumerate(gases):
        heads += [f"n{i}", f"pp{i}", f"phi{i}", f"si{i}"]
        items += [f'GAS("{g}")', f'PR_P("{g}")', f'PR_PHI("{g}")', f'SI("{g}")']
    for i, (h, e) in enumerate(extra):
        heads.append(h)
        items.append(e)
    lines = ["SELECTED_OUTPUT 1", " -reset false", " -high_precision true", " -gases " + " ".join(gases), "USER_PUNCH 1", " -headings " + " ".join(heads)]
    # several PUNCH lines keep every line short
    ln = 10
    for i in range(0, len(items), 6):
        lines.append(f" {ln} PUNCH " + ", ".join(items[i:i + 6]))
        ln += 10
    return lines, heads


def corpus_cases():
    """fixed inputs run first in every run: the minimal replay of the known departure
    `fixedV-numerical-negative-PR-pressure` and its default-settings neighbour"""
    out = []
    for knobs in (True, False):
        gases = ["CO2(g)"]
        pl, heads = punch_block(gases)
        lines = (["KNOBS", " -numerical_fixed_volume true", " -force_numerical_fixed_volume true"] if knobs else []) + [
            "SOLUTION 1", " temp 0", " -water 2", "GAS_PHASE 1", " -fixed_volume", " -volume 1", " -temperature 0", " CO2(g) 112.232"]
        out.append(dict(kind="fixedV", db="phreeqc.dat", gases=gases, tc=0.0, vol=1.0, ptot=112.232, p_init=[112.232],
                        heads=heads, input="\n".join(lines + pl + ["END"]) + "\n", corpus=True))
    gases = ["H2O(g)"]
    pl, heads = punch_block(gases)
    lines = ["SOLUTION 1", " temp 10", " -water 100", "GAS_PHASE 1", " -fixed_volume", " -volume 0.01", " -temperature 10", " H2O(g) 1.0"]
    out.append(dict(kind="fixedV", db="phreeqc.dat", gases=gases, tc=10.0, vol=0.01, ptot=1.0, p_init=[1.0], heads=heads,
                    input="\n".join(lines + pl + ["END"]) + "\n", corpus=True))
    gases = ["CO2(g)", "N2(g)"]
    pl, heads = punch_block(gases)
    lines = ["SOLUTION 1", " temp 25", "GAS_PHASE 1", " -fixed_volume", " -volume 1", " CO2(g) 1.0", " N2(g) 0.5"]
    out.append(dict(kind="ideal", ideal_type="fixedV", db="wateq4f.dat", gases=gases, tc=25.0, vol=1.0, ptot=1.5, p_init=[1.0, 0.5], heads=heads,
                    input="\n".join(lines + pl + ["END"]) + "\n", corpus=True))
    # history repaired by /repo 648a6839: a listed component that is not in the model kept p_soln_x of the previous simulation,
    # which let a spurious fixed-pressure phase appear in the second simulation; must pass now
    gases = ["CO2(g)", "H2O(g)"]
    pl, heads = punch_block(gases)
    lines = ["SOLUTION 1", " temp 25", "GAS_PHASE 1", " -fixed_pressure", " -pressure 0.5", " -volume 1", " CO2(g) 0.005", " H2O(g) 0.495"] + pl + [
        "END", "SOLUTION 2", " temp 70", " units mol/kgw", " Na 1", " Cl 1", "GAS_PHASE 2", " -fixed_pressure", " -pressure 0.2985", " -volume 1",
        " -temperature 70", " CO2(g) 0", " H2O(g) 0", "END"]
    out.append(dict(kind="history", db="phreeqc.dat", gases=gases, tc=70.0, heads=heads, corpus=True,
                    sims=[dict(kind="fixedP", ptot=0.5, vol=1.0), dict(kind="fixedP", ptot=0.2985, vol=1.0)], input="\n".join(lines) + "\n"))
    return out


def bubble_case(rng, hist):
    """fixed-pressure phase that starts empty over a solution holding dissolved gas: it must appear iff the equilibrium
    partial pressures of the solution exceed the fixed pressure"""
    tc = rng.uniform(0, 150)
    gases = list(rng.choice([["CO2(g)", "H2O(g)"], ["CO2(g)"], ["CO2(g)", "Ntg(g)", "H2O(g)"], ["Mtg(g)", "CO2(g)"]]))
    c = 10 ** rng.uniform(-2, 0)
    lines = ["SOLUTION 1", f" temp {tc:.4f}", f" pH {rng.uniform(3.5, 5.5):.3f}", " units mol/kgw", f" C(4) {c:.5g}",
             f" Na {rng.choice([0.01, 0.1, 0.5])}", " Cl 0.1 charge"]
    if "Ntg(g)" in gases:
        lines.append(f" Ntg {10 ** rng.uniform(-4, -2):.4g}")
    if "Mtg(g)" in gases:
        lines.append(f" Mtg {10 ** rng.uniform(-4, -2):.4g}")
    ptot = float(f"{10 ** rng.uniform(-1.3, 1.8):.6g}")
    lines += ["GAS_PHASE 1", " -fixed_pressure", f" -pressure {ptot:.6g}", " -volume 0", f" -temperature {tc:.4f}"]
    lines += [f" {g} 0" for g in gases]
    pl, heads = punch_block(gases)
    hist["bubble"] = hist.get("bubble", 0) + 1
    return dict(kind="fixedP", db="phreeqc.dat", gases=gases, tc=tc, vol=0.0, ptot=ptot, p_init=[0.0] * len(gases), heads=heads,
                bubble=True, input="\n".join(lines + pl + ["END"]) + "\n")


KIJ_SETS = [["CO2(g)", "CH4(g)"], ["CO2(g)", "N2(g)"], ["CH4(g)", "N2(g)"], ["H2S(g)", "CO2(g)"], ["CO2(g)", "Mtg(g)"],
            ["Mtg(g)", "Ntg(g)"], ["CO2(g)", "CH4(g)", "H2O(g)"], ["CO2(g)", "H2O(g)"], ["N2(g)", "H2O(g)", "CO2(g)"],
            ["H2Sg(g)", "Mtg(g)", "CO2(g)"], ["CH4(g)", "H2O(g)"], ["O2(g)", "N2(g)"]]


def kij_block(rng, gases, hist):
    """GAS_BINARY_PARAMETERS lines for pairs of `gases`: pairs without H2O(g) and overrides of the built-in H2O(g)-X values,
    either name order, sometimes a pair given twice (the later line counts)"""
    pairs = [(a, b) for i, a in enumerate(gases) for b in gases[i + 1:]]
    rng.shuffle(pairs)
    lines = ["GAS_BINARY_PARAMETERS"]
    for (a, b) in pairs[:rng.randint(1, max(1, len(pairs)))]:
        if rng.random() < 0.5:
            a, b = b, a
        k = rng.choice([0.1, 0.15, 0.25, 0.3, -0.1, round(rng.uniform(0.05, 0.45), 3)])
        lines.append(f" {a} {b} {k}")
        hist["kij_pair_with_H2O" if "H2O(g)" in (a, b) else "kij_pair_without_H2O"] = \
            hist.get("kij_pair_with_H2O" if "H2O(g)" in (a, b) else "kij_pair_without_H2O", 0) + 1
        if rng.random() < 0.1:
            lines.append(f" {b} {a} {round(rng.uniform(0.05, 0.45), 3)}")
    return lines


REDEF = {"CO2(g)": ("CO2 = CO2", -1.468, (304.2, 72.86, 0.225)), "CH4(g)": ("CH4 = CH4", -2.8, (190.6, 45.4, 0.008)),
         "N2(g)": ("N2 = N2", -3.1864, (126.2, 33.5, 0.039)), "O2(g)": ("O2 = O2", -2.8983, (154.6, 49.8, 0.021)),
         "Mtg(g)": ("Mtg = Mtg", -2.8, (190.6, 45.4, 0.008)), "Ntg(g)": ("Ntg = Ntg", -3.1864, (126.2, 33.5, 0.039))}


def phases_block(rng, gases, hist):
    """PHASES block redefining one of the gases with its own critical constants (several spellings of the options)"""
    cand = [g for g in gases if g in REDEF]
    if not cand:
        return []
    g = rng.choice(cand)
    eq, lk, (tc, pc, om) = REDEF[g]
    tc = round(tc * rng.uniform(0.9, 1.1), 2)
    pc = round(pc * rng.uniform(0.9, 1.1), 2)
    om = round(om + rng.uniform(-0.05, 0.05), 3)
    style = rng.randrange(4)
    opts = [f"\t-T_c {tc}; -P_c {pc}; -Omega {om}", f"\tT_c {tc}\n\tP_c {pc}\n\tOmega {om}", f"\t-t_c = {tc}\n\t-p_c = {pc}\n\t-om {om}",
            f"\t-Omega {om} # acentric\n\t-P_c {pc}\n\t-T_c {tc} # K"][style]
    hist["own_critical_constants"] = hist.get("own_critical_constants", 0) + 1
    return ["PHASES", g, f"\t{eq}", f"\t-log_k {lk}", opts]


def kij_case(rng, hist):
    """Peng-Robinson phase holding both gases of user-defined binary pairs at tens to hundreds of atm (fixed P / fixed V),
    or those gases as EQUILIBRIUM_PHASES"""
    gases = list(rng.choice(KIJ_SETS))
    tc = rng.uniform(20, 150)
    ptot = float(f"{10 ** rng.uniform(1.2, 2.6):.6g}")
    kind = rng.choice(["fixedV", "fixedV", "fixedP", "fixedP", "pp"])
    head = kij_block(rng, gases, hist) if rng.random() < 0.8 else []
    if rng.random() < 0.35 or not head:
        head = phases_block(rng, gases, hist) + head
    lines = head + ["SOLUTION 1", f" temp {tc:.4f}", " pH 6", " units mol/kgw",
                                           f" Na {rng.choice([0.01, 0.1, 0.5])}", " Cl 0.1 charge"]
    case = dict(kind=kind, db="phreeqc.dat", gases=gases, tc=tc, own_kij=True)
    extra = []
    if kind == "pp":
        lines.append("EQUILIBRIUM_PHASES 1")
        sis = [float(f"{rng.uniform(0.8, 2.4):.4f}") for _ in gases]
        for g, si in zip(gases, sis):
            lines.append(f" {g} {si:.4f} {rng.choice([10.0, 1.0])}")
            extra.append((f"eq{gases.index(g)}", f'EQUI("{g}")'))
        case["si_target"] = sis
    else:
        fr = [rng.uniform(0.15, 1.0) for _ in gases]
        if "H2O(g)" in gases:
            fr[gases.index("H2O(g)")] = 0.0
        parts = [float(f"{f / sum(fr) * ptot:.6g}") for f in fr]
        vol = rng.choice([1.0, 0.5, 2.0])
        lines += ["GAS_PHASE 1", " -fixed_pressure" if kind == "fixedP" else " -fixed_volume"]
        if kind == "fixedP":
            lines.append(f" -pressure {ptot:.6g}")
        lines += [f" -volume {vol}", f" -temperature {tc:.4f}"] + [f" {g} {p:.6g}" for g, p in zip(gases, parts)]
        case.update(vol=vol, ptot=ptot, p_init=parts)
    pl, heads = punch_block(gases, extra)
    case["heads"] = heads
    case["input"] = "\n".join(lines + pl + ["END"]) + "\n"
    hist["own_kij_" + kind] = hist.get("own_kij_" + kind, 0) + 1
    return case


def history_case(rng, hist):
    """several simulations in one run on the same instance: the gas phase is redefined (other type, pressure, volume,
    temperature) or carried over with SAVE/USE, with one to three reaction steps each; the solution is saved and reused"""
    gases = list(rng.choice(PR_SETS + BIG_SETS))
    nsim = rng.randint(2, 4)
    tc = rng.uniform(5, 150)
    lines, sims = [], []
    pl, heads = punch_block(gases, [(f"eq{i}", f'EQUI("{g}")') for i, g in enumerate(gases)])
    prev = None
    for k in range(nsim):
        if k == 0:
            lines += ["SOLUTION 1", f" temp {tc:.3f}", " pH 7", " units mol/kgw", f" Na {rng.choice([0.01, 0.1, 1.0])}", " Cl 0.1 charge"]
        else:
            lines += ["USE solution 1"]
        if k > 0 and rng.random() < 0.25:
            # the same gases as EQUILIBRIUM_PHASES right after a gas-phase calculation (cached pr_* values of the phases)
            sis = [None if g == "H2O(g)" or rng.random() < 0.3 else float(f"{rng.uniform(-2, 3):.4f}") for g in gases]
            if all(x is None for x in sis):
                sis[0] = 0.5 if gases[0] != "H2O(g)" else None
            lines += ["EQUILIBRIUM_PHASES 1"] + [f" {g} {x:.4f} {rng.choice([10.0, 1.0, 0.0])}" for g, x in zip(gases, sis) if x is not None]
            cx = dict(kind="pp", si_target=sis)
            hist["history_pp_after_gas_phase"] = hist.get("history_pp_after_gas_phase", 0) + 1
        elif k > 0 and prev is not None and rng.random() < 0.35:
            lines += ["USE gas_phase 1"]                       # carried over as saved
            cx = dict(prev)
        else:
            kind = rng.choice(["fixedV", "fixedP"])
            ptot = float(f"{10 ** rng.uniform(-1.5, 2.7):.6g}")
            vol = rng.choice([1.0, 0.2, 5.0])
            fr = [rng.random() + 0.05 for _ in gases]
            if "H2O(g)" in gases:
                fr[gases.index("H2O(g)")] = 0.0
            if sum(fr) == 0:
                fr[0] = 1.0
            parts = [f / sum(fr) * ptot for f in fr]
            lines += ["GAS_PHASE 1", " -fixed_pressure" if kind == "fixedP" else " -fixed_volume"]
            if kind == "fixedP":
                lines.append(f" -pressure {ptot:.6g}")
            lines += [f" -volume {vol}", f" -temperature {tc:.3f}"] + [f" {g} {p:.6g}" for g, p in zip(gases, parts)]
            cx = dict(kind=kind, ptot=ptot, vol=vol)
        if rng.random() < 0.5:
            tc = rng.uniform(5, 150)
            lines += ["REACTION_TEMPERATURE 1", f" {tc:.3f}"]
        if rng.random() < 0.4:
            lines += ["REACTION 1", f" {rng.choice(['CO2', 'NaCl', 'H2O', 'NH3'])} 1", f" {rng.choice([0.01, 0.1])} moles in {rng.randint(1, 3)} steps"]
        if cx["kind"] != "pp":
            lines += ["SAVE gas_phase 1"]
            prev = cx
        lines += (["SAVE solution 1"] if rng.random() < 0.5 else [])
        if k == 0:
            lines += pl
        lines += ["END"]
        sims.append(cx)
    hist["history"] = hist.get("history", 0) + 1
    hist[f"history_sims_{nsim}"] = hist.get(f"history_sims_{nsim}", 0) + 1
    hist[f"n_gases_{len(gases)}"] = hist.get(f"n_gases_{len(gases)}", 0) + 1
    return dict(kind="history", db="phreeqc.dat", gases=gases, tc=tc, heads=heads, sims=sims, input="\n".join(lines) + "\n")


def real_case(rng, hist):
    """one real input: dict(kind, db, gases, input, meta...)"""
    if rng.random() < 0.12:
        return bubble_case(rng, hist)
    if rng.random() < 0.12:
        return history_case(rng, hist)
    if rng.random() < 0.2:
        return kij_case(rng, hist)
    u = rng.random()
    if u < 0.30:
        kind = "fixedV"
    elif u < 0.55:
        kind = "fixedP"
    elif u < 0.65:
        kind = "fixedV_eq"
    elif u < 0.80:
        kind = "ideal"
    else:
        kind = "pp"
    tc = rng.choice([0.0, 25.0, 200.0]) if rng.random() < 0.12 else rng.uniform(0, 200)
    ptot = 10 ** rng.uniform(-2, 3)
    case = {"kind": kind, "tc": tc}
    knobs = []
    if kind in ("fixedV", "fixedP", "fixedV_eq"):
        db = "pitzer.dat" if rng.random() < 0.15 else "phreeqc.dat"
        gases = list(rng.choice(PITZER_SETS if db == "pitzer.dat" else (BIG_SETS if rng.random() < 0.25 else PR_SETS)))
    elif kind == "ideal":
        db = "wateq4f.dat"
        gases = list(rng.choice(IDEAL_SETS))
        kind2 = rng.choice(["fixedV", "fixedP", "fixedV_eq"])
        case["ideal_type"] = kind2
    else:
        db = "pitzer.dat" if rng.random() < 0.15 else "phreeqc.dat"
        gases = list(rng.choice([["CO2(g)"], ["CH4(g)"], ["N2(g)"], ["O2(g)"], ["CO2(g)", "Ntg(g)"], ["H2S(g)"], ["Mtg(g)"],
                                 ["Ntg(g)", "Mtg(g)"], ["CO2(g)", "H2Sg(g)"]]))
        if db == "pitzer.dat":
            gases = list(rng.choice([["CO2(g)"], ["Mtg(g)"], ["Ntg(g)", "Mtg(g)"], ["CO2(g)", "H2Sg(g)"]]))
    case["db"] = db
    case["gases"] = gases
    gtype = case.get("ideal_type", kind)
    # pressures of the components: random split of the total
    cuts = sorted(rng.random() for _ in range(len(gases) - 1))
    fr = [b - a for a, b in zip([0.0] + cuts, cuts + [1.0])]
    if len(gases) > 1 and rng.random() < 0.15:
        fr[rng.randrange(len(fr))] = 0.0           # a component that starts absent
    parts = [f * ptot for f in fr]
    if "H2O(g)" in gases and rng.random() < 0.7:
        parts[gases.index("H2O(g)")] = 0.0        # water vapour usually starts absent
    if sum(parts) == 0:
        parts[0] = ptot
    sol_p = None
    if gtype == "fixedP" and rng.random() < 0.5:
        sol_p = ptot
    lines = solution_block(rng, tc, sol_p, db)
    extra = []
    if kind == "pp":
        lines.append("EQUILIBRIUM_PHASES 1")
        sis = []
        for g in gases:
            si = rng.uniform(-2, 3)
            amt = rng.choice([10.0, 1.0, 0.0, 0.001])
            sis.append(si)
            lines.append(f" {g} {si:.4f} {amt}")
        case["si_target"] = [float(f"{s:.4f}") for s in sis]
        for i, g in enumerate(gases):
            extra.append((f"eq{i}", f'EQUI("{g}")'))
    else:
        vol = rng.choice([1.0, 1.0, 0.1, 10.0, round(10 ** rng.uniform(-1.5, 1.5), 4)])
        lines.append("GAS_PHASE 1")
        if gtype == "fixedP":
            lines += [" -fixed_pressure", f" -pressure {ptot:.6g}"]
        else:
            lines += [" -fixed_volume"]
        lines += [f" -volume {vol}", f" -temperature {tc:.4f}"]
        if gtype == "fixedV_eq":
            lines.append(" -equilibrate 1")
            for g in gases:
                lines.append(f" {g}")
        else:
            for g, p in zip(gases, parts):
                lines.append(f" {g} {p:.6g}")
        case["vol"] = vol
        case["ptot"] = float(f"{ptot:.6g}")
        case["p_init"] = [float(f"{p:.6g}") for p in parts]
    if rng.random() < 0.12 and kind in ("fixedV", "fixedV_eq"):
        knobs.append("KNOBS\n -numerical_fixed_volume true\n -force_numerical_fixed_volume true")
    if rng.random() < 0.15 and kind != "pp":
        # a reaction that adds gas-forming components
        lines += ["REACTION 1", f" {rng.choice(['CO2', 'NaCl', 'H2O'])} 1", f" {rng.choice([0.01, 0.1, 1.0])} moles in {rng.choice([1, 2])} steps"]
    if rng.random() < 0.25:
        lines += ["REACTION_TEMPERATURE 1", f" {tc:.4f}"]
    pl, heads = punch_block(gases, extra)
    case["heads"] = heads
    case["input"] = "\n".join(knobs + lines + pl + ["END"]) + "\n"
    hist[kind] = hist.get(kind, 0) + 1
    hist["db_" + db] = hist.get("db_" + db, 0) + 1
    tb = "T<50" if tc < 50 else "T<100" if tc < 100 else "T<150" if tc < 150 else "T<=200"
    hist[tb] = hist.get(tb, 0) + 1
    pb = "P<0.1" if ptot < 0.1 else "P<1" if ptot < 1 else "P<10" if ptot < 10 else "P<100" if ptot < 100 else "P<=1000"
    hist[pb] = hist.get(pb, 0) + 1
    return case
