import PhreeqcVerif.Lemmas.Thermo
/-!
# C01 — speciation: property theorems

Everything is over `Rat` with `ratOps f` for an ARBITRARY `f : TransFns Rat` (`log10`, `ln`, `sqrt`, `exp10` uninterpreted),
for all inputs, token lists of any length, any fuel.

1–2. `kCalc` (model of `k_calc`) is linear in the log K vector, reduces to the 1 atm expression at `P ≤ pRef`, to `log_k`
     at 25 °C, to van 't Hoff without analytic terms; `delta_h` unit conversion.
3–5. `rewriteToMasters` (substitution of non-master species, `trxn_add` + `trxn_combine`) preserves the residual of the
     mass-action equation for every linear log K functional, and element/charge balance.
6.   `speciateLm` (the assignment in `molalities()`) satisfies mass action.
7.   the gate: `runModel` returns `ok` only in states where `residuals()` reports CONVERGED and `check_residuals()` is silent,
     whatever the Newton step / "try again" decisions are; what the tests mean per unknown type.
8.   read-outs, sums.   9. concrete instances.
-/
namespace PhreeqcVerif.C01
open PhreeqcVerif PhreeqcVerif.Thermo PhreeqcVerif.Speciation

/-! ### 1–2. log K(T, P) -/

/-- `trxn_add` on the log K vector is `k_calc`-linear (both branches of the pressure test) -/
theorem kCalc_addScaled (f : TransFns Rat) (p q : LogK Rat) (c T P : Rat) :
    letI := ratOps f
    kCalc (p.addScaled c q) T P = kCalc p T P + c * kCalc q T P := by
  simp only [kCalc, LogK.addScaled, NumOps.lit, NumOps.ofRat, NumOps.log10, NumOps.ln, id]
  grind

theorem kCalc_linear (f : TransFns Rat) (p q : LogK Rat) (a b T P : Rat) :
    letI := ratOps f
    kCalc ((LogK.smul a p).add (LogK.smul b q)) T P = a * kCalc p T P + b * kCalc q T P := by
  simp only [kCalc, LogK.add, LogK.smul, NumOps.lit, NumOps.ofRat, NumOps.log10, NumOps.ln, id]
  grind

theorem kCalc_pressure_off (f : TransFns Rat) (p : LogK Rat) (T P : Rat) (hP : P ≤ pRef) :
    letI := ratOps f
    kCalc p T P = kCalc1atm p T := by
  simp only [kCalc, kCalc1atm, NumOps.lit, NumOps.ofRat, NumOps.log10, NumOps.ln, id]
  grind

theorem kCalc_reference (f : TransFns Rat) (k0 dh dv P : Rat) (hP : P ≤ pRef) :
    letI := ratOps f
    kCalc ⟨k0, dh, 0, 0, 0, 0, 0, 0, dv⟩ tRef P = k0 := by
  simp only [kCalc, NumOps.lit, NumOps.ofRat, NumOps.log10, NumOps.ln, id]
  grind

theorem vant_hoff (f : TransFns Rat) (k0 dh dv T : Rat) :
    letI := ratOps f
    kCalc1atm ⟨k0, dh, 0, 0, 0, 0, 0, 0, dv⟩ T = k0 - dh * (tRef - T) / (f.ln 10 * (T * rKJ) * tRef) := by
  simp only [kCalc1atm, NumOps.lit, NumOps.ofRat, NumOps.log10, NumOps.ln, id]
  grind

theorem dhToKJ_linear (f : TransFns Rat) (u : DHUnit) (a x : Rat) :
    letI := ratOps f
    dhToKJ u (a * x) = a * dhToKJ u x := by
  cases u <;> simp only [dhToKJ, NumOps.lit, NumOps.ofRat, id] <;> grind

theorem dhToKJ_kcal (f : TransFns Rat) (x : Rat) :
    letI := ratOps f
    dhToKJ .kcal x = x * (4184 / 1000) := by
  simp only [dhToKJ, NumOps.lit, NumOps.ofRat, id]

theorem dhToKJ_cal (f : TransFns Rat) (x : Rat) :
    letI := ratOps f
    dhToKJ .cal x = x * (4184 / 1000000) := by
  simp only [dhToKJ, NumOps.lit, NumOps.ofRat, id]; grind

theorem dhToKJ_J (f : TransFns Rat) (x : Rat) :
    letI := ratOps f
    dhToKJ .J x = x / 1000 := by
  simp only [dhToKJ, NumOps.lit, NumOps.ofRat, id]

/-- non-vacuity: above the reference pressure the volume term is present (so `P ≤ pRef` in `kCalc_pressure_off` matters),
at it the 1 atm value is returned, and linearity on concrete vectors (with `ln := id`, i.e. `ln 10 = 10`) -/
example : letI := ratOps (⟨id, id, id, id, id, id, id, id, id, id⟩ : TransFns Rat)
    let p : LogK Rat := ⟨10329 / 1000, -3561 / 1000, 1078871 / 10000, 3252849 / 100000000, -515179 / 100, -3892561 / 100000, 56371390 / 100, 0, -278 / 10⟩
    let q : LogK Rat := ⟨6352 / 1000, -2177 / 1000, 0, 0, 0, 0, 0, 0, 2627 / 100⟩
    kCalc p 300 (2 * pRef) ≠ kCalc1atm p 300 ∧ kCalc p 300 pRef = kCalc1atm p 300 ∧
    kCalc (p.addScaled 2 q) 300 (2 * pRef) = kCalc p 300 (2 * pRef) + 2 * kCalc q 300 (2 * pRef) ∧
    kCalc q tRef pRef = 6352 / 1000 ∧ kCalc q 300 pRef ≠ 6352 / 1000 := by
  decide +kernel

/-! ### 6. `molalities()` -/

theorem speciate_mass_action (f : TransFns Rat) (lk lg : Rat) (la : String → Rat) (body : List (String × Rat)) :
    letI := ratOps f
    speciateLm lk lg la body + lg = lk + evalBody la body := by
  simp only [speciateLm]; grind

theorem speciate_residual (f : TransFns Rat) (K : LogK Rat → Rat) (lg : Rat) (la : String → Rat) (e : Eqn Rat) :
    letI := ratOps f
    la e.head = speciateLm (K e.k) lg la e.body + lg → residual la K e = 0 := by
  simp only [speciateLm, residual]; grind

/-! ### 7. the convergence gate -/

theorem iterate_sound (f : TransFns Rat) {σ : Type} (view : σ → GateCtx Rat × List (Unknown Rat)) (step : σ → σ)
    (fuel : Nat) (s s' : σ) :
    letI := ratOps f
    iterate view step fuel s = some s' → converged (view s').1 (view s').2 = true := by
  intro h
  induction fuel generalizing s with
  | zero =>
    simp only [iterate] at h
    split at h
    · cases h; assumption
    · cases h
  | succ n ih =>
    simp only [iterate] at h
    split at h
    · cases h; assumption
    · exact ih _ h

theorem gate_sound (f : TransFns Rat) {σ : Type} (view : σ → GateCtx Rat × List (Unknown Rat)) (step : σ → σ)
    (again : σ → Option σ) (itmax passes : Nat) (s s' : σ) :
    letI := ratOps f
    runModel view step again itmax passes s = .ok s' →
      converged (view s').1 (view s').2 = true ∧ checkResiduals (view s').1 (view s').2 = true := by
  intro h
  induction passes generalizing s with
  | zero => simp only [runModel] at h; cases h
  | succ n ih =>
    simp only [runModel] at h
    split at h
    · cases h
    · rename_i s1 hit
      split at h
      · rename_i hc
        split at h
        · cases h
          exact ⟨iterate_sound f view step itmax s _ hit, hc⟩
        · exact ih _ h
      · cases h

/-! ### 3. linear algebra of token lists -/

theorem evalBody_append (f : TransFns Rat) (v : String → Rat) (a b : List (String × Rat)) :
    letI := ratOps f; evalBody v (a ++ b) = evalBody v a + evalBody v b :=
  Speciation.evalBody_append f v a b

theorem evalBody_scaleBody (f : TransFns Rat) (v : String → Rat) (c : Rat) (b : List (String × Rat)) :
    letI := ratOps f; evalBody v (scaleBody c b) = c * evalBody v b :=
  Speciation.evalBody_scaleBody f v c b

theorem evalBody_removeName (f : TransFns Rat) (v : String → Rat) (n : String) (b : List (String × Rat)) :
    letI := ratOps f; evalBody v (removeName n b) + coefOf n b * v n = evalBody v b :=
  Speciation.evalBody_removeName f v n b

theorem evalBody_addTerm (f : TransFns Rat) (v : String → Rat) (n : String) (c : Rat) (b : List (String × Rat)) :
    letI := ratOps f; evalBody v (addTerm n c b) = evalBody v b + c * v n :=
  Speciation.evalBody_addTerm f v n c b

theorem evalBody_mergeInto (f : TransFns Rat) (v : String → Rat) (acc b : List (String × Rat)) :
    letI := ratOps f; evalBody v (mergeInto acc b) = evalBody v acc + evalBody v b :=
  Speciation.evalBody_mergeInto f v acc b

/-- `trxn_combine` does not change the value of the linear form, provided `drop` only removes exact zeros -/
theorem evalBody_normalise (f : TransFns Rat) (v : String → Rat) (drop : Rat → Bool)
    (hdrop : ∀ c, drop c = true → c = 0) (b : List (String × Rat)) :
    letI := ratOps f; evalBody v (normalise drop b) = evalBody v b :=
  Speciation.evalBody_normalise f v drop hdrop b

/-- eliminating species `n` through its defining equation `d` adds `coef(n)` times the residual of `d` -/
theorem residual_substOne (f : TransFns Rat) (la : String → Rat) (K : LogK Rat → Rat)
    (hK : letI := ratOps f; ∀ (p q : LogK Rat) (c : Rat), K (p.addScaled c q) = K p + c * K q)
    (n : String) (d e : Eqn Rat) (hd : d.head = n) :
    letI := ratOps f
    residual la K (substOne n d e) = residual la K e + coefOf n e.body * residual la K d :=
  Speciation.residual_substOne f la K hK n d e hd

/-- `rewrite_master_to_secondary`: the pivoted equation is `pm − (c1/c2)·pm0` -/
theorem residual_pivot (f : TransFns Rat) (la : String → Rat) (K : LogK Rat → Rat)
    (hK : letI := ratOps f; ∀ (p q : LogK Rat) (c : Rat), K (p.addScaled c q) = K p + c * K q)
    (p : String) (pm pm0 : Eqn Rat) :
    letI := ratOps f
    (pivot p pm pm0).head = pm.head ∧
    residual la K (pivot p pm pm0)
      = residual la K pm - (coefOf p pm.body / coefOf p pm0.body) * residual la K pm0 :=
  Speciation.residual_pivot f la K hK p pm pm0

/-! ### 4. rewriting to the masters in use preserves mass action -/

/-- main statement: for every fuel, every list, every `K` that is linear for `addScaled` (e.g. `kCalc · T P`,
`kCalc_addScaled`): the rewritten equation has the same head and the same residual -/
theorem rewrite_residual_eq (f : TransFns Rat) (drop : Rat → Bool) (inUse : String → Bool)
    (defs : String → Option (Eqn Rat)) (la : String → Rat) (K : LogK Rat → Rat)
    (hK : letI := ratOps f; ∀ (p q : LogK Rat) (c : Rat), K (p.addScaled c q) = K p + c * K q)
    (hdrop : ∀ c, drop c = true → c = 0)
    (hdefs : letI := ratOps f; ∀ n d, defs n = some d → d.head = n ∧ residual la K d = 0)
    (fuel : Nat) (e e' : Eqn Rat) :
    letI := ratOps f
    rewriteToMasters drop inUse defs fuel e = some e' →
      e'.head = e.head ∧ residual la K e' = residual la K e :=
  Speciation.rewrite_residual f drop inUse defs la K hK hdrop hdefs fuel e e'

theorem rewrite_mass_action_iff (f : TransFns Rat) (drop : Rat → Bool) (inUse : String → Bool)
    (defs : String → Option (Eqn Rat)) (la : String → Rat) (K : LogK Rat → Rat)
    (hK : letI := ratOps f; ∀ (p q : LogK Rat) (c : Rat), K (p.addScaled c q) = K p + c * K q)
    (hdrop : ∀ c, drop c = true → c = 0)
    (hdefs : letI := ratOps f; ∀ n d, defs n = some d → d.head = n ∧ residual la K d = 0)
    (fuel : Nat) (e e' : Eqn Rat) :
    letI := ratOps f
    rewriteToMasters drop inUse defs fuel e = some e' →
      (residual la K e' = 0 ↔ residual la K e = 0) := by
  intro h
  rw [(rewrite_residual_eq f drop inUse defs la K hK hdrop hdefs fuel e e' h).2]

/-- the special case `K := kCalc · T P` (any temperature, any pressure): the linearity hypothesis is `kCalc_addScaled` -/
theorem rewrite_mass_action_kCalc (f : TransFns Rat) (drop : Rat → Bool) (inUse : String → Bool)
    (defs : String → Option (Eqn Rat)) (la : String → Rat) (T P : Rat)
    (hdrop : ∀ c, drop c = true → c = 0)
    (hdefs : letI := ratOps f; ∀ n d, defs n = some d → d.head = n ∧ residual la (fun k => kCalc k T P) d = 0)
    (fuel : Nat) (e e' : Eqn Rat) :
    letI := ratOps f
    rewriteToMasters drop inUse defs fuel e = some e' →
      e'.head = e.head ∧ residual la (fun k => kCalc k T P) e' = residual la (fun k => kCalc k T P) e :=
  rewrite_residual_eq f drop inUse defs la _ (fun p q c => kCalc_addScaled f p q c T P) hdrop hdefs fuel e e'

theorem firstOut_none (inUse : String → Bool) (b : List (String × Rat)) :
    firstOut inUse b = none → ∀ p ∈ b, inUse p.1 = true :=
  Speciation.firstOut_none inUse b

/-- a successful rewrite mentions only masters in use -/
theorem rewrite_only_masters (f : TransFns Rat) (drop : Rat → Bool) (inUse : String → Bool)
    (defs : String → Option (Eqn Rat)) (fuel : Nat) (e e' : Eqn Rat) :
    letI := ratOps f
    rewriteToMasters drop inUse defs fuel e = some e' → ∀ p ∈ e'.body, inUse p.1 = true :=
  fun h => Speciation.firstOut_none inUse _ (Speciation.rewrite_firstOut f drop inUse defs fuel e e' h)

/-! ### 5. element and charge balance -/

/-- `w` = number of atoms of one element in (or charge of) each species. If every defining equation is balanced, the
rewritten right-hand side carries the same amount as the original one; hence balanced iff balanced. -/
theorem rewrite_preserves_balance (f : TransFns Rat) (drop : Rat → Bool) (inUse : String → Bool)
    (defs : String → Option (Eqn Rat)) (w : String → Rat)
    (hdrop : ∀ c, drop c = true → c = 0)
    (hdefs : letI := ratOps f; ∀ n d, defs n = some d → d.head = n ∧ evalBody w d.body = w d.head)
    (fuel : Nat) (e e' : Eqn Rat) :
    letI := ratOps f
    rewriteToMasters drop inUse defs fuel e = some e' →
      evalBody w e'.body = evalBody w e.body ∧ (evalBody w e'.body = w e'.head ↔ evalBody w e.body = w e.head) := by
  intro h
  have hh := rewrite_residual_eq f drop inUse defs w (fun _ => 0) (fun _ _ _ => by grind) hdrop
    (fun n d hd => by
      obtain ⟨h1, h2⟩ := hdefs n d hd
      refine ⟨h1, ?_⟩
      simp only [residual]; grind) fuel e e' h
  obtain ⟨h1, h2⟩ := hh
  simp only [residual] at h2
  rw [h1] at h2 ⊢
  constructor <;> grind

/-! ### 7b–8. the convergence tests, sums, read-outs -/

theorem absv_eq_abs (f : TransFns Rat) (x : Rat) : letI := ratOps f; absv x = |x| := by
  simp only [absv, NumOps.lit, NumOps.ofRat, id]
  by_cases h : x < 0
  · rw [abs_of_neg h]; grind
  · rw [abs_of_nonneg (not_lt.mp h)]; grind

theorem converged_mb (f : TransFns Rat) (c : GateCtx Rat) (us : List (Unknown Rat)) (u : Unknown Rat) :
    letI := ratOps f
    converged c us = true → u ∈ us → u.type = .mb →
      0 ≤ u.moles ∧ (absv (u.moles - u.f) ≤ c.tol * u.moles ∨
        absv (u.moles - u.f) ≤ f.sqrt (absv u.moles * c.minTotal) ∨ u.moles ≤ c.minTotal) := by
  intro h hu ht
  have h1 := (List.all_eq_true.mp h) u hu
  simp only [fails, residualOf, ht, NumOps.lit, NumOps.ofRat, NumOps.sqrt, id] at h1
  grind

theorem converged_alk (f : TransFns Rat) (c : GateCtx Rat) (us : List (Unknown Rat)) (u : Unknown Rat) :
    letI := ratOps f
    converged c us = true → u ∈ us → u.type = .alk → absv (u.moles - u.f) ≤ c.tol * u.moles := by
  intro h hu ht
  have h1 := (List.all_eq_true.mp h) u hu
  simp only [fails, residualOf, ht] at h1
  grind

theorem converged_cb (f : TransFns Rat) (c : GateCtx Rat) (us : List (Unknown Rat)) (u : Unknown Rat) :
    letI := ratOps f
    converged c us = true → u ∈ us → u.type = .cb →
      absv (if c.phIsCb then 0 - u.f + u.moles else 0 - u.f) < c.tol * c.mu * c.massWater := by
  intro h hu ht
  have h1 := (List.all_eq_true.mp h) u hu
  simp only [fails, residualOf, ht, NumOps.lit, NumOps.ofRat, id] at h1
  grind

theorem converged_mu (f : TransFns Rat) (c : GateCtx Rat) (us : List (Unknown Rat)) (u : Unknown Rat) :
    letI := ratOps f
    converged c us = true → u ∈ us → u.type = .mu →
      absv (c.massWater * c.mu - 1 / 2 * u.f) ≤ c.tol * c.mu * c.massWater := by
  intro h hu ht
  have h1 := (List.all_eq_true.mp h) u hu
  simp only [fails, residualOf, ht, NumOps.lit, NumOps.ofRat, id] at h1
  grind

theorem checkResiduals_mb (f : TransFns Rat) (c : GateCtx Rat) (us : List (Unknown Rat)) (u : Unknown Rat) :
    letI := ratOps f
    checkResiduals c us = true → u ∈ us → (u.type = .mb ∨ u.type = .alk) →
      (absv (u.moles - u.f) < c.tol * u.moles ∨
        absv (u.moles - u.f) ≤ f.sqrt (absv u.moles * c.minTotal) ∨ u.moles ≤ c.minTotal) := by
  intro h hu ht
  have h1 := (List.all_eq_true.mp h) u hu
  rcases ht with ht | ht <;>
  · simp only [checkFails, residualOf, ht, NumOps.sqrt] at h1
    grind

theorem checkResiduals_cb (f : TransFns Rat) (c : GateCtx Rat) (us : List (Unknown Rat)) (u : Unknown Rat) :
    letI := ratOps f
    checkResiduals c us = true → u ∈ us → u.type = .cb →
      absv (if c.phIsCb then 0 - u.f + u.moles else 0 - u.f) < c.tol * c.mu * c.massWater := by
  intro h hu ht
  have h1 := (List.all_eq_true.mp h) u hu
  simp only [checkFails, residualOf, ht, NumOps.lit, NumOps.ofRat, id] at h1
  grind

theorem checkResiduals_mu (f : TransFns Rat) (c : GateCtx Rat) (us : List (Unknown Rat)) (u : Unknown Rat) :
    letI := ratOps f
    checkResiduals c us = true → u ∈ us → u.type = .mu →
      absv (c.massWater * c.mu - 1 / 2 * u.f) < c.tol * c.mu * c.massWater := by
  intro h hu ht
  have h1 := (List.all_eq_true.mp h) u hu
  simp only [checkFails, residualOf, ht, NumOps.lit, NumOps.ofRat, id] at h1
  grind

theorem sumBy_append (f : TransFns Rat) (g : SpRec Rat → Rat) (a b : List (SpRec Rat)) :
    letI := ratOps f; sumBy g (a ++ b) = sumBy g a + sumBy g b := by
  induction a with
  | nil => simp only [List.nil_append, sumBy, NumOps.lit, NumOps.ofRat, id]; grind
  | cons s t ih => simp only [List.cons_append, sumBy, ih]; grind

theorem total_append (f : TransFns Rat) (elt : String) (a b : List (SpRec Rat)) :
    letI := ratOps f; total elt (a ++ b) = total elt a + total elt b :=
  sumBy_append f _ a b

theorem chargeBalance_append (f : TransFns Rat) (a b : List (SpRec Rat)) :
    letI := ratOps f; chargeBalance (a ++ b) = chargeBalance a + chargeBalance b :=
  sumBy_append f _ a b

theorem readouts_consistent (f : TransFns Rat) (la : String → Rat) (lk lm lg : Rat) (body : List (String × Rat)) :
    letI := ratOps f
    pH la = - la "H+" ∧ satIndex la lk body = evalBody la body - lk ∧
      satRatio la lk body = f.exp10 (satIndex la lk body) ∧ logActivity lm lg = lm + lg ∧
      (logActivity (speciateLm lk lg la body) lg = lk + evalBody la body) := by
  simp only [pH, satIndex, satRatio, logActivity, speciateLm, NumOps.lit, NumOps.ofRat, NumOps.exp10, id]
  grind

/-- the saturation index does not depend on the form of the phase reaction: `e` carries the reversed log K of the
phase (`trxn_reverse_k` before and after `rewrite_eqn_to_secondary` in `tidy_phases`) -/
theorem satIndex_rewrite (f : TransFns Rat) (drop : Rat → Bool) (inUse : String → Bool)
    (defs : String → Option (Eqn Rat)) (la : String → Rat) (K : LogK Rat → Rat)
    (hK : letI := ratOps f; ∀ (p q : LogK Rat) (c : Rat), K (p.addScaled c q) = K p + c * K q)
    (hdrop : ∀ c, drop c = true → c = 0)
    (hdefs : letI := ratOps f; ∀ n d, defs n = some d → d.head = n ∧ residual la K d = 0)
    (fuel : Nat) (e e' : Eqn Rat) :
    letI := ratOps f
    rewriteToMasters drop inUse defs fuel e = some e' →
      satIndex la (-(K e'.k)) e'.body = satIndex la (-(K e.k)) e.body := by
  intro h
  obtain ⟨h1, h2⟩ := Speciation.rewrite_residual f drop inUse defs la K hK hdrop hdefs fuel e e' h
  simp only [residual, satIndex] at h2 ⊢
  rw [h1] at h2
  grind

/-! ### 8b. redox couples: solving the pivoted equation for the electron (`tidy_redox`: `trxn_swap("e-")`) -/

theorem kCalc_smul (f : TransFns Rat) (r : Rat) (k : LogK Rat) (T P : Rat) :
    letI := ratOps f
    kCalc (LogK.smul r k) T P = r * kCalc k T P := by
  simp only [kCalc, LogK.smul, NumOps.lit, NumOps.ofRat, NumOps.log10, NumOps.ln, id]
  grind

/-- solving an equation for a species with non-zero coefficient `c` scales its residual by `−1/c`: the electron equation
of a redox couple holds iff the pivoted couple equation does -/
theorem residual_solveFor (f : TransFns Rat) (la : String → Rat) (K : LogK Rat → Rat)
    (hK : letI := ratOps f; ∀ (r : Rat) (k : LogK Rat), K (LogK.smul r k) = r * K k)
    (n : String) (e : Eqn Rat) (hc : letI := ratOps f; coefOf n e.body ≠ 0) :
    letI := ratOps f
    (solveFor n e).head = n ∧
    residual la K (solveFor n e) = (0 - 1 / coefOf n e.body) * residual la K e := by
  refine ⟨rfl, ?_⟩
  have h := Speciation.evalBody_removeName f la n e.body
  simp only [residual, solveFor, hK, Speciation.evalBody_scaleBody, evalBody, NumOps.lit, NumOps.ofRat, id] at h ⊢
  grind

/-- the O(0)/O(-2) couple of phreeqc.dat: `2 H2O = O2 + 4 H+ + 4 e-` solved for `e-` -/
example : letI := ratOps (⟨id, id, id, id, id, id, id, id, id, id⟩ : TransFns Rat)
    let o2 : Eqn Rat := ⟨"O2", [("H2O", 2), ("H+", -4), ("e-", -4)], ⟨-8608 / 100, 0, 0, 0, 0, 0, 0, 0, 0⟩⟩
    let e := solveFor "e-" o2
    e.head = "e-" ∧ coefOf "O2" e.body = -1 / 4 ∧ coefOf "H+" e.body = -1 ∧ coefOf "H2O" e.body = 1 / 2
      ∧ e.k.k0 = -2152 / 100 := by
  decide +kernel

/-! ### 9. non-vacuity: a small carbonate network, and the gate on a two-unknown state -/

namespace Ex
/-- dummy transcendental functions for the concrete instances -/
def f0 : TransFns Rat := ⟨id, id, id, id, id, id, id, id, id, id⟩

def lk0 (k0 : Rat) : LogK Rat := ⟨k0, 0, 0, 0, 0, 0, 0, 0, 0⟩

def inUse (n : String) : Bool := n == "H+" || n == "H2O" || n == "CO3-2" || n == "Ca+2"

def hco3 : Eqn Rat := ⟨"HCO3-", [("CO3-2", 1), ("H+", 1)], lk0 (10329 / 1000)⟩
def co2 : Eqn Rat := ⟨"CO2", [("HCO3-", 1), ("H+", 1), ("H2O", -1)], lk0 (6352 / 1000)⟩
def cahco3 : Eqn Rat := ⟨"CaHCO3+", [("Ca+2", 1), ("HCO3-", 1)], lk0 (1106 / 1000)⟩

def defs (n : String) : Option (Eqn Rat) :=
  if n == "HCO3-" then some hco3 else if n == "CO2" then some co2 else if n == "CaHCO3+" then some cahco3 else none

def la (n : String) : Rat :=
  if n == "H+" then -7 else if n == "CO3-2" then -5 else if n == "H2O" then 0 else if n == "Ca+2" then -3
  else if n == "HCO3-" then 10329 / 1000 - 12
  else if n == "CO2" then 6352 / 1000 + 10329 / 1000 - 19
  else if n == "CaHCO3+" then 1106 / 1000 + 10329 / 1000 - 15
  else 0

def K (k : LogK Rat) : Rat := k.k0
def drop0 (c : Rat) : Bool := c == 0

def view3 (e : Eqn Rat) : String × List (String × Rat) × Rat := (e.head, e.body, e.k.k0)
end Ex

open Ex in
example : letI := ratOps f0
    (rewriteToMasters drop0 inUse defs 20 co2).map view3
      = some ("CO2", [("H+", 2), ("H2O", -1), ("CO3-2", 1)], 10329 / 1000 + 6352 / 1000) := by
  decide +kernel

open Ex in
/-- CaHCO3+ (defined through the non-master HCO3-) in terms of the masters in use -/
example : letI := ratOps f0
    (rewriteToMasters drop0 inUse defs 20 cahco3).map view3
      = some ("CaHCO3+", [("Ca+2", 1), ("CO3-2", 1), ("H+", 1)], 1106 / 1000 + 10329 / 1000) := by
  decide +kernel

open Ex in
/-- fuel exhausted / species without defining equation: `none` -/
example : letI := ratOps f0
    (rewriteToMasters drop0 inUse defs 0 co2).map view3 = none ∧
    (rewriteToMasters drop0 inUse defs 20 ⟨"X", [("Y", 1)], lk0 0⟩).map view3 = none := by
  decide +kernel

open Ex in
theorem Ex.hK : letI := ratOps f0; ∀ (p q : LogK Rat) (c : Rat), K (p.addScaled c q) = K p + c * K q :=
  fun _ _ _ => rfl

open Ex in
theorem Ex.hdrop : ∀ c, drop0 c = true → c = 0 := by
  intro c h; simpa [drop0] using h

open Ex in
theorem Ex.hdefs : letI := ratOps f0; ∀ n d, defs n = some d → d.head = n ∧ residual la K d = 0 := by
  intro n d h
  unfold defs at h
  split at h
  · rename_i hn; cases h; exact ⟨(eq_of_beq hn).symm, by decide +kernel⟩
  · split at h
    · rename_i hn; cases h; exact ⟨(eq_of_beq hn).symm, by decide +kernel⟩
    · split at h
      · rename_i hn; cases h; exact ⟨(eq_of_beq hn).symm, by decide +kernel⟩
      · cases h

open Ex in
/-- all hypotheses of `rewrite_mass_action_iff` hold on the carbonate network; its conclusion, obtained from the theorem,
agrees with direct evaluation -/
example : letI := ratOps f0
    ∃ e', rewriteToMasters drop0 inUse defs 20 co2 = some e' ∧ e'.head = "CO2" ∧
      residual la K e' = 0 ∧ (∀ p ∈ e'.body, inUse p.1 = true) := by
  cases h : @rewriteToMasters Rat (ratOps f0) drop0 inUse defs 20 co2 with
  | none => exact absurd h (by decide +kernel)
  | some e' =>
    have h1 := rewrite_residual_eq f0 drop0 inUse defs la K Ex.hK Ex.hdrop Ex.hdefs 20 co2 e' h
    have h2 := rewrite_only_masters f0 drop0 inUse defs 20 co2 e' h
    have h3 : @residual Rat (ratOps f0) la K co2 = 0 := by decide +kernel
    exact ⟨e', rfl, h1.1, by rw [h1.2, h3], h2⟩

open Ex in
example : letI := ratOps f0
    (rewriteToMasters drop0 inUse defs 20 co2).map
        (fun e => (coefOf "H+" e.body, coefOf "CO3-2" e.body, coefOf "H2O" e.body, coefOf "HCO3-" e.body, residual la K e))
      = some (2, 1, -1, 0, 0) := by
  decide +kernel

namespace Ex
def ctx : GateCtx Rat := ⟨1 / 1000, 1 / 1000000000000000, 1 / 10, 1, false, false⟩
/-- state = iteration counter; the mass-balance sum reaches the total at the third step; `fmu` = `Σ z²·moles` -/
def view (fmu : Rat) (s : Nat) : GateCtx Rat × List (Unknown Rat) :=
  (ctx, [⟨.mb, 1 / 1000, if s < 3 then 2 / 1000 else 1 / 1000, 0, 0⟩, ⟨.mu, 0, fmu, 0, 0⟩])
def Outcome.toOption {σ : Type} : Outcome σ → Option σ
  | .ok s => some s
  | .error => none
end Ex

open Ex in
/-- the gate lets a state through (`ok 3`); too few iterations: error; an ionic-strength residual exactly AT the tolerance
passes `residuals()` (not converged only when `tol·μ·W < |r|`) but not `check_residuals()` (ERROR when `tol·μ·W ≤ |r|`): error -/
example : letI := ratOps f0
    Outcome.toOption (runModel (view (2 / 10)) (· + 1) (fun _ => none) 10 2 0) = some 3 ∧
    Outcome.toOption (runModel (view (2 / 10)) (· + 1) (fun _ => none) 2 2 0) = none ∧
    converged (view (1998 / 10000) 3).1 (view (1998 / 10000) 3).2 = true ∧
    checkResiduals (view (1998 / 10000) 3).1 (view (1998 / 10000) 3).2 = false ∧
    Outcome.toOption (runModel (view (1998 / 10000)) (· + 1) (fun _ => none) 10 2 0) = none ∧
    -- a second pass requested once by `again`
    Outcome.toOption (runModel (view (2 / 10)) (· + 1) (fun s => if s < 5 then some 5 else none) 10 2 0) = some 5 ∧
    Outcome.toOption (runModel (view (2 / 10)) (· + 1) (fun s => if s < 5 then some 5 else none) 10 1 0) = none := by
  decide +kernel

open Ex in
/-- `gate_sound` applied to the passing run -/
example : letI := ratOps f0
    converged (view (2 / 10) 3).1 (view (2 / 10) 3).2 = true ∧ checkResiduals (view (2 / 10) 3).1 (view (2 / 10) 3).2 = true := by
  have h : @runModel Rat (ratOps f0) Nat _ _ (view (2 / 10)) (· + 1) (fun _ => none) 10 2 0 = .ok 3 := by
    have : Outcome.toOption (@runModel Rat (ratOps f0) Nat _ _ (view (2 / 10)) (· + 1) (fun _ => none) 10 2 0) = some 3 := by
      decide +kernel
    revert this
    cases @runModel Rat (ratOps f0) Nat _ _ (view (2 / 10)) (· + 1) (fun _ => none) 10 2 0 with
    | ok s => intro h; simp only [Outcome.toOption, Option.some.injEq] at h; rw [h]
    | error => intro h; cases h
  exact gate_sound f0 _ _ _ 10 2 0 3 h

end PhreeqcVerif.C01
