#!/usr/bin/env python3
"""Run checks against a scratch worktree of /repo with a patch applied (fully isolated: private build/lean/evidence dirs).
usage: muttest.py <patch.diff> <prop> [<prop> ...] [--thorough] [--keep]"""
import os
import shutil
import subprocess
import sys
from pathlib import Path

ROOT = Path(__file__).resolve().parent.parent


def sh(cmd, **kw):
    return subprocess.run(cmd, shell=True, text=True, capture_output=True, **kw)


def main():
    args = sys.argv[1:]
    tier = "thorough" if "--thorough" in args else "quick"
    keep = "--keep" in args
    args = [a for a in args if not a.startswith("--")]
    patch, props = Path(args[0]).resolve(), args[1:]
    scratch = Path("/var/tmp/mut") / (patch.stem + "_" + str(os.getpid()))
    shutil.rmtree(scratch, ignore_errors=True)
    scratch.mkdir(parents=True)
    sh(f"git -C /repo worktree add --detach {scratch}/repo HEAD")
    a = sh(f"git -C {scratch}/repo apply {patch}")
    if a.returncode:
        print("patch does not apply:", a.stderr)
        sh(f"git -C /repo worktree remove --force {scratch}/repo")
        return 2
    sh(f"rsync -a --exclude .lake/build/bin {ROOT}/lean/ {scratch}/lean/")
    env = dict(os.environ, VERIF_REPO=f"{scratch}/repo", VERIF_LEAN=f"{scratch}/lean", VERIF_BUILD=f"{scratch}/build",
               VERIF_EVID=f"{scratch}/ev", VERIF_REPLAYS=f"{scratch}/rp")
    rc = 0
    try:
        for p in props:
            r = sh(f"python3 {ROOT}/tools/vcheck.py --prop {p} --tier {tier}", cwd=ROOT, timeout=7200, env=env)
            lines = [l for l in r.stdout.splitlines() if l.startswith("VIOLATION") or "violation:" in l or " OK:" in l or "PROOF BROKEN" in l]
            print(p, "exit", r.returncode)
            for l in lines[:6]:
                print("   ", l[:300])
            if r.returncode not in (0, 1):
                print(r.stdout[-1500:], r.stderr[-1500:])
            rc = max(rc, r.returncode)
    finally:
        if not keep:
            sh(f"git -C /repo worktree remove --force {scratch}/repo")
            shutil.rmtree(scratch, ignore_errors=True)
            sh("git -C /repo worktree prune")
    return rc


if __name__ == "__main__":
    sys.exit(main())
