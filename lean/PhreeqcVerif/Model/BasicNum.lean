/-! Number type of the BASIC interpreter model (C17).

The interpreter (`Model/BasicExpr.lean`, `Model/BasicExec.lean`) is written once over a type `α` with `[BNum α]`:

* `BNum Float` executes it — IEEE double, the platform libm (same as the C++), C's `(long)` cast, `fmod`,
  `strtod` (correctly rounded decimal → double, done here in exact `Nat` arithmetic) and
  `PBasic::numtostr` (`%12.0f` / `%12.4e` / `%20.12e`, done here in exact arithmetic);
* `ratNum F` is `Rat` (exact arithmetic) with *uninterpreted* transcendental functions and formatting `F`;
  the theorems about loops (`for_iterations`) are stated for it, for every `F`.

Core Lean only. -/
namespace PhreeqcVerif.Basic

/-- the one-argument numeric functions of `PBasic::factor` that need libm -/
inductive Fn1 where
  | sqrt | exp | ln | log10 | sin | cos | atan | floor | ceil | abs
deriving DecidableEq, Repr

class BNum (α : Type) where
  ofInt : Int → α
  /-- `m · 10^e` as the C library's `strtod` delivers it -/
  ofDec : Nat → Int → α
  add : α → α → α
  sub : α → α → α
  mul : α → α → α
  div : α → α → α
  neg : α → α
  /-- C comparison operators (`false` on NaN) -/
  lt : α → α → Bool
  le : α → α → Bool
  eq : α → α → Bool
  isNaN : α → Bool
  fn1 : Fn1 → α → α
  fmod : α → α → α
  /-- C's `(long) x` (truncation toward zero); `none` when the value is not representable (undefined in C) -/
  toLong : α → Option Int
  /-- `PBasic::numtostr` (`hp` = high precision of the current selected output) -/
  fmt : Bool → α → String
  /-- `m · 2^e` (hexadecimal floating literals of `strtod`) -/
  ofBin : Nat → Int → α
  /-- C `snprintf("%*.*f" / "%*.*e", width, prec, x)` (`STR_F$`, `STR_E$`; `isE` selects `%e`), cut to `cap` characters -/
  fmtC : Bool → Int → Int → Nat → α → String

namespace BNum
variable {α : Type} [BNum α]
def zero : α := BNum.ofInt 0
def one : α := BNum.ofInt 1
def gt (a b : α) : Bool := BNum.lt b a
def ge (a b : α) : Bool := BNum.le b a
def ne0 (a : α) : Bool := !(BNum.eq a (zero))
def ofBool (b : Bool) : α := if b then one else zero
end BNum

/-! ### exact helpers for `Float` -/

def pow2 (k : Nat) : Nat := 1 <<< k
def pow10 (k : Nat) : Nat := 10 ^ k

/-- correctly rounded (to nearest, ties to even) double of the non-negative rational `n / d`, `d > 0` -/
def ratToFloat (n d : Nat) : Float :=
  if n = 0 then 0.0 else
  let ln : Int := Int.ofNat (Nat.log2 n)
  let ld : Int := Int.ofNat (Nat.log2 d)
  let k : Int := ln - ld
  -- fl = ⌊log2 (n/d)⌋
  let fl : Int := if n * pow2 (-k).toNat ≥ d * pow2 k.toNat then k else k - 1
  let e : Int := if fl - 52 < -1074 then -1074 else fl - 52
  let num := n * pow2 (-e).toNat
  let den := d * pow2 e.toNat
  let q := num / den
  let r := num % den
  let q := if 2 * r > den ∨ (2 * r = den ∧ q % 2 = 1) then q + 1 else q
  Float.scaleB (Float.ofNat q) e

/-- `m · 10^e` correctly rounded -/
def decToFloat (m : Nat) (e : Int) : Float :=
  if e ≥ 0 then
    (if e > 400 then (if m = 0 then 0.0 else Float.scaleB 1.0 2000) else ratToFloat (m * pow10 e.toNat) 1)
  else if -e > 800 then (if m = 0 then 0.0 else ratToFloat m (pow10 800 * pow10 800)) else ratToFloat m (pow10 (-e).toNat)

/-- finite `x`: `(negative, mantissa, exponent)` with `|x| = mantissa · 2^exponent` -/
def decodeFloat (x : Float) : Bool × Nat × Int :=
  let b := x.toBits.toNat
  let neg := b >>> 63 = 1
  let eb := (b >>> 52) % 2048
  let fr := b % pow2 52
  if eb = 0 then (neg, fr, -1074) else (neg, fr + pow2 52, Int.ofNat eb - 1075)

def isFiniteF (x : Float) : Bool := !x.isNaN && !x.isInf

/-- C `fmod` (exact) -/
def fmodFloat (x y : Float) : Float :=
  if x.isNaN || y.isNaN || x.isInf || y == 0.0 then (0.0 / 0.0 : Float)
  else if y.isInf then x
  else
    let (nx, mx, ex) := decodeFloat x
    let (_, my, ey) := decodeFloat y
    let e := if ex < ey then ex else ey
    let X := mx * pow2 (ex - e).toNat
    let Y := my * pow2 (ey - e).toNat
    let r := X % Y
    -- r · 2^e is exactly representable
    let v := if e ≥ 0 then ratToFloat (r * pow2 e.toNat) 1 else ratToFloat r (pow2 (-e).toNat)
    if r = 0 then (if nx then -0.0 else 0.0) else if nx then -v else v

def two63 : Float := 9223372036854775808.0

def toLongFloat (x : Float) : Option Int :=
  if x.isNaN then none
  else if x >= two63 || x < -two63 then none
  else some (x.toInt64.toInt)

def padLeft (w : Nat) (s : String) : String :=
  String.ofList (List.replicate (w - s.length) ' ') ++ s

/-- digits of `n` padded with leading zeros to at least `w` -/
def zpad (w : Nat) (n : Nat) : String :=
  let s := toString n
  String.ofList (List.replicate (w - s.length) '0') ++ s

/-- `%.{p}e` of the positive rational `n/d` (without sign, without padding) -/
def fmtExpRat (p : Nat) (n d : Nat) : String :=
  -- E = ⌊log10 (n/d)⌋ : estimate from the binary logarithms, then correct
  let ge10 (E : Int) : Bool := if E ≥ 0 then n ≥ d * pow10 E.toNat else n * pow10 (-E).toNat ≥ d
  let est : Int := ((Int.ofNat (Nat.log2 n) - Int.ofNat (Nat.log2 d)) * 30103) / 100000
  let rec down (fuel : Nat) (E : Int) : Int := match fuel with
    | 0 => E
    | f + 1 => if ge10 E then E else down f (E - 1)
  let rec up (fuel : Nat) (E : Int) : Int := match fuel with
    | 0 => E
    | f + 1 => if ge10 (E + 1) then up f (E + 1) else E
  let E := up 8 (down 8 (est + 2))
  let s : Int := E - Int.ofNat p
  let num := n * pow10 (-s).toNat
  let den := d * pow10 s.toNat
  let q := num / den
  let r := num % den
  let q := if 2 * r > den ∨ (2 * r = den ∧ q % 2 = 1) then q + 1 else q
  let (q, E) := if q ≥ pow10 (p + 1) then (q / 10, E + 1) else (q, E)
  let ds := zpad (p + 1) q
  let mant := String.ofList (ds.toList.take 1) ++ (if p = 0 then "" else "." ++ String.ofList (ds.toList.drop 1))
  mant ++ "e" ++ (if E < 0 then "-" else "+") ++ zpad 2 E.natAbs

/-- `PBasic::numtostr` for a double (after commit 6a43cdaf: a `%.0f` text longer than 255 characters is
re-formatted in exponent form) -/
def fmtFloat (hp : Bool) (x : Float) : String :=
  let w := if hp then 20 else 12
  let p := if hp then 12 else 4
  if x.isNaN then padLeft w "nan"
  else if x.isInf then padLeft w (if x < 0.0 then "-inf" else "inf")
  else
    let (neg, m, e) := decodeFloat x
    let sgn := if neg then "-" else ""
    let expForm : String :=
      if m = 0 then padLeft w (sgn ++ fmtExpRat p 0 1)   -- not reached: zero is integral
      else padLeft w (sgn ++ (if e ≥ 0 then fmtExpRat p (m * pow2 e.toNat) 1 else fmtExpRat p m (pow2 (-e).toNat)))
    let integral : Bool := m = 0 || e ≥ 0 || m % pow2 (-e).toNat = 0
    if integral then
      let v := if e ≥ 0 then m * pow2 e.toNat else m / pow2 (-e).toNat
      let s := padLeft w (sgn ++ toString v)
      if s.length > 255 then expForm else s
    else expForm

/-- `%.{p}f` of the non-negative rational `n/d` -/
def fmtFixRat (p : Nat) (n d : Nat) : String :=
  let num := n * pow10 p
  let q := num / d
  let r := num % d
  let q := if 2 * r > d ∨ (2 * r = d ∧ q % 2 = 1) then q + 1 else q
  let ip := q / pow10 p
  if p = 0 then toString ip else toString ip ++ "." ++ zpad p (q % pow10 p)

/-- C `printf("%*.*f" | "%*.*e", w, p, x)` then truncation to `cap` characters (`snprintf` buffer) -/
def fmtCFloat (isE : Bool) (w p : Int) (cap : Nat) (x : Float) : String :=
  let prec : Nat := if p < 0 then 6 else p.toNat          -- a negative precision is taken as if omitted
  let body : String :=
    if x.isNaN then "nan"
    else if x.isInf then (if x < 0.0 then "-inf" else "inf")
    else
      let (neg, m, e) := decodeFloat x
      let sgn := if neg then "-" else ""
      let (n, d) : Nat × Nat := if e ≥ 0 then (m * pow2 e.toNat, 1) else (m, pow2 (-e).toNat)
      if isE then
        (if m = 0 then sgn ++ (if prec = 0 then "0" else "0." ++ zpad prec 0) ++ "e+00" else sgn ++ fmtExpRat prec n d)
      else sgn ++ fmtFixRat prec n d
  let width := w.natAbs
  let padded :=
    if body.length ≥ width then body
    else if w < 0 then body ++ String.ofList (List.replicate (width - body.length) ' ')
    else String.ofList (List.replicate (width - body.length) ' ') ++ body
  String.ofList (padded.toList.take cap)

def fn1Float : Fn1 → Float → Float
  | .sqrt, x => Float.sqrt x
  | .exp, x => Float.exp x
  | .ln, x => Float.log x
  | .log10, x => Float.log10 x
  | .sin, x => Float.sin x
  | .cos, x => Float.cos x
  | .atan, x => Float.atan x
  | .floor, x => Float.floor x
  | .ceil, x => Float.ceil x
  | .abs, x => Float.abs x

def intToFloat (i : Int) : Float :=
  if i < 0 then -(ratToFloat i.natAbs 1) else ratToFloat i.natAbs 1

instance : BNum Float where
  ofInt := intToFloat
  ofDec := decToFloat
  add := (· + ·)
  sub := (· - ·)
  mul := (· * ·)
  div := (· / ·)
  neg := fun x => -x
  lt := fun a b => a < b
  le := fun a b => a <= b
  eq := fun a b => a == b
  isNaN := Float.isNaN
  fn1 := fn1Float
  fmod := fmodFloat
  toLong := toLongFloat
  fmt := fmtFloat
  ofBin := fun m e => if e ≥ 0 then (if e > 2000 then (if m = 0 then 0.0 else Float.scaleB 1.0 3000) else ratToFloat (m * pow2 e.toNat) 1)
                      else (if -e > 3000 then (if m = 0 then 0.0 else ratToFloat m (pow2 3000 * pow2 3000)) else ratToFloat m (pow2 (-e).toNat))
  fmtC := fmtCFloat

/-! ### exact arithmetic: `Rat` with uninterpreted libm functions -/

structure RatFns where
  f1 : Fn1 → Rat → Rat
  fmod0 : Rat → Rat          -- value of `fmod x 0`
  fmt : Bool → Rat → String
  fmtC : Bool → Int → Int → Nat → Rat → String

def ratTrunc (q : Rat) : Int := if q < 0 then -((-q).floor) else q.floor

@[reducible] def ratNum (F : RatFns) : BNum Rat where
  ofInt := fun i => (i : Rat)
  ofDec := fun m e => if e ≥ 0 then (m : Rat) * ((10 : Rat) ^ e.toNat) else (m : Rat) / ((10 : Rat) ^ (-e).toNat)
  add := (· + ·)
  sub := (· - ·)
  mul := (· * ·)
  div := (· / ·)
  neg := fun x => -x
  lt := fun a b => decide (a < b)
  le := fun a b => decide (a ≤ b)
  eq := fun a b => decide (a = b)
  isNaN := fun _ => false
  fn1 := F.f1
  fmod := fun a b => if b = 0 then F.fmod0 a else a - (ratTrunc (a / b) : Rat) * b
  toLong := fun q => some (ratTrunc q)
  fmt := F.fmt
  ofBin := fun m e => if e ≥ 0 then (m : Rat) * ((2 : Rat) ^ e.toNat) else (m : Rat) / ((2 : Rat) ^ (-e).toNat)
  fmtC := F.fmtC

end PhreeqcVerif.Basic
