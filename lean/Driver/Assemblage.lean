/-! `pmodel assemblage`: line-protocol driver (stub — replaced by the owner of this model). -/
namespace Driver.Assemblage

def run : IO Unit := IO.eprintln "pmodel assemblage: not implemented"

end Driver.Assemblage
