import PhreeqcVerif.Model.Inventory
/-! Lemmas about `NameDouble.get` (amount stored under a key) on contribution lists and on the maps built by `add`,
and the bookkeeping lemmas of `Totals` and of the phase transfers of `add_pp_assemblage` / `add_ss_assemblage`. -/
namespace PhreeqcVerif.NameDouble

theorem get_nil (e : String) : get [] e = 0 := rfl

theorem get_cons (k : String) (v : Rat) (t : ND) (e : String) :
    get ((k, v) :: t) e = (if k = e then v else 0) + get t e := rfl

theorem get_append (a b : ND) (e : String) : get (a ++ b) e = get a e + get b e := by
  induction a with
  | nil => simp only [List.nil_append, get]; grind
  | cons p t ih =>
    obtain ⟨k, v⟩ := p
    simp only [List.cons_append, get_cons, ih]
    grind

theorem get_add (m : ND) (k : String) (v : Rat) (e : String) :
    get (add m k v) e = get m e + (if k = e then v else 0) := by
  induction m with
  | nil => simp only [add, get]; grind
  | cons p t ih =>
    obtain ⟨k', v'⟩ := p
    simp only [add]
    by_cases h1 : k = k'
    · subst h1
      simp only [if_true, get_cons]
      grind
    · simp only [h1, if_false]
      by_cases h2 : k < k'
      · simp only [h2, if_true, get_cons]
        grind
      · simp only [h2, if_false, get_cons, ih]
        grind

theorem get_foldl_add (l : List (String × Rat)) : ∀ (m : ND) (e : String),
    get (l.foldl (fun acc p => add acc p.1 p.2) m) e = get m e + get l e := by
  induction l with
  | nil => intro m e; simp only [List.foldl_nil, get]; grind
  | cons p t ih =>
    intro m e
    obtain ⟨k, v⟩ := p
    simp only [List.foldl_cons, ih, get_add, get_cons]
    grind

/-- the map built from a contribution list stores, under every key, the sum of the contributions -/
theorem get_ofList (l : List (String × Rat)) (e : String) : get (ofList l) e = get l e := by
  simp only [ofList, get_foldl_add, get]; grind

theorem get_map_mul (l : List (String × Rat)) (x : Rat) (e : String) :
    get (l.map fun p => (p.1, p.2 * x)) e = get l e * x := by
  induction l with
  | nil => simp [get]
  | cons p t ih =>
    obtain ⟨k, v⟩ := p
    simp only [List.map_cons, get_cons, ih]
    grind

theorem get_multiply (m : ND) (f : Rat) (e : String) : get (multiply m f) e = get m e * f := get_map_mul m f e

theorem get_addExtensive (m a : ND) (f : Rat) (e : String) : get (addExtensive m a f) e = get m e + get a e * f := by
  unfold addExtensive
  by_cases h : f = 0
  · rw [if_pos h, h]; grind
  · simp only [h, if_false]
    have : ∀ (l : ND) (m : ND), get (l.foldl (fun acc p => add acc p.1 (p.2 * f)) m) e = get m e + get l e * f := by
      intro l
      induction l with
      | nil => intro m; simp only [List.foldl_nil, get]; grind
      | cons p t ih =>
        intro m
        obtain ⟨k, v⟩ := p
        simp only [List.foldl_cons, ih, get_add, get_cons]
        grind
    exact this a m

theorem get_flatMap_cons {α} (f : α → ND) (a : α) (l : List α) (e : String) :
    get ((a :: l).flatMap f) e = get (f a) e + get (l.flatMap f) e := by
  simp [List.flatMap_cons, get_append]

theorem get_flatMap_append {α} (f : α → ND) (l1 l2 : List α) (e : String) :
    get ((l1 ++ l2).flatMap f) e = get (l1.flatMap f) e + get (l2.flatMap f) e := by
  simp [List.flatMap_append, get_append]

theorem get_perm {l1 l2 : ND} (h : l1.Perm l2) (e : String) : get l1 e = get l2 e := by
  induction h with
  | nil => rfl
  | cons x _ ih => obtain ⟨k, v⟩ := x; simp only [get_cons, ih]
  | swap x y l => obtain ⟨k, v⟩ := x; obtain ⟨k', v'⟩ := y; simp only [get_cons]; grind
  | trans _ _ ih1 ih2 => exact ih1.trans ih2

theorem get_flatMap_perm {α} (f : α → ND) {l1 l2 : List α} (h : l1.Perm l2) (e : String) :
    get (l1.flatMap f) e = get (l2.flatMap f) e := by
  induction h with
  | nil => rfl
  | cons x _ ih => simp only [get_flatMap_cons, ih]
  | swap x y l => simp only [get_flatMap_cons]; grind
  | trans _ _ ih1 ih2 => exact ih1.trans ih2

end PhreeqcVerif.NameDouble

namespace PhreeqcVerif.Inventory
open PhreeqcVerif.NameDouble

theorem Totals.get_addElt (t : Totals) (k : String) (v : Rat) (e : String) :
    (t.addElt k v).get e = t.get e + (if k = e then v else 0) := by
  unfold Totals.addElt Totals.get Totals.asList
  by_cases h1 : k = "H"
  · subst h1; simp only [if_true, List.cons_append, List.nil_append, get_cons]; grind
  · simp only [h1, if_false]
    by_cases h2 : k = "O"
    · subst h2; simp only [if_true, List.cons_append, List.nil_append, get_cons]; grind
    · simp only [h2, if_false]
      by_cases h3 : k = "Charge"
      · subst h3; simp only [if_true, List.cons_append, List.nil_append, get_cons]; grind
      · simp only [h3, if_false, List.cons_append, List.nil_append, get_cons, get_add]; grind

theorem Totals.get_addList (l : List (String × Rat)) : ∀ (t : Totals) (e : String),
    (t.addList l).get e = t.get e + NameDouble.get l e := by
  induction l with
  | nil => intro t e; simp only [Totals.addList, List.foldl_nil, NameDouble.get]; grind
  | cons p rest ih =>
    intro t e
    obtain ⟨k, v⟩ := p
    have := ih (t.addElt k v) e
    simp only [Totals.addList, List.foldl_cons] at this ⊢
    rw [this, Totals.get_addElt, get_cons]
    grind

theorem Totals.get_empty (e : String) : ({} : Totals).get e = 0 := by
  simp [Totals.get, Totals.asList, NameDouble.get]; grind

theorem get_amountContribs (a : Amount) (e : String) :
    NameDouble.get (amountContribs a) e = NameDouble.get a.formula e * a.moles := get_map_mul a.formula a.moles e

/-- moving `d` moles of a phase into the totals changes nothing in the sum -/
theorem transferOne_conserves (minTotal : Rat) (t : Totals) (a : Amount) (e : String) :
    (transferOne minTotal t a).1.get e + NameDouble.get (amountContribs (transferOne minTotal t a).2) e =
      t.get e + NameDouble.get (amountContribs a) e := by
  unfold transferOne
  by_cases hp : a.precipOnly = true
  · simp [hp]
  · simp only [hp, Bool.false_eq_true, if_false]
    by_cases hd : amountToAdd minTotal t a > 0
    · simp only [hd, if_true, Totals.get_addList, get_amountContribs, get_map_mul]
      grind
    · simp only [hd, if_false]

theorem transferAll_conserves (minTotal : Rat) (l : List Amount) : ∀ (t : Totals) (e : String),
    (transferAll minTotal t l).1.get e + NameDouble.get ((transferAll minTotal t l).2.flatMap amountContribs) e =
      t.get e + NameDouble.get (l.flatMap amountContribs) e := by
  induction l with
  | nil => intro t e; simp [transferAll]
  | cons a rest ih =>
    intro t e
    simp only [transferAll, get_flatMap_cons]
    have h1 := transferOne_conserves minTotal t a e
    have h2 := ih (transferOne minTotal t a).1 e
    grind

end PhreeqcVerif.Inventory
