"""Seeded generators of PHREEQC input text (phreeqc.dat vocabulary). Every choice comes from the rng passed in."""

ELTS = ["Na", "K", "Ca", "Mg", "Cl", "S(6)", "C(4)", "N(5)", "Fe", "Al", "Si", "Ba", "Sr", "F", "Br", "Mn", "Li", "B", "P", "Zn"]
MINERALS = ["Calcite", "Dolomite", "Gypsum", "Halite", "Quartz", "Barite", "Fluorite", "Anhydrite", "Aragonite",
            "Celestite", "Siderite", "Gibbsite", "Kaolinite", "Chalcedony", "Goethite"]
GASES = ["CO2(g)", "O2(g)", "N2(g)", "CH4(g)", "H2O(g)", "H2(g)"]
SPECIES = ["Na+", "Cl-", "Ca+2", "HCO3-", "CO3-2", "OH-", "H+", "SO4-2", "K+", "Mg+2", "CaSO4", "NaCl"]


def solution(rng, n, elts=None, units=None, extra=""):
    elts = elts if elts is not None else rng.sample(ELTS[:12], rng.randint(1, 5))
    s = [f"SOLUTION {n}"]
    s.append(f" temp {rng.choice([25, 25, 10, 40, 60, 5, 80])}")
    s.append(f" pH {rng.uniform(4, 10):.3f}")
    if rng.random() < 0.3:
        s.append(f" pe {rng.uniform(-2, 12):.2f}")
    if units:
        s.append(f" units {units}")
    for e in elts:
        s.append(f" {e} {10 ** rng.uniform(-3, 0.3):.5g}")
    if extra:
        s.append(extra)
    return "\n".join(s) + "\n"


def user_punch(rng, n):
    nh = rng.randint(0, 4)
    nv = rng.randint(0, 4)
    heads = rng.sample(["a", "b", "c", "pH", "tot_Na", "x y", "a"], nh) if nh else []
    vals = []
    for _ in range(nv):
        vals.append(rng.choice(["1", "-LA(\"H+\")", "TOT(\"Na\")", "\"str\"", "MU", "2/3", "SIM_NO", "1e-30", "\"\"", "STEP_NO"]))
    s = [f"USER_PUNCH {n}"]
    if heads:
        s.append(" -headings " + " ".join(h.replace(" ", "_") for h in heads))
    if rng.random() < 0.2:
        # a long punched string: the formatting buffers of fpunchf grow at 2048 / 4096 bytes
        L = rng.choice([100, 2035, 2036, 2047, 2048, 2049, 4083, 4084, 4095, 4096, 4097, 5000, 9000])
        s.append(' 1 a$ = ""')
        s.append(f" 2 FOR i = 1 TO {L}")
        s.append(' 3 a$ = a$ + "y"')
        s.append(" 4 NEXT i")
        vals.insert(rng.randint(0, len(vals)), "a$")
    if vals and rng.random() < 0.1:
        s.append(" 10 PUNCH " + ", ".join(vals) + ", NO_NEWLINE$")
    elif vals:
        s.append(" 10 PUNCH " + ", ".join(vals))
    else:
        s.append(" 10 REM nothing")
    return "\n".join(s) + "\n"


def selected_output(rng, n):
    s = [f"SELECTED_OUTPUT {n}"]
    if rng.random() < 0.25:
        s.append(" -reset false")
    if rng.random() < 0.3:
        s.append(f" -high_precision {rng.choice(['true', 'false'])}")
    if rng.random() < 0.15:
        # all records of a run on one line: the string then ends without a newline
        s.append(" -new_line false")
    opts = [(" -totals " + " ".join(rng.sample(ELTS[:8], rng.randint(1, 3)))),
            (" -molalities " + " ".join(rng.sample(SPECIES, rng.randint(1, 3)))),
            (" -activities " + " ".join(rng.sample(SPECIES, rng.randint(1, 2)))),
            (" -saturation_indices " + " ".join(rng.sample(MINERALS[:8], rng.randint(1, 3)))),
            (" -equilibrium_phases " + " ".join(rng.sample(MINERALS[:5], rng.randint(1, 2)))),
            " -pH true", " -pe true", " -ionic_strength true", " -water true", " -charge_balance true",
            " -percent_error true", " -alkalinity true", " -temperature true", " -step true", " -time true",
            " -distance false", " -simulation false", " -state false", " -solution false",
            " -gases CO2(g)", " -user_punch false", " -reaction true"]
    for o in rng.sample(opts, rng.randint(0, 6)):
        s.append(o)
    return "\n".join(s) + "\n"


def selout_input(rng):
    """input with 0..4 SELECTED_OUTPUT blocks, optional USER_PUNCH, 1..3 simulations producing rows"""
    nblocks = rng.choice([0, 1, 1, 1, 2, 2, 3, 4])
    users = sorted(rng.sample([1, 2, 3, 5, 10, 22, 1000], nblocks))
    t = []
    t.append(solution(rng, 1))
    if rng.random() < 0.4:
        t.append(solution(rng, 2))
    for u in users:
        t.append(selected_output(rng, u))
        if rng.random() < 0.6:
            t.append(user_punch(rng, u))
    if users and rng.random() < 0.2:
        # a USER_PUNCH without SELECTED_OUTPUT of the same number
        t.append(user_punch(rng, rng.choice([4, 6])))
    if rng.random() < 0.15:
        t.append("PRINT\n -selected_output false\n")
    t.append("END\n")
    nsim = rng.randint(0, 2)
    for _ in range(nsim):
        kind = rng.random()
        if kind < 0.4:
            t.append("USE solution 1\nREACTION 1\n NaCl 1\n %s moles in %d steps\n" % (rng.choice(["0.1", "0.01", "1"]), rng.randint(1, 4)))
        elif kind < 0.7:
            t.append("USE solution 1\nEQUILIBRIUM_PHASES 1\n %s 0 %s\n" % (rng.choice(MINERALS[:6]), rng.choice(["10", "0", "1"])))
        else:
            t.append("MIX 1\n 1 0.5\n 1 0.5\n")
        if rng.random() < 0.15:
            t.append("PRINT\n -selected_output %s\n" % rng.choice(["true", "false"]))
        if users and rng.random() < 0.2:
            t.append(selected_output(rng, rng.choice(users)))
        t.append("END\n")
    return "".join(t), users


def long_punch(n, L):
    return (f"SELECTED_OUTPUT {n}\n -reset false\n -pH true\nUSER_PUNCH {n}\n -headings long tail\n"
            f' 1 a$ = ""\n 2 FOR i = 1 TO {L}\n 3 a$ = a$ + "y"\n 4 NEXT i\n 10 PUNCH a$, 1\n')


def stream_input(rng, allow_error=True, force_long=None, force_no_newline=False):
    """input exercising every output stream: output, log (KNOBS -logfile), warnings, errors, DUMP, selected output"""
    t = []
    users = []
    if rng.random() < 0.3:
        t.append("TITLE stream test\n")
    if rng.random() < 0.4:
        t.append("KNOBS\n -logfile true\n")
    t.append(solution(rng, 1))
    if rng.random() < 0.6:
        u = rng.choice([1, 2, 5])
        users.append(u)
        t.append(selected_output(rng, u))
        if rng.random() < 0.5:
            t.append(user_punch(rng, u))
    if force_long:
        u = rng.choice([3, 4])
        users.append(u)
        t.append(long_punch(u, force_long))
    if force_no_newline:
        # every record of the call on one text line: the sink text ends without a newline
        u = rng.choice([6, 7])
        users.append(u)
        t.append(f"SELECTED_OUTPUT {u}\n -reset false\n -pH true\n -new_line false\nUSER_PUNCH {u}\n -headings q\n 10 PUNCH 1.5\n")
    if rng.random() < 0.4:
        # warning: negative concentration / unknown option warnings
        t.append("SOLUTION 3\n pH 7 charge\n Na 1\n Cl 1.1\n -water 1\n")
    if rng.random() < 0.5:
        t.append("DUMP\n -solution 1\n" + (" -append %s\n" % rng.choice(["true", "false"]) if rng.random() < 0.3 else ""))
    t.append("END\n")
    r = rng.random()
    if r < 0.3:
        t.append("USE solution 1\nEQUILIBRIUM_PHASES 1\n Calcite 0 1\n Gypsum 0 0\nSAVE solution 2\nEND\n")
        if rng.random() < 0.5:
            t.append("DUMP\n -all\nEND\n")
    elif r < 0.5:
        t.append("USE solution 1\nREACTION 1\n HCl 1\n 0.001 0.002 0.003\nEND\n")
    if allow_error:
        e = rng.random()
        if e < 0.12:
            t.append("USE solution 77\nEND\n")                       # undefined solution -> ERROR
        elif e < 0.2:
            t.append("SOLUTION 4\n pH 7\n Xx 1\nEND\n")              # unknown element -> ERROR
        elif e < 0.26:
            t.append("EQUILIBRIUM_PHASES 1\n NoSuchPhase 0 1\nUSE solution 1\nEND\n")
        elif e < 0.3:
            t.append("SOLUTION 5\n -bogus_option 3\n pH 7\nEND\n")   # warning or error on unknown option
    return "".join(t), users


# ---------------------------------------------------------------------------------------------------------------
# multi-call histories with DIFFERENT inputs (C05/C09 round 2): definitions, switches and files persist between calls
POOL = [1, 2, 3, 5, 10]


def _react(rng, sols):
    k = rng.random()
    s = rng.choice(sols)
    if k < 0.4:
        return "USE solution %d\nREACTION 1\n NaCl 1\n %s moles in %d steps\n" % (s, rng.choice(["0.1", "0.01"]), rng.randint(1, 3))
    if k < 0.7:
        return "USE solution %d\nEQUILIBRIUM_PHASES 1\n %s 0 %s\n" % (s, rng.choice(MINERALS[:6]), rng.choice(["10", "0", "1"]))
    return "MIX 1\n %d 0.5\n %d 0.5\n" % (s, s)


def _recase(rng, name):
    """the same name in another letter case (PHREEQC matches phase, rate and solid-solution component names case-insensitively)"""
    r = rng.random()
    if r < 0.35:
        return name
    if r < 0.6:
        return name.lower()
    if r < 0.8:
        return name.upper()
    return name.swapcase()


def entity_call(rng, k, u):
    """one call: SELECTED_OUTPUT u with every entity-list option (-totals -molalities -activities -equilibrium_phases
    -saturation_indices -gases -kinetic_reactants -solid_solutions -calculate_values), names written in a letter case that
    may differ from the defining block / database, then simulations in which the entities are present or absent"""
    t = [solution(rng, k, elts=["Ca", "C(4)", "Na", "Cl", "Sr", "S(6)"])]
    so = [f"SELECTED_OUTPUT {u}"]
    if rng.random() < 0.6:
        so.append(" -reset false")
    if rng.random() < 0.3:
        so.append(" -high_precision true")
    opts = [" -equilibrium_phases " + " ".join(_recase(rng, x) for x in rng.sample(["Calcite", "Gypsum", "Celestite"], rng.randint(1, 2))),
            " -saturation_indices " + " ".join(_recase(rng, x) for x in rng.sample(["Calcite", "Gypsum", "CO2(g)", "Strontianite"], rng.randint(1, 3))),
            " -gases " + " ".join(_recase(rng, x) for x in rng.sample(["CO2(g)", "N2(g)", "O2(g)"], rng.randint(1, 2))),
            " -kinetic_reactants " + " ".join(_recase(rng, x) for x in rng.sample(["Myrate", "Other_rate"], rng.randint(1, 2))),
            " -solid_solutions " + " ".join(_recase(rng, x) for x in rng.sample(["Calcite", "Strontianite", "Nosuchcomp"], rng.randint(1, 3))),
            " -calculate_values " + " ".join(_recase(rng, x) for x in rng.sample(["Cv_one", "cv_two"], rng.randint(1, 2))),
            " -totals " + " ".join(rng.sample(["Ca", "Na", "Sr", "C(4)"], rng.randint(1, 2))),
            " -molalities " + " ".join(rng.sample(["Ca+2", "CO3-2", "ca+2", "NaCO3-"], rng.randint(1, 2))),
            " -activities " + " ".join(rng.sample(["H+", "Ca+2", "h+"], rng.randint(1, 2)))]
    for o in rng.sample(opts, rng.randint(3, len(opts))):
        so.append(o)
    t.append("\n".join(so) + "\n")
    t.append("RATES\n Myrate\n -start\n 10 SAVE 1e-7 * TIME\n -end\n Other_rate\n -start\n 10 SAVE 2e-7 * TIME\n -end\n")
    t.append("CALCULATE_VALUES\n Cv_one\n -start\n 10 SAVE 2 * TOT(\"Na\")\n -end\n cv_two\n -start\n 10 SAVE MU\n -end\n")
    if rng.random() < 0.3:
        t.append(user_punch(rng, u))
    t.append("END\n")
    sims = ["USE solution %d\nEQUILIBRIUM_PHASES 1\n Calcite 0 1\n Gypsum 0 %s\nEND\n" % (k, rng.choice(["0", "1"])),
            "USE solution %d\nSOLID_SOLUTIONS 1\n CaSrCO3\n  -comp Calcite 0.01\n  -comp Strontianite 0.001\nEND\n" % k,
            "USE solution %d\nGAS_PHASE 1\n -fixed_pressure\n -pressure 1\n CO2(g) 0.01\n N2(g) 0.9\nEND\n" % k,
            "USE solution %d\nKINETICS 1\n Myrate\n  -formula NaCl 1\n  -m0 1\n -steps 100 in 2 steps\nEND\n" % k,
            "USE solution %d\nREACTION 1\n NaCl 1\n 0.01\nEND\n" % k]
    for sm in rng.sample(sims, rng.randint(2, len(sims))):
        t.append(sm)
    return "".join(t)


def history(rng, ncalls=None, allow_error=True):
    """list of input texts for consecutive Run* calls on one instance. The calls differ: definitions of SELECTED_OUTPUT /
    USER_PUNCH are made once and then persist, are redefined in later calls or in later simulations of a call, PRINT
    -selected_output toggles, calls with several simulations, calls stopped by an error, DUMP (with -append) calls."""
    ncalls = ncalls or rng.randint(2, 5)
    calls, kinds = [], []
    defined, sols, nsol = [], [], 0
    for k in range(ncalls):
        t = []
        r = rng.random()
        if k == 0 or (not defined and r < 0.7):
            kind = "define"
        elif r < 0.30:
            kind = "plain"
        elif r < 0.45:
            kind = "redef"
        elif r < 0.55:
            kind = "userpunch"
        elif r < 0.65:
            kind = "print"
        elif r < 0.78:
            kind = "late-block"
        elif r < 0.86 and allow_error:
            kind = "error"
        elif r < 0.93:
            kind = "dump"
        else:
            kind = "define"
        if k > 0 and rng.random() < 0.12:
            kind = "entities"
        kinds.append(kind)
        if kind == "entities":
            nsol += 1
            sols.append(nsol)
            u = rng.choice(POOL)
            if u not in defined:
                defined.append(u)
            calls.append(entity_call(rng, nsol, u))
            continue
        if rng.random() < 0.15:
            t.append("TITLE call %d\n" % k)
        if rng.random() < 0.12:
            t.append("KNOBS\n -logfile %s\n" % rng.choice(["true", "false"]))
        nsol += 1
        sols.append(nsol)
        t.append(solution(rng, nsol))
        if kind == "define":
            for u in sorted(rng.sample(POOL, rng.choice([1, 2, 2, 3, 4]))):
                t.append(selected_output(rng, u))
                if u not in defined:
                    defined.append(u)
                if rng.random() < 0.5:
                    t.append(user_punch(rng, u))
        elif kind == "redef" and defined:
            for u in rng.sample(defined, rng.randint(1, min(2, len(defined)))):
                t.append(selected_output(rng, u))
                if rng.random() < 0.4:
                    t.append(user_punch(rng, u))
        elif kind == "userpunch" and defined:
            t.append(user_punch(rng, rng.choice(defined)))
        elif kind == "print":
            t.append("PRINT\n -selected_output %s\n" % rng.choice(["false", "false", "true"]))
        elif kind == "dump":
            t.append("DUMP\n -solution %d\n" % rng.choice(sols) + (" -append %s\n" % rng.choice(["true", "false"]) if rng.random() < 0.5 else ""))
            if rng.random() < 0.4:
                t.append("PRINT\n -dump %s\n" % rng.choice(["false", "false", "true"]))
        if kind != "dump" and rng.random() < 0.12:
            t.append("DUMP\n -solution %d\n" % rng.choice(sols) + (" -append %s\n" % rng.choice(["true", "false"]) if rng.random() < 0.4 else ""))
        t.append("END\n")
        if kind == "late-block":
            u = rng.choice(POOL)
            t.append(selected_output(rng, u))
            if u not in defined:
                defined.append(u)
            if rng.random() < 0.4:
                t.append(user_punch(rng, u))
            t.append(_react(rng, sols) + "END\n")
        elif kind == "error":
            t.append(rng.choice(["USE solution 777\nEND\n", "SOLUTION 900\n pH 7\n Xx 1\nEND\n",
                                 "EQUILIBRIUM_PHASES 1\n NoSuchPhase 0 1\nUSE solution %d\nEND\n" % sols[0]]))
        for _ in range(rng.choice([0, 0, 1, 1, 2])):
            if defined and rng.random() < 0.15:
                # USER_PUNCH (re)defined in a later simulation: the table of that number already holds rows of this call
                t.append(user_punch(rng, rng.choice(defined)))
            t.append(_react(rng, sols))
            if rng.random() < 0.1:
                t.append("PRINT\n -selected_output %s\n" % rng.choice(["true", "false"]))
            if rng.random() < 0.06:
                t.append("PRINT\n -dump %s\n" % rng.choice(["true", "false"]))
            t.append("END\n")
        calls.append("".join(t))
    return calls, kinds


def stream_input2(rng, **kw):
    """stream_input plus: a part of the input delivered through INCLUDE$ (file written into the run directory first), a
    warning-producing simulation in the middle of the call, several simulations. Returns (input, users, files)."""
    inp, users = stream_input(rng, **kw)
    files = {}
    sims = inp.split("END\n")
    extra = []
    if rng.random() < 0.5:
        name = rng.choice(["inc1.pqi", "part two.inc"])
        files[name] = "SOLUTION 8\n pH 6.5\n Na 2\n Cl 2\nEND\n" + (
            "USE solution 8\nREACTION 2\n NaCl 1\n 0.01\nEND\n" if rng.random() < 0.5 else "")
        extra.append("INCLUDE$ %s\n" % name)
    if rng.random() < 0.5:
        # warnings in the middle of the call: charge balance on pH that cannot be reached / unknown option
        extra.append("SOLUTION 9\n pH 7 charge\n Na 1\n Cl 1.2\n -water 1\nEND\n")
    if rng.random() < 0.3:
        extra.append("USE solution 1\nREACTION_TEMPERATURE 1\n 30 40\nEND\n")
    if extra and len(sims) > 1:
        k = rng.randint(1, len(sims) - 1)
        head = "END\n".join(sims[:k]) + "END\n"
        tail = "END\n".join(sims[k:])
        inp = head + "".join(extra) + tail
    return inp, users, files
