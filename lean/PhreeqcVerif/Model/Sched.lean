import PhreeqcVerif.Model.Registry
/-!
Model of threads using the instance registry (C06).  A thread program is a list of operations on the thread's *own*
instances, addressed by local handles (h = "the h-th instance this thread created"); a schedule is any interleaving
`List (thread × op)`: every critical section of the registry (`map_lock`) is one atomic step.  An operation on an instance
transforms that instance's state only — the hypothesis that the lock audit and the global-state audit
(Gen/LockAudit.lean, Gen/Globals.lean) discharge for the real code.
-/
namespace PhreeqcVerif.Sched
open PhreeqcVerif.Registry

inductive TOp (σ : Type) where
  | create
  | destroy (h : Nat)
  | call (h : Nat) (f : σ → σ)

structure Sys (σ : Type) where
  reg : Reg σ
  handles : Nat → List Nat

def Sys.init {σ} : Sys σ := ⟨Reg.init, fun _ => []⟩

def setH (hs : Nat → List Nat) (t : Nat) (v : List Nat) : Nat → List Nat :=
  fun t' => if t' = t then v else hs t'

def Sys.step {σ} (fresh0 : σ) (s : Sys σ) : Nat × TOp σ → Sys σ
  | (t, .create) => ⟨(s.reg.create (fun _ => fresh0)).1, setH s.handles t (s.handles t ++ [s.reg.next])⟩
  | (t, .destroy h) =>
    match (s.handles t)[h]? with
    | some id => ⟨(s.reg.destroy (id : Int)).1, s.handles⟩
    | none => s
  | (t, .call h f) =>
    match (s.handles t)[h]? with
    | some id => ⟨(s.reg.apply (id : Int) (fun x => (f x, ())) ()).1, s.handles⟩
    | none => s

def Sys.run {σ} (fresh0 : σ) (s : Sys σ) (sch : List (Nat × TOp σ)) : Sys σ := sch.foldl (Sys.step fresh0) s

def modAt {α} : List α → Nat → (α → α) → List α
  | [], _, _ => []
  | a :: as, 0, f => f a :: as
  | a :: as, i + 1, f => a :: modAt as i f

def aloneStep {σ} (fresh0 : σ) (l : List (Option σ)) : TOp σ → List (Option σ)
  | .create => l ++ [some fresh0]
  | .destroy h => modAt l h (fun _ => none)
  | .call h f => modAt l h (fun o => o.map f)

def aloneRun {σ} (fresh0 : σ) (ops : List (TOp σ)) : List (Option σ) := ops.foldl (aloneStep fresh0) []

/-- what thread `t` can observe of its own instances, in creation order -/
def Sys.obs {σ} (s : Sys σ) (t : Nat) : List (Option σ) := (s.handles t).map (fun (id : Nat) => s.reg.lookup (id : Int))

structure Sys.Inv {σ} (s : Sys σ) : Prop where
  reg : s.reg.Inv
  below : ∀ t, ∀ id ∈ s.handles t, id < s.reg.next
  nodup : ∀ t, (s.handles t).Nodup
  disj : ∀ t1 t2, t1 ≠ t2 → ∀ id ∈ s.handles t1, id ∉ s.handles t2

end PhreeqcVerif.Sched
