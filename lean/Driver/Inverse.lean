/-! `pmodel inverse`: line-protocol driver (stub — replaced by the owner of this model). -/
namespace Driver.Inverse

def run : IO Unit := IO.eprintln "pmodel inverse: not implemented"

end Driver.Inverse
