import PhreeqcVerif.Model.RK
import Mathlib.Tactic.Ring
import Mathlib.Tactic.Linarith
import Mathlib.Tactic.SplitIfs
import Mathlib.Algebra.Order.Field.Basic
/-! Helper lemmas for Properties/C12.lean: the step-size controller of `rk_kinetics` keeps its invariant, an attempted
step ends "accepted" only through the error gate, and the loop theorem by induction on the fuel. -/
namespace PhreeqcVerif.RKLemmas
open PhreeqcVerif PhreeqcVerif.RK

section ctrl
variable (f : TransFns Rat)

/-- what the controller theorems need to know about the constants and about `pow` -/
structure CtrlHyp (P : Params Rat) (pw : Rat → Rat → Rat) : Prop where
  one_eq : P.one = 1
  safety_pos : 0 < P.safety
  safety_le : P.safety ≤ 1
  grow_pos : 0 < P.growFactor
  thr_nonneg : 0 ≤ P.growThreshold
  pw_pos : ∀ x y, 0 < x → 0 < pw x y
  pw_le : ∀ x, 1 < x → pw x P.shrinkExp ≤ 1

/-- invariant of the step-size controller -/
def Inv (T : Rat) (ct : Ctrl Rat) : Prop :=
  0 < ct.h ∧ ct.hSum ≤ T ∧ (ct.hSum < T → ct.hSum + ct.h ≤ T) ∧ ct.accH.sum = ct.hSum

theorem applyReduction_inv {P : Params Rat} {pw} (H : CtrlHyp P pw) {T : Rat} {ct : Ctrl Rat} {ch : Chem Rat} :
    letI := ratOps f
    Inv T ct → Inv T (applyReduction P ct ch).1 := by
  intro inv
  obtain ⟨hpos, hle, hcap, hsum⟩ := inv
  unfold applyReduction
  split_ifs with hmr
  · have h1 : (1:Rat) < ch.mr := by rw [← H.one_eq]; exact hmr
    have hden : 0 < P.one + ch.mr := by rw [H.one_eq]; linarith
    have hnew_pos : 0 < P.safety * ct.h / (P.one + ch.mr) := div_pos (mul_pos H.safety_pos hpos) hden
    have hnew_le : P.safety * ct.h / (P.one + ch.mr) ≤ ct.h := by
      rw [div_le_iff₀ hden, H.one_eq]
      nlinarith [H.safety_le, H.safety_pos]
    refine ⟨hnew_pos, hle, ?_, hsum⟩
    intro hlt
    have := hcap hlt
    show ct.hSum + P.safety * ct.h / (P.one + ch.mr) ≤ T
    linarith
  · exact ⟨hpos, hle, hcap, hsum⟩

theorem onReject_inv {P : Params Rat} {pw} (H : CtrlHyp P pw) {T e : Rat} {ct : Ctrl Rat} (he : 1 < e) :
    letI := ratOps f
    Inv T ct → Inv T (onReject P pw e ct) := by
  intro inv
  obtain ⟨hpos, hle, hcap, hsum⟩ := inv
  have epos : 0 < e := by linarith
  unfold onReject
  have key : 0 < (if ct.stepOk == 0 then ct.h * P.safety / e else ct.h * P.safety * pw e P.shrinkExp) ∧
      (if ct.stepOk == 0 then ct.h * P.safety / e else ct.h * P.safety * pw e P.shrinkExp) ≤ ct.h := by
    split_ifs
    · refine ⟨div_pos (mul_pos hpos H.safety_pos) epos, ?_⟩
      rw [div_le_iff₀ epos]
      nlinarith [H.safety_le, H.safety_pos]
    · have p1 := H.pw_pos e P.shrinkExp epos
      have p2 := H.pw_le e he
      refine ⟨mul_pos (mul_pos hpos H.safety_pos) p1, ?_⟩
      have : ct.h * P.safety ≤ ct.h := by nlinarith [H.safety_le]
      have hs : 0 ≤ ct.h * P.safety := le_of_lt (mul_pos hpos H.safety_pos)
      nlinarith
  refine ⟨key.1, hle, ?_, hsum⟩
  intro hlt
  have := hcap hlt
  show ct.hSum + _ ≤ T
  linarith [key.2]

theorem onAccept_inv {P : Params Rat} {pw} (H : CtrlHyp P pw) {T e : Rat} {ct : Ctrl Rat} (hlt : ct.hSum < T) :
    letI := ratOps f
    Inv T ct → Inv T (onAccept P pw T e ct) := by
  intro inv
  obtain ⟨hpos, hle, hcap, hsum⟩ := inv
  have hc := hcap hlt
  unfold onAccept
  by_cases hlt2 : ct.hSum + ct.h < T
  · have h1pos : 0 < (if P.growThreshold < e then ct.h * P.safety * pw e P.growExp else ct.h * P.growFactor) := by
      split_ifs with ht
      · have epos : 0 < e := lt_of_le_of_lt H.thr_nonneg ht
        exact mul_pos (mul_pos hpos H.safety_pos) (H.pw_pos e P.growExp epos)
      · exact mul_pos hpos H.grow_pos
    simp only [hlt2, if_true]
    revert h1pos
    generalize (if P.growThreshold < e then ct.h * P.safety * pw e P.growExp else ct.h * P.growFactor) = h1
    intro h1pos
    refine ⟨?_, le_of_lt hlt2, ?_, ?_⟩
    · show 0 < (if T - (ct.hSum + ct.h) < h1 then T - (ct.hSum + ct.h) else h1)
      split_ifs <;> linarith
    · intro _
      show ct.hSum + ct.h + (if T - (ct.hSum + ct.h) < h1 then T - (ct.hSum + ct.h) else h1) ≤ T
      split_ifs with hc2
      · linarith
      · linarith [Rat.not_lt.mp hc2]
    · show (ct.h :: ct.accH).sum = ct.hSum + ct.h
      rw [List.sum_cons, hsum]; ring
  · simp only [hlt2, if_false]
    refine ⟨hpos, hc, ?_, ?_⟩
    · intro hcontra
      exact absurd hcontra hlt2
    · show (ct.h :: ct.accH).sum = ct.hSum + ct.h
      rw [List.sum_cons, hsum]; ring

/-- outcomes that end an attempted step (as opposed to the two gotos) -/
def IsStep : Outcome Rat → Prop
  | .rejected _ _ => True
  | .accepted _ _ => True
  | _ => False

theorem orReduce_step {one : Rat} {ch : Chem Rat} {k : Chem Rat → Outcome Rat} {o : Outcome Rat} :
    letI := ratOps f
    orReduce one ch k = o → IsStep o → k ch = o := by
  intro hyp hs
  unfold orReduce at hyp
  split_ifs at hyp
  · subst hyp; exact absurd hs (by simp [IsStep])
  · exact hyp

theorem orExit_step {cond : Bool} {ex : Chem Rat} {k : Unit → Outcome Rat} {o : Outcome Rat} :
    orExit cond ex k = o → IsStep o → k () = o := by
  intro hyp hs
  unfold orExit at hyp
  split_ifs at hyp
  · subst hyp; exact absurd hs (by simp [IsStep])
  · exact hyp

/-- what a finished attempt looks like: rejected with estimate > 1, or accepted with estimate ≤ 1 -/
def StepFacts (one : Rat) (o : Outcome Rat) : Prop :=
  (∃ e c, o = .rejected e c ∧ one < e) ∨ (∃ e c, o = .accepted e c ∧ e ≤ one)

theorem gate_step {one e : Rat} {chR : Chem Rat} {chA : Unit → Chem Rat} {o : Outcome Rat} :
    letI := ratOps f
    gate one e chR chA = o → StepFacts one o := by
  intro hyp
  unfold gate at hyp
  split_ifs at hyp with h
  · exact Or.inl ⟨e, chR, hyp.symm, h⟩
  · exact Or.inr ⟨e, chA (), hyp.symm, Rat.not_lt.mp h⟩

theorem k1Stage_step {P : Params Rat} {F : Rat → List Rat → Rat → List Rat} {t0 h hOld hSum : Rat} {ch : Chem Rat}
    {k : Chem Rat → Outcome Rat} {o : Outcome Rat} :
    letI := ratOps f
    k1Stage P F t0 h hOld hSum ch k = o → IsStep o → ∃ c1, k c1 = o := by
  intro hyp hs
  unfold k1Stage at hyp
  split_ifs at hyp
  · exact ⟨_, hyp⟩
  · exact ⟨_, orReduce_step f hyp hs⟩

theorem rk1Stage_step {P : Params Rat} {F : Rat → List Rat → Rat → List Rat} {t0 : Rat} {tol : List Rat} {h hSum : Rat} {n : Nat}
    {ch : Chem Rat} {k : Chem Rat → Outcome Rat} {o : Outcome Rat} :
    letI := ratOps f
    rk1Stage P F t0 tol h hSum n ch k = o → IsStep o → ∃ c1, k c1 = o := by
  intro hyp hs
  unfold rk1Stage at hyp
  split_ifs at hyp
  · exact ⟨_, orExit_step hyp hs⟩
  · exact ⟨_, hyp⟩

theorem pass_step (P : Params Rat) (F : Rat → List Rat → Rat → List Rat) (t0 : Rat) (tol : List Rat) (h hOld hSum : Rat)
    (ch : Chem Rat) (o : Outcome Rat) :
    letI := ratOps f
    pass P F t0 tol h hOld hSum ch = o → IsStep o → StepFacts P.one o := by
  intro hyp hs
  unfold pass at hyp
  obtain ⟨c1, hyp⟩ := k1Stage_step f hyp hs
  obtain ⟨c2, hyp⟩ := rk1Stage_step f hyp hs
  have h1 := orReduce_step f hyp hs
  have h2 := orExit_step h1 hs
  have h3 := orReduce_step f h2 hs
  have h4 := orExit_step h3 hs
  unfold stages456 at h4
  exact gate_step f (orReduce_step f (orReduce_step f h4 hs) hs)

theorem applyReduction_fields {P : Params Rat} {ct : Ctrl Rat} {ch : Chem Rat} :
    letI := ratOps f
    (applyReduction P ct ch).1.hSum = ct.hSum ∧ (applyReduction P ct ch).1.accErr = ct.accErr := by
  unfold applyReduction
  split_ifs <;> exact ⟨rfl, rfl⟩

/-- the loop: when it ends because `h_sum ≥ kin_time`, the accepted sub-steps sum to `kin_time` exactly and every accepted
sub-step passed the error test -/
theorem loop_done (P : Params Rat) (pw : Rat → Rat → Rat) (H : CtrlHyp P pw) (F : Rat → List Rat → Rat → List Rat)
    (t0 T : Rat) (tol : List Rat) (bsm : Nat) :
    letI := ratOps f
    ∀ (fuel : Nat) (check : Bool) (ct : Ctrl Rat) (ch : Chem Rat),
      Inv T ct → (∀ e ∈ ct.accErr, e ≤ P.one) → (check = false → ct.hSum < T) →
      (loop P pw F t0 T tol bsm fuel check ct ch).1 = Status.done →
      (loop P pw F t0 T tol bsm fuel check ct ch).2.1.accH.sum = T ∧
      ∀ e ∈ (loop P pw F t0 T tol bsm fuel check ct ch).2.1.accErr, e ≤ P.one := by
  intro fuel
  induction fuel with
  | zero =>
    intro check ct ch _ _ _ hd
    simp [loop] at hd
  | succ n ih =>
    intro check ct ch inv herr hchk hd
    let _ : NumOps Rat := ratOps f
    unfold loop at hd ⊢
    by_cases c1 : (check && !decide (ct.hSum < T)) = true
    · simp only [c1, if_true] at hd ⊢
      obtain ⟨_, hle, _, hsum⟩ := inv
      have hnlt : ¬ ct.hSum < T := by
        have := (Bool.and_eq_true _ _).mp c1
        simpa using this.2
      refine ⟨?_, herr⟩
      rw [hsum]
      exact le_antisymm hle (Rat.not_lt.mp hnlt)
    · have hlt : ct.hSum < T := by
        cases check with
        | false => exact hchk rfl
        | true =>
          by_contra hn
          apply c1
          simp [hn]
      simp only [c1] at hd ⊢
      by_cases c2 : (check && decide (bsm < ct.stepBad)) = true
      · simp [c2] at hd
      · simp only [c2] at hd ⊢
        have inv1 := applyReduction_inv f H (ch := ch) inv
        obtain ⟨hs1, he1⟩ := applyReduction_fields f (P := P) (ct := ct) (ch := ch)
        revert hd
        generalize hap : applyReduction P ct ch = ap at inv1 hs1 he1 ⊢
        obtain ⟨ct1, ch1⟩ := ap
        simp only at inv1 hs1 he1 ⊢
        have hlt1 : ct1.hSum < T := by rw [hs1]; exact hlt
        have herr1 : ∀ e ∈ ct1.accErr, e ≤ P.one := by rw [he1]; exact herr
        cases hp : pass P F t0 tol ct1.h ct1.hOld ct1.hSum ch1 with
        | reduce c' =>
          simp only
          exact ih false ct1 c' inv1 herr1 (fun _ => hlt1)
        | rejected e c' =>
          simp only
          have sf := pass_step f P F t0 tol ct1.h ct1.hOld ct1.hSum ch1 _ hp (by simp [IsStep])
          have he : 1 < e := by
            rcases sf with ⟨e', c'', heq, hgt⟩ | ⟨e', c'', heq, _⟩
            · injection heq with h1 _; subst h1; rw [← H.one_eq]; exact hgt
            · cases heq
          exact ih true _ _ (onReject_inv f H he inv1) herr1 (fun hc => by cases hc)
        | accepted e c' =>
          simp only
          have sf := pass_step f P F t0 tol ct1.h ct1.hOld ct1.hSum ch1 _ hp (by simp [IsStep])
          have he : e ≤ P.one := by
            rcases sf with ⟨e', c'', heq, _⟩ | ⟨e', c'', heq, hle⟩
            · cases heq
            · injection heq with h1 _; subst h1; exact hle
          refine ih true _ _ (onAccept_inv f H hlt1 inv1) ?_ (fun hc => by cases hc)
          intro x hx
          have : (onAccept P pw T e ct1).accErr = e :: ct1.accErr := by
            unfold onAccept
            by_cases hq : ct1.hSum + ct1.h < T <;> simp only [hq, if_true, if_false]
          rw [this] at hx
          rcases List.mem_cons.mp hx with rfl | hx
          · exact he
          · exact herr1 x hx
        | exit c' =>
          simp only
          intro hd
          cases hd

end ctrl

end PhreeqcVerif.RKLemmas
