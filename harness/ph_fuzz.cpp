// C08 driver: every case runs in a forked child, so that a signal, exit(), abort(), a sanitizer report or an escaping
// exception is a *result* recorded with the input and never a failure of the harness.
//
// stdin: cases, one block each (strings hex-encoded, "-" = empty):
//   case <id> <timeout_s>
//   db <hexpath>                     base database: loaded before the judged ops, re-loaded afterwards (LoadDatabase)
//   sw <switch> <0|1>                outstr outfile errstr errfile erron logstr logfile dumpstr dumpfile selstr selfile
//   fn <out|err|log|dump|sel> <hex>  user-set file names
//   pre <op...>                      calls of the history before the judged ops (must succeed: precondition of C08)
//   op run <hex> | op runfile <hexpath> | op acc <hex> | op loaddb <hexpath> | op loaddbstr <hex>   (judged ops)
//   probe <hex>                      input run after the reload on the used instance and on a new instance
//   go
// stdout per case:
//   CASE <id>
//   ...lines written by the child (L0, PRE, OP, EV, OPR, V, RL, PROBE, DONE)...
//   END <id> status=<exit|signal|timeout|walltimeout> code=<n> cpu=<s> stderr=<hex of the first bytes of the child's stderr>
// The time limit of a case is a budget of the child's own CPU time (utime+stime from /proc/<pid>/stat), so the verdict does not depend on how
// busy the machine is; `walltimeout` (a much larger wall-clock guard) only ever means "not judged".
// The child reports attempts to leave the process (exit, _exit, abort are interposed below) as `X <fn> <code>` lines.
#ifndef CPPUNIT
#define CPPUNIT 1
#endif
#include "IPhreeqc.hpp"
#include "Phreeqc.h"
#include "CSelectedOutput.hxx"
#include "hx.hpp"
#include <list>
#include <sstream>
// own access shim (Phreeqc.h / IPhreeqc.hpp declare `friend class TestIPhreeqc`)
class TestIPhreeqc {
public:
  static Phreeqc* engine(IPhreeqc* p) { return p->PhreeqcPtr; }
  static int simulation(IPhreeqc* p) { return p->PhreeqcPtr->simulation; }
  static int get_input_errors(IPhreeqc* p) { return p->PhreeqcPtr->get_input_errors(); }
  static size_t istream_depth(IPhreeqc* p) { return p->istream_list.size(); }
  static bool db_loaded(IPhreeqc* p) { return p->DatabaseLoaded; }
};
#include <fstream>
#include <typeinfo>
#include <cstring>
#include <cerrno>
#include <csignal>
#include <fcntl.h>
#include <poll.h>
#include <sys/syscall.h>
#include <sys/types.h>
#include <sys/wait.h>
#include <sys/time.h>
#include <sys/resource.h>
#include <unistd.h>

// ------------------------------------------------------------------ process-exit interposition
static int g_child_fd = -1;          // result pipe of the child (also marks "we are the child")
static void raw_write(const char* s) { if (g_child_fd >= 0) { ssize_t r = write(g_child_fd, s, strlen(s)); (void)r; } }
static void hard_exit(int code) { syscall(SYS_exit_group, code); for (;;) {} }
extern "C" void __sanitizer_print_stack_trace(void) __attribute__((weak));
extern "C" {
void exit(int code) noexcept {
  if (g_child_fd >= 0) { char b[64]; snprintf(b, sizeof b, "X exit %d\n", code); raw_write(b); if (__sanitizer_print_stack_trace) __sanitizer_print_stack_trace(); hard_exit(97); }
  hard_exit(code);
}
void _exit(int code) noexcept {
  if (g_child_fd >= 0) { char b[64]; snprintf(b, sizeof b, "X _exit %d\n", code); raw_write(b); hard_exit(97); }
  hard_exit(code);
}
void _Exit(int code) noexcept {
  if (g_child_fd >= 0) { char b[64]; snprintf(b, sizeof b, "X _Exit %d\n", code); raw_write(b); hard_exit(97); }
  hard_exit(code);
}
void abort(void) noexcept {
  if (g_child_fd >= 0) { raw_write("X abort 0\n"); if (__sanitizer_print_stack_trace) __sanitizer_print_stack_trace(); hard_exit(98); }
  hard_exit(134);
}
}

// ------------------------------------------------------------------ throw-site recording (for exceptions that escape the API)
#include <dlfcn.h>
#include <execinfo.h>
static void* g_throw_bt[40]; static int g_throw_n = 0; static char g_throw_type[256];
extern "C" void __cxa_throw(void* obj, void* tinfo, void (*dest)(void*)) {
  typedef void (*fn_t)(void*, void*, void (*)(void*));
  static fn_t real = (fn_t)dlsym(RTLD_NEXT, "__cxa_throw");
  const char* nm = ((std::type_info*)tinfo)->name();
  if (!strstr(nm, "Stop")) { g_throw_n = backtrace(g_throw_bt, 40); strncpy(g_throw_type, nm, 255); g_throw_type[255] = 0; }
  real(obj, tinfo, dest);
  for (;;) {}
}
static volatile unsigned long g_events = 0;      // PHRQ_io events routed by the child so far (progress indicator for hang diagnosis)
static void on_sample(int) {
  char m[64]; unsigned long v = g_events; int n = 0; char d[24];
  do { d[n++] = (char)('0' + v % 10); v /= 10; } while (v && n < 23);
  int k = 0; const char* h = "\n#SAMPLE ev="; while (*h) m[k++] = *h++;
  while (n) m[k++] = d[--n];
  m[k++] = '\n';
  ssize_t r_ = write(2, m, (size_t)k); (void)r_;
  void* bt[48]; int nb = backtrace(bt, 48);
  backtrace_symbols_fd(bt, nb, 2);
}
static std::string throw_site() {
  std::string s = g_throw_type[0] ? g_throw_type : "?";
  char b[32];
  for (int i = 0; i < g_throw_n; i++) { snprintf(b, sizeof b, ",%p", g_throw_bt[i]); s += b; }
  return s;
}

// ------------------------------------------------------------------ instance with phase-tagged error/warning events
class FuzzIPhreeqc : public IPhreeqc {
public:
  int flags() const { return (output_on?1:0)|(log_on?2:0)|(punch_on?4:0)|(error_on?8:0); }
  size_t nall = 0;           // all PHRQ_io events of the current call
  long first_stop = -1;      // index (in nall order) of the first error event with stop
  size_t after_stop = 0;     // events routed after it
  size_t nerrwarn = 0;       // error + warning events (ew keeps the first 20000)
  std::vector<std::string> ew;   // error / warning events with the engine's simulation number
  void tick() { if (first_stop >= 0) ++after_stop; ++nall; ++g_events; }
  void begin_call() { nall = 0; first_stop = -1; after_stop = 0; nerrwarn = 0; ew.clear(); }
  int sim() { return TestIPhreeqc::simulation(this); }
  virtual void output_msg(const char* s) { tick(); IPhreeqc::output_msg(s); }
  virtual void log_msg(const char* s) { tick(); IPhreeqc::log_msg(s); }
  virtual void punch_msg(const char* s) { tick(); IPhreeqc::punch_msg(s); }
  virtual void fpunchf(const char* n, const char* f, double d) { tick(); IPhreeqc::fpunchf(n, f, d); }
  virtual void fpunchf(const char* n, const char* f, char* d) { tick(); IPhreeqc::fpunchf(n, f, d); }
  virtual void fpunchf(const char* n, const char* f, int d) { tick(); IPhreeqc::fpunchf(n, f, d); }
  virtual void fpunchf_end_row(const char* f) { tick(); IPhreeqc::fpunchf_end_row(f); }
  virtual void error_msg(const char* s, bool stop = false) {
    tick(); ++nerrwarn;
    if (ew.size() < 20000) ew.push_back("EV err " + std::to_string(flags()) + " " + (stop ? "1 " : "0 ") + hx::hex(s) + " " + std::to_string(sim()));
    if (stop && first_stop < 0) first_stop = (long)nall - 1;
    IPhreeqc::error_msg(s, stop);
  }
  virtual void warning_msg(const char* s) {
    tick(); ++nerrwarn;
    if (ew.size() < 20000) ew.push_back("EV warn " + std::to_string(flags()) + " " + hx::hex(s) + " " + std::to_string(sim()));
    IPhreeqc::warning_msg(s);
  }
};

struct Case {
  std::string id; int timeout = 20; double wall = 0; std::string db;      // timeout: CPU seconds of the child; wall: outer wall-clock guard (0 = 30*timeout+120)
  std::vector<std::vector<std::string> > sw, fn, pre, ops;
  std::string probe;
  std::string cwd;           // working directory of the child (every case has its own: files of different cases never mix)
  std::string reload;        // database of the reload (default: db)
  bool reload_as_string = false;
};

static std::string mask_banner(std::string s) {
  // "-----\nEnd of Run after 0.012 Seconds.\n-----": the dash lines are as long as the text, which depends on the timing
  const std::string a = "End of Run after ";
  size_t p = 0;
  while ((p = s.find(a, p)) != std::string::npos) {
    size_t q = s.find(" Seconds", p);
    if (q == std::string::npos) break;
    s.replace(p + a.size(), q - p - a.size(), "X");
    size_t e = s.find('\n', p);
    if (e != std::string::npos) { size_t f = e + 1; while (f < s.size() && s[f] == '-') ++f; s.erase(e + 1, f - e - 1); }
    if (p > 0 && s[p - 1] == '\n') { size_t b = p - 1; while (b > 0 && s[b - 1] == '-') --b; s.erase(b, p - 1 - b); p = b + 1; }
    p += a.size();
  }
  return s;
}

static void apply_switch(IPhreeqc* p, const std::string& s, bool b) {
  if (s == "outfile") p->SetOutputFileOn(b); else if (s == "outstr") p->SetOutputStringOn(b);
  else if (s == "errfile") p->SetErrorFileOn(b); else if (s == "errstr") p->SetErrorStringOn(b); else if (s == "erron") p->SetErrorOn(b);
  else if (s == "logfile") p->SetLogFileOn(b); else if (s == "logstr") p->SetLogStringOn(b);
  else if (s == "dumpfile") p->SetDumpFileOn(b); else if (s == "dumpstr") p->SetDumpStringOn(b);
  else if (s == "selfile") p->SetSelectedOutputFileOn(b); else if (s == "selstr") p->SetSelectedOutputStringOn(b);
}
// `sw cur <n>` selects the user number the following selfile / selstr switches apply to
static void apply_sw(IPhreeqc* p, const std::vector<std::string>& w) {
  if (w[0] == "cur") p->SetCurrentSelectedOutputUserNumber(atoi(w[1].c_str()));
  else apply_switch(p, w[0], w[1] == "1");
}
static void apply_name(IPhreeqc* p, const std::string& s, const std::string& v) {
  if (s == "out") p->SetOutputFileName(v.c_str()); else if (s == "err") p->SetErrorFileName(v.c_str());
  else if (s == "log") p->SetLogFileName(v.c_str()); else if (s == "dump") p->SetDumpFileName(v.c_str());
  else if (s == "sel") p->SetSelectedOutputFileName(v.c_str());
}

static FILE* R = 0;   // result stream of the child

// one API call with every exception caught at the boundary; returns the API's return value (or -12345 on exception)
static int call_api(FuzzIPhreeqc* p, const std::vector<std::string>& w, std::string& exc) {
  exc = "-";
  const std::string& k = w[0];
  try {
    if (k == "run") return p->RunString(hx::unhex(w[1]).c_str());
    if (k == "runfile") return p->RunFile(hx::unhex(w[1]).c_str());
    if (k == "loaddb") return p->LoadDatabase(hx::unhex(w[1]).c_str());
    if (k == "loaddbstr") return p->LoadDatabaseString(hx::unhex(w[1]).c_str());
    if (k == "acc") {
      std::istringstream is(hx::unhex(w[1])); std::string l;
      while (std::getline(is, l)) p->AccumulateLine(l.c_str());
      return p->RunAccumulated();
    }
    exc = hx::hex("harness: unknown op " + k);
    return -12346;
  } catch (const std::exception& e) {
    exc = hx::hex(std::string(typeid(e).name()) + ": " + e.what());
  } catch (...) {
    exc = hx::hex("unknown exception type");
  }
  return -12345;
}

template <class F> static void line_view(const char* tag, size_t k, int count, F get) {
  fprintf(R, "V %zu %s %d", k, tag, count);
  for (int i = 0; i < count && i < 3000; i++) fprintf(R, " %s", hx::hex(get(i)).c_str());
  fprintf(R, "\n");
}

static void probe_views(IPhreeqc* p, int ret, std::vector<std::pair<std::string, std::string> >& v) {
  v.push_back(std::make_pair("ret", std::to_string(ret)));
  v.push_back(std::make_pair("out", mask_banner(p->GetOutputString())));
  v.push_back(std::make_pair("outlines", std::to_string(p->GetOutputStringLineCount())));
  v.push_back(std::make_pair("log", mask_banner(p->GetLogString())));
  v.push_back(std::make_pair("err", std::string(p->GetErrorString())));
  v.push_back(std::make_pair("errlines", std::to_string(p->GetErrorStringLineCount())));
  v.push_back(std::make_pair("warn", std::string(p->GetWarningString())));
  v.push_back(std::make_pair("warnlines", std::to_string(p->GetWarningStringLineCount())));
  v.push_back(std::make_pair("dump", std::string(p->GetDumpString())));
  { std::string s; std::list<std::string> l = p->ListComponents();
    for (std::list<std::string>::iterator it = l.begin(); it != l.end(); ++it) { s += *it; s += ","; }
    v.push_back(std::make_pair("components", s)); }
  v.push_back(std::make_pair("acc", p->GetAccumulatedLines()));
  int cnt = p->GetSelectedOutputCount();
  v.push_back(std::make_pair("selcount", std::to_string(cnt)));
  for (int i = 0; i < cnt && i < 20; i++) {
    int n = p->GetNthSelectedOutputUserNumber(i);
    p->SetCurrentSelectedOutputUserNumber(n);
    std::string t = "rows=" + std::to_string(p->GetSelectedOutputRowCount()) + " cols=" + std::to_string(p->GetSelectedOutputColumnCount()) + "|";
    int rows = p->GetSelectedOutputRowCount(), cols = p->GetSelectedOutputColumnCount();
    for (int r = 0; r < rows && r < 200; ++r) for (int c = 0; c < cols && c < 100; ++c) {
      VAR x; VarInit(&x); p->GetSelectedOutputValue(r, c, &x);
      switch (x.type) { case TT_EMPTY: t += "E"; break; case TT_ERROR: t += "X" + std::to_string((int)x.vresult); break;
        case TT_LONG: t += "L" + std::to_string(x.lVal); break; case TT_DOUBLE: t += "D" + hx::hexd(x.dVal); break;
        case TT_STRING: t += "S" + std::string(x.sVal ? x.sVal : ""); break; }
      t += ";"; VarClear(&x);
    }
    v.push_back(std::make_pair("sel" + std::to_string(n), t));
    v.push_back(std::make_pair("selstr" + std::to_string(n), std::string(p->GetSelectedOutputString())));
  }
  p->SetCurrentSelectedOutputUserNumber(1);
}

static void child_main(const Case& c) {
  FuzzIPhreeqc* A = new FuzzIPhreeqc();
  for (auto& s : c.sw) apply_sw(A, s);
  for (auto& s : c.fn) apply_name(A, s[0], hx::unhex(s[1]));
  std::string exc;
  A->begin_call();
  int r0 = call_api(A, std::vector<std::string>{"loaddb", c.db}, exc);
  fprintf(R, "L0 %d %s\n", r0, exc.c_str()); fflush(R);
  if (r0 != 0) { fprintf(R, "DONE\n"); fflush(R); return; }
  // LoadDatabase resets the per-user-number selected-output switches (UnLoadDatabase): set the case's switches again for the judged calls
  for (auto& s : c.sw) apply_sw(A, s);
  for (size_t k = 0; k < c.pre.size(); k++) {
    A->begin_call();
    int r = call_api(A, c.pre[k], exc);
    fprintf(R, "PRE %zu %d %s\n", k, r, exc.c_str()); fflush(R);
  }
  for (size_t k = 0; k < c.ops.size(); k++) {
    fprintf(R, "OP %zu %s\n", k, c.ops[k][0].c_str()); fflush(R);
    A->begin_call();
    int r = call_api(A, c.ops[k], exc);
    for (auto& e : A->ew) fprintf(R, "%s\n", e.c_str());
    fprintf(R, "OPR %zu ret=%d exc=%s nev=%zu firststop=%ld afterstop=%zu ierr=%d erron=%d errstron=%d trunc=%d throw=%s\n", k, r, exc.c_str(), A->nall,
            A->first_stop, A->after_stop, TestIPhreeqc::get_input_errors(A), (int)A->GetErrorOn(), (int)A->GetErrorStringOn(), (int)(A->nerrwarn > A->ew.size()),
            exc == "-" ? "-" : throw_site().c_str());
    fprintf(R, "ISTK %zu %zu %d\n", k, TestIPhreeqc::istream_depth(A), (int)TestIPhreeqc::db_loaded(A));
    fprintf(R, "V %zu errstr %s\n", k, hx::hex(A->GetErrorString()).c_str());
    line_view("errlines", k, A->GetErrorStringLineCount(), [&](int i) { return std::string(A->GetErrorStringLine(i)); });
    fprintf(R, "V %zu warnstr %s\n", k, hx::hex(A->GetWarningString()).c_str());
    line_view("warnlines", k, A->GetWarningStringLineCount(), [&](int i) { return std::string(A->GetWarningStringLine(i)); });
    fflush(R);
    // accessors that walk the engine's stored entities must survive whatever the call left behind
    fprintf(R, "ACC %zu begin\n", k); fflush(R);
    { std::string ex2 = "-"; size_t nc = 0;
      try { nc = A->GetComponentCount(); } catch (const std::exception& e) { ex2 = hx::hex(std::string(typeid(e).name()) + ": " + e.what()); } catch (...) { ex2 = hx::hex("unknown"); }
      fprintf(R, "ACC %zu comps=%zu exc=%s\n", k, nc, ex2.c_str()); fflush(R); }
  }
  // reload + probe on the used instance, same on a new instance that is given only the survivors (switches, file names)
  std::vector<std::string> lop;
  {
    std::string rdb = c.reload.empty() ? c.db : c.reload;
    if (c.reload_as_string) {
      std::ifstream f(hx::unhex(rdb).c_str(), std::ios::binary); std::ostringstream ss; ss << f.rdbuf();
      lop = std::vector<std::string>{"loaddbstr", hx::hex(ss.str())};
    } else lop = std::vector<std::string>{"loaddb", rdb};
  }
  A->begin_call();
  int rl = call_api(A, lop, exc);
  fprintf(R, "RL %d %s %s %zu\n", rl, exc.c_str(), hx::hex(A->GetErrorString()).c_str(), TestIPhreeqc::istream_depth(A)); fflush(R);
  FuzzIPhreeqc* B = new FuzzIPhreeqc();
  for (auto& s : c.sw) apply_sw(B, s);
  for (auto& s : c.fn) apply_name(B, s[0], hx::unhex(s[1]));
  B->begin_call();
  int rb = call_api(B, lop, exc);
  fprintf(R, "RLB %d %s\n", rb, exc.c_str()); fflush(R);
  if (rl == 0 && rb == 0 && !c.probe.empty()) {
    // file sinks off for the probe: both instances would write to the same user-set file names
    const char* offs[] = {"outfile", "errfile", "logfile", "dumpfile", "selfile"};
    const char* ons[] = {"outstr", "errstr", "erron", "logstr", "dumpstr", "selstr"};
    for (IPhreeqc* p : {(IPhreeqc*)A, (IPhreeqc*)B}) { for (auto o : offs) apply_switch(p, o, false); for (auto o : ons) apply_switch(p, o, true); }
    std::vector<std::pair<std::string, std::string> > va, vb;
    A->begin_call(); std::string ea, eb;
    int ra = call_api(A, std::vector<std::string>{"run", c.probe}, ea);
    probe_views(A, ra, va);
    B->begin_call();
    int rbb = call_api(B, std::vector<std::string>{"run", c.probe}, eb);
    probe_views(B, rbb, vb);
    bool same = (va.size() == vb.size()) && ea == eb;
    std::string diff;
    for (size_t i = 0; i < va.size() && i < vb.size(); i++)
      if (va[i] != vb[i]) { same = false; if (diff.empty()) {
        const std::string &x = va[i].second, &y = vb[i].second; size_t k = 0;
        while (k < x.size() && k < y.size() && x[k] == y[k]) ++k;
        size_t from = k > 300 ? k - 300 : 0;
        diff = va[i].first + " " + hx::hex(x.substr(from, 600)) + " " + hx::hex(y.substr(from, 600)); } }
    if (same) fprintf(R, "PROBE same ret=%d n=%zu\n", ra, va.size());
    else fprintf(R, "PROBE diff ret=%d/%d exc=%s/%s %s\n", ra, rbb, ea.c_str(), eb.c_str(), diff.empty() ? "count - -" : diff.c_str());
  } else {
    fprintf(R, "PROBE skipped\n");
  }
  // destruction of both instances is part of the history: a pointer left dangling by a failed call is freed again here
  fprintf(R, "DEL begin\n"); fflush(R);
  delete A; delete B;
  fprintf(R, "DEL ok\n");
  fprintf(R, "DONE\n"); fflush(R);
}

// CPU seconds (user + system) the process has consumed so far; -1 when /proc cannot be read
static double proc_cpu(pid_t pid) {
  char path[64]; snprintf(path, sizeof path, "/proc/%d/stat", (int)pid);
  FILE* f = fopen(path, "r"); if (!f) return -1;
  char line[1024]; size_t n = fread(line, 1, sizeof line - 1, f); fclose(f); line[n] = 0;
  char* p = strrchr(line, ')'); if (!p) return -1;
  unsigned long ut = 0, st = 0; char state;
  // fields after the command: state ppid pgrp session tty tpgid flags minflt cminflt majflt cmajflt utime stime
  if (sscanf(p + 1, " %c %*d %*d %*d %*d %*d %*u %*u %*u %*u %*u %lu %lu", &state, &ut, &st) != 3) return -1;
  return (double)(ut + st) / (double)sysconf(_SC_CLK_TCK);
}

static void run_case(const Case& c) {
  printf("CASE %s\n", c.id.c_str()); fflush(stdout);
  int pfd[2];
  if (pipe(pfd) != 0) { printf("END %s status=harness code=pipe stderr=-\n", c.id.c_str()); return; }
  char tmpl[] = "./fuzz_stderr_XXXXXX";
  int efd = mkstemp(tmpl);
  if (efd >= 0) unlink(tmpl);
  pid_t pid = fork();
  if (pid == 0) {
    close(pfd[0]);
    if (efd >= 0) { dup2(efd, 2); }
    int nul = open("/dev/null", O_WRONLY); if (nul >= 0) dup2(nul, 1);    // OutputAccumulatedLines etc. must not reach the protocol
    struct rlimit rl; rl.rlim_cur = rl.rlim_max = 0; setrlimit(RLIMIT_CORE, &rl);
    rl.rlim_cur = rl.rlim_max = (rlim_t)(c.timeout + 60); setrlimit(RLIMIT_CPU, &rl);      // backstop only: the parent stops the child at c.timeout CPU seconds
    rl.rlim_cur = rl.rlim_max = (rlim_t)512 << 20; setrlimit(RLIMIT_FSIZE, &rl);
    signal(SIGXFSZ, SIG_IGN);
    signal(SIGUSR1, on_sample);
    if (!c.cwd.empty()) { int rc_ = chdir(hx::unhex(c.cwd).c_str()); (void)rc_; }
    g_child_fd = pfd[1];
    R = fdopen(pfd[1], "w");
    child_main(c);
    fflush(R);
    g_child_fd = -1;
    hard_exit(0);
  }
  close(pfd[1]);
  // parent: copy the child's lines; enforce the timeout
  std::string buf; char tmp[65536];
  struct timeval t0; gettimeofday(&t0, 0);
  bool timed_out = false, wall_out = false, half_sampled = false;
  double cpu = 0;
  const double wall_limit = c.wall > 0 ? c.wall : 30.0 * c.timeout + 120.0;
  for (;;) {
    struct timeval t; gettimeofday(&t, 0);
    double el = (t.tv_sec - t0.tv_sec) + 1e-6 * (t.tv_usec - t0.tv_usec);
    double cp = proc_cpu(pid); if (cp >= 0) cpu = cp;
    if (!half_sampled && cpu > 0.5 * c.timeout) { half_sampled = true; kill(pid, SIGUSR1); }      // progress reference for the samples taken at the end
    if (cpu > c.timeout) {
      // two stack samples 0.4 s apart, then kill: a hang is reported with where the engine was
      timed_out = true; kill(pid, SIGUSR1); usleep(400000); kill(pid, SIGUSR1); usleep(200000); kill(pid, SIGKILL); break; }
    if (el > wall_limit) { wall_out = true; kill(pid, SIGKILL); break; }                          // never a verdict: reported as not judged
    struct pollfd pf; pf.fd = pfd[0]; pf.events = POLLIN; pf.revents = 0;
    int pr = poll(&pf, 1, 200);
    if (pr > 0) {
      ssize_t n = read(pfd[0], tmp, sizeof tmp);
      if (n > 0) { fwrite(tmp, 1, (size_t)n, stdout); if (tmp[n - 1] != '\n') buf = "x"; else buf.clear(); }
      else if (n == 0) break;
      else if (errno != EINTR) break;
    }
  }
  if (!buf.empty()) printf("\n");
  close(pfd[0]);
  int st = 0; waitpid(pid, &st, 0);
  std::string err;
  if (efd >= 0) { lseek(efd, 0, SEEK_SET); ssize_t n = read(efd, tmp, 12000); if (n > 0) err.assign(tmp, (size_t)n); close(efd); }
  const char* kind = timed_out ? "timeout" : wall_out ? "walltimeout" : (WIFSIGNALED(st) ? "signal" : "exit");
  int code = WIFSIGNALED(st) ? WTERMSIG(st) : WEXITSTATUS(st);
  printf("END %s status=%s code=%d stderr=%s cpu=%.2f\n", c.id.c_str(), kind, code, hx::hex(err).c_str(), cpu);
  fflush(stdout);
}

int main() {
  std::ios::sync_with_stdio(true);
  signal(SIGPIPE, SIG_IGN);
  std::string line; Case c; bool have = false;
  while (std::getline(std::cin, line)) {
    std::vector<std::string> w = hx::words(line);
    if (w.empty()) continue;
    if (w[0] == "case") { c = Case(); c.id = w[1]; c.timeout = w.size() > 2 ? atoi(w[2].c_str()) : 20; c.wall = w.size() > 3 ? atof(w[3].c_str()) : 0; have = true; }
    else if (!have) continue;
    else if (w[0] == "db") c.db = w[1];
    else if (w[0] == "sw") c.sw.push_back(std::vector<std::string>(w.begin() + 1, w.end()));
    else if (w[0] == "fn") c.fn.push_back(std::vector<std::string>(w.begin() + 1, w.end()));
    else if (w[0] == "pre") c.pre.push_back(std::vector<std::string>(w.begin() + 1, w.end()));
    else if (w[0] == "op") c.ops.push_back(std::vector<std::string>(w.begin() + 1, w.end()));
    else if (w[0] == "probe") c.probe = w[1];
    else if (w[0] == "cwd") c.cwd = w[1];
    else if (w[0] == "reload") { c.reload = w[1]; c.reload_as_string = w.size() > 2 && w[2] == "str"; }
    else if (w[0] == "go") { run_case(c); have = false; }
  }
  fflush(stdout);
  return 0;
}
