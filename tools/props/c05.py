"""C05 — selected-output table, string, lines and file describe the same data.

(1) proof obligations: Properties/C05.lean (table invariant, Get contract, padding) and
    Properties/Route.lean (routing of punch events to file / string / table);
(2) correspondence (a): random op sequences on the real CSelectedOutput vs the Lean model;
(3) correspondence (b): recorded punch-event traces of real runs replayed through the Lean routing model,
    compared with the object's own views; direct oracle: string rows == file rows == table rows rendered;
(4) bindings: C / C++ / Fortran accessors cell by cell (incl. out-of-range).
"""
import json

from vlib import shrink_list
import tracelib

KEYS = ["a", "b", "pH", "pe", "m_Ca+2", "la_H+", "si_Calcite", "", " ", "sim", "A", "é", "k(1)", "long heading with blanks",
        "x" * 70, "\t", "a;b", "|"]


def hexs(s):
    return s.encode().hex() if s else "-"


def hexd(rng):
    import struct
    kind = rng.random()
    if kind < 0.3:
        v = rng.choice([0.0, -0.0, 1.0, 7.0, 1e-30, 1e300, float("inf"), float("nan"), -1.5])
    elif kind < 0.6:
        v = rng.uniform(-14, 14)
    else:
        v = 10 ** rng.uniform(-30, 5) * rng.choice([1, -1])
    return struct.pack(">d", v).hex()


def gen_ops(rng, n):
    ops = []
    nkeys = rng.randint(1, len(KEYS))
    keys = rng.sample(KEYS, nkeys)
    for _ in range(n):
        r = rng.random()
        if r < 0.62:
            k = hexs(rng.choice(keys))
            t = rng.random()
            if t < 0.3:
                ops.append(f"push {k} D {hexd(rng)}")
            elif t < 0.5:
                ops.append(f"push {k} L {rng.choice([0, 1, -1, 2**31-1, -2**31, rng.randint(-10**6, 10**6)])}")
            elif t < 0.75:
                ops.append(f"push {k} S {hexs(rng.choice(['x', '', 'Calcite', 'a b', 'é', '1.5']))}")
            elif t < 0.9:
                ops.append(f"push {k} E")
            else:
                ops.append(f"push {k} X {rng.choice([-1, -2, -3, -4, -5])}")
        elif r < 0.8:
            ops.append("endrow")
        elif r < 0.83:
            ops.append("clear")
        elif r < 0.95:
            ops.append(f"get {rng.randint(-2, 8)} {rng.randint(-2, 8)}")
        else:
            ops.append("dump")
    ops.append("dump")
    for r in (-1, 0, 1, 2, 50):
        for c in (-1, 0, 1, 50):
            ops.append(f"get {r} {c}")
    return ops


def table_case(ctx, exe, ops):
    text = "\n".join(ops) + "\n"
    impl = ctx.run_harness(exe, text)
    if impl.returncode != 0:
        return ("crash", impl.returncode, impl.stderr[-500:])
    a = impl.stdout.splitlines()
    b = ctx.pmodel("selout", text)
    if a != b:
        for i, (x, y) in enumerate(zip(a, b)):
            if x != y:
                return ("diff", i, x, y)
        return ("diff-len", len(a), len(b))
    return None


def direct_oracle_table(lines):
    """property statement evaluated on the implementation's own output: every dumped row has exactly
    ColumnCount cells; out-of-range gets return error codes"""
    for ln in lines:
        if ln.startswith("T rows="):
            head, *rows = ln.split(" | ")
            nr = int(head.split()[1].split("=")[1])
            nc = int(head.split()[2].split("=")[1])
            rows = [r for r in rows if r != ""] if nr else []
            if nr and len(rows) != nr:
                return f"row count {len(rows)} != {nr}"
            for r in rows:
                if len(r.split(";")) != nc:
                    return f"row with {len(r.split(';'))} cells, ColumnCount {nc}"
            if nr and any(not c.startswith("S") for c in rows[0].split(";")):
                return "heading row holds a non-string"
    return None


def run(ctx):
    ok = ctx.prove(["PhreeqcVerif.Properties.C05", "PhreeqcVerif.Properties.Route"])
    ctx.build_lib()
    exe = ctx.build_harness("ph_selout")
    nseq = ctx.n(300, 20000)
    if not ok:
        nseq = max(nseq, 5000)
    hist = {"push": 0, "endrow": 0, "clear": 0, "get": 0, "dump": 0}
    distinct = set()
    corr_broken = None
    evals = 0
    # corpus first
    corpus = sorted((ctx_root(ctx) / "corpus" / "C05").glob("*.ops")) if (ctx_root(ctx) / "corpus" / "C05").exists() else []
    cases = [p.read_text().splitlines() for p in corpus]
    batch = [gen_ops(ctx.rng, ctx.rng.randint(3, 60)) for _ in range(nseq)]
    allseq = cases + batch
    CH = 250
    for c0 in range(0, len(allseq), CH):
        chunk = allseq[c0:c0 + CH]
        big = []
        for i, ops in enumerate(chunk):
            big += ["reset", f"mark {i}"] + ops
            for o in ops:
                hist[o.split()[0]] += 1
            distinct.add(hash(tuple(ops)))
        evals += len(chunk)
        if c0 == 0:
            ctx.sample({"table_ops": chunk[0][:12]})
        if table_case(ctx, exe, big) is None:
            continue
        # locate the failing sequence, shrink it
        for ops in chunk:
            res = table_case(ctx, exe, ops)
            if res is None:
                continue
            small = shrink_list(ops, lambda sub: table_case(ctx, exe, sub) is not None)
            res = table_case(ctx, exe, small)
            corr_broken = {"correspondence": "CSelectedOutput op sequence vs Model/SelOut", "ops": small, "result": res}
            impl = ctx.run_harness(exe, "\n".join(small) + "\n").stdout.splitlines()
            bad = direct_oracle_table(impl)
            if res[0] == "crash":
                ctx.violation("CSelectedOutput crashed on an op sequence", corr_broken)
            elif bad:
                ctx.violation("table violates the row/column contract: " + bad, corr_broken)
            else:
                ctx.violation("table content differs from the proved table semantics (value/padding/Get contract)",
                              corr_broken)
            break
        if ctx.violations:
            break
    ctx.cov["table_sequences"] = evals
    ctx.cov["table_op_histogram"] = hist
    # (b)+(c) traces of real runs through the routing model, bindings
    tr = tracelib.run_selout_traces(ctx)
    # (d) histories: several calls with DIFFERENT inputs on one instance (persistent definitions, switch and file state),
    #     judged by the Lean history model, the open/heading schedule model, the format-selection model and the binding model
    th = {"evaluations": 0, "distinct": 0}
    if not ctx.violations:
        th = tracelib.run_histories(ctx, tracelib.build_trace_harness(ctx), ctx.n(30, 500) if ok else 300)
    ctx.cov["evaluations"] = evals + tr["evaluations"] + th["evaluations"]
    ctx.cov["distinct_nontrivial"] = len(distinct) + tr["distinct"] + th["distinct"]
    ctx.cov["traces_validated_against_impl"] = tr["evaluations"] + th["evaluations"]
    ctx.cov["rule"] = ("(a) seeded random op sequences (push of 5 VAR kinds over up to 18 headings incl. empty/UTF-8/long, endrow, "
                       "clear, get incl. negative/out-of-range) on the real CSelectedOutput, full dump compared with the Lean "
                       "model after the sequence and at random points; distinct = distinct op lists. (b) real runs with "
                       "0..4 SELECTED_OUTPUT/USER_PUNCH blocks under random switch states; the recorded punch events are "
                       "replayed through Model/Route; distinct = distinct (input, switch) pairs with at least one data row. "
                       "(d) histories of 2..5 calls with different inputs (definitions made once and kept, redefined in later calls "
                       "or later simulations, USER_PUNCH redefinition, PRINT -selected_output, calls stopped by errors, custom file "
                       "names), switches flipped and the current number moved between calls: every call is judged by the Lean "
                       "history model (file content carried across calls, streams attached by punch_open), by the open/heading "
                       "schedule model driven from an independent reading of the input texts, by the format-selection model on "
                       "every punched value, and the C / C++ / Value2 / Fortran accessors are compared cell by cell (incl. "
                       "out-of-range, unknown numbers, buffers shorter than the value) with the binding model; distinct = "
                       "distinct (call input, switch state, position) triples.")
    if not ok and not ctx.violations:
        ctx.violation("proof obligation of C05 no longer checks and no failing input was found",
                      {"broken": ctx.proof_broken}, found_input=False)


def ctx_root(ctx):
    import vlib
    return vlib.ROOT


def replay(ctx, data):
    ctx.build_lib()
    if "ops" in data:
        exe = ctx.build_harness("ph_selout")
        ctx.prove(["PhreeqcVerif.Properties.C05"])
        res = table_case(ctx, exe, data["ops"])
        print("replay result:", res)
        if res is not None:
            ctx.violation("replayed op sequence still disagrees", data)
    elif data.get("kind") == "history":
        ctx.prove(["PhreeqcVerif.Properties.C05", "PhreeqcVerif.Properties.Route"])
        tracelib.replay_history(ctx, data)
    else:
        tracelib.replay(ctx, data)


MANIFEST = dict(
    technique='Lean 4 theorems on models of CSelectedOutput, of the punch routing within a call and across calls (history model), of the do_run open/heading schedule, of the print-format selection and of the C/C++/Fortran cell accessors; op-sequence, PHRQ_io event-trace and multi-call history correspondence with the real code',
    text="Theorems (Properties/C05.lean, Properties/Route.lean), all for every op sequence / event trace / history: table invariant, Get contract incl. out-of-range, late-column padding, last-write-wins; file=string within a call and in any history (history_sel_file_eq_string: whatever earlier calls left on disk), disabled sinks untouched (history_sel_file_untouched, call_msg_streams), views are functions of the last call (call_views_forget, run_views_last), line vectors = getline lines of this call's string (call_lines_spec); exactly one heading line per block and call for all definition sets with the repaired open loop (first_sim_heads_hoisted; witness and partial theorem for the loop as it was); format selection (fmtOf_high_precision, fmtOf_flag_matters, fmtOf_userStr); bindings (getOpt_error_typed, bindings_agree, rowCountF_spec, reported_type, padF_spec, fits_unchanged). Tie: (a) random op sequences on the real CSelectedOutput; (b) recorded PHRQ_io event traces of real calls replayed through the model; (c) histories of 2..5 calls with different inputs and switch changes judged by the history model, the schedule model driven from an independent reading of the input texts (defined numbers, -high_precision, re-read blocks, PRINT -selected_output) with the engine's own state compared to that reading, the format-selection model on every punched value, and the four accessors on every (row, col) incl. out-of-range / unknown numbers / buffers shorter than the value; direct oracle on the object's own views and the files on disk, incl. 'ColumnCount = number of headings of the heading line and the k-th value punched in a row is the k-th cell of the table row' for blocks using every entity-list option (-totals -molalities -activities -equilibrium_phases -saturation_indices -gases -kinetic_reactants -solid_solutions -calculate_values) with names in another letter case than the defining block and entities present in some rows, absent in others.",
    note='Trusted: Lean kernel, harness/ph_selout.cpp, harness/ph_trace.cpp + trace.hpp (event recording through virtual PHRQ_io methods, friend shims), tools/tracelib.py (incl. its reader of the input text and of the shape of the do_run loop). Rendering of a value with a given printf format is a parameter of the model (re-rendered by vsnprintf in the harness; numbers handed out by Value2/ValueF re-rendered in Python); the CHOICE of the format is modelled. Not modelled: -isotopes / -calculate_values / -kinetics columns formats are not generated; INVERSE_MODELING rows (known finding). Known findings: switch of current user number; SELECTED_OUTPUT redefinition within a call (attributed only when the input text re-reads the block in a later simulation); inverse rows.',
)
